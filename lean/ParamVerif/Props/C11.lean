/-
C11 — Parameter attributes inherit along the MRO; merged defaults are re-validated.

  "When a class redeclares a Parameter, every attribute it leaves unspecified
   takes, independently per attribute, the value held by the nearest class in its
   MRO that declares the same Parameter with that attribute (else the type's
   default); `instantiate=True` is inherited from any ancestor and `allow_None` is
   recomputed from the class's own declaration. Class creation, like
   `add_parameter`, fails exactly when the merged default violates the merged
   constraints or type (a merged default of None is re-checked only if the
   Parameter type changed along the way), so no class exists whose non-None
   Parameter default contradicts its own bounds or type."

Model: Store/Inherit.lean (`inherit` = `__param_inheritance`, `construct` = the
constructors, `step`/`run` = class creation and `add_parameter`; the MRO of every
class is data).  Declarative resolver: Store/InheritSpec.lean.  Helper lemmas:
Store/InheritLemmas.lean.  Only property theorems and their non-vacuity examples
live here.

Throughout, `own` is the declaration's own (unbound) Parameter, `supers` is what
the classes of `mro(cls)[1:]` hold under the same name (`none`: the class skips the
declaration), and `Outcome.reached` says the merge got to the re-validation
decision (it is `ok` or `invalid _`).

What these theorems do and do not say (reader's guide):
* "Specified" is read off the *constructed* Parameter (`own.slots s ≠ none`), because that is
  what `__param_inheritance` sees.  `declared_attribute_resolution` / `construct_shape` restate it
  for the declaration's keyword arguments for every slot a constructor stores verbatim;
  `allowNone_from_own_declaration` covers `allow_None`.  The other derived slots (`constant` under
  `readonly`, Tuple `length`, List `class_`, Selector `default`/`objects`/`names`) are specified by
  the constructor model only.
* `Sat` ("the merged default satisfies the merged constraints and type") is the model's own
  `validate`; `sat_number_in_bounds`, `sat_integer_type`, `sat_string_regex/type`,
  `sat_tuple_length`, `sat_list_bounds_items`, `sat_selector_membership` say what it means for
  well-typed configurations (regex matching is the oracle bit `rx`).
* The failure theorems are stated for `inherit` (`creation_fails_iff`, `creation_fails_iff_spec`)
  and, with the side conditions discharged, for any world satisfying the invariant — by
  `reachable_inv` every world a history of declarations and `add_parameter` calls can produce —
  in `merge_fails_iff_reachable` and `declare_fails_iff` (`step` level: creation raises at the
  least declaration the specification rejects).  Two scope conditions remain hypotheses:
  `≠ unsupported` (inputs outside the modelled fragment: non-list Selector objects, non-atomic
  Selector defaults, malformed bounds) and a boolean `check_on_set`.
* `Val.is` treats equal None/bool/int/str/class values and `()` as identical and everything else
  (floats, non-empty tuples, lists, dicts) by object identity.  That is CPython's behaviour for the
  values the harness uses (ints in [-5, 256], interned strings — asserted by the adapter), not for
  all Python values: `Number(default=1000)` at two levels would be two objects.
* Worlds change only by class declaration and `add_parameter`: assigning to a slot of an existing
  Parameter (`C.param.x.bounds = …`, not re-validated by param) or a class-level value assignment
  are not operations of this model, so the invariant is about creation histories.

Nothing of the statement is refuted on the current tree.  Two clauses used to be false and were
repaired in /repo; the model follows the repaired code: a failed `add_parameter` left the invalid
Parameter installed (9350ff5; `failed_add_parameter_changes_nothing`), and `names` of a
dict-declared Selector was not inherited with `objects` (4c8b6fe; `names_inherited_with_objects`).
-/
import ParamVerif.Store.InheritLemmas

namespace ParamVerif.Inherit

/-! ## "every attribute it leaves unspecified takes … the value held by the nearest class" -/

/-- **Per attribute, independently**: every slot of the merged Parameter that the type does
not compute (`Slot.computedFor`) and that is not `names` holds the class's own value if the
declaration specifies it, else the value held by the nearest class of the MRO that declares the
same Parameter with that slot, else the type's default — for every hierarchy (the MRO is
arbitrary data), every subset of specified slots, every type change. -/
theorem held_slot_eq_nearest (rx : String → String → Bool) (op name : Nat) (own : Param)
    (supers : List (Option Param))
    (hr : (inherit rx op name own supers).outcome.reached = true)
    {s : Slot} (hs : hasSlot own.ptype s = true) (hn : s ≠ .names)
    (hc : Slot.computedFor own.ptype s = false) :
    (inherit rx op name own supers).param.cfg s =
      (match own.slots s with
       | some v => some v.v
       | none =>
         match nearest supers s with
         | some v => some v.v
         | none =>
           match typeDefault own.ptype s with
           | .static v => some v.v
           | _ => none) := by
  rw [held_static_slot rx op name own supers hr hs hn hc]
  unfold specStatic chosen
  rw [ownSpecified_of_ne_names own hn]
  cases own.slots s with
  | some v => rfl
  | none =>
    cases nearest supers s with
    | some v => rfl
    | none =>
      cases h : typeDefault own.ptype s with
      | static v => rfl
      | computed => rfl
      | missing =>
        exfalso
        revert h
        cases s <;> cases own.ptype <;> simp [typeDefault] <;> exact absurd rfl hn

/-- …and the computed slots too (Tuple `length` from the merged default; Selector
`check_on_set` from the merged objects; Selector `objects`, which adopt the default when
membership is not checked): every slot but `names` equals the declarative resolver
`expected` — the function the oracle evaluates on the implementation's observations. -/
theorem held_eq_expected (rx : String → String → Bool) (op name : Nat) (own : Param)
    (supers : List (Option Param))
    (hr : (inherit rx op name own supers).outcome.reached = true)
    (hcos : own.ptype = .selector → ∃ b, specCheckOnSet own supers = some (.atom (.bool b)))
    {s : Slot} (hs : hasSlot own.ptype s = true) (hn : s ≠ .names) :
    (inherit rx op name own supers).param.cfg s = expected own supers s :=
  held_eq_expected_all rx op name own supers hr hcos hs hn

/-- The same, read off the *declaration's keyword arguments* rather than off the constructed
Parameter: for every slot the constructor stores verbatim (`derivedSlot` lists the exceptions:
`allow_None`, `constant`, Tuple `length`, List `item_type`/`class_`, Selector `default`/`objects`/`names`),
an argument that is given is held, and one that is left out is taken from the nearest class of
the MRO holding the slot, else from the type's default.  (`construct_shape` in the lemma file says
exactly which slots a constructor stores verbatim.) -/
theorem declared_attribute_resolution (rx : String → String → Bool) (op op' name : Nat) (d : Decl) (own : Param)
    (supers : List (Option Param))
    (hc : construct rx op' name d = .ok own)
    (hr : (inherit rx op name own supers).outcome.reached = true)
    {s : Slot} (hs : hasSlot d.ptype s = true) (hder : derivedSlot d.ptype s = false)
    (hcomp : Slot.computedFor d.ptype s = false) :
    (inherit rx op name own supers).param.cfg s =
      (match d.args s with
       | some v => some v.v
       | none =>
         match nearest supers s with
         | some v => some v.v
         | none =>
           match typeDefault d.ptype s with
           | .static v => some v.v
           | _ => none) := by
  obtain ⟨hpt, hsl⟩ := construct_shape rx op' name d own hc
  have hn : s ≠ .names := by
    intro e; subst e
    have := hasSlot_names hs
    rw [this] at hder; cases hder
  rw [held_slot_eq_nearest rx op name own supers hr (by rw [hpt]; exact hs) hn (by rw [hpt]; exact hcomp),
    hsl s hs hder, hpt]

/-- `nearest` is the first class of the MRO (after the class itself) that declares the
Parameter with the slot: classes that skip the declaration, or whose Parameter type lacks the
slot, are passed over. -/
theorem nearest_skips (sp : Option Param) (rest : List (Option Param)) (s : Slot)
    (h : slotAt s sp = none) : nearest (sp :: rest) s = nearest rest s := by
  simp only [nearest, List.filterMap_cons, h]

theorem nearest_first (sp : Option Param) (rest : List (Option Param)) (s : Slot) (v : Val)
    (h : slotAt s sp = some v) : nearest (sp :: rest) s = some v := by
  simp [nearest, h]

/-! ## "`instantiate=True` is inherited from any ancestor" -/

theorem instantiate_inherited_from_any_ancestor (rx : String → String → Bool) (op name : Nat)
    (own : Param) (supers : List (Option Param)) :
    (inherit rx op name own supers).param.instantiate = true ↔
      own.instantiate = true ∨ ∃ h, some h ∈ supers ∧ h.instantiate = true := by
  have : (inherit rx op name own supers).param.instantiate = (own.instantiate || anyInstantiate supers) := by
    unfold inherit
    simp only []
    split
    · rfl
    · split
      · rfl
      · split <;> rfl
  rw [this]
  simp only [Bool.or_eq_true, anyInstantiate, List.any_eq_true]
  constructor
  · rintro (h | ⟨sp, hm, hi⟩)
    · exact Or.inl h
    · cases sp with
      | none => simp at hi
      | some p => exact Or.inr ⟨p, hm, hi⟩
  · rintro (h | ⟨p, hm, hi⟩)
    · exact Or.inl h
    · exact Or.inr ⟨some p, hm, hi⟩

/-! ## "`allow_None` is recomputed from the class's own declaration" -/

/-- what the constructors make of `allow_None`: for a Selector the argument (else None); for every
other type True when the default the constructor sees (the argument, else the type's default) is
None, else the argument, else False -/
def declAllowNone (d : Decl) : PyV :=
  if d.ptype = .selector then
    (match d.args .allowNone with | some v => v.v | none => .atom .pyNone)
  else if seesNone d.ptype (d.args .default) then .atom (.bool true)
  else (match d.args .allowNone with | some v => v.v | none => .atom (.bool false))

theorem construct_allowNone (rx : String → String → Bool) (op name : Nat) (d : Decl) (own : Param)
    (h : construct rx op name d = .ok own) : own.cfg .allowNone = some (declAllowNone d) := by
  unfold construct at h
  split at h
  · rename_i hpt
    cases h
    simp only [Param.cfg, declAllowNone, hpt, reduceCtorEq, if_false]
    exact baseInit_allowNone .parameter _ _ _ (by decide)
  · rename_i hpt
    obtain ⟨rfl, _⟩ := checked_ok h
    simp only [Param.cfg, declAllowNone, hpt, reduceCtorEq, if_false, Slots.set]
    exact baseInit_allowNone .number _ _ _ (by decide)
  · rename_i hpt
    obtain ⟨rfl, _⟩ := checked_ok h
    simp only [Param.cfg, declAllowNone, hpt, reduceCtorEq, if_false, Slots.set]
    exact baseInit_allowNone .integer _ _ _ (by decide)
  · rename_i hpt
    obtain ⟨rfl, _⟩ := checked_ok h
    simp only [Param.cfg, declAllowNone, hpt, reduceCtorEq, if_false, Slots.set]
    exact baseInit_allowNone .string _ _ _ (by decide)
  · rename_i hpt
    cases hc : tupleNoLength d.args with
    | true => simp [hc] at h
    | false =>
      simp only [hc, Bool.false_eq_true, if_false] at h
      cases hl : tupleLength d.args with
      | error e => simp [hl] at h
      | ok len =>
        simp only [hl] at h
        obtain ⟨rfl, _⟩ := checked_ok h
        simp only [Param.cfg, declAllowNone, hpt, reduceCtorEq, if_false, Slots.set]
        exact baseInit_allowNone .tuple _ _ _ (by decide)
  · rename_i hpt
    obtain ⟨rfl, _⟩ := checked_ok h
    simp only [Param.cfg, declAllowNone, hpt, reduceCtorEq, if_false, Slots.set]
    exact baseInit_allowNone .list _ _ _ (by decide)
  · rename_i hpt
    -- Selector: `allow_None` is set after `super().__init__`, whatever the default
    have hraw : ∀ ad, ((selectorRaw op name d.args d.instantiate ad).slots .allowNone).map (·.v) =
        some (match d.args .allowNone with | some v => v.v | none => .atom .pyNone) := by
      intro ad
      simp only [selectorRaw, Slots.set, if_true]
      cases d.args .allowNone <;> simp [staticDefaultV, typeDefault, noneV, atomV]
    unfold constructSelector at h
    cases had : selectorAutodefault d.args with
    | error e => simp [had] at h
    | ok ad =>
      simp only [had] at h
      cases hv : unboundView .selector op name (selectorRaw op name d.args d.instantiate ad).slots with
      | error e => simp [hv] at h
      | ok view =>
        simp only [hv] at h
        cases hdv : view .default with
        | none => simp [hdv] at h
        | some dv =>
          cases hcv : view .checkOnSet with
          | none => simp [hdv, hcv] at h
          | some cos =>
            simp only [hdv, hcv] at h
            cases hval : (if dv.v.isNone = true then (Except.ok () : Except ErrKind Unit)
                else validateSelector (cfgOf view) dv.v) with
            | error e => simp [hval] at h
            | ok u =>
              simp only [hval] at h
              simp only [declAllowNone, hpt, if_true]
              split at h
              · cases he : ensureInObjects (selectorRaw op name d.args d.instantiate ad).slots dv.v with
                | error e => simp [he] at h
                | ok s' =>
                  simp only [he] at h
                  cases h
                  have := ensureInObjects_cfg he .allowNone
                  simp only [reduceCtorEq, if_false] at this
                  show cfgOf s' .allowNone = _
                  rw [this]
                  exact hraw ad
              · cases h
                exact hraw ad

/-- The merged `allow_None` is the one of the class's own declaration — never an ancestor's:
a constructor always sets it, so the search stops at the class itself. -/
theorem allowNone_from_own_declaration (rx : String → String → Bool) (op name op' : Nat) (d : Decl)
    (own : Param) (supers : List (Option Param))
    (hown : construct rx op' name d = .ok own)
    (hr : (inherit rx op name own supers).outcome.reached = true) :
    (inherit rx op name own supers).param.cfg .allowNone = some (declAllowNone d) := by
  have hc := construct_allowNone rx op' name d own hown
  rw [held_static_slot rx op name own supers hr rfl (by decide) (by cases own.ptype <;> rfl)]
  unfold specStatic chosen
  rw [ownSpecified_of_ne_names own (by decide)]
  simp only [Param.cfg] at hc
  cases h : own.slots .allowNone with
  | none => simp [h] at hc
  | some v => simpa [h] using hc

/-! ## "a merged default … is re-checked …" -/

/-- **When the merged default is re-validated**: exactly when the Parameter type changed along
the MRO (some class declares it with a type that is not a subclass of the new one), or some
validated slot offers two non-identical values along the MRO and the merged default is not None. -/
theorem revalidates_iff (rx : String → String → Bool) (op name : Nat) (own : Param)
    (supers : List (Option Param))
    (hr : (inherit rx op name own supers).outcome.reached = true) :
    (inherit rx op name own supers).revalidated = true ↔
      (∃ h, some h ∈ supers ∧ h.ptype.sub own.ptype = false) ∨
      ((∃ s o v, hasSlot own.ptype s = true ∧ nonValidated s = false ∧
          firstSome (offers own.slots supers s) = some o ∧ some v ∈ offers own.slots supers s ∧ v.is o = false) ∧
        (inherit rx op name own supers).param.cfg .default ≠ some (.atom .pyNone)) := by
  rw [revalidated_eq rx op name own supers hr]
  obtain ⟨_, d, _, _, hdef⟩ := inherit_default rx op name own supers hr
  rw [hdef]
  simp only [Bool.or_eq_true, Bool.and_eq_true, Bool.not_eq_true']
  have h1 : typeChange own.ptype supers = true ↔ ∃ h, some h ∈ supers ∧ h.ptype.sub own.ptype = false := by
    simp only [typeChange, List.any_eq_true]
    constructor
    · rintro ⟨sp, hm, hx⟩
      cases sp with
      | none => simp at hx
      | some h => exact ⟨h, hm, by simpa using hx⟩
    · rintro ⟨h, hm, hx⟩
      exact ⟨some h, hm, by simpa using hx⟩
  have h2 : anyOverridden own.slots supers (slotsOf own.ptype) = true ↔
      ∃ s o v, hasSlot own.ptype s = true ∧ nonValidated s = false ∧
        firstSome (offers own.slots supers s) = some o ∧ some v ∈ offers own.slots supers s ∧ v.is o = false := by
    simp only [anyOverridden, List.any_eq_true, Bool.and_eq_true, Bool.not_eq_true', mem_slotsOf, distinct2_true_iff]
    constructor
    · rintro ⟨s, hs, hv, o, v, a, b, c⟩; exact ⟨s, o, v, hs, hv, a, b, c⟩
    · rintro ⟨s, o, v, hs, hv, a, b, c⟩; exact ⟨s, hs, hv, o, v, a, b, c⟩
  have h3 : d.v.isNone = false ↔ some d.v ≠ some (.atom .pyNone) := by
    cases hd : d.v with
    | atom a => cases a <;> simp [PyV.isNone]
    | _ => simp [PyV.isNone]
  rw [h1, h2, h3]

/-! ## "Class creation … fails exactly when the merged default violates the merged constraints or type" -/

/-- **Creation fails iff** (conditioned, as the scope note says, on the declaration's own
constructor having succeeded, and on the classes above being as the invariant leaves them):
a computed slot cannot be computed (`len(None)` for a Tuple length), or the merged default
violates the merged constraints or type *and* it is not None or the type changed along the way.
A None default under an unchanged type is never re-checked. -/
theorem creation_fails_iff (rx : String → String → Bool) (op name : Nat) (own : Param)
    (supers : List (Option Param))
    (hown : OwnValid rx own) (hsup : ∀ h, some h ∈ supers → Good rx h)
    (hsupp : (inherit rx op name own supers).outcome ≠ .unsupported) :
    (inherit rx op name own supers).outcome ≠ .ok ↔
      ((inherit rx op name own supers).outcome = .callableError ∨
       ((typeChange own.ptype supers = true ∨
           (inherit rx op name own supers).param.cfg .default ≠ some (.atom .pyNone)) ∧
         Sat rx own.ptype (inherit rx op name own supers).param.cfg = false)) := by
  have hkey := inherit_not_keyError rx op name own supers
  constructor
  · intro hne
    cases ho : (inherit rx op name own supers).outcome with
    | ok => exact absurd ho hne
    | keyError => exact absurd ho hkey
    | unsupported => exact absurd ho hsupp
    | callableError => exact Or.inl rfl
    | invalid e =>
      right
      have hr : (inherit rx op name own supers).outcome.reached = true := by rw [ho]; rfl
      have hiff := outcome_ok_iff rx op name own supers hr
      have hnot : ¬ ((inherit rx op name own supers).revalidated = false ∨
          Sat rx own.ptype (inherit rx op name own supers).param.cfg = true) := by
        intro h; have := hiff.2 h; rw [ho] at this; cases this
      simp only [not_or, Bool.not_eq_false, Bool.not_eq_true] at hnot
      refine ⟨?_, hnot.2⟩
      have := (revalidates_iff rx op name own supers hr).1 hnot.1
      rcases this with ⟨h, hm, hs⟩ | ⟨_, hd⟩
      · left
        simp only [typeChange, List.any_eq_true]
        exact ⟨some h, hm, by simpa using hs⟩
      · exact Or.inr hd
  · rintro (hc | ⟨hcond, hsat⟩) hok
    · rw [hok] at hc; cases hc
    · have hr : (inherit rx op name own supers).outcome.reached = true := by rw [hok]; rfl
      have hgood := inherit_ok_good rx op name own supers hown hsup hok
      obtain ⟨_, d, _, _, hdef⟩ := inherit_default rx op name own supers hr
      have hdok := hgood.2
      unfold defaultOk at hdok
      rw [hdef] at hdok
      simp only [inherit_ptype, hsat, Bool.or_false] at hdok
      -- the default is None, so the type must have changed; then it was re-validated, and passed
      rcases hcond with htc | hd
      · have hrev : (inherit rx op name own supers).revalidated = true := by
          rw [revalidated_eq rx op name own supers hr, htc]; rfl
        have := (outcome_ok_iff rx op name own supers hr).1 hok
        rcases this with h | h
        · rw [hrev] at h; cases h
        · rw [hsat] at h; cases h
      · apply hd
        rw [hdef]
        cases hv : d.v with
        | atom a => cases a <;> simp_all [PyV.isNone]
        | _ => simp_all [PyV.isNone]

/-- **The oracle's criterion is the model's behaviour**: under the standing conditions (own
constructor succeeded, the classes above are valid, the case is inside the modelled fragment),
creation fails exactly when `shouldFail` of the declarative specification says so. -/
theorem creation_fails_iff_spec (rx : String → String → Bool) (op name : Nat) (own : Param)
    (supers : List (Option Param))
    (hown : OwnValid rx own) (hsup : ∀ h, some h ∈ supers → Good rx h)
    (hsupp : (inherit rx op name own supers).outcome ≠ .unsupported)
    (hcos : own.ptype = .selector → ∃ b, specCheckOnSet own supers = some (.atom (.bool b))) :
    (inherit rx op name own supers).outcome ≠ .ok ↔ shouldFail rx own supers = true := by
  have hkey := inherit_not_keyError rx op name own supers
  by_cases hce : (inherit rx op name own supers).outcome = .callableError
  · have := callableError_not_computable rx op name own supers hce
    simp [shouldFail, this, hce]
  · have hr : (inherit rx op name own supers).outcome.reached = true := by
      cases ho : (inherit rx op name own supers).outcome with
      | ok => rfl
      | invalid e => rfl
      | keyError => exact absurd ho hkey
      | callableError => exact absurd ho hce
      | unsupported => exact absurd ho hsupp
    have hcomp := computable_of_reached rx op name own supers hr hcos
    obtain ⟨_, d, _, _, hdef⟩ := inherit_default rx op name own supers hr
    have hheld : ∀ s, hasSlot own.ptype s = true → s ≠ .names →
        (inherit rx op name own supers).param.cfg s = expectedCfg own supers s := by
      intro s hs hn
      rw [held_eq_expected rx op name own supers hr hcos hs hn]
      simp [expectedCfg, hs]
    have hsat : Sat rx own.ptype (inherit rx op name own supers).param.cfg = Sat rx own.ptype (expectedCfg own supers) := by
      apply Sat_congr
      · exact hheld .default rfl (by decide)
      · intro s hs
        exact hheld s (relevant_hasSlot hs) (by intro h; subst h; revert hs; cases own.ptype <;> simp [relevant])
    have hsd : specDefault own supers = d.v := by
      have := hheld .default rfl (by decide)
      rw [hdef] at this
      simp only [expectedCfg, hasSlot, if_true] at this
      have he : expected own supers .default = specStatic own supers .default := by
        unfold expected; cases own.ptype <;> rfl
      rw [he] at this
      unfold specDefault
      rw [← this]; rfl
    rw [creation_fails_iff rx op name own supers hown hsup hsupp]
    simp only [hce, false_or, shouldFail, hcomp, Bool.not_true, Bool.false_or, Bool.and_eq_true, Bool.or_eq_true,
      Bool.not_eq_true', hsat, hsd, hdef, specTypeChanged]
    have h3 : some d.v ≠ some (.atom .pyNone) ↔ d.v.isNone = false := by
      cases hd : d.v with
      | atom a => cases a <;> simp [PyV.isNone]
      | _ => simp [PyV.isNone]
    rw [h3]

/-- **Creation fails iff, for reachable worlds**: in a world satisfying the invariant — by
`reachable_inv` the world left by *any* history — merging a
declaration whose constructor succeeded fails exactly when the declarative specification says so.
The side conditions of `creation_fails_iff_spec` are discharged: `OwnValid` by
`construct_ownValid`, valid ancestors by the invariant of `run` (and the KeyError branch is never
taken: `inherit_not_keyError`).
What remains is the scope of the model (`≠ unsupported`, a boolean `check_on_set`). -/
theorem reachable_inv (rx : String → String → Bool) (ops : List Op) :
    (run rx ops 0 World.empty []).1.Inv rx :=
  run_preserves_inv rx (construct_ownValid rx) ops 0 World.empty [] (by intro c n p hp; cases hp)

theorem merge_fails_iff_reachable (rx : String → String → Bool) (w : World) (hinv : w.Inv rx)
    (op op' name : Nat) (d : Decl) (own : Param) (tail : List Nat)
    (hc : construct rx op' name d = .ok own)
    (hsupp : (inherit rx op name own (w.supers tail name)).outcome ≠ .unsupported)
    (hcos : own.ptype = .selector → ∃ b, specCheckOnSet own (w.supers tail name) = some (.atom (.bool b))) :
    (inherit rx op name own (w.supers tail name)).outcome ≠ .ok ↔ shouldFail rx own (w.supers tail name) = true := by
  exact creation_fails_iff_spec rx op name own _ (construct_ownValid rx op' name d own hc)
    (fun h hm => supers_good hinv tail name hm) hsupp hcos

/-- the declaration of a new class `cls` below existing classes is well-formed: not skipped by `step` -/
def declareWF (w : World) (cls : Nat) (tail : List Nat) : Prop :=
  w.mro cls = none ∧ (∀ a ∈ tail, (w.mro a).isSome = true) ∧ cls ∉ tail

/-- **Class creation fails exactly at the first declaration the specification rejects** — stated
for `step`, on any world satisfying the invariant, in particular (`reachable_inv`) the world left by any history.  With all constructors of the class body having
succeeded (`raws`), the class is created iff no declaration `shouldFail`; otherwise creation raises
while merging declaration number `k`, the least one that `shouldFail`. -/
theorem declare_fails_iff (rx : String → String → Bool) (w : World) (hinv : w.Inv rx) (i cls : Nat)
    (tail : List Nat) (decls : List (Nat × Decl)) (raws : List (Nat × Param))
    (hwf : declareWF w cls tail)
    (hca : constructAll rx i decls 0 [] = .ok raws)
    (hsupp : ∀ x ∈ raws, mergeOutcome rx i w tail x ≠ .unsupported)
    (hcos : ∀ x ∈ raws, x.2.ptype = .selector →
      ∃ b, specCheckOnSet x.2 (w.supers tail x.1) = some (.atom (.bool b))) :
    ((step rx i w (.declare cls (cls :: tail) decls)).2.outcome = .ok ↔
        ∀ x ∈ raws, shouldFail rx x.2 (w.supers tail x.1) = false) ∧
    (∀ k, (∃ o, (step rx i w (.declare cls (cls :: tail) decls)).2.outcome = .mergeError k o) ↔
        ∃ x, raws[k]? = some x ∧ shouldFail rx x.2 (w.supers tail x.1) = true ∧
          ∀ j x', j < k → raws[j]? = some x' → shouldFail rx x'.2 (w.supers tail x'.1) = false) := by
  -- per declaration: the merge fails iff the specification says so
  have hel : ∀ x ∈ raws, (mergeOutcome rx i w tail x ≠ .ok ↔ shouldFail rx x.2 (w.supers tail x.1) = true) := by
    intro x hx
    obtain ⟨n, p⟩ := x
    rcases constructAll_mem rx i decls 0 [] raws hca n p hx with h | ⟨d, _, hcd⟩
    · cases h
    · have h1 := hsupp _ hx
      have h2 := hcos _ hx
      simp only [mergeOutcome] at h1 ⊢
      exact merge_fails_iff_reachable rx w hinv i i n d p tail hcd h1 h2
  have hel' : ∀ x ∈ raws, (mergeOutcome rx i w tail x = .ok ↔ shouldFail rx x.2 (w.supers tail x.1) = false) := by
    intro x hx
    have := hel x hx
    constructor
    · intro h; cases hs : shouldFail rx x.2 (w.supers tail x.1) with
      | false => rfl
      | true => exact absurd h (this.2 hs)
    · intro h
      by_cases hne : mergeOutcome rx i w tail x = .ok
      · exact hne
      · rw [this.1 hne] at h; cases h
  have hmem : ∀ {j x}, raws[j]? = some x → x ∈ raws := fun h => List.mem_of_getElem? h
  -- the step
  obtain ⟨h1, h2, h3⟩ := hwf
  have hcond : ((cls != cls || (w.mro cls).isSome || tail.any fun a => (w.mro a).isNone) || tail.contains cls) = false := by
    simp only [bne_self_eq_false, h1, Option.isSome_none, Bool.or_self, Bool.false_or, Bool.or_eq_false_iff,
      List.any_eq_false, List.contains_eq_mem, decide_eq_false_iff_not]
    refine ⟨?_, h3⟩
    intro a ha
    have := h2 a ha
    cases h : w.mro a with
    | none => simp [h] at this
    | some _ => simp
  have hfail := mergeAll_fail_iff rx i w tail raws 0 []
  simp only [step, hcond, Bool.false_eq_true, if_false, hca]
  cases hma : mergeAll rx i w tail raws 0 [] with
  | mk merged fail =>
    rw [hma] at hfail
    simp only [] at hfail
    cases fail with
    | none =>
      simp only []
      have hall : ∀ x ∈ raws, mergeOutcome rx i w tail x = .ok :=
        mergeAll_none_all_ok rx i w tail raws 0 [] (by rw [hma])
      refine ⟨⟨fun _ x hx => (hel' x hx).1 (hall x hx), fun _ => trivial⟩, ?_⟩
      intro k
      constructor
      · rintro ⟨o, ho⟩; cases ho
      · rintro ⟨x, hx, hs, _⟩
        have := (hel' x (hmem hx)).1 (hall x (hmem hx))
        rw [hs] at this; cases this
    | some f =>
      obtain ⟨k0, o0⟩ := f
      simp only []
      obtain ⟨j, x, hk, hx, ho, hne, hprev⟩ := (hfail k0 o0).1 rfl
      have hk' : k0 = j := by omega
      subst hk'
      have hsx : shouldFail rx x.2 (w.supers tail x.1) = true := (hel x (hmem hx)).1 (by rw [ho]; exact hne)
      refine ⟨⟨fun h => (by cases h), fun h => ?_⟩, ?_⟩
      · have := h x (hmem hx); rw [hsx] at this; cases this
      · intro k
        constructor
        · rintro ⟨o, ho'⟩
          simp only [StepOutcome.mergeError.injEq] at ho'
          obtain ⟨rfl, _⟩ := ho'
          exact ⟨x, hx, hsx, fun j' x' hlt hx' => (hel' x' (hmem hx')).1 (hprev j' x' hlt hx')⟩
        · rintro ⟨x2, hx2, hs2, hprev2⟩
          -- both k0 and k are the least rejected index
          have : k = k0 := by
            rcases Nat.lt_trichotomy k k0 with hlt | heq | hgt
            · have := (hel' x2 (hmem hx2)).1 (hprev k x2 hlt hx2); rw [hs2] at this; cases this
            · exact heq
            · have := hprev2 k0 x hgt hx; rw [hsx] at this; cases this
          subst this
          exact ⟨o0, rfl⟩

/-- **Overrides further up the MRO never decide the outcome.**  Without a type change, if on every
validated slot the declaration either says nothing or says (by value) what the nearest declaring
class already holds, the merge cannot fail — whether or not some class further up holds something
else and thereby triggers a re-validation.  So the outcome depends only on the type change and on
how the declaration differs from the nearest declaring class; how far the identity search runs
(`continue`/`break` after the first value, after an identical one, after a differing one) cannot
change any slot or the outcome. -/
theorem merge_ok_when_own_agrees_with_nearest (rx : String → String → Bool) (op name : Nat) (own : Param)
    (supers : List (Option Param)) (h' : Param)
    (hsup : ∀ h, some h ∈ supers → Good rx h)
    (htc : typeChange own.ptype supers = false) (hf : firstDecl supers = some h')
    (hagree : ∀ s o, hasSlot own.ptype s = true → nonValidated s = false → own.slots s = some o →
      ∃ v', h'.slots s = some v' ∧ o.v = v'.v)
    (hr : (inherit rx op name own supers).outcome.reached = true) :
    (inherit rx op name own supers).outcome = .ok := by
  have hmem := firstDecl_mem hf
  obtain ⟨hfill, hok⟩ := hsup h' hmem
  have hsub := typeChange_false_sub htc hmem
  obtain ⟨f4, d, hp, hd, _, _, hout⟩ := inherit_reached hr
  by_cases hrc : revalCond own supers d.v = true
  · simp only [hrc, if_true] at hout
    have hnn : d.v.isNone = false := by
      simp only [revalCond, htc, Bool.false_or, Bool.and_eq_true, Bool.not_eq_true'] at hrc
      exact hrc.2
    have hst : ∀ s, hasSlot own.ptype s = true → nonValidated s = false →
        cfgOf (staticFill own.ptype (mergeSearch own supers).1) s = h'.cfg s ∧ (h'.cfg s).isSome = true := by
      intro s hs hv
      have hs' := sub_hasSlot hsub hs
      have hsome := hfill s hs'
      cases hv' : h'.slots s with
      | none => simp [hv'] at hsome
      | some v' =>
        have hat : slotAt s (some h') = some v' := by simp [slotAt, hs', hv']
        have hn := nearest_of_firstDecl hf hat
        cases ho : own.slots s with
        | none => simp [cfgOf, staticFill, mergeSearch_fst, hs, firstSome_offers, ho, hn, Param.cfg, hv']
        | some o =>
          obtain ⟨w, hw, hov⟩ := hagree s o hs hv ho
          rw [hv'] at hw; cases hw
          simp [cfgOf, staticFill, mergeSearch_fst, hs, firstSome_offers, ho, Param.cfg, hv', hov]
    have hval := sat_of_static_agrees rx op name own supers h' hok hsub hst hp hd hnn
    rcases revalidate_of_validate_ok rx own.ptype f4 d.v hval with h | h
    · rw [hout, h]
    · rw [hout, h] at hr; cases hr
  · simp only [hrc, Bool.false_eq_true, if_false] at hout
    exact hout

/-- `callableError` is exactly "a computed slot cannot be computed": the only such slot that can
fail for a well-formed declaration is a Tuple's length when no class supplies one and the merged
default has no `len`. -/
theorem callableError_is_uncomputable (rx : String → String → Bool) (op name : Nat) (own : Param)
    (supers : List (Option Param)) (hT : own.ptype = .tuple) :
    (inherit rx op name own supers).outcome = .callableError ↔
      (specStatic own supers .length = none ∧ (specDefault own supers).len = none) := by
  have hc0 : ∀ t, hasSlot own.ptype t = true →
      cfgOf (staticFill .tuple (mergeSearch own supers).1) t = specStatic own supers t := by
    intro t ht
    rw [← hT]
    exact staticFill_found_cfg own supers ht (by intro h; subst h; rw [hT] at ht; cases ht)
  have hlen : lenOfDefault (cfgOf (staticFill .tuple (mergeSearch own supers).1)) = none ↔
      (specDefault own supers).len = none := by
    unfold lenOfDefault specDefault
    rw [hc0 .default (by rw [hT]; rfl)]
    cases specStatic own supers .default <;> simp [PyV.len]
  unfold inherit
  simp only [hT]
  have hmk : missingKey .tuple (mergeSearch own supers).1 = false := by
    simp [missingKey, slotsOf, slotOrder, hasSlot, typeDefault]
  simp only [prepare, hmk, Bool.false_eq_true, if_false, updateState]
  cases hrc : runCallables .tuple 1 op name (copyMutable op name (staticFill .tuple (mergeSearch own supers).1)) with
  | error e =>
    simp only []
    have := runCallables_tuple_err hrc
    rw [cfgOf_copyMutable, hc0 .length (by rw [hT]; rfl)] at this
    exact ⟨fun _ => ⟨this.1, hlen.1 this.2⟩, fun _ => trivial⟩
  | ok f3 =>
    simp only []
    have h3 := runCallables_tuple_cfg hrc .length
    simp only [if_true, cfgOf_copyMutable, hc0 .length (by rw [hT]; rfl)] at h3
    have hsome : (f3 .length).isSome = true := by
      have hp : prepare .tuple op name (mergeSearch own supers).1 = .ok f3 := by
        simp [prepare, hmk, hrc, updateState]
      exact prepare_filled hp rfl
    constructor
    · intro h
      exfalso
      revert h
      split
      · intro h; cases h
      · split
        · intro h
          exact revalidate_not_callableError rx _ _ _ h
        · intro h; cases h
    · rintro ⟨h1, h2⟩
      rw [h1, hlen.2 h2] at h3
      rw [← isSome_cfgOf, h3] at hsome
      cases hsome

end ParamVerif.Inherit

namespace ParamVerif.Inherit

/-! ## "…so no class exists whose non-None Parameter default contradicts its own bounds or type" -/

/-- The invariant of the last sentence, for every class and every Parameter it owns. -/
def NoInvalidDefault (rx : String → String → Bool) (w : World) : Prop :=
  ∀ c n p, w.params c n = some p → defaultOk rx p = true

/-- The statement as written: after *any* history of class declarations and `add_parameter`
calls no class owns a Parameter whose non-None default violates its own constraints. -/
def C11_full : Prop :=
  ∀ (rx : String → String → Bool) (ops : List Op), NoInvalidDefault rx (run rx ops 0 World.empty []).1

/-- **No class exists whose non-None Parameter default contradicts its own bounds or type** —
after any history of class declarations and `add_parameter` calls, successful or not, over
arbitrary MRO data. -/
theorem no_class_with_nonNone_default_violating_constraints (rx : String → String → Bool) (ops : List Op) :
    NoInvalidDefault rx (run rx ops 0 World.empty []).1 := by
  intro c n p hp
  exact (run_preserves_inv rx (construct_ownValid rx) ops 0 World.empty []
    (by intro c n p hp; cases hp) c n p hp).2

theorem C11_full_holds : C11_full := fun rx ops =>
  no_class_with_nonNone_default_violating_constraints rx ops

/-- **A failing operation leaves every observable of the hierarchy as before**: when class
creation or `add_parameter` raises (constructor error or merge error) or is skipped, the world —
which classes exist, their MROs, every Parameter every class owns, hence every `Cls.param[name]` —
is exactly what it was. -/
theorem failed_add_parameter_changes_nothing (rx : String → String → Bool) (i : Nat) (w : World)
    (cls name : Nat) (decl : Decl)
    (h : (step rx i w (.addParam cls name decl)).2.outcome ≠ .ok) :
    (step rx i w (.addParam cls name decl)).1 = w ∧
      ∀ c n, (step rx i w (.addParam cls name decl)).1.resolve c n = w.resolve c n := by
  have := step_not_ok_unchanged rx i w (.addParam cls name decl) h
  exact ⟨this, fun c n => by rw [this]⟩

theorem failed_class_creation_changes_nothing (rx : String → String → Bool) (i : Nat) (w : World)
    (cls : Nat) (mro : List Nat) (decls : List (Nat × Decl))
    (h : (step rx i w (.declare cls mro decls)).2.outcome ≠ .ok) :
    (step rx i w (.declare cls mro decls)).1 = w :=
  step_not_ok_unchanged rx i w _ h

def rxTrue : String → String → Bool := fun _ _ => true

def mkDecl (T : PType) (args : List (Slot × Val)) (inst : Option Bool := none) : Decl :=
  { ptype := T, args := fun s => (args.find? (·.1 == s)).map (·.2), instantiate := inst }

def intV (n : Int) : Val := atomV (.int n)

/-- `A: x = Number(5, bounds=(0, 10))`, `N(A): pass`, `N.param.add_parameter('x', Number(default=50))`:
the call raises and N keeps resolving `x` to A's Parameter (default 5) -/
def failedAdd : List Op :=
  [.declare 0 [0] [(0, mkDecl .number [(.default, intV 5), (.bounds, ⟨.obj 1, .tuple [.int 0, .int 10]⟩)])],
   .declare 1 [1, 0] [],
   .addParam 1 0 (mkDecl .number [(.default, intV 50)])]

example : ((run rxTrue failedAdd 0 World.empty []).2.map (·.outcome)) =
    [.ok, .ok, .mergeError 0 (.invalid .valueError)] := by decide
example : ((run rxTrue failedAdd 0 World.empty []).1.params 1 0).isNone = true := by decide
example : ((run rxTrue failedAdd 0 World.empty []).1.resolve 1 0).map (·.cfg .default) =
    some (some (.atom (.int 5))) := by decide

/-! ## `names` of a dict-declared Selector is inherited together with `objects` -/

/-- `names` resolves like every other slot: the declaration's own mapping when `objects` is given
as a dict (`{}` when given as a list), else what the nearest class of the MRO holds, else `{}`
(since /repo 4c8b6fe; before, `Selector.__init__` always set `names` and it was never inherited). -/
theorem names_inherited_with_objects (rx : String → String → Bool) (op name : Nat) (own : Param)
    (supers : List (Option Param))
    (hr : (inherit rx op name own supers).outcome.reached = true)
    (hT : own.ptype = .selector) :
    (inherit rx op name own supers).param.cfg .names =
      some (match own.slots .names with
            | some v => v.v
            | none => match nearest supers .names with
              | some v => v.v
              | none => .dict []) := by
  rw [held_names_eq_expected rx op name own supers hr hT]
  unfold expected specStatic chosen ownSpecified
  rw [hT]
  cases own.slots .names with
  | some v => rfl
  | none =>
    cases nearest supers .names with
    | some v => rfl
    | none => rfl

/-- …and a Selector declaration specifies `names` exactly when it specifies `objects` (a dict gives
the mapping, a list gives `{}`), so the two are inherited together. -/
theorem names_specified_iff_objects (rx : String → String → Bool) (op name : Nat) (d : Decl) (own : Param)
    (hT : d.ptype = .selector) (h : construct rx op name d = .ok own) :
    (own.slots .names).isSome = (d.args .objects).isSome ∧
      (own.slots .objects).isSome = (d.args .objects).isSome :=
  construct_names_iff_objects rx op name d own hT h

/-- `A: x = Selector(objects={'a': 1, 'b': 2})` -/
def selA : Decl := mkDecl .selector [(.objects, ⟨.obj 1, .dict [("a", .int 1), ("b", .int 2)]⟩)]
/-- `B(A): x = Selector(default=2)` -/
def selB : Decl := mkDecl .selector [(.default, intV 2)]
/-- `C(B): x = Selector(objects=[7, 8])` -/
def selC : Decl := mkDecl .selector [(.objects, ⟨.obj 2, .list [.int 7, .int 8]⟩)]

def namesChain : List Op :=
  [.declare 0 [0] [(0, selA)], .declare 1 [1, 0] [(0, selB)], .declare 2 [2, 1, 0] [(0, selC)]]

/-- B inherits the objects `[1, 2]` and their names; C gives its own list and has no names -/
example : ((run rxTrue namesChain 0 World.empty []).1.params 1 0).map (fun p => (p.cfg .objects, p.cfg .names)) =
    some (some (.list [.int 1, .int 2]), some (.dict [("a", .int 1), ("b", .int 2)])) := by decide
example : ((run rxTrue namesChain 0 World.empty []).1.params 2 0).map (fun p => (p.cfg .objects, p.cfg .names)) =
    some (some (.list [.int 7, .int 8]), some (.dict [])) := by decide

/-! ## "Class creation, like `add_parameter`, …" -/

/-- `Cls.param.add_parameter(name, P)` merges exactly as declaring `name = P` in the body of a
new class with the same rest-of-MRO would: same constructed Parameter, same merge result (slots,
flags, outcome); on failure neither leaves a trace (`failed_add_parameter_changes_nothing`). -/
theorem add_parameter_same_as_declaration (rx : String → String → Bool) (i : Nat) (w : World)
    (cls cls' name : Nat) (decl : Decl) (m : List Nat)
    (hm : w.mro cls = some m) (hnew : w.mro cls' = none)
    (htail : ∀ a ∈ m.tail, (w.mro a).isSome = true) (hnot : cls' ∉ m.tail) :
    let a := step rx i w (.addParam cls name decl)
    let d := step rx i w (.declare cls' (cls' :: m.tail) [(name, decl)])
    a.2.raws = d.2.raws ∧ a.2.merged = d.2.merged ∧ a.2.outcome = d.2.outcome ∧
      (a.2.outcome = .ok → a.1.params cls name = d.1.params cls' name) := by
  have hcond : ((cls' != cls' || (w.mro cls').isSome || m.tail.any fun a => (w.mro a).isNone) ||
      m.tail.contains cls') = false := by
    simp only [bne_self_eq_false, hnew, Option.isSome_none, Bool.or_self, Bool.false_or, Bool.or_eq_false_iff,
      List.any_eq_false, List.contains_eq_mem, decide_eq_false_iff_not]
    refine ⟨?_, hnot⟩
    intro a ha
    have := htail a ha
    cases h : w.mro a with
    | none => simp [h] at this
    | some _ => simp
  simp only [step, hm, hcond, Bool.false_eq_true, if_false, constructAll]
  cases hc : construct rx i name decl with
  | error e => simp
  | ok raw =>
    simp only [List.reverse_cons, List.reverse_nil, List.nil_append, mergeAll]
    cases ho : (inherit rx i name raw (w.supers m.tail name)).outcome == Outcome.ok with
    | true =>
      simp only [if_true]
      exact ⟨trivial, trivial, trivial, fun _ => by simp [lookupParam]⟩
    | false =>
      simp only [Bool.false_eq_true, if_false]
      exact ⟨trivial, trivial, trivial, fun h => by cases h⟩

/-! ## Validation: what `Sat` says for a Number -/

/-- For a Number whose merged configuration is well-typed (no step, inclusive bounds `(True, True)`),
`Sat` is: the default is None under a truthy `allow_None`, or a number within the bounds. -/
theorem sat_number_in_bounds (rx : String → String → Bool) (c : Cfg) (allowNone : Bool) (v lo hi : Int)
    (h1 : c .allowNone = some (.atom (.bool allowNone))) (h2 : c .step = some (.atom .pyNone))
    (h3 : c .bounds = some (.tuple [.int lo, .int hi]))
    (h4 : c .inclusiveBounds = some (.tuple [.bool true, .bool true]))
    (h5 : c .default = some (.atom (.int v))) :
    Sat rx .number c = true ↔ (lo ≤ v ∧ v ≤ hi) := by
  rw [Sat_iff_validate h5]
  simp only [validate, validateNumber, h1, h2, h3, h4, numValueOk, numStepOk, PyV.isNone, PyV.isNumber, Atom.num2,
    PyV.truthy, checkNumBounds, boundOk, PyV.isTrue]
  by_cases hh : v ≤ hi <;> by_cases hl : lo ≤ v <;> simp [hh, hl] <;> omega

/-- …and for the other types (each under a well-typed configuration): what `Sat` means is
independent of the model's validator code. -/
theorem sat_integer_type (rx : String → String → Bool) (c : Cfg) (d : PyV)
    (h1 : c .allowNone = some (.atom (.bool false))) (h2 : c .step = some (.atom .pyNone))
    (h3 : c .bounds = some (.atom .pyNone)) (h4 : c .inclusiveBounds = some (.tuple [.bool true, .bool true]))
    (h5 : c .default = some d) :
    Sat rx .integer c = true ↔ (∃ n, d = .atom (.int n)) ∨ (∃ b, d = .atom (.bool b)) := by
  rw [Sat_iff_validate h5]
  simp only [validate, validateNumber, h1, h2, h3, h4, numValueOk, numStepOk, PyV.isNone, PyV.truthy, checkNumBounds]
  cases d with
  | atom a => cases a <;> simp [PyV.isInt]
  | _ => simp [PyV.isInt]

theorem sat_string_regex (rx : String → String → Bool) (c : Cfg) (r s : String)
    (h1 : c .allowNone = some (.atom (.bool false))) (h2 : c .regex = some (.atom (.str r)))
    (h3 : c .default = some (.atom (.str s))) :
    Sat rx .string c = true ↔ rx r s = true := by
  rw [Sat_iff_validate h3]
  simp only [validate, validateString, Cfg.get, h1, h2, bind, Except.bind, pure, Except.pure, PyV.truthy, PyV.isNone]
  cases rx r s <;> simp

theorem sat_string_type (rx : String → String → Bool) (c : Cfg) (d : PyV)
    (h1 : c .allowNone = some (.atom (.bool false))) (h2 : c .regex = some (.atom .pyNone))
    (h3 : c .default = some d) :
    Sat rx .string c = true ↔ ∃ s, d = .atom (.str s) := by
  rw [Sat_iff_validate h3]
  simp only [validate, validateString, Cfg.get, h1, h2, bind, Except.bind, pure, Except.pure, PyV.truthy]
  cases d with
  | atom a => cases a <;> simp
  | _ => simp

theorem sat_tuple_length (rx : String → String → Bool) (c : Cfg) (l : List Atom) (n : Int)
    (h1 : c .allowNone = some (.atom (.bool false))) (h2 : c .length = some (.atom (.int n)))
    (h3 : c .default = some (.tuple l)) :
    Sat rx .tuple c = true ↔ (l.length : Int) = n := by
  rw [Sat_iff_validate h3]
  simp only [validate, validateTuple, Cfg.get, h1, h2, bind, Except.bind, pure, Except.pure, PyV.truthy, PyV.isNone,
    Atom.pyEq, Atom.num2]
  by_cases h : (l.length : Int) = n
  · simp [h]
  · simp [h]; omega

theorem sat_selector_membership (rx : String → String → Bool) (c : Cfg) (cos an : Bool) (l : List Atom) (x : Atom)
    (h1 : c .checkOnSet = some (.atom (.bool cos))) (h2 : c .allowNone = some (.atom (.bool an)))
    (h3 : c .objects = some (.list l)) (h4 : c .default = some (.atom x)) :
    Sat rx .selector c = true ↔ cos = false ∨ (an = true ∧ x = .pyNone) ∨ ∃ y ∈ l, x.pyEq y = true := by
  rw [Sat_iff_validate h4]
  simp only [validate, validateSelector, h1, h2, h3, PyV.truthy, memObjs]
  cases cos <;> cases an <;> simp [PyV.isNone]
  · cases h : l.any (x.pyEq ·) <;> simp_all
  · cases x <;> simp <;> (cases h : l.any (Atom.pyEq _ ·) <;> simp_all)

theorem sat_list_bounds_items (rx : String → String → Bool) (c : Cfg) (l : List Atom) (lo hi : Int) (tag : String)
    (h1 : c .allowNone = some (.atom (.bool false))) (h2 : c .bounds = some (.tuple [.int lo, .int hi]))
    (h3 : c .itemType = some (.atom (.cls tag))) (h4 : c .default = some (.list l)) :
    Sat rx .list c = true ↔ (lo ≤ (l.length : Int) ∧ (l.length : Int) ≤ hi) ∧ ∀ v ∈ l, v.isInstance tag = true := by
  rw [Sat_iff_validate h4]
  simp only [validate, validateList, Cfg.get, h1, h2, h3, bind, Except.bind, pure, Except.pure, PyV.truthy, PyV.isNone,
    checkListBounds, boundOk, Atom.num2]
  by_cases ha : lo ≤ (l.length : Int) <;> by_cases hb : (l.length : Int) ≤ hi <;>
    cases hc : l.all (·.isInstance tag) <;>
    simp [ha, hb, throw, throwThe, MonadExcept.throw] <;>
    first | (simpa using hc) | (intro h; simpa using hc) | (intro _ _; simpa using hc) | skip

/-! ## Non-vacuity: concrete hierarchies (evaluated by the kernel) -/

def numBounds (id : Nat) (lo hi : Int) : Val := ⟨.obj id, .tuple [.int lo, .int hi]⟩
def strV (s : String) : Val := atomV (.str s)

/-- the diamond of probe p14:
`A: Number(5, bounds=(0,10), doc='A doc', step=1)`, `B(A): Number(bounds=(0,20))`,
`C(A): Number(default=7, doc='C doc')`, `D(B, C): Number(softbounds=(1,2))`; MRO of D is D, B, C, A -/
def diamond : List Op :=
  [.declare 0 [0] [(0, mkDecl .number [(.default, intV 5), (.bounds, numBounds 1 0 10), (.doc, strV "A doc"), (.step, intV 1)])],
   .declare 1 [1, 0] [(0, mkDecl .number [(.bounds, numBounds 2 0 20)])],
   .declare 2 [2, 0] [(0, mkDecl .number [(.default, intV 7), (.doc, strV "C doc")])],
   .declare 3 [3, 1, 2, 0] [(0, mkDecl .number [(.softbounds, numBounds 3 1 2)])]]

/-- D holds default 5 (held by B, the nearest class; B took it from A), bounds (0,20) from B, doc
"A doc" (held by B), step 1, its own softbounds — independently per slot -/
example : ((run rxTrue diamond 0 World.empty []).1.params 3 0).map
      (fun p => (p.cfg .default, p.cfg .bounds, p.cfg .doc, p.cfg .step, p.cfg .softbounds)) =
    some (some (.atom (.int 5)), some (.tuple [.int 0, .int 20]), some (.atom (.str "A doc")),
          some (.atom (.int 1)), some (.tuple [.int 1, .int 2])) := by decide

/-- every step of the diamond was created, and the last merge was re-validated (bounds overridden) and passed -/
example : ((run rxTrue diamond 0 World.empty []).2.map (·.outcome)) = [.ok, .ok, .ok, .ok] := by decide
example : (((run rxTrue diamond 0 World.empty []).2.getLast?).map
    (fun o => o.merged.map (fun x => (x.2.typeChange, x.2.overridden, x.2.revalidated)))) =
    some [(false, true, true)] := by decide

/-- a class that skips the declaration, then a conflicting grandchild: creation fails -/
def skipThenConflict : List Op :=
  [.declare 0 [0] [(0, mkDecl .number [(.default, intV 5), (.bounds, numBounds 1 0 10)])],
   .declare 1 [1, 0] [],
   .declare 2 [2, 1, 0] [(0, mkDecl .number [(.default, intV 11)])]]
example : ((run rxTrue skipThenConflict 0 World.empty []).2.map (·.outcome)) =
    [.ok, .ok, .mergeError 0 (.invalid .valueError)] := by decide

/-- type change Number → Integer with an inherited float default fails; Integer → Number is no type change -/
def typeChanges : List Op :=
  [.declare 0 [0] [(0, mkDecl .number [(.default, ⟨.obj 1, .atom (.float 11)⟩)])],
   .declare 1 [1, 0] [(0, mkDecl .integer [])],
   .declare 2 [2, 0] [(0, mkDecl .integer [(.default, intV 3)])],
   .declare 3 [3, 2, 0] [(0, mkDecl .number [])]]
example : ((run rxTrue typeChanges 0 World.empty []).2.map
    (fun o => (o.outcome, o.merged.map (·.2.typeChange)))) =
    [(.ok, [false]), (.mergeError 0 (.invalid .valueError), [true]), (.ok, [true]), (.ok, [false])] := by decide

/-- same-type None default: `allow_None` is recomputed (False) from the own declaration, the
override is noticed, and the None default is *not* re-checked -/
def noneDefault : List Op :=
  [.declare 0 [0] [(0, mkDecl .string [(.default, noneV)])],
   .declare 1 [1, 0] [(0, mkDecl .string [])]]
example : ((run rxTrue noneDefault 0 World.empty []).1.params 1 0).map (fun p => (p.cfg .default, p.cfg .allowNone)) =
    some (some (.atom .pyNone), some (.atom (.bool false))) := by decide
example : (((run rxTrue noneDefault 0 World.empty []).2.getLast?).map
    (fun o => (o.outcome, o.merged.map (fun x => (x.2.overridden, x.2.revalidated))))) =
    some (.ok, [(true, false)]) := by decide

/-- instantiate from a non-nearest ancestor -/
def instChain : List Op :=
  [.declare 0 [0] [(0, mkDecl .parameter [] (some true))],
   .declare 1 [1, 0] [(0, mkDecl .parameter [])],
   .declare 2 [2, 1, 0] [(0, mkDecl .parameter [] (some false))]]
example : ((run rxTrue instChain 0 World.empty []).1.params 2 0).map (·.instantiate) = some true := by decide

/-- identity, not equality: the very same bounds object at two levels is not an override;
an equal but distinct tuple is -/
def identity : List Op :=
  [.declare 0 [0] [(0, mkDecl .number [(.default, intV 5), (.bounds, numBounds 1 0 10)])],
   .declare 1 [1, 0] [(0, mkDecl .number [(.bounds, numBounds 1 0 10)])],
   .declare 2 [2, 0] [(0, mkDecl .number [(.bounds, numBounds 2 0 10)])]]
example : ((run rxTrue identity 0 World.empty []).2.map (fun o => o.merged.map (·.2.overridden))) =
    [[false], [false], [true]] := by decide

/-- Tuple length computed from the inherited default; `len(None)` cannot be computed -/
def tupleLen : List Op :=
  [.declare 0 [0] [(0, mkDecl .parameter [(.default, ⟨.obj 1, .tuple [.int 1, .int 2, .int 3]⟩)])],
   .declare 1 [1, 0] [(0, mkDecl .tuple [])],
   .declare 2 [2] [(0, mkDecl .parameter [])],
   .declare 3 [3, 2] [(0, mkDecl .tuple [(.allowNone, boolV true)])]]
example : ((run rxTrue tupleLen 0 World.empty []).1.params 1 0).map (·.cfg .length) = some (some (.atom (.int 3))) := by
  decide
example : ((run rxTrue tupleLen 0 World.empty []).2.map (·.outcome)) =
    [.ok, .ok, .ok, .mergeError 0 .callableError] := by decide

end ParamVerif.Inherit

namespace ParamVerif.Inherit

/-- the plain Parameter slots `pickle_default_value`, `per_instance`, `allow_refs`, `nested_refs`
inherit like any other; a changed `allow_refs` counts as an override (the inherited default is
re-validated), a changed `pickle_default_value` (in `_non_validated_slots`) does not -/
def plainSlots : List Op :=
  [.declare 0 [0] [(0, mkDecl .number [(.default, intV 5), (.bounds, numBounds 1 0 10), (.allowRefs, boolV true),
      (.perInstance, boolV false)])],
   .declare 1 [1, 0] [(0, mkDecl .number [(.allowRefs, boolV false)])],
   .declare 2 [2, 0] [(0, mkDecl .number [(.pickleDefault, boolV false)])],
   .declare 3 [3, 1, 2, 0] [(0, mkDecl .number [])]]
example : ((run rxTrue plainSlots 0 World.empty []).1.params 3 0).map
      (fun p => (p.cfg .allowRefs, p.cfg .perInstance, p.cfg .pickleDefault, p.cfg .nestedRefs)) =
    some (some (.atom (.bool false)), some (.atom (.bool false)), some (.atom (.bool true)),
          some (.atom (.bool false))) := by decide
example : ((run rxTrue plainSlots 0 World.empty []).2.map
    (fun o => o.merged.map (fun x => (x.2.overridden, x.2.revalidated)))) =
    [[(false, false)], [(true, true)], [(false, false)], [(true, true)]] := by decide

end ParamVerif.Inherit
