/-
C11 — Parameter attributes inherit along the MRO; merged defaults are re-validated.
-/
import ParamVerif.Store.InheritLemmas

namespace ParamVerif.Inherit

/-- "`instantiate=True` is inherited from any ancestor": the merged Parameter is
instantiated iff its own declaration asks for it or some class of the MRO holds
the Parameter with `instantiate` true — whatever else happens in the merge. -/
theorem instantiate_inherited_from_any_ancestor (rx : String → String → Bool) (op name : Nat)
    (own : Param) (supers : List (Option Param)) :
    (inherit rx op name own supers).param.instantiate = true ↔
      own.instantiate = true ∨ ∃ h, some h ∈ supers ∧ h.instantiate = true := by
  have : (inherit rx op name own supers).param.instantiate = (own.instantiate || anyInstantiate supers) := by
    unfold inherit
    simp only []
    split
    · rfl
    · split
      · rfl
      · split <;> rfl
  rw [this]
  simp only [Bool.or_eq_true, anyInstantiate, List.any_eq_true]
  constructor
  · rintro (h | ⟨sp, hm, hi⟩)
    · exact Or.inl h
    · cases sp with
      | none => simp at hi
      | some p => exact Or.inr ⟨p, hm, hi⟩
  · rintro (h | ⟨p, hm, hi⟩)
    · exact Or.inl h
    · exact Or.inr ⟨some p, hm, hi⟩

end ParamVerif.Inherit
