/-
C01 — Accepted values always satisfy the parameter's declared constraints.

  "For every built-in Parameter type and every combination of its declared
   constraints (value type, hard bounds and their inclusivity, length, regex,
   item type, allowed objects, allow_None), an assignment made through the
   constructor, an instance attribute, the class attribute, `param.update` or
   deserialization succeeds if and only if the value satisfies those
   constraints, and otherwise raises ValueError/TypeError. Hence every value an
   assignment installs satisfied the constraints in force at that moment; in
   particular a boundary value is accepted exactly when that side is inclusive,
   and NaN is never inside a hard bound."

`validate` (Validate/Model.lean) is the code, check by check; `setter` is the part
of `Parameter.__set__` around it (`set_hook`, `_validate`, the constant / read-only
guard, the store); `Sat` (Validate/Spec.lean) is the declarative membership
predicate, `Admitted` adds "the hook's output is what counts" and the constant /
read-only permission; `WF` restricts declarations to those a constructor accepts
(`ill_formed_not_constructed` shows the others do not survive their constructor).

What is proved here and what is only checked by the harness (harness/props/c01.py,
differential against the real `param`, 6 routes, small-scope grids):
* proved: per type, `_validate` accepts exactly the values that satisfy the
  declared constraints and otherwise raises ValueError/TypeError (including the
  type checks of `step` and of a Range's soft bounds, which make an ill-typed
  declaration unconstructible); the boundary and NaN corollaries; the setter
  validates the *output* of `set_hook` and stores that; a constant parameter is
  validated on every route that may set it, and refused elsewhere; the
  constructor succeeds exactly when the default satisfies the declaration, with
  the slots it installs (`allow_None` rule, Tuple length in force, Magnitude
  bounds, Selector auto default / `check_on_set`, `constant or readonly`).
* routes: the model gives each route what differs *before* `Parameter.__set__`
  (deserialisation maps the JSON value through `deserialize`), where the setter is
  called from (class level, uninitialised instance, initialised instance) and where
  the value lands, and then shares one setter.  That the six routes of the real
  library all funnel into that one setter is NOT proved here: it is observed by the
  harness on every case.  Date-typed deserialisation (`strptime`) is outside the
  model (C15).  References are C02 / C08.
* harness only: that the Lean `validate` / `setter` are the Python ones
  (correspondence on the explored cases); that every constructor argument reaches its
  slot on the real object (slots read back from the real Parameter and compared --
  `declaredCfg` and `baseCfg` are two transcriptions of the same documentation, so
  `ctor_arg_effective` ties only the `allow_None` rule and the length rule
  independently); "constraints in force at that moment" when they change after the
  declaration: a held container mutated in place and assigned back (aliasing
  stream) and `Selector.objects` edited after the declaration (objects stream);
  mutation of other slots (`p.bounds = …`) is not exercised; regexes
  (`re.match` is an oracle bit); the identity test of the constant guard (`val is
  held`) is an observed bit; hooks are the four of `Hook`; `inclusive_bounds` are
  booleans (the code tests `is True`).

Only property theorems and their non-vacuity examples live here; helper lemmas
are in Validate/Lemmas.lean.
-/
import ParamVerif.Validate.Lemmas

namespace ParamVerif.Validate
open ParamVerif.Py

/-! ## accept iff the value satisfies the declared constraints -/

/-- Every modelled Parameter type: `_validate` lets a value through exactly
when the value satisfies the declared constraints. -/
theorem validate_ok_iff_sat (c : Cfg) (x : Ctx) (v : PyVal) (hwf : WF c) :
    validate c x v = .ok () ↔ Sat c x v := by
  cases h : c.ptype with
  | string => exact string_iff c x v h
  | bytes => exact bytes_iff c x v h
  | number => exact number_iff c x v h hwf
  | integer => exact integer_iff c x v h hwf
  | magnitude => exact magnitude_iff c x v h hwf
  | date => exact date_iff c x v h hwf
  | calendarDate => exact calendarDate_iff c x v h hwf
  | boolean => unfold validate Sat; simp only [h]; exact boolean_core c v
  | event => unfold validate Sat; simp only [h]; exact boolean_core c v
  | tuple => exact tuple_iff c x v h
  | numericTuple => exact numericTuple_iff c x v h
  | xy => exact xy_iff c x v h
  | range => exact range_iff c x v h hwf
  | dateRange => exact dateRange_iff c x v h hwf
  | calendarDateRange => exact calendarDateRange_iff c x v h hwf
  | callable => unfold validate Sat; simp only [h]; exact callable_core c v
  | action => unfold validate Sat; simp only [h]; exact callable_core c v
  | list => exact list_iff c x v h
  | hookList => exact hookList_iff c x v h
  | selector => exact selector_iff c x v h
  | listSelector => exact listSelector_iff c x v h
  | classSelector => exact classSelector_iff c x v h
  | dict => exact dict_iff c x v h
  | color => exact color_iff c x v h

/-- non-vacuity: a bounded, half-open Number, a value inside and one outside -/
example :
    let c : Cfg := { ptype := .number, bounds := some (some (.num .int (.fin 0)), some (.num .int (.fin 2))),
                     incl := (true, false) }
    WF c ∧ Sat c {} (.num .float (.fin 1)) ∧
      ¬ Sat c {} (.num .int (.fin 2)) := by decide

/-- non-vacuity for the Range flavours (where `WF` says something) -/
example :
    let c : Cfg := { ptype := .range, length := 2, step := some (.num .int (.fin 1)),
                     bounds := some (some (.num .int (.fin 0)), none) }
    WF c ∧
      Sat c {} (.tuple [.num .int (.fin 0), .num .int (.fin 3)]) ∧
      ¬ Sat c {} (.tuple [.num .int (.fin 3), .num .int (.fin 0)]) := by decide

/-- A rejection is a ValueError or a TypeError, nothing else. -/
theorem validate_err_kind (c : Cfg) (x : Ctx) (v : PyVal) (e : ErrKind) (hwf : WF c)
    (h : validate c x v = .error e) : e = .valueError ∨ e = .typeError := by
  refine (noOther_iff _).1 ?_ e h
  unfold validate
  cases hp : c.ptype <;> simp only
  case string => exact noOther_seq (noOther_stringValue c v) (fun _ => noOther_regexCheck c x v)
  case bytes => exact noOther_seq (noOther_bytesValue c v) (fun _ => noOther_regexCheck c x v)
  case number =>
    exact noOther_seq (noOther_numberValue c v)
      (fun _ => noOther_seq (noOther_numberStep c) (fun _ => noOther_numberBounds _ _ _ _))
  case magnitude =>
    exact noOther_seq (noOther_numberValue c v)
      (fun _ => noOther_seq (noOther_numberStep c) (fun _ => noOther_numberBounds _ _ _ _))
  case integer =>
    exact noOther_seq (noOther_integerValue c v)
      (fun _ => noOther_seq (noOther_numberStep c) (fun _ => noOther_numberBounds _ _ _ _))
  case date =>
    exact noOther_seq (noOther_dateValue c v)
      (fun _ => noOther_seq (noOther_numberStep c) (fun _ => noOther_numberBounds _ _ _ _))
  case calendarDate =>
    exact noOther_seq (noOther_calendarDateValue c v)
      (fun _ => noOther_seq (noOther_numberStep c) (fun _ => noOther_numberBounds _ _ _ _))
  case boolean => exact noOther_booleanValue c v
  case event => exact noOther_booleanValue c v
  case tuple => exact noOther_seq (noOther_tupleValue c v) (fun _ => noOther_tupleLength c v)
  case numericTuple => exact noOther_seq (noOther_numericTupleValue c v) (fun _ => noOther_tupleLength c v)
  case xy => exact noOther_seq (noOther_numericTupleValue c v) (fun _ => noOther_tupleLength c v)
  case callable => exact noOther_callableValue c v
  case action => exact noOther_callableValue c v
  case list =>
    exact noOther_seq (noOther_listValue c v)
      (fun _ => noOther_seq (noOther_listBounds c v) (fun _ => noOther_listItemType c x v))
  case hookList =>
    exact noOther_seq (noOther_hookListValue c v)
      (fun _ => noOther_seq (noOther_listBounds c v) (fun _ => noOther_listItemType c x v))
  case selector => exact noOther_selectorValidate c v
  case listSelector => exact noOther_listSelectorValidate c v
  case classSelector => exact noOther_classSelectorValidate c x v
  case dict => exact noOther_classSelectorValidate c x v
  case color => exact noOther_seq (noOther_colorValue c v) (fun _ => noOther_colorNamed c v)
  case range =>
    have hlen : c.length = 2 := by unfold WF at hwf; simp only [hp] at hwf; exact hwf.1
    refine noOther_seq (noOther_numericTupleValue c v) (fun hv => ?_)
    refine noOther_rangeTail c _ v hlen (noOther_rangeBounds c _ v) ?_
    cases v <;> cases hn : c.allowNone <;>
      simp_all [numericTupleValue, tupleValue, PyVal.isNone, PyVal.isTuple]
  case dateRange =>
    have hlen : c.length = 2 := by unfold WF at hwf; simp only [hp] at hwf; exact hwf.1
    refine noOther_seq (noOther_dateRangeValue c v) (fun hv => ?_)
    refine noOther_rangeTail c _ v hlen (by unfold dateRangeBounds; exact noOther_rangeBounds c _ _) ?_
    cases v <;> cases hn : c.allowNone <;> simp_all [dateRangeValue, PyVal.isNone, PyVal.isTuple]
  case calendarDateRange =>
    have hlen : c.length = 2 := by unfold WF at hwf; simp only [hp] at hwf; exact hwf.1
    refine noOther_seq (noOther_calendarDateRangeValue c v) (fun hv => ?_)
    refine noOther_rangeTail c _ v hlen (noOther_rangeBounds c _ v) ?_
    cases v <;> cases hn : c.allowNone <;> simp_all [calendarDateRangeValue, PyVal.isNone, PyVal.isTuple]

/-- non-vacuity: both kinds of rejection occur -/
example :
    validate { ptype := .list, itemType := some [PyVal.cInt], lenBounds := some (some 0, none) } {}
      (.list [.str "a"]) = .error .typeError ∧
    validate { ptype := .list, itemType := some [PyVal.cInt], lenBounds := some (some 0, some 1) } {}
      (.list [.str "a", .str "b"]) = .error .valueError := ⟨rfl, rfl⟩

/-! ## boundary values -/

/-- A value sitting exactly on the lower hard bound (the upper side being
satisfied) is accepted exactly when the lower side is inclusive. -/
theorem boundary_accepted_iff_inclusive_lower (c : Cfg) (x : Ctx) (k k' : NumKind) (q : Rat)
    (hi : Option PyVal) (h : NumberLike c (.num k (.fin q))) (hwf : WF c)
    (hb : c.bounds = some (some (.num k' (.fin q)), hi))
    (hup : BelowOpt c.incl.2 (.num k (.fin q)) hi) :
    validate c x (.num k (.fin q)) = .ok () ↔ c.incl.1 = true := by
  rw [numberLike_iff c x k _ h hwf, hb]
  simp only [InBounds, hup, and_true, AboveOpt, Above]
  cases c.incl.1 <;> simp [PyVal.le?, PyVal.lt?, ExtRat.le, ExtRat.lt, Rat.lt_irrefl]

/-- … and symmetrically on the upper hard bound. -/
theorem boundary_accepted_iff_inclusive_upper (c : Cfg) (x : Ctx) (k k' : NumKind) (q : Rat)
    (lo : Option PyVal) (h : NumberLike c (.num k (.fin q))) (hwf : WF c)
    (hb : c.bounds = some (lo, some (.num k' (.fin q))))
    (hlow : AboveOpt c.incl.1 lo (.num k (.fin q))) :
    validate c x (.num k (.fin q)) = .ok () ↔ c.incl.2 = true := by
  rw [numberLike_iff c x k _ h hwf, hb]
  simp only [InBounds, hlow, true_and, BelowOpt, Below]
  cases c.incl.2 <;> simp [PyVal.le?, PyVal.lt?, ExtRat.le, ExtRat.lt, Rat.lt_irrefl]

/-- non-vacuity: `Integer(bounds=(0, 5), inclusive_bounds=(False, True))` refuses `False` (= 0),
`Integer(bounds=(0, 5))` accepts it -/
example :
    let c : Cfg := { ptype := .integer, bounds := some (some (.num .int (.fin 0)), some (.num .int (.fin 5))),
                     incl := (false, true) }
    NumberLike c (.num .bool (.fin 0)) ∧ BelowOpt c.incl.2 (.num .bool (.fin 0)) (some (.num .int (.fin 5))) ∧
      validate c {} (.num .bool (.fin 0)) = .error .valueError ∧
      validate { c with incl := (true, true) } {} (.num .bool (.fin 0)) = .ok () :=
  ⟨Or.inr (Or.inr ⟨rfl, rfl⟩), by decide, rfl, rfl⟩

/-- the ends of a Range: an end sitting on the lower hard bound is admitted
exactly when that side is inclusive (everything else being satisfied) -/
theorem boundary_range_lower (c : Cfg) (x : Ctx) (k k' k'' : NumKind) (q : Rat) (e : ExtRat)
    (hi : Option PyVal) (hp : c.ptype = .range) (hwf : WF c)
    (hb : c.bounds = some (some (.num k' (.fin q)), hi))
    (hup : BelowOpt c.incl.2 (.num k (.fin q)) hi)
    (hother : InBounds c.bounds c.incl (.num k'' e))
    (hstep : StepOrder c.step (.num k (.fin q)) (.num k'' e)) :
    validate c x (.tuple [.num k (.fin q), .num k'' e]) = .ok () ↔ c.incl.1 = true := by
  rw [validate_ok_iff_sat c x _ hwf]
  unfold Sat
  simp only [hp, NoneOk, PyVal.isNone, OnTuple, OnPair, RangeEnds, mapBounds_id, id, hother, hstep,
    PyVal.isNumber, true_and, and_true, Bool.false_eq_true, false_and, false_or]
  rw [hb]
  simp only [InBounds, hup, and_true, AboveOpt, Above]
  cases c.incl.1 <;> simp [PyVal.le?, PyVal.lt?, ExtRat.le, ExtRat.lt, Rat.lt_irrefl]

/-! ## NaN -/

/-- NaN is inside no hard bound: as soon as one side is bounded (by a number),
the Number family rejects it, with a ValueError. -/
theorem nan_never_within_bounds (c : Cfg) (x : Ctx) (k : NumKind) (lo hi : Option PyVal)
    (hp : c.ptype = .number ∨ c.ptype = .magnitude ∨ c.ptype = .integer)
    (hwf : WF c) (hb : c.bounds = some (lo, hi)) (hside : lo.isSome = true ∨ hi.isSome = true)
    (hnum : BoundsOfType PyVal.isNumber c.bounds) :
    validate c x (.num k .nan) = .error .valueError ∧ ¬ Sat c x (.num k .nan) := by
  have hs : numberStep c = .ok () := by
    apply numberStep_of_wf c hwf
    rcases hp with hp | hp | hp
    · exact Or.inl hp
    · exact Or.inr (Or.inl hp)
    · exact Or.inr (Or.inr (Or.inl hp))
  rw [hb] at hnum
  have hbn := numberBounds_nan c.allowNone k lo hi c.incl hside hnum
  have hin := nan_not_inBounds k lo hi c.incl hside hnum
  constructor
  · unfold validate
    rcases hp with hp | hp | hp <;> simp only [hp, hb, hbn, hs, ok_seq]
    · cases hn : c.allowNone <;> simp [numberValue, PyVal.isNone, PyVal.isCallable, PyVal.isNumber, seq, valueErr]
    · cases hn : c.allowNone <;> simp [numberValue, PyVal.isNone, PyVal.isCallable, PyVal.isNumber, seq, valueErr]
    · cases k <;> cases hn : c.allowNone <;>
        simp [integerValue, PyVal.isNone, PyVal.isCallable, PyVal.isInt, seq, valueErr]
  · unfold Sat
    rw [hb]
    rcases hp with hp | hp | hp <;>
      simp [hp, NoneOk, DynamicOk, PyVal.isNone, PyVal.isCallable, hin]

/-- non-vacuity: `Number(bounds=(None, inf))` -/
example :
    let c : Cfg := { ptype := .number, bounds := some (none, some (.num .float .pinf)) }
    (c.ptype = .number ∨ c.ptype = .magnitude ∨ c.ptype = .integer) ∧ WF c ∧
      BoundsOfType PyVal.isNumber c.bounds ∧ validate c {} (.num .float .nan) = .error .valueError := by
  refine ⟨by decide, by decide, by decide, rfl⟩

/-- A Range with a hard bound on some side never admits a pair with a NaN end. -/
theorem nan_never_within_range_bounds (c : Cfg) (x : Ctx) (a b : PyVal) (lo hi : Option PyVal)
    (hp : c.ptype = .range) (hwf : WF c) (hb : c.bounds = some (lo, hi))
    (hside : lo.isSome = true ∨ hi.isSome = true) (hnan : a.isNanNum = true ∨ b.isNanNum = true) :
    validate c x (.tuple [a, b]) ≠ .ok () ∧ ¬ Sat c x (.tuple [a, b]) := by
  have hns : ¬ Sat c x (.tuple [a, b]) := by
    have hnb : ∀ v : PyVal, v.isNanNum = true → ¬ InBounds (some (lo, hi)) c.incl v := by
      intro v hv
      cases v <;> simp [PyVal.isNanNum] at hv
      rename_i k q
      cases q <;> simp [ExtRat.isNan] at hv
      unfold WF at hwf; simp only [hp, hb] at hwf
      exact nan_not_inBounds k lo hi c.incl hside hwf.2.1
    unfold Sat
    simp only [hp, NoneOk, PyVal.isNone, OnTuple, OnPair, RangeEnds, mapBounds_id, id, hb,
      Bool.false_eq_true, false_and, false_or]
    rintro ⟨_, _, h1, h2, _⟩
    rcases hnan with h | h
    · exact hnb a h h1
    · exact hnb b h h2
  exact ⟨fun h => hns ((validate_ok_iff_sat c x _ hwf).1 h), hns⟩

/-- non-vacuity: `Range(bounds=(0, None))` and `(nan, 1)` -/
example :
    let c : Cfg := { ptype := .range, length := 2, bounds := some (some (.num .int (.fin 0)), none) }
    WF c ∧ (PyVal.num .float .nan).isNanNum = true := by decide

/-! ## what an assignment installs; the routes; `set_hook`; constant / read-only -/

/-- The five direct routes (constructor keyword, instance attribute, `param.update`,
class attribute, class-level `param.update`) hand the value to the setter
unchanged.  The assignment succeeds exactly when it is `Admitted`: what the
parameter would hold -- the `set_hook`'s output for the Number family -- satisfies
the declared constraints, and the constant / read-only declaration permits an
assignment from where the route calls the setter.  Otherwise it raises
ValueError / TypeError. -/
theorem assign_accepted_iff_admitted (r : Route) (c : Cfg) (x : Ctx) (same : Bool) (v : PyVal)
    (hr : r ≠ .deser) (hwf : WF c) :
    ((assign r c x same v).accepted = true ↔ Admitted c x (r.situation same) v) ∧
    (∀ e, assign r c x same v = .rejected e → e = .valueError ∨ e = .typeError) ∧
    assign r c x same v ≠ .notModelled := by
  have hrv : routeValue r c v = some v := by cases r <;> simp_all [routeValue]
  unfold Admitted
  rw [← validate_ok_iff_sat c x _ hwf, ← guard_ok_iff]
  rcases assign_cases r c x same v v hrv with ⟨hv, hg, ha⟩ | ⟨e', hv, ha⟩ | ⟨hv, hg, ha⟩
  · rw [ha]; exact ⟨by simp [Outcome.accepted, hv, hg], by simp, by simp⟩
  · rw [ha]
    refine ⟨by simp [Outcome.accepted, hv], ?_, by simp⟩
    intro e he
    simp only [Outcome.rejected.injEq] at he
    subst he
    exact validate_err_kind c x _ _ hwf hv
  · rw [ha]
    refine ⟨by simp [Outcome.accepted, hg], ?_, by simp⟩
    intro e he
    simp only [Outcome.rejected.injEq] at he
    exact Or.inr he.symm

/-- Without a hook and without a constant / read-only declaration this is the
plain statement: accepted iff the value satisfies the declared constraints. -/
theorem assign_accepted_iff_sat (r : Route) (c : Cfg) (x : Ctx) (same : Bool) (v : PyVal)
    (hr : r ≠ .deser) (hwf : WF c) (hh : c.hook = .identity) (hc : c.constant = false) (hro : c.readonly = false) :
    (assign r c x same v).accepted = true ↔ Sat c x v := by
  rw [(assign_accepted_iff_admitted r c x same v hr hwf).1]
  unfold Admitted GuardOk setterValue
  simp [hh, hc, hro, applyHook]

/-- The hook's output is what is validated and what is stored: a value is never
installed on the strength of the *input* satisfying the constraints. -/
theorem hook_output_is_validated (r : Route) (c : Cfg) (x : Ctx) (same : Bool) (v w : PyVal) (t : Target)
    (hr : r ≠ .deser) (hwf : WF c) (h : assign r c x same v = .stored t w) :
    Sat c x (setterValue c v) ∧ w = storedValue c (setterValue c v) := by
  have hrv : routeValue r c v = some v := by cases r <;> simp_all [routeValue]
  rcases assign_cases r c x same v v hrv with ⟨hv, _, ha⟩ | ⟨e', _, ha⟩ | ⟨_, _, ha⟩
  · rw [ha] at h
    simp only [Outcome.stored.injEq] at h
    exact ⟨(validate_ok_iff_sat c x _ hwf).1 hv, h.2.symm⟩
  · rw [ha] at h; cases h
  · rw [ha] at h; cases h

/-- non-vacuity: `Number(bounds=(0, 10), set_hook=lambda o, v: -v)`: −4 is stored as 4, and 4 -- itself
inside the bounds -- is refused because −4 is not; `Integer(set_hook=lambda o, v: 'x')` refuses everything -/
example :
    let c : Cfg := { ptype := .number, hook := .neg,
                     bounds := some (some (.num .int (.fin 0)), some (.num .int (.fin 10))) }
    assign .instAttr c {} false (.num .int (.fin (-4))) = .stored .instanceValue (.num .int (.fin 4)) ∧
    assign .instAttr c {} false (.num .int (.fin 4)) = .rejected .valueError ∧
    assign .clsAttr { ptype := .integer, hook := .const (.str "x") } {} false (.num .int (.fin 1))
      = .rejected .valueError := ⟨rfl, rfl, rfl⟩

/-- A constant parameter is validated like any other on the routes that may set it
(constructor, class attribute, class-level update): an invalid value is refused
there too, with the validator's error; after initialisation every other object
is refused with a TypeError -- and an invalid one still with the validator's
error, because `_validate` runs first. -/
theorem constant_still_validated (r : Route) (c : Cfg) (x : Ctx) (same : Bool) (v : PyVal)
    (hr : r ≠ .deser) (hwf : WF c) (hns : ¬ Sat c x (setterValue c v)) :
    ∃ e, assign r c x same v = .rejected e ∧ validate c x (setterValue c v) = .error e := by
  have hrv : routeValue r c v = some v := by cases r <;> simp_all [routeValue]
  rcases assign_cases r c x same v v hrv with ⟨hv, _, _⟩ | ⟨e', hv, ha⟩ | ⟨hv, _, _⟩
  · exact absurd ((validate_ok_iff_sat c x _ hwf).1 hv) hns
  · exact ⟨e', ha, hv⟩
  · exact absurd ((validate_ok_iff_sat c x _ hwf).1 hv) hns

/-- non-vacuity: `Integer(bounds=(0, 5), constant=True)` -/
example :
    let c : Cfg := { ptype := .integer, constant := true,
                     bounds := some (some (.num .int (.fin 0)), some (.num .int (.fin 5))) }
    assign .ctorKw c {} false (.num .int (.fin 9)) = .rejected .valueError ∧
    assign .clsUpdate c {} false (.num .int (.fin 9)) = .rejected .valueError ∧
    assign .ctorKw c {} false (.num .int (.fin 3)) = .stored .instanceValue (.num .int (.fin 3)) ∧
    assign .clsAttr c {} false (.num .int (.fin 3)) = .stored .classDefault (.num .int (.fin 3)) ∧
    assign .instAttr c {} false (.num .int (.fin 3)) = .rejected .typeError ∧
    assign .instAttr c {} true (.num .int (.fin 3)) = .stored .instanceValue (.num .int (.fin 3)) ∧
    assign .instAttr c {} false (.num .int (.fin 9)) = .rejected .valueError :=
  ⟨rfl, rfl, rfl, rfl, rfl, rfl, rfl⟩

/-- Deserialisation: the JSON-decoded value goes through the type's `deserialize`
first, then through the constructor; the assignment succeeds exactly when the
*deserialised* value is admitted. -/
theorem assign_deser_accepted_iff (c : Cfg) (x : Ctx) (same : Bool) (j : PyVal) (hwf : WF c) :
    ((assign .deser c x same j).accepted = true ↔
      ∃ w, deserialize c.ptype j = some w ∧ Admitted c x .uninitialised w) ∧
    (∀ e, assign .deser c x same j = .rejected e → e = .valueError ∨ e = .typeError) := by
  cases hd : deserialize c.ptype j with
  | none => simp [assign, routeValue, hd, Outcome.accepted]
  | some w =>
    have hrv : routeValue .deser c j = some w := by simp [routeValue, hd]
    simp only [Option.some.injEq, exists_eq_left']
    unfold Admitted
    rw [← validate_ok_iff_sat c x _ hwf, ← guard_ok_iff]
    rcases assign_cases .deser c x same j w hrv with ⟨hv, hg, ha⟩ | ⟨e', hv, ha⟩ | ⟨hv, hg, ha⟩
    · rw [ha]
      have hg' : guard c Situation.uninitialised = .ok () := hg
      exact ⟨by simp [Outcome.accepted, hv, hg'], by simp⟩
    · rw [ha]
      refine ⟨by simp [Outcome.accepted, hv], ?_⟩
      intro e he
      simp only [Outcome.rejected.injEq] at he
      subst he
      exact validate_err_kind c x _ _ hwf hv
    · rw [ha]
      refine ⟨?_, ?_⟩
      · have hg' : guard c Situation.uninitialised = .error .typeError := hg
        simp [Outcome.accepted, hg']
      · intro e he
        simp only [Outcome.rejected.injEq] at he
        exact Or.inr he.symm

/-- JSON has no tuples: through deserialisation a Tuple-family parameter takes the
*list* whose items it would take as a tuple directly (and `null` is `None`). -/
theorem deser_list_is_tuple (c : Cfg) (x : Ctx) (xs : List PyVal)
    (hp : c.ptype = .tuple ∨ c.ptype = .numericTuple ∨ c.ptype = .xy ∨ c.ptype = .range) :
    assign .deser c x false (.list xs) = assign .ctorKw c x false (.tuple xs) ∧
    assign .deser c x false .none = assign .ctorKw c x false .none := by
  unfold assign
  rcases hp with hp | hp | hp | hp <;> simp [routeValue, deserialize, hp, PyVal.iter?, Route.situation, Route.target]

/-- non-vacuity: `Tuple(length=2)` takes `[1, 2]` from JSON and refuses it as a Python list -/
example :
    let c : Cfg := { ptype := .tuple, length := 2 }
    (assign .deser c {} false (.list [.num .int (.fin 1), .num .int (.fin 2)])).accepted = true ∧
    (assign .instAttr c {} false (.list [.num .int (.fin 1), .num .int (.fin 2)])).accepted = false := ⟨rfl, rfl⟩

/-- What an assignment installs satisfied the constraints at that moment, on every
route, with any hook, constant or not: the stored value (the hook's output;
`False` for an Event) satisfies `Sat`, and it is stored where the route says
(class default for the class-level routes, instance value otherwise). -/
theorem stored_value_sat (r : Route) (c : Cfg) (x : Ctx) (same : Bool) (v w : PyVal) (t : Target) (hwf : WF c)
    (h : assign r c x same v = .stored t w) :
    t = r.target ∧ ∃ v', routeValue r c v = some v' ∧ Sat c x (setterValue c v') ∧ Sat c x w ∧
      (c.ptype ≠ .event → w = setterValue c v') := by
  cases hrv : routeValue r c v with
  | none => simp [assign, hrv] at h
  | some v' =>
    rcases assign_cases r c x same v v' hrv with ⟨hv, _, ha⟩ | ⟨e', _, ha⟩ | ⟨_, _, ha⟩
    · rw [ha] at h
      simp only [Outcome.stored.injEq] at h
      obtain ⟨ht, hw⟩ := h
      have hs := (validate_ok_iff_sat c x _ hwf).1 hv
      refine ⟨ht.symm, v', rfl, hs, ?_, ?_⟩
      · subst hw
        unfold storedValue
        cases hp : c.ptype <;> simp only <;> try exact hs
        unfold Sat; simp [hp, PyVal.isBool]
      · intro hne
        subst hw
        unfold storedValue
        cases hp : c.ptype <;> simp_all
    · rw [ha] at h; cases h
    · rw [ha] at h; cases h

/-- non-vacuity: an accepted assignment to a bounded Integer, a class-level one, and an Event -/
example :
    assign .instAttr { ptype := .integer, bounds := some (some (.num .int (.fin 0)), none) } {} false (.num .bool (.fin 1))
      = .stored .instanceValue (.num .bool (.fin 1)) ∧
    assign .clsAttr { ptype := .integer } {} false (.num .int (.fin 7)) = .stored .classDefault (.num .int (.fin 7)) ∧
    assign .update { ptype := .event } {} false (.num .bool (.fin 1)) = .stored .instanceValue (.num .bool (.fin 0)) :=
  ⟨rfl, rfl, rfl⟩

/-! ## constructors: every argument reaches the slot it names -/

/-- The constraint slots a constructor installs are the declared ones (the
`allow_None` rule, the Tuple length in force, Magnitude's default bounds, the
Selector auto default and `check_on_set`), and the default it validates is the
declared default. -/
theorem ctor_arg_effective (a : Args) (c : Cfg) (d : PyVal)
    (hmk : mkCfg a = .ok (c, d)) (hwf : WF c) : specCfg a = some c ∧ d = specDefault a :=
  mkCfg_spec a c d hmk hwf

/-- An ill-formed declaration (a `step` of the wrong type in the Number family; for a
Range hard or soft bounds of the wrong type, a zero or non-numeric `step`, a default
of a length other than 2) does not survive its constructor. -/
theorem ill_formed_not_constructed (a : Args) (x : Ctx) (c : Cfg) (d : PyVal)
    (hmk : mkCfg a = .ok (c, d)) (hwf : ¬ WF c) : ∃ e, construct a x = .error e := by
  unfold construct
  rw [hmk]
  cases hv : ctorValidate c x d with
  | ok u => cases u; exact absurd hv (ctorValidate_not_wf a c d x hmk hwf)
  | error e => exact ⟨e, by simp [hv]⟩

/-- non-vacuity: `Range(default=(0, 1), step=0)` -/
example :
    let a : Args := { ptype := .range, default := some (.tuple [.num .int (.fin 0), .num .int (.fin 1)]),
                      step := some (.num .int (.fin 0)) }
    ∃ c d, mkCfg a = .ok (c, d) ∧ ¬ WF c := ⟨_, _, rfl, by decide⟩

/-- A constructor succeeds exactly when the declaration is complete and
well-formed and the default satisfies the declared constraints (a Selector may
always default to `None`).  No side condition. -/
theorem ctor_ok_iff_default_sat (a : Args) (x : Ctx) :
    (∃ c', construct a x = .ok c') ↔ CtorSat a x := by
  cases hmk : mkCfg a with
  | error e =>
    have hs := specCfg_of_mkCfg_error a e hmk
    unfold construct CtorSat
    simp [hmk, hs]
  | ok cd =>
    obtain ⟨c, d⟩ := cd
    by_cases hwf : WF c
    · obtain ⟨hs, hd⟩ := mkCfg_spec a c d hmk hwf
      have hpt : c.ptype = a.ptype := by
        rcases (mkCfg_ok_shape a c d hmk).2 with ⟨_, hc⟩ | ⟨_, n, _, hc⟩ <;> rw [hc] <;> rfl
      unfold construct CtorSat
      rw [hmk, hs, ← hd]
      simp only [ctorValidate_eq, hpt]
      by_cases hsel : (a.ptype = .selector ∨ a.ptype = .listSelector) ∧ d.isNone = true
      · rcases hsel with ⟨hsel, hdn⟩
        rcases hsel with hsel | hsel <;> simp [hsel, hdn]
      · simp only [hsel, if_false]
        have hiff := validate_ok_iff_sat c x d hwf
        cases hv : validate c x d with
        | ok u =>
          cases u
          have hs' := hiff.1 hv
          cases hp : a.ptype <;> simp_all
        | error e =>
          have hs' : ¬ Sat c x d := fun hsat => by rw [hiff.2 hsat] at hv; cases hv
          cases hp : a.ptype <;> simp_all
    · obtain ⟨e, he⟩ := ill_formed_not_constructed a x c d hmk hwf
      have hs : specCfg a = none := by
        rw [(specCfg_of_mkCfg a c d hmk).1]; simp [Option.filter, hwf]
      unfold CtorSat
      simp [he, hs]

/-- non-vacuity: `Bytes(default=b'', allow_None=True)` declares, and gets, `allow_None` -/
example :
    let a : Args := { ptype := .bytes, default := some (.bytes ""), allowNone := some true }
    ∃ c d, mkCfg a = .ok (c, d) ∧ WF c ∧ c.allowNone = true := by
  refine ⟨_, _, rfl, by decide, rfl⟩

/-! ## the full statements -/

/-- the full equivalence over the modelled domain -/
def C01_full : Prop :=
  ∀ (c : Cfg) (x : Ctx) (v : PyVal), WF c → (validate c x v = .ok () ↔ Sat c x v)

theorem C01_full_holds : C01_full := fun c x v hwf => validate_ok_iff_sat c x v hwf

/-- every constructor argument is effective -/
def C01_ctor_full : Prop :=
  ∀ (a : Args) (c : Cfg) (d : PyVal), mkCfg a = .ok (c, d) → WF c → specCfg a = some c

theorem C01_ctor_full_holds : C01_ctor_full := fun a c d hmk hwf => (mkCfg_spec a c d hmk hwf).1

/-- … and the constructor never raises anything else before it validates -/
theorem ctor_slot_err_kind (a : Args) (e : ErrKind) (h : mkCfg a = .error e) :
    e = .valueError ∨ e = .typeError := mkCfg_err_kind a e h

/-- the inputs the earlier deviations were witnessed on are now refused / follow the docstring -/
example :
    validate { ptype := .integer } {} (.func 3 true) = .error .valueError ∧
    validate { ptype := .listSelector, allowNone := true, objects := [.num .int (.fin 1), .num .int (.fin 2)] } {}
      (.list [.none, .num .int (.fin 1)]) = .error .valueError ∧
    validate { ptype := .calendarDateRange, length := 2 } {} (.list [.date 737425, .date 737426]) = .error .valueError ∧
    validate { ptype := .calendarDateRange, length := 2 } {} (.tuple [.datetime 0, .datetime 1]) = .error .valueError ∧
    validate { ptype := .color } {} (.str "#fff\n") = .error .valueError ∧
    (specCfg { ptype := .tuple, default := some (.tuple [.none, .none, .none]), length := some 2 }).map (·.length)
      = some 3 :=
  ⟨rfl, rfl, rfl, rfl, rfl, by decide⟩

end ParamVerif.Validate
