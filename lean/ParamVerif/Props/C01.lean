/-
C01 — Accepted values always satisfy the parameter's declared constraints.

  "For every built-in Parameter type and every combination of its declared
   constraints (value type, hard bounds and their inclusivity, length, regex,
   item type, allowed objects, allow_None), an assignment made through the
   constructor, an instance attribute, the class attribute, `param.update` or
   deserialization succeeds if and only if the value satisfies those
   constraints, and otherwise raises ValueError/TypeError. Hence every value an
   assignment installs satisfied the constraints in force at that moment; in
   particular a boundary value is accepted exactly when that side is inclusive,
   and NaN is never inside a hard bound."

`validate` (Validate/Model.lean) is the code, check by check; `Sat`
(Validate/Spec.lean) is the declarative membership predicate; `WF` restricts
Range declarations to those a constructor accepts; `Clean` / `CleanArgs`
exclude the inputs on which the code at the current commit deviates — the full
statement without them is refuted below by concrete witnesses, which the
harness replays on the real code.

Only property theorems and their non-vacuity examples live here; helper lemmas
are in Validate/Lemmas.lean.
-/
import ParamVerif.Validate.Lemmas

namespace ParamVerif.Validate
open ParamVerif.Py

/-! ## accept iff the value satisfies the declared constraints -/

/-- Every modelled Parameter type: `_validate` lets a value through exactly
when the value satisfies the declared constraints. -/
theorem validate_ok_iff_sat (c : Cfg) (x : Ctx) (v : PyVal) (hwf : WF c) (hcl : Clean c v) :
    validate c x v = .ok () ↔ Sat c x v := by
  cases h : c.ptype with
  | string => exact string_iff c x v h
  | bytes => exact bytes_iff c x v h
  | number => exact number_iff c x v h
  | integer => exact integer_iff c x v h (by simpa [Clean, h] using hcl)
  | magnitude => exact magnitude_iff c x v h
  | date => exact date_iff c x v h
  | calendarDate => exact calendarDate_iff c x v h
  | boolean => unfold validate Sat; simp only [h]; exact boolean_core c v
  | event => unfold validate Sat; simp only [h]; exact boolean_core c v
  | tuple => exact tuple_iff c x v h
  | numericTuple => exact numericTuple_iff c x v h
  | xy => exact xy_iff c x v h
  | range => exact range_iff c x v h hwf
  | dateRange => exact dateRange_iff c x v h hwf
  | calendarDateRange => exact calendarDateRange_iff c x v h hwf hcl
  | callable => unfold validate Sat; simp only [h]; exact callable_core c v
  | action => unfold validate Sat; simp only [h]; exact callable_core c v
  | list => exact list_iff c x v h
  | hookList => exact hookList_iff c x v h
  | selector => exact selector_iff c x v h
  | listSelector => exact listSelector_iff c x v h hcl
  | classSelector => exact classSelector_iff c x v h
  | dict => exact dict_iff c x v h
  | color => exact color_iff c x v h hcl

/-- non-vacuity: a bounded, half-open Number, a value inside and one outside -/
example :
    let c : Cfg := { ptype := .number, bounds := some (some (.num .int (.fin 0)), some (.num .int (.fin 2))),
                     incl := (true, false) }
    WF c ∧ Clean c (.num .float (.fin 1)) ∧ Sat c {} (.num .float (.fin 1)) ∧
      ¬ Sat c {} (.num .int (.fin 2)) := by decide

/-- non-vacuity for the Range flavours (where `WF` says something) -/
example :
    let c : Cfg := { ptype := .range, length := 2, step := some (.num .int (.fin 1)),
                     bounds := some (some (.num .int (.fin 0)), none) }
    WF c ∧ Clean c (.tuple [.num .int (.fin 0), .num .int (.fin 3)]) ∧
      Sat c {} (.tuple [.num .int (.fin 0), .num .int (.fin 3)]) ∧
      ¬ Sat c {} (.tuple [.num .int (.fin 3), .num .int (.fin 0)]) := by decide

/-- A rejection is a ValueError or a TypeError, nothing else. -/
theorem validate_err_kind (c : Cfg) (x : Ctx) (v : PyVal) (e : ErrKind) (hwf : WF c) (hcl : Clean c v)
    (h : validate c x v = .error e) : e = .valueError ∨ e = .typeError := by
  refine (noOther_iff _).1 ?_ e h
  unfold validate
  cases hp : c.ptype <;> simp only
  case string => exact noOther_seq (noOther_stringValue c v) (fun _ => noOther_regexCheck c x v)
  case bytes => exact noOther_seq (noOther_bytesValue c v) (fun _ => noOther_regexCheck c x v)
  case number => exact noOther_seq (noOther_numberValue c v) (fun _ => noOther_numberBounds _ _ _ _)
  case magnitude => exact noOther_seq (noOther_numberValue c v) (fun _ => noOther_numberBounds _ _ _ _)
  case integer => exact noOther_seq (noOther_integerValue c v) (fun _ => noOther_numberBounds _ _ _ _)
  case date => exact noOther_seq (noOther_dateValue c v) (fun _ => noOther_numberBounds _ _ _ _)
  case calendarDate => exact noOther_seq (noOther_calendarDateValue c v) (fun _ => noOther_numberBounds _ _ _ _)
  case boolean => exact noOther_booleanValue c v
  case event => exact noOther_booleanValue c v
  case tuple => exact noOther_seq (noOther_tupleValue c v) (fun _ => noOther_tupleLength c v)
  case numericTuple => exact noOther_seq (noOther_numericTupleValue c v) (fun _ => noOther_tupleLength c v)
  case xy => exact noOther_seq (noOther_numericTupleValue c v) (fun _ => noOther_tupleLength c v)
  case callable => exact noOther_callableValue c v
  case action => exact noOther_callableValue c v
  case list =>
    exact noOther_seq (noOther_listValue c v)
      (fun _ => noOther_seq (noOther_listBounds c v) (fun _ => noOther_listItemType c x v))
  case hookList =>
    exact noOther_seq (noOther_hookListValue c v)
      (fun _ => noOther_seq (noOther_listBounds c v) (fun _ => noOther_listItemType c x v))
  case selector => exact noOther_selectorValidate c v
  case listSelector => exact noOther_listSelectorValidate c v
  case classSelector => exact noOther_classSelectorValidate c x v
  case dict => exact noOther_classSelectorValidate c x v
  case color => exact noOther_seq (noOther_colorValue c v) (fun _ => noOther_colorNamed c v)
  case range =>
    have hlen : c.length = 2 := by unfold WF at hwf; simp only [hp] at hwf; exact hwf.1
    refine noOther_seq (noOther_numericTupleValue c v) (fun hv => ?_)
    refine noOther_rangeTail c _ v hlen (noOther_rangeBounds c _ v) ?_
    cases v <;> cases hn : c.allowNone <;>
      simp_all [numericTupleValue, tupleValue, PyVal.isNone, PyVal.isTuple]
  case dateRange =>
    have hlen : c.length = 2 := by unfold WF at hwf; simp only [hp] at hwf; exact hwf.1
    refine noOther_seq (noOther_dateRangeValue c v) (fun hv => ?_)
    refine noOther_rangeTail c _ v hlen (by unfold dateRangeBounds; exact noOther_rangeBounds c _ _) ?_
    cases v <;> cases hn : c.allowNone <;> simp_all [dateRangeValue, PyVal.isNone, PyVal.isTuple]
  case calendarDateRange =>
    have hlen : c.length = 2 := by unfold WF at hwf; simp only [hp] at hwf; exact hwf.1
    refine noOther_seq (noOther_calendarDateRangeValue c v) (fun hv => ?_)
    refine noOther_rangeTail c _ v hlen (noOther_rangeBounds c _ v) ?_
    unfold Clean at hcl; simp only [hp] at hcl
    cases v with
    | none => simp [PyVal.isNone]
    | tuple xs => simp [PyVal.isTuple]
    | str s => exact absurd hv (calendarDateRangeValue_str c s)
    | bytes s => exact absurd hv (calendarDateRangeValue_bytes c s)
    | list xs => exact absurd hcl (by simp)
    | dict ks vs => exact absurd hcl (by simp)
    | _ => cases hn : c.allowNone <;> simp_all [calendarDateRangeValue, PyVal.isNone, PyVal.iter?]

/-- non-vacuity: both kinds of rejection occur -/
example :
    validate { ptype := .list, itemType := some [PyVal.cInt], lenBounds := some (some 0, none) } {}
      (.list [.str "a"]) = .error .typeError ∧
    validate { ptype := .list, itemType := some [PyVal.cInt], lenBounds := some (some 0, some 1) } {}
      (.list [.str "a", .str "b"]) = .error .valueError := ⟨rfl, rfl⟩

end ParamVerif.Validate
