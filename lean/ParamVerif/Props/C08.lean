/-
C08 — A linked parameter mirrors its reference until it is overridden.

  "After any sequence of updates to the sources, a parameter with `allow_refs=True` that was given a
   reference (a Parameter, a `depends`/`bind` function, a reactive expression or, with
   `nested_refs=True`, a container holding these) holds the reference's current resolved value
   whenever that value is valid for it, whether the link was made in the constructor or by a later
   assignment. Assigning a plain value or a new reference ends the previous link for good - old
   sources no longer affect the parameter and keep no watcher on its behalf - while the other links
   of the same object keep working."

Model: Refs/Model.lean (`__set__` with deferred relink, `_resolve_ref`, `_update_ref` after fix
bb8048e, `_setup_refs`, `_setup_params`, `_sync_refs` under `edit_constant`/`_syncing`, `update`,
`_ParametersRestorer`).  Reference kinds: `par` (a Parameter), `fn` (a bound function or an rx
expression: an opaque function `c.F` of its dependencies — all theorems hold for every `F`),
`cont` (a container of these; resolved recursively only on a `nested_refs` parameter).

One part of the statement is FALSE of the code as it is and is kept as a `…_full` definition with
a refutation (`…_full_refuted`, replayed on the real code by harness/props/c08.py, KNOWN_FINDINGS.txt):
  * a source update whose resolved value is invalid for ONE linked parameter raises out of
    `_sync_refs` and leaves every later link of that object (and of the objects synced after it)
    stale although the value is valid for them.  The theorem that holds
    (`linked_value_tracks_reference_partial`) carries a ghost *stale set*: the source parameters
    whose last value-changing assignment raised.  Every live link none of whose dependencies is
    stale tracks its reference; a later successful, value-changing assignment to the source
    parameter makes it fresh again ("invalid, then valid again" is covered).  Histories without a
    raising source update have an empty stale set, i.e. the full statement.
The driver executes the operation layer of Refs/Hooks.lean, which adds user watchers that assign a plain
value to a sibling parameter (also inside the flush of a sync, under `edit_constant` and `syncing`) and
parameters made constant on one instance only.  `driver_semantics_is_the_model`: without such watchers and
flags that layer is the model, so the theorems below are about what the driver runs; with them the tie to
the code is correspondence and oracle only (finding `watcher-assignment-during-own-sync-keeps-link`).
Everything structural — no watcher left behind, every dependency watched, refs a dict, constants
referenced, only allow_refs parameters linked — is proved for ALL reachable worlds, raising source
updates included.
"keep no watcher on its behalf" holds in full since fix c44323d (a plain-value override goes through
`_update_ref(name, Undefined)`): `old_sources_keep_no_watcher`.
-/
import ParamVerif.Refs.Lemmas
import ParamVerif.Refs.HooksLemmas

namespace ParamVerif.Refs

/-- every live link that currently has a value to offer (evaluating it does not raise `Skip`) and
whose resolved value is valid for its target: the target holds that value -/
def Tracks (c : Cfg) (w : World) : Prop :=
  ∀ (t : Nat) (tg : Target) (p : Nat) (r : Rhs) (d : PDecl) (v : Val),
    w.tgts[t]? = some tg → (p, r) ∈ tg.refs → c.decl t p = some d →
    resolveRhs c w r d.nestedRefs = some v → skipsRhs c w r d.nestedRefs = false → d.valid v = true →
    tg.read p = some v

/-- the `_sync_refs` watchers of target t sit exactly where a live link of t needs them -/
def Exact (c : Cfg) (w : World) (t : Nat) : Prop :=
  ∀ (s : Nat) (ws : List (Nat × List Nat)) (names : List Nat) (i : Nat),
    w.watch[s]? = some ws → (t, names) ∈ ws → i ∈ names →
    ∃ tg q r, w.tgts[t]? = some tg ∧ (q, r) ∈ tg.refs ∧ (s, i) ∈ ldeps c t (q, r)

/-- Worlds reachable by histories: sources exist, targets are constructed (with any keyword
arguments: plain values and references of every kind), then ANY operations with ANY outcome.  The
index is the ghost stale set (`staleAfter`): a source update that raises (from inside `_sync_refs`)
makes its parameter stale, one that succeeds with a new value makes it fresh again. -/
inductive Reachable (c : Cfg) : List SrcP → World → Prop
  | init (src : List (List Int)) : Reachable c [] { src := src, watch := src.map fun _ => [], tgts := [], stack := [] }
  | construct {st : List SrcP} {w w' : World} (dflt : List Val) (kws : List (Nat × Rhs)) : Reachable c st w →
      (∀ ds, c.decls[w.tgts.length]? = some ds → ds.length ≤ dflt.length) →
      construct c dflt kws w = (.ok, w') → Reachable c st w'
  | step {st : List SrcP} {w : World} (op : Op) : Reachable c st w →
      Reachable c (staleAfter c op w st) (step c op w).2.1

theorem reachable_inv {c : Cfg} {st : List SrcP} {w : World} (h : Reachable c st w) : Inv c st w := by
  induction h with
  | init src =>
    exact ⟨fun t tg _ _ _ _ ht => by simp at ht, fun t tg _ _ _ _ ht => by simp at ht, fun t tg ht => by simp at ht,
      fun t tg _ _ _ ht => by simp at ht, fun t tg _ _ ht => by simp at ht,
      fun t s ws names i hws hm _ => by
        simp only [List.getElem?_map] at hws
        cases h : src[s]? with
        | none => simp [h] at hws
        | some row => simp [h] at hws; subst hws; cases hm⟩
  | construct dflt kws _ hlen hc ih => exact construct_inv ih hlen hc
  | step op _ ih => exact step_inv ih rfl

/-- every live link none of whose dependencies is stale, that has a value to offer and whose resolved
value is valid for its target: the target holds that value -/
def TracksFresh (c : Cfg) (st : List SrcP) (w : World) : Prop :=
  ∀ (t : Nat) (tg : Target) (p : Nat) (r : Rhs) (d : PDecl) (v : Val),
    w.tgts[t]? = some tg → (p, r) ∈ tg.refs → c.decl t p = some d →
    resolveRhs c w r d.nestedRefs = some v → skipsRhs c w r d.nestedRefs = false → d.valid v = true →
    (∀ x ∈ ldeps c t (p, r), x ∉ st) → tg.read p = some v

/-- **C08, the invariant.**  After *any* history of constructions with links, late links, relinks,
overrides, `update`s, `update` contexts, class-level assignments and source updates — with any
outcomes, rejected assignments and raising source updates included — every live link that depends on
no stale source parameter holds its reference's current resolved value whenever that value is valid
for it: for every reference kind, every nesting, every opaque bound function `F`. -/
theorem linked_value_tracks_reference_partial (c : Cfg) (st : List SrcP) (w : World) (h : Reachable c st w) :
    TracksFresh c st w := by
  intro t tg p r d v ht hm hd hres hsk hv hst
  exact read_of_vals ((reachable_inv h).tracks t tg p r d v ht hm hd hres hsk hv hst)

/-- … in particular, as long as no source update has raised (or each one that did was followed by a
successful value-changing assignment to the same source parameter), the statement holds in full. -/
theorem linked_value_tracks_reference_when_nothing_stale (c : Cfg) (w : World) (h : Reachable c [] w) : Tracks c w :=
  fun t tg p r d v ht hm hd hres hsk hv =>
    linked_value_tracks_reference_partial c [] w h t tg p r d v ht hm hd hres hsk hv (fun _ _ hx => by cases hx)

/-- a source parameter stops being stale as soon as an assignment to it succeeds with a new value, and
becomes stale when one raises -/
theorem stale_set_step (c : Cfg) (s i : Nat) (v : Int) (w : World) (st : List SrcP) :
    ((step c (.srcSet s i v) w).1 = .ok → readSrc w (s, i) ≠ some v → (s, i) ∉ staleAfter c (.srcSet s i v) w st) ∧
    (∀ e, (step c (.srcSet s i v) w).1 = .raised e → (s, i) ∈ staleAfter c (.srcSet s i v) w st) := by
  constructor
  · intro hok hne
    simp [staleAfter, hok, hne]
  · intro e he
    simp [staleAfter, he]

/-- … and every dependency of every live link carries the target's `_sync_refs` watcher — in every
reachable world, raising source updates included — which is why the next source update reaches it. -/
theorem linked_sources_are_watched (c : Cfg) (st : List SrcP) (w : World) (h : Reachable c st w)
    (t : Nat) (tg : Target) (p : Nat) (r : Rhs) (s i : Nat) (ht : w.tgts[t]? = some tg) (hm : (p, r) ∈ tg.refs)
    (hdep : (s, i) ∈ ldeps c t (p, r)) (hi : i < c.nsp) (hs : s < w.watch.length) :
    ∃ ws names, w.watch[s]? = some ws ∧ (t, names) ∈ ws ∧ i ∈ names :=
  (reachable_inv h).watched t tg p r s i ht hm hdep hi hs

/-- the statement without the stale set -/
def linked_value_tracks_reference_full : Prop := ∀ (c : Cfg) (st : List SrcP) (w : World), Reachable c st w → Tracks c w

/-- **C08, one step.**  The single-step form: any operation, whatever its outcome, from a world
satisfying the invariant (`Inv`: fresh links tracked, dependencies watched, no leftover watcher, refs
a dict, only `allow_refs` parameters linked, constants referenced) leads to one, with the stale set
updated by `staleAfter`. -/
theorem invariant_step (c : Cfg) (op : Op) (st : List SrcP) (w : World) (hi : Inv c st w) :
    Inv c (staleAfter c op w st) (step c op w).2.1 :=
  step_inv hi rfl

/-- **C08, override.**  An accepted plain-value assignment to a linked parameter leaves no link,
and the parameter holds the assigned value. -/
theorem override_removes_link (c : Cfg) (t p : Nat) (rhs : Rhs) (d : PDecl) (w w' : World) (log : List Entry)
    (hi : Inv c st w) (hd : c.decl t p = some d) (hplain : depsOf rhs d.nestedRefs = [])
    (h : step c (.set t p rhs) w = (.ok, w', log)) :
    ∃ tg', w'.tgts[t]? = some tg' ∧ dictGet tg'.refs p = none ∧ tg'.read p = plainOf rhs := by
  unfold step at h
  split at h
  · simp at h
  · simp only at h
    split at h
    · simp at h
    · cases hs : setInst c t p rhs w with
      | mk r q =>
        obtain ⟨w1, evs⟩ := q
        rw [hs] at h; simp at h
        obtain ⟨hr, hw, _⟩ := h; subst hr hw
        unfold setInst at hs
        split at hs
        · rename_i tg d' htg hd'
          rw [hd] at hd'; cases hd'
          split at hs
          · rename_i old v rl hold hres
            have hns : skipsForSet c d rhs w = false := by unfold skipsForSet; simp [hplain]
            rw [hns] at hs
            simp only [Bool.false_eq_true, if_false] at hs
            obtain ⟨v0, vals', hv, _, _, hvals, hw⟩ := setCore_ok_form htg hs
            obtain ⟨refs', watch', hform, hrl⟩ := applyRelink_form (rl := rl) (vals' := vals') htg hd
            rw [hform] at hw; subst hw
            have hget := fun t' x => tgts_set_get w.tgts t t' x tg htg
            -- which link change a plain value causes
            have hcase : (rl = .keep ∧ dictGet tg.refs p = none) ∨ rl = .drop := by
              unfold resolveForSet at hres
              split at hres
              · simp at hres
              · split at hres
                · split at hres
                  · simp at hres
                    left; refine ⟨hres.2.symm, ?_⟩
                    cases hg : dictGet tg.refs p with
                    | none => rfl
                    | some r0 => have := hi.allow _ _ _ _ _ htg (mem_of_dictGet hg) hd; simp_all
                  · simp at hres
                · split at hres
                  · simp at hres
                    by_cases hl : (dictGet tg.refs p).isSome = true
                    · right; simp [hl] at hres; exact hres.2.symm
                    · left; simp [hl] at hres; exact ⟨hres.2.symm, by simpa using hl⟩
                  · rename_i hne; simp [hplain] at hne
            have hv' : v = plainOf rhs := by
              unfold resolveForSet at hres
              split at hres
              · simp at hres
              · split at hres
                · split at hres <;> simp at hres; exact hres.1.symm
                · split at hres
                  · simp at hres; exact hres.1.symm
                  · rename_i hne; simp [hplain] at hne
            have hp : vals'[p]? = some (some v0) := by
              have hlt : p < tg.vals.length := by
                by_cases hlt : p < tg.vals.length
                · exact hlt
                · exfalso; have : tg.vals[p]? = none := by simp; omega
                  simp [Target.read, this] at hold
              rcases hvals with e | ⟨e, hid, hc, _⟩
              · subst e; simp [hlt]
              · subst e
                obtain ⟨v1, hv1⟩ := hi.consts _ _ _ _ htg hd hc
                have := read_of_vals hv1
                rw [hold] at this; cases this
                rw [identical_eq hid]; exact hv1
            refine ⟨{ tg with vals := vals', refs := refs' }, by simp only [hget]; simp, ?_, ?_⟩
            · rcases hcase with ⟨e, hnone⟩ | e
              · subst e; simp only at hrl; simp only [hrl.1]; exact hnone
              · subst e; simp only at hrl; simp only [hrl.1]; exact dictGet_dictDel_self _ _
            · rw [← hv', hv]; exact read_of_vals hp
          · simp at hs
        · simp at hs

/-- **C08, relink.**  An accepted assignment of a reference (its current value valid for the
parameter, which is neither constant nor readonly) makes that reference the link — replacing whatever
link there was — and the parameter holds the resolved value; exactly one event is announced. -/
theorem relink_installs_link (c : Cfg) (t p : Nat) (rhs : Rhs) (d : PDecl) (w : World) (tg : Target)
    (old v : Val) (htg : w.tgts[t]? = some tg) (hd : c.decl t p = some d) (hread : tg.read p = some old)
    (hsup : rhs.supported = true) (hallow : d.allowRefs = true) (href : (depsOf rhs d.nestedRefs).isEmpty = false)
    (hres : resolveRhs c w rhs d.nestedRefs = some v) (hns : skipsRhs c w rhs d.nestedRefs = false)
    (hvalid : d.valid v = true) (hro : d.readonly = false) (hconst : d.constant = false) :
    ∃ w', step c (.set t p rhs) w = (.ok, w', [{ who := .tgt, idx := t, evs := [(p, v)] }]) ∧ w'.src = w.src ∧
      ∃ tg', w'.tgts[t]? = some tg' ∧ (p, rhs) ∈ tg'.refs ∧ tg'.read p = some v ∧
        ∀ q, q ≠ p → dictGet tg'.refs q = dictGet tg.refs q ∧ tg'.vals[q]? = tg.vals[q]? := by
  obtain ⟨ds, hds⟩ := decls_of_decl hd
  have hnp : ¬ p ≥ nparams c t := by
    have : p < ds.length := by
      rw [decl_of_decls hds] at hd
      by_cases hlt : p < ds.length
      · exact hlt
      · exfalso; have : ds[p]? = none := by simp; omega
        rw [this] at hd; cases hd
    simp [nparams, hds]; exact this
  have hlt : p < tg.vals.length := by
    by_cases hlt : p < tg.vals.length
    · exact hlt
    · exfalso; have : tg.vals[p]? = none := by simp; omega
      simp [Target.read, this] at hread
  have hsupp : Op.supported c (.set t p rhs) = true := by
    simp [Op.supported, keySupported, hd, hsup, hallow, href]
  have hrfs : resolveForSet c d (dictGet tg.refs p).isSome rhs w = some (some v, .link rhs) := by
    unfold resolveForSet; simp [hsup, hallow, href, hres]
  have hsk : skipsForSet c d rhs w = false := by unfold skipsForSet; simp [hns]
  have hset : setInst c t p rhs w = (.ok, applyRelink c t p (.link rhs) (store t p v w), [(p, v)]) := by
    unfold setInst; simp only [htg, hd, hread, hrfs, hsk]
    unfold setCore; simp [hvalid, hro, hconst]
  refine ⟨applyRelink c t p (.link rhs) (store t p v w), by unfold step; simp [hsupp, hnp, hset], ?_⟩
  have hget := fun t' x => tgts_set_get w.tgts t t' x tg htg
  simp only [applyRelink, updateRef, store, htg, World.setTgt, hget, if_true, hds, List.set_set]
  refine ⟨trivial, { tg with vals := tg.vals.set p (some v), refs := dictSet tg.refs p rhs }, ?_, mem_dictSet.2 (Or.inl rfl),
    read_of_vals (by simp [hlt]), ?_⟩
  · simp
  · intro q hq
    exact ⟨dictGet_dictSet_ne _ _ _ _ hq, by simp [List.getElem?_set_ne (fun e => hq e.symm)]⟩

/-- **C08, a reference with no value to offer yet.**  Assigning a bound function whose evaluation
raises `param.Skip` (so `_resolve_ref` yields `Undefined`) stores nothing, validates nothing and
announces nothing — but it *is* the new link: refs names it, and by `invariant_step` the old
sources keep no watcher, the new ones carry one, and as soon as a source update makes the function
yield a valid value the parameter takes it (`linked_value_tracks_reference_partial`). -/
theorem skipping_reference_becomes_the_link (c : Cfg) (t p : Nat) (rhs : Rhs) (d : PDecl) (w : World) (tg : Target)
    (old v : Val) (htg : w.tgts[t]? = some tg) (hd : c.decl t p = some d) (hread : tg.read p = some old)
    (hres : resolveRhs c w rhs d.nestedRefs = some v) (hsk : skipsForSet c d rhs w = true) :
    ∃ w', step c (.set t p rhs) w = (.ok, w', []) ∧ w'.src = w.src ∧
      ∃ tg', w'.tgts[t]? = some tg' ∧ tg'.vals = tg.vals ∧ tg'.dflt = tg.dflt ∧ (p, rhs) ∈ tg'.refs := by
  have hparts : rhs.supported = true ∧ d.allowRefs = true ∧ (depsOf rhs d.nestedRefs).isEmpty = false := by
    unfold skipsForSet at hsk; simp at hsk; exact ⟨hsk.1.1.1, hsk.1.1.2, by simpa using hsk.1.2⟩
  obtain ⟨ds, hds⟩ := decls_of_decl hd
  have hnp : ¬ p ≥ nparams c t := by
    have : p < ds.length := by
      rw [decl_of_decls hds] at hd
      by_cases hlt : p < ds.length
      · exact hlt
      · exfalso; have : ds[p]? = none := by simp; omega
        rw [this] at hd; cases hd
    simp [nparams, hds]; exact this
  have hsup : Op.supported c (.set t p rhs) = true := by
    simp [Op.supported, keySupported, hd, hparts.1, hparts.2.1, hparts.2.2]
  have hrfs : resolveForSet c d (dictGet tg.refs p).isSome rhs w = some (some v, .link rhs) := by
    unfold resolveForSet; simp [hparts.1, hparts.2.1, hparts.2.2, hres]
  have hset : setInst c t p rhs w = (.ok, applyRelink c t p (.link rhs) w, []) := by
    unfold setInst; simp only [htg, hd, hread, hrfs, hsk, if_true]
  refine ⟨applyRelink c t p (.link rhs) w, by unfold step; simp [hsup, hnp, hset], ?_⟩
  have hget := fun t' x => tgts_set_get w.tgts t t' x tg htg
  simp only [applyRelink, updateRef, htg, hds]
  refine ⟨trivial, { tg with refs := dictSet tg.refs p rhs }, ?_, rfl, rfl, mem_dictSet.2 (Or.inl rfl)⟩
  simp only [hget]; simp

/-- **C08, "for good".**  A source update — whatever its value, whatever its outcome — leaves
alone every parameter whose *current* link does not depend on the updated source parameter: an
overridden parameter (no link at all) and a relinked one (its old sources).  Links are untouched. -/
theorem source_update_reaches_only_dependent_links (c : Cfg) (s i : Nat) (v : Int) (w w' : World) (res : Res)
    (log : List Entry) (hi : Inv c st w) (t p : Nat) (tg : Target) (htg : w.tgts[t]? = some tg)
    (hnodep : ∀ r, (p, r) ∈ tg.refs → (s, i) ∉ ldeps c t (p, r))
    (h : step c (.srcSet s i v) w = (res, w', log)) :
    ∃ tg', w'.tgts[t]? = some tg' ∧ tg'.refs = tg.refs ∧ tg'.vals[p]? = tg.vals[p]? ∧ tg'.dflt = tg.dflt := by
  have h' : srcSet c s i v w = (res, w', log) := by simpa [step, Op.supported] using h
  obtain ⟨_, _, _, _, htgs⟩ := srcSet_frame hi.nodup h'
  obtain ⟨vals', h1, h2, _⟩ := htgs t tg htg
  exact ⟨_, h1, rfl, h2 p (fun ⟨r, hm, hdep⟩ => hnodep r hm hdep), rfl⟩

/-- … hence over any sequence of source updates an overridden parameter keeps the assigned value
and stays unlinked: the override ends the link for good. -/
theorem override_ends_link_for_good (c : Cfg) (t p : Nat) : ∀ (ups : List (Nat × Nat × Int)) (w : World) (tg : Target),
    (∀ (t : Nat) (tg : Target), w.tgts[t]? = some tg → keysNodup tg.refs) →
    w.tgts[t]? = some tg → dictGet tg.refs p = none →
    ∃ tg', (runOps c (ups.map fun u => .srcSet u.1 u.2.1 u.2.2) w).tgts[t]? = some tg' ∧
      tg'.vals[p]? = tg.vals[p]? ∧ dictGet tg'.refs p = none := by
  intro ups
  induction ups with
  | nil => intro w tg _ htg hn; exact ⟨tg, htg, rfl, hn⟩
  | cons u rest ih =>
    intro w tg hnd htg hn
    simp only [List.map_cons, runOps]
    have h' : srcSet c u.1 u.2.1 u.2.2 w = step c (.srcSet u.1 u.2.1 u.2.2) w := by simp [step, Op.supported]
    obtain ⟨_, _, hlen, _, htgs⟩ := srcSet_frame (res := (step c (.srcSet u.1 u.2.1 u.2.2) w).1)
      (w' := (step c (.srcSet u.1 u.2.1 u.2.2) w).2.1) (log := (step c (.srcSet u.1 u.2.1 u.2.2) w).2.2) hnd (by rw [h'])
    obtain ⟨vals', h1, h2, _⟩ := htgs t tg htg
    have hnd' : ∀ (t : Nat) (tg : Target), (step c (.srcSet u.1 u.2.1 u.2.2) w).2.1.tgts[t]? = some tg → keysNodup tg.refs := by
      intro t' tg' ht'
      have hlt : t' < w.tgts.length := by
        by_cases hlt : t' < (step c (.srcSet u.1 u.2.1 u.2.2) w).2.1.tgts.length
        · omega
        · exfalso
          have : (step c (.srcSet u.1 u.2.1 u.2.2) w).2.1.tgts[t']? = none := by simp; omega
          rw [this] at ht'; cases ht'
      obtain ⟨vals'', h1', _, _⟩ := htgs t' w.tgts[t'] (by simp [hlt])
      rw [ht'] at h1'; cases h1'
      exact hnd t' w.tgts[t'] (by simp [hlt])
    obtain ⟨tg', h3, h4, h5⟩ := ih _ { tg with vals := vals' } hnd' h1 hn
    refine ⟨tg', h3, ?_, h5⟩
    rw [h4]
    exact h2 p (fun ⟨r, hm, _⟩ => dictGet_none_iff.1 hn r hm)

/-- **C08, no watcher left behind.**  In every reachable world the `_sync_refs` watchers of every
object sit *exactly* on the dependencies of its live links: after a relink and after a plain-value
override alike (both go through `_update_ref`, which unwatches everything and re-installs the
watchers of the links that remain), the sources of the replaced link keep no watcher on its behalf
— unless another live link of the same object still depends on them.  (All histories: rejected
assignments and raising source updates included.) -/
theorem old_sources_keep_no_watcher (c : Cfg) (st : List SrcP) (w : World) (h : Reachable c st w) (t : Nat) : Exact c w t :=
  fun s ws names i hws hm hin => (reachable_inv h).exact t s ws names i hws hm hin

/-- … in single-step form: whatever is assigned to `t.p` (plain value or reference) and however the
assignment ends, afterwards t's watchers are exact. -/
theorem old_sources_keep_no_watcher_step (c : Cfg) (st : List SrcP) (t p : Nat) (rhs : Rhs) (w : World) (hi : Inv c st w) :
    Exact c (step c (.set t p rhs) w).2.1 t :=
  fun s ws names i hws hm hin =>
    (step_inv hi (rfl : step c (.set t p rhs) w = _)).exact t s ws names i hws hm hin

/-- **C08, the other links.**  Whatever is assigned to `t.p` and however the assignment ends,
every other parameter of t keeps its link and its value, every other object is untouched and no
source changes; by `invariant_step` the remaining links are still watched, so they keep working. -/
theorem other_links_unaffected (c : Cfg) (t p : Nat) (rhs : Rhs) (w w' : World) (res : Res) (log : List Entry)
    (tg : Target) (htg : w.tgts[t]? = some tg) (h : step c (.set t p rhs) w = (res, w', log)) :
    w'.src = w.src ∧ (∀ t', t' ≠ t → w'.tgts[t']? = w.tgts[t']?) ∧
    ∃ tg', w'.tgts[t]? = some tg' ∧
      ∀ q, q ≠ p → dictGet tg'.refs q = dictGet tg.refs q ∧ tg'.vals[q]? = tg.vals[q]? := by
  have same : w' = w → w'.src = w.src ∧ (∀ t', t' ≠ t → w'.tgts[t']? = w.tgts[t']?) ∧
      ∃ tg', w'.tgts[t]? = some tg' ∧
        ∀ q, q ≠ p → dictGet tg'.refs q = dictGet tg.refs q ∧ tg'.vals[q]? = tg.vals[q]? := by
    intro e; subst e; exact ⟨rfl, fun _ _ => rfl, tg, htg, fun _ _ => ⟨rfl, rfl⟩⟩
  unfold step at h
  split at h
  · simp at h; exact same h.2.1.symm
  · simp only at h
    split at h
    · simp at h; exact same h.2.1.symm
    · cases hs : setInst c t p rhs w with
      | mk r q =>
        obtain ⟨w1, evs⟩ := q
        rw [hs] at h; simp at h
        obtain ⟨_, hw, _⟩ := h; subst hw
        obtain ⟨h1, _, h3, tg', h4, _, h6⟩ := setInst_frame htg hs
        exact ⟨h1, h3, tg', h4, h6⟩

/-- **C08, constructor = later assignment.**  Constructing the object with keyword links
`T(k1=r1, …)` and constructing it bare and then assigning `t.k1 = r1; …` in the same order lead
to the *same world*: same values, same refs table, same `_sync_refs` watchers in the same
registration order on every source — hence the same behaviour under every later history.  (For
parameters that may be assigned after construction at all: not constant, not readonly.) -/
theorem ctor_and_late_links_equivalent (c : Cfg) (dflt : List Val) (kws : List (Nat × Rhs)) (w w1 : World)
    (hfresh : ∀ (s : Nat) (ws : List (Nat × List Nat)) (names : List Nat), w.watch[s]? = some ws → (w.tgts.length, names) ∉ ws)
    (hlen : ∀ ds, c.decls[w.tgts.length]? = some ds → ds.length ≤ dflt.length)
    (hkeys : (kws.map (·.1)).Nodup)
    (hfree : ∀ kv ∈ kws, ∀ d, c.decl w.tgts.length kv.1 = some d → d.constant = false ∧ d.readonly = false)
    (hc : construct c dflt kws w = (.ok, w1)) :
    ∃ w0, construct c dflt [] w = (.ok, w0) ∧
      runOps c (kws.map fun kv => .set w.tgts.length kv.1 kv.2) w0 = w1 :=
  ctor_late_equiv hfresh hlen hkeys hfree hc

/-- **C08, what the driver runs.**  With no user watcher that assigns and no parameter locked on an
instance, an operation of the hook layer (Refs/Hooks.lean) does exactly what `step` does. -/
theorem driver_semantics_is_the_model (c : Cfg) (h : HCfg) (hh : noHooks h) (op : Op) (w : World) :
    stepH c h (.base op) { w := w, locked := [] } =
      ((step c op w).1, { w := (step c op w).2.1, locked := [] }, (step c op w).2.2) :=
  stepH_eq_step hh op w

/-- a user watcher's assignment that is rejected (invalid for the sibling, readonly, constant outside a
sync) leaves the world as it is and announces nothing — C02 inside a dispatch -/
theorem rejected_watcher_assignment_no_effect (c : Cfg) (L : List (Nat × Nat)) (t b : Nat) (k : Int) (inSync : List Nat)
    (ec : Bool) (w : World) (tg : Target) (d : PDecl) (old : Val) (e : Err) (w1 : World) (evs : List (Nat × Val))
    (htg : w.tgts[t]? = some tg) (hd : c.decl t b = some d) (hr : tg.read b = some old)
    (hrej : setCore c t b (effDecl L t b d) old (some (.int k))
      (if d.allowRefs && (dictGet tg.refs b).isSome && !inSync.contains b then Relink.drop else Relink.keep) ec w = (.raised e, w1, evs)) :
    hookAssign c L t b k inSync ec w = (w, []) := by
  unfold hookAssign
  simp only [htg, hd, hr, hrej]

/-! ### witnesses: the hypotheses are satisfiable, and the two `_full` statements are false -/

namespace Example08

/-- T0: p0 Integer(bounds=(0,10)), p1 Integer, p2 Range(bounds=(0,10), nested_refs) — all allow_refs -/
def c : Cfg := { F := fun k xs => k + xs.foldl (· + ·) 0, nsp := 2,
                 decls := [[{ kind := .int, lo := some 0, hi := some 10, constant := false, readonly := false, allowRefs := true, nestedRefs := false },
                            { kind := .int, lo := none, hi := none, constant := false, readonly := false, allowRefs := true, nestedRefs := false },
                            { kind := .pair, lo := some 0, hi := some 10, constant := false, readonly := false, allowRefs := true, nestedRefs := true }]] }

def dflt : List Val := [.int 0, .int 0, .tup [0, 0]]
def init : World := { src := [[1, 2], [3, 4]], watch := [[], []], tgts := [], stack := [] }

/-- `T0(p0=S0.param.v0, p1=S0.param.v0, p2=(S0.param.v0, bind(f_0, S1.param.v1)))` -/
def kws1 : List (Nat × Rhs) := [(0, .atom (.par 0 0)), (1, .atom (.par 0 0)), (2, .cont [.par 0 0, .fn [(1, 1)] 0 false none])]
def w1 : World := (construct c dflt kws1 init).2
def d1 : PDecl := { kind := .int, lo := none, hi := none, constant := false, readonly := false, allowRefs := true, nestedRefs := false }

theorem hlen0 (w : World) (hw : w.tgts.length = 0) : ∀ ds, c.decls[w.tgts.length]? = some ds → ds.length ≤ dflt.length := by
  intro ds h; rw [hw] at h; simp [c] at h; subst h; decide

theorem w1_reachable : Reachable c [] w1 :=
  .construct dflt kws1 (.init [[1, 2], [3, 4]]) (hlen0 _ rfl) (by decide)

/-- a reachable world with three live links of three kinds: the invariant theorem is not vacuous -/
example : Reachable c [] w1 ∧ w1.tgts.map (·.refs.length) = [3] ∧
    w1.tgts.map (·.vals) = [[some (.int 1), some (.int 1), some (.tup [1, 4])]] := ⟨w1_reachable, by decide, by decide⟩

/-- an ordinary source update propagates into all three -/
example : (step c (.srcSet 0 0 5) w1).1 = .ok ∧
    (step c (.srcSet 0 0 5) w1).2.1.tgts.map (·.vals) = [[some (.int 5), some (.int 5), some (.tup [5, 4])]] := by decide

/-- `S0.v0 = 50`: invalid for p0 (bounds), valid for p1 — the update raises out of `_sync_refs` at p0 and
p1 is never written -/
def w2 : World := (step c (.srcSet 0 0 50) w1).2.1

example : (step c (.srcSet 0 0 50) w1).1 = .raised .value ∧
    w2.src = [[50, 2], [3, 4]] ∧ w2.tgts.map (·.vals) = [[some (.int 1), some (.int 1), some (.tup [1, 4])]] := by decide

theorem linked_value_tracks_reference_full_refuted : ¬ linked_value_tracks_reference_full := by
  intro hfull
  have hr : Reachable c (staleAfter c (.srcSet 0 0 50) w1 []) w2 := .step _ w1_reachable
  have := hfull c _ w2 hr 0 ⟨[some (.int 1), some (.int 1), some (.tup [1, 4])], dflt,
      [(0, .atom (.par 0 0)), (1, .atom (.par 0 0)), (2, .cont [.par 0 0, .fn [(1, 1)] 0 false none])]⟩
    1 (.atom (.par 0 0)) d1 (.int 50) (by decide) (by decide) (by decide) (by decide) (by decide) (by decide)
  revert this; decide

/-- the raising update made S0.v0 stale; the next successful one (7 is valid for everybody) makes it fresh
again and every link holds the current value: "invalid, then valid again" -/
example : staleAfter c (.srcSet 0 0 50) w1 [] = [(0, 0)] ∧
    staleAfter c (.srcSet 0 0 7) w2 [(0, 0)] = [] ∧
    (step c (.srcSet 0 0 7) w2).2.1.tgts.map (·.vals) = [[some (.int 7), some (.int 7), some (.tup [7, 4])]] := by decide

/-- `t.p0 = 5` (plain) on `T0(p0=S0.param.v0)`: the link is gone and so is the watcher on S0.v0 -/
def v1 : World := (construct c dflt [(0, .atom (.par 0 0))] init).2
def v2 : World := (step c (.set 0 0 (.atom (.lit 5))) v1).2.1

example : (step c (.set 0 0 (.atom (.lit 5))) v1).1 = .ok ∧ v1.watch = [[(0, [0])], []] ∧ v2.tgts.map (·.refs) = [[]] ∧ v2.watch = [[], []] := by decide

/-- relinking instead (`t.p0 = S1.param.v0`) moves the watcher -/
example : (step c (.set 0 0 (.atom (.par 1 0))) v1).2.1.watch = [[], [(0, [0])]] := by decide

/-- a reference that raises Skip on its first evaluation (`bind(f, S1.param.v0)`, f skips below 5,
S1.v0 = 3) assigned over the link to S0.v0: value untouched, link switched, watcher moved; the old
source no longer drives the parameter, and once the new source yields a value the parameter takes it -/
def sk : Rhs := .atom (.fn [(1, 0)] 0 false (some 5))
def u1 : World := (step c (.set 0 0 sk) v1).2.1
example : step c (.set 0 0 sk) v1 = (.ok, u1, []) ∧ u1.tgts.map (·.vals) = [[some (.int 1), none, none]] ∧
    u1.tgts.map (·.refs) = [[(0, sk)]] ∧ u1.watch = [[], [(0, [0])]] ∧
    (runOps c [.srcSet 0 0 7] u1).tgts.map (·.vals) = [[some (.int 1), none, none]] ∧
    (runOps c [.srcSet 0 0 7, .srcSet 1 0 4] u1).tgts.map (·.vals) = [[some (.int 1), none, none]] ∧
    (runOps c [.srcSet 0 0 7, .srcSet 1 0 4, .srcSet 1 0 6] u1).tgts.map (·.vals) = [[some (.int 6), none, none]] := by decide

/-- constructor and late links give the same world -/
example : runOps c [.set 0 0 (.atom (.par 0 0)), .set 0 1 (.atom (.par 0 0)), .set 0 2 (.cont [.par 0 0, .fn [(1, 1)] 0 false none])]
    (construct c dflt [] init).2 = w1 := by decide

end Example08

end ParamVerif.Refs
