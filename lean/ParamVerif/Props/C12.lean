/-
C12 — Instances and classes do not leak values or metadata into each other.

  "Assigning a parameter value or modifying the attributes (bounds, objects, constant, ...) of a
   Parameter on one instance never changes what the class, its subclasses or any other instance see
   (unless the Parameter opted out with `per_instance=False`); an instance that never set a
   non-instantiated parameter follows later changes of the class default, one that did keeps its own
   value. Mutable defaults of `instantiate=True` parameters are copied per instance so in-place
   mutation stays private, `instantiate=False` defaults are shared by identity, and a constant
   parameter keeps the object it had at construction even if the class default is reassigned."
   (all interleavings of instance creation, instance/class/subclass assignments, in-place mutation
    of values and of mutable Parameter attributes, over hierarchies with instantiate / per_instance /
    constant variations)

Model: Store/Objects.lean (`step`, `run`).  Reading of "what X sees": the record of X (the class
`__dict__` Parameters / the instance's values and Parameter copies) together with the contents of
every container X references — so "sees the same" is: same records, and every container referenced
from outside the acting instance (`heldOutside`) keeps its contents.  `Inv` (Store/ObjectsLemmas.lean)
holds in the empty world and is preserved by every operation, hence along every interleaving.

`C12_full` is the conjunction of the clauses of the statement (each clause a `def … : Prop` next to the
theorem that proves it):
  `InstanceWritesInvisible` ∧ `ClassWritesInvisible` ∧ `ValuesFollow` ∧ `SharedByIdentity` ∧ `CopiedPrivate` ∧
  `ConstantKept`  (= `C12_except_construction`, PROVED: `C12_full_except_construction`)   ∧   `ConstructionInvisible`.
The last conjunct is FALSE of the code, so the full statement is: constructing an instance with a keyword
value that a `Selector(check_on_set=False)` does not list yet appends it to the *class* Parameter's list
(`construction_is_the_failing_clause`, `C12_full_refuted`; witness replayed on the implementation by
harness/props/c12.py `WITNESS`).  What holds of construction is `creation_invisible_elsewhere_partial`.

What the model cannot say (so neither do the theorems): containers are flat lists of ints — `copy.deepcopy` and
`copy.copy` coincide, "in-place mutation stays private" is one level deep; ints are the only immutable values
(identical iff equal; C14 treats equal-but-distinct objects); a subclass that redeclares a Parameter gets an
unrelated object (C11 treats inheritance of slot values); no watchers, `param.update`, `set_default`.
Only property theorems and their non-vacuity examples live here; lemmas are in Store/ObjectsLemmas.lean and
Store/ObjectsFrames.lean.
-/
import ParamVerif.Store.ObjectsFrames

namespace ParamVerif.Objects
open ParamVerif.Store

/-- the operations performed *on an instance* after its construction: `obj.x = v`, `obj.param.x`,
`obj.param.x.<attr> = v`, in-place mutation of a container attribute of `obj.param.x` -/
def instOp : Op → Option (InstId × Name)
  | .setVal (.inst i) x _ => some (i, x)
  | .access i x => some (i, x)
  | .slotSet (.inst i) x _ => some (i, x)
  | .slotMut (.inst i) x _ => some (i, x)
  | _ => none

-- `classOp` (operations addressed to a class) and `assigns` (`obj.x = v` ↦ `(obj, x)`) are defined in
-- Store/ObjectsFrames.lean

/-- the history never assigns `x` on instance `i` (`obj.x = v` is the only operation that stores a value) -/
def neverSets (i : InstId) (x : Name) (ops : List Op) : Prop := ∀ op ∈ ops, assigns op ≠ some (i, x)

/-- "unless the Parameter opted out with `per_instance=False`": instance `i` has, or may get, a
Parameter object of its own for `x` -/
def usesOwn (w : World) (i : InstId) (x : Name) : Prop :=
  ∃ (I : Inst) (k' : ClsId) (P : PObj), w.insts[i]? = some I ∧ w.resolve I.cls x = some (k', P) ∧
    ((aget I.params x).isSome ∨ P.perInstance = true)

/-- "never changes what the class, its subclasses or any other instance see", for a step `w → w'`
made on behalf of instance `i` -/
def InvisibleElsewhere (w w' : World) (i : InstId) : Prop :=
  w'.classes = w.classes ∧ (∀ j : Nat, j ≠ i → j < w.insts.length → w'.insts[j]? = w.insts[j]?) ∧
  (∀ c : Nat, heldOutside w i c → deref w'.cells c = deref w.cells c)

/-! ## Every interleaving keeps the invariant -/

/-- **C12 (invariant, one step).** -/
theorem step_preserves_inv (w : World) (op : Op) (inv : Inv w) : Inv (step w op).1 := by
  obtain ⟨h, e⟩ := step_effect w op
  exact e.preserves_inv inv

/-- **C12 (invariant, all interleavings).** -/
theorem run_preserves_inv (ops : List Op) : ∀ (w : World), Inv w → Inv (run w ops) := by
  induction ops with
  | nil => intro w h; exact h
  | cons op ops ih => intro w h; exact ih _ (step_preserves_inv w op h)

/-- every world reached from nothing by any interleaving of the operations satisfies the invariant -/
theorem reachable_inv (ops : List Op) : Inv (run World.empty ops) :=
  run_preserves_inv ops _ Inv.empty

/-! ## Instance writes are invisible elsewhere -/

theorem instEffect_of_instOp {w : World} {op : Op} {i : InstId} {x : Name}
    (ht : instOp op = some (i, x)) (hown : usesOwn w i x) : InstEffect w (step w op).1 i := by
  obtain ⟨I, k', P, hI, hr, ho⟩ := hown
  cases op with
  | mkClass _ _ => simp [instOp] at ht
  | mkInst _ _ => simp [instOp] at ht
  | mutVal _ _ _ => simp [instOp] at ht
  | mutItem _ _ _ _ => simp [instOp] at ht
  | setVal t y v =>
    cases t with
    | cls k => simp [instOp] at ht
    | inst j => simp [instOp] at ht; obtain ⟨rfl, rfl⟩ := ht; exact doSetInst_own hI hr ho
  | access j y => simp [instOp] at ht; obtain ⟨rfl, rfl⟩ := ht; exact doAccess_effect w j y
  | slotSet t y s =>
    cases t with
    | cls k => simp [instOp] at ht
    | inst j => simp [instOp] at ht; obtain ⟨rfl, rfl⟩ := ht; exact doSlotSet_own hI hr ho
  | slotMut t y m =>
    cases t with
    | cls k => simp [instOp] at ht
    | inst j => simp [instOp] at ht; obtain ⟨rfl, rfl⟩ := ht; exact doSlotMut_own hI hr ho
  | sharedFail => simp [instOp] at ht

/-- clause 1: in any world satisfying the invariant (every reachable one), an operation on an instance that has, or may
get, its own Parameter object is invisible to every class and every other instance -/
def InstanceWritesInvisible : Prop :=
  ∀ (w : World) (op : Op) (i : InstId) (x : Name), Inv w → instOp op = some (i, x) → usesOwn w i x →
    InvisibleElsewhere w (step w op).1 i

/-- **C12 (instance_write_invisible_elsewhere).**  In any reachable world, assigning a value on an
instance, touching `obj.param.x` for the first time, assigning or mutating in place an attribute of
`obj.param.x` (values *and* Parameter attributes) changes no class `__dict__`, no other instance's
record and the contents of no container that a class or another instance references — unless the
Parameter opted out with `per_instance=False`.  Also when the operation raises. -/
theorem instance_write_invisible_elsewhere : InstanceWritesInvisible := by
  intro w op i x inv ht hown
  have e := instEffect_of_instOp ht hown
  refine ⟨e.classesEq, fun j hj _ => e.othersEq j hj, ?_⟩
  intro c ho
  apply Classical.byContradiction
  intro hne
  have hc : c < w.cells.length := by
    rcases ho with h | ⟨j, J, _, hJ, h⟩
    · exact inv.boundedCls c h
    · exact inv.boundedInst j J hJ c h
  obtain ⟨I, hI, hs⟩ := e.touched c hc hne
  exact inv.slotPriv i I hI c hs ho

/-- … along every history: whatever happened before, the next instance write is invisible elsewhere. -/
theorem instance_write_invisible_after_any_history (ops : List Op) (op : Op) (i : InstId) (x : Name)
    (ht : instOp op = some (i, x)) (hown : usesOwn (run World.empty ops) i x) :
    InvisibleElsewhere (run World.empty ops) (step (run World.empty ops) op).1 i :=
  instance_write_invisible_elsewhere _ op i x (reachable_inv ops) ht hown

/-- **C12 (private stays private).**  No operation whatsoever makes a container that only instance
`i` references visible to a class or to another instance. -/
theorem private_stays_private (w : World) (op : Op) (i : InstId) (c : Nat)
    (hc : c < w.cells.length) (hp : ¬ heldOutside w i c) : ¬ heldOutside (step w op).1 i c := by
  obtain ⟨h, e⟩ := step_effect w op
  exact e.private_stays_private i c hc hp

theorem private_stays_private_run (ops : List Op) : ∀ (w : World) (i : InstId) (c : Nat),
    c < w.cells.length → ¬ heldOutside w i c → ¬ heldOutside (run w ops) i c := by
  induction ops with
  | nil => intro w i c _ h; exact h
  | cons op ops ih =>
    intro w i c hc hp
    obtain ⟨h, e⟩ := step_effect w op
    exact ih _ i c (Nat.lt_of_lt_of_le hc e.len) (e.private_stays_private i c hc hp)

/-! ## Construction -/

/-- the clause for construction: in every reachable world `K(**kwargs)` is invisible to every class and every
existing instance.  FALSE of the code (`construction_is_the_failing_clause`). -/
def ConstructionInvisible : Prop :=
  ∀ (ops : List Op) (k : ClsId) (kwargs : List (Name × Lit)),
    InvisibleElsewhere (run World.empty ops) (doMkInst (run World.empty ops) k kwargs).1 (run World.empty ops).insts.length

/-- **C12 (creation, partial).**  Constructing an instance changes no class `__dict__`, no existing
instance record and the contents of no existing container, PROVIDED no keyword gives a
`Selector(check_on_set=False)` a value its class-level `objects` does not list yet (`kwargSafe`).
Also when the constructor raises. -/
theorem creation_invisible_elsewhere_partial (w : World) (inv : Inv w) (k : ClsId)
    (kwargs : List (Name × Lit)) (hs : ∀ e ∈ kwargs, kwargSafe w k e) :
    InvisibleElsewhere w (doMkInst w k kwargs).1 w.insts.length := by
  obtain ⟨_, h2, h3⟩ := doMkInst_effect w k kwargs
  refine ⟨h2, fun j _ hj => h3 j hj, ?_⟩
  intro c ho
  have hc : c < w.cells.length := by
    rcases ho with h | ⟨j, J, _, hJ, h⟩
    · exact inv.boundedCls c h
    · exact inv.boundedInst j J hJ c h
  exact doMkInst_frame inv.boundedCls hs c hc

/-- the witness: `class A: s = Selector(objects=[1, 2], default=1, check_on_set=False)`, one instance -/
def c12Decl : Decl :=
  { name := 1, kind := .selector, default := .int 1, instantiate := false, constant := false,
    perInstance := true, checkOnSet := false, boundsTup := none, boundsList := none, objects := some [1, 2] }
def c12Witness : World := run World.empty [.mkClass [] [c12Decl], .mkInst 0 []]

/-- **the construction clause is false**: in the witness world `A(s=99)` changes the list the class Parameter
`A.param.s` (and with it every other instance) sees, from `[1, 2]` to `[1, 2, 99]`. -/
theorem construction_is_the_failing_clause : ¬ ConstructionInvisible := by
  intro h
  have := (h [.mkClass [] [c12Decl], .mkInst 0 []] 0 [(1, .int 99)]).2.2 0
    (Or.inl ⟨{ mro := [0], own := [(1, (declare [] 0 c12Decl).1)] }, by decide, (1, (declare [] 0 c12Decl).1),
      by decide, by decide⟩)
  revert this
  decide

/-! ## Defaults, own values, copies -/

/-- An instance without a value of its own for `x` reads, in every world, the object that is the class default
*in that world*.  (This is how `Parameter.__get__` is written — the definition of `getInst`; the statement about
*histories* is `set_instance_keeps_own` below.) -/
theorem unset_instance_follows_class_default (w : World) (i : InstId) (I : Inst) (x : Name)
    (hI : w.insts[i]? = some I) (hunset : aget I.values x = none) :
    w.getInst i x = w.getCls I.cls x := by
  simp [World.getInst, World.inst?, hI, hunset, World.getCls]

/-- class-level operations never touch an instance record … -/
theorem class_op_keeps_instances (w : World) (op : Op) (hc : classOp op = true) :
    (step w op).1.insts = w.insts := by
  cases op with
  | mkClass mro decls => exact (doMkClass_effect w mro decls).instsEq
  | mkInst _ _ => simp [classOp] at hc
  | access _ _ => simp [classOp] at hc
  | setVal t x v =>
    cases t with
    | inst i => simp [classOp] at hc
    | cls k => exact (doSetCls_effect w k x v).instsEq
  | mutVal t x n => exact (doMutVal_frame w t x n).2.1
  | mutItem t x i n => exact (doMutItem_frame w t x i n).2.1
  | slotSet t x s =>
    cases t with
    | inst i => simp [classOp] at hc
    | cls k => exact (doSlotSet_cls w k x s).instsEq
  | slotMut t x m =>
    cases t with
    | inst i => simp [classOp] at hc
    | cls k => exact (doSlotMut_cls w k x m).instsEq
  | sharedFail => rfl

theorem class_ops_keep_instances (ops : List Op) : ∀ (w : World), (∀ op ∈ ops, classOp op = true) →
    (run w ops).insts = w.insts := by
  induction ops with
  | nil => intro w _; rfl
  | cons op ops ih =>
    intro w h
    show (run (step w op).1 ops).insts = w.insts
    rw [ih _ (fun o ho => h o (by simp [ho])), class_op_keeps_instances w op (h op (by simp))]

/-- clause 2 (the direction class → instance): a class-addressed operation (`K.x = v` — which may append to the
class Parameter's `objects` —, `K.x.append(v)`, `K.param.x.<attr> = v`, in-place changes of `K.param.x.<attr>`,
declaring a class) leaves every instance record as it is — stored values and per-instance Parameter copies —
and changes the contents of no container that an instance references and no class does; in particular of no
container in a slot of a per-instance Parameter copy -/
def ClassWritesInvisible : Prop :=
  ∀ (w : World) (op : Op), Inv w → classOp op = true →
    (step w op).1.insts = w.insts ∧
    (∀ (i : Nat) (I : Inst), w.insts[i]? = some I → ∀ c : Nat, heldByInst I c → ¬ heldByClass w c →
      deref (step w op).1.cells c = deref w.cells c) ∧
    (∀ (i : Nat) (I : Inst), w.insts[i]? = some I → ∀ c : Nat, slotCellOf I c →
      deref (step w op).1.cells c = deref w.cells c)

/-- **C12 (class_write_invisible_to_instances).**  Also when the operation raises. -/
theorem class_write_invisible_to_instances : ClassWritesInvisible := by
  intro w op inv hc
  have ht := step_cls_touch w op hc
  have key : ∀ (i : Nat) (I : Inst), w.insts[i]? = some I → ∀ c : Nat, heldByInst I c → ¬ heldByClass w c →
      deref (step w op).1.cells c = deref w.cells c := by
    intro i I hI c hh hn
    apply Classical.byContradiction
    intro hne
    exact hn (ht c (inv.boundedInst i I hI c hh) hne)
  refine ⟨class_op_keeps_instances w op hc, key, ?_⟩
  intro i I hI c hs
  exact key i I hI c (slotCellOf_held hs) (fun h => inv.slotPriv i I hI c hs (Or.inl h))

/-- a history of class-addressed operations assigns nothing on any instance -/
theorem classOps_neverSet {ops : List Op} (h : ∀ op ∈ ops, classOp op = true) (i : InstId) (x : Name) :
    neverSets i x ops := by
  intro op hop
  have := h op hop
  cases op with
  | setVal t y v =>
    cases t with
    | inst j => simp [classOp] at this
    | cls k => simp [assigns]
  | _ => simp [assigns]

/-- **C12 (stored values, any interleaving).**  Whatever the history does — class and subclass assignments,
other instances' writes, construction of further instances, `obj.param.x` accesses, Parameter-attribute changes
and in-place mutations on any target, assignments to *other* names of the same instance — as long as it does not
assign `x` on instance `i`, the entry for `x` in `i`'s stored values (a value, or "none stored") is what it was,
and so is `i`'s class. -/
theorem stored_value_survives_any_history (w : World) (ops : List Op) (i : InstId) (I : Inst) (x : Name)
    (hI : w.insts[i]? = some I) (hn : neverSets i x ops) :
    ∃ I', (run w ops).insts[i]? = some I' ∧ I'.cls = I.cls ∧ aget I'.values x = aget I.values x :=
  run_vals i x ops w hn I hI

/-- clause 3: "an instance that never set a (non-instantiated) parameter follows later changes of the class default,
one that did keeps its own value" — over every interleaving that does not assign `x` on that instance -/
def ValuesFollow : Prop :=
  ∀ (w : World) (ops : List Op) (i : InstId) (I : Inst) (x : Name), w.insts[i]? = some I → neverSets i x ops →
    (∀ v, aget I.values x = some v → (run w ops).getInst i x = some v) ∧
    (aget I.values x = none → (run w ops).getInst i x = (run w ops).getCls I.cls x)

/-- **C12 (set_instance_keeps_own / unset follows the class).**  An instance that holds a value of its own for `x`
still reads exactly that object after ANY history that does not assign `x` on it; one that holds none reads the
class default current after that history (whatever class or subclass assignments it contained). -/
theorem set_instance_keeps_own : ValuesFollow := by
  intro w ops i I x hI hn
  obtain ⟨I', hI', hc, hv⟩ := run_vals i x ops w hn I hI
  constructor
  · intro v h; simp [World.getInst, World.inst?, hI', hv, h]
  · intro h; rw [← hc]; exact unset_instance_follows_class_default _ i I' x hI' (by rw [hv, h])

/-- a successful `K(**kwargs)` in a world satisfying the invariant, a parameter `x` of `K` that no keyword assigns, and
the class Parameter `P` (found in class `k'`) that serves it -/
structure Unassigned (w : World) (k : ClsId) (kwargs : List (Name × Lit)) (x : Name) (k' : ClsId) (P : PObj) : Prop where
  inv : Inv w
  ok : (doMkInst w k kwargs).2 = none
  vis : x ∈ w.visible k
  notKw : x ∉ assignedNames kwargs
  res : w.resolve k x = some (k', P)

/-- clause 4: `instantiate=False` defaults are shared by identity -/
def SharedByIdentity : Prop :=
  ∀ (w : World) (k : ClsId) (kwargs : List (Name × Lit)) (x : Name) (k' : ClsId) (P : PObj),
    Unassigned w k kwargs x k' P → P.instantiate = false →
    ∃ I, (doMkInst w k kwargs).1.insts = w.insts ++ [I] ∧
      (aget I.values x = none ∨ aget I.values x = some P.default) ∧
      (doMkInst w k kwargs).1.getInst w.insts.length x = some P.default

/-- **C12 (instantiate_false_shared_by_identity).**  After a successful `K(**kwargs)`, a parameter
not assigned by a keyword whose class Parameter has `instantiate=False` is either not stored on the new
instance at all (it reads the class default object itself) or — `constant=True` — stored as a
reference to the very object that is the class default. -/
theorem instantiate_false_shared_by_identity : SharedByIdentity := by
  intro w k kwargs x k' P ⟨inv, hok, hx, hkw, hr⟩ hi
  obtain ⟨I, h1, h2, _, h4⟩ := doMkInst_values inv.boundedCls hok
  have hinit := h4 x hx hkw k' P hr
  simp only [InitOK, hi, Bool.false_eq_true, if_false] at hinit
  have hcls := (doMkInst_effect w k kwargs).2.1
  have hres : (doMkInst w k kwargs).1.resolve k x = some (k', P) := by
    simp only [World.resolve, World.cls?, hcls] at hr ⊢; exact hr
  refine ⟨I, h1, ?_, ?_⟩
  · split at hinit
    · exact Or.inr hinit
    · exact Or.inl hinit
  · have hI : (doMkInst w k kwargs).1.insts[w.insts.length]? = some I := by rw [h1]; simp
    simp only [World.getInst, World.inst?, hI]
    split at hinit
    · simp [hinit]
    · simp [hinit, h2, hres]

/-- clause 6: "a constant parameter keeps the object it had at construction even if the class default is reassigned" -/
def ConstantKept : Prop :=
  ∀ (w : World) (k : ClsId) (kwargs : List (Name × Lit)) (x : Name) (k' : ClsId) (P : PObj),
    Unassigned w k kwargs x k' P → P.instantiate = false → P.constant = true →
    ∀ ops : List Op, neverSets w.insts.length x ops →
      (run (doMkInst w k kwargs).1 ops).getInst w.insts.length x = some P.default

/-- **C12 (constant_keeps_construction_object).**  A `constant` parameter whose default is not deep-copied
(`instantiate=False`: a Parameter made constant after its declaration, or a read-only one) and that is not given as
keyword is stored on the new instance as a reference to the object that is the class default at construction
time, and NO later history that does not assign it on that instance — in particular none that reassigns the class
default — changes what the instance holds.  (A Parameter declared `constant=True` has `instantiate=True`:
the instance then holds its own copy, `instantiate_true_copied_so_mutation_private`, equally for good.) -/
theorem constant_keeps_construction_object : ConstantKept := by
  intro w k kwargs x k' P ⟨inv, hok, hx, hkw, hr⟩ hi hc ops hops
  obtain ⟨I, h1, _, _, h4⟩ := doMkInst_values inv.boundedCls hok
  have hinit := h4 x hx hkw k' P hr
  simp only [InitOK, hi, hc, Bool.false_eq_true, if_false, if_true] at hinit
  have hI : (doMkInst w k kwargs).1.insts[w.insts.length]? = some I := by rw [h1]; simp
  exact (set_instance_keeps_own _ ops _ I x hI hops).1 _ hinit

/-- **C12 (instantiate / constant with a `None` or scalar default).**  When the class default is `None` (or
an int) at construction time, an `instantiate=True` or `constant` parameter not given as keyword is
still *stored* on the new instance (`deepcopy(None)` / a reference to `None`): the instance owns that
value, so reassigning the class default later — to a list, say — does not show through on it. -/
theorem scalar_default_stored_at_construction (w : World) (k : ClsId) (kwargs : List (Name × Lit))
    (x : Name) (k' : ClsId) (P : PObj) (hu : Unassigned w k kwargs x k' P)
    (hic : P.instantiate = true ∨ P.constant = true)
    (hd : P.default = .none ∨ ∃ n, P.default = .int n)
    (ops : List Op) (hops : neverSets w.insts.length x ops) :
    (run (doMkInst w k kwargs).1 ops).getInst w.insts.length x = some P.default := by
  obtain ⟨inv, hok, hx, hkw, hr⟩ := hu
  obtain ⟨I, h1, _, _, h4⟩ := doMkInst_values inv.boundedCls hok
  have hinit := h4 x hx hkw k' P hr
  have hI : (doMkInst w k kwargs).1.insts[w.insts.length]? = some I := by rw [h1]; simp
  have hv : aget I.values x = some P.default := by
    unfold InitOK at hinit
    by_cases hi : P.instantiate = true
    · simp only [hi, if_true] at hinit
      rcases hd with hd | ⟨n, hd⟩ <;> simp only [hd] at hinit ⊢ <;> exact hinit
    · rcases hic with h | h
      · exact absurd h hi
      · simp only [hi, h, if_true] at hinit
        simpa using hinit
  exact (set_instance_keeps_own _ ops _ I x hI hops).1 _ hv

/-- clause 5: "mutable defaults of `instantiate=True` parameters are copied per instance so in-place mutation stays
private" -/
def CopiedPrivate : Prop :=
  ∀ (w : World) (k : ClsId) (kwargs : List (Name × Lit)) (x : Name) (k' : ClsId) (P : PObj),
    Unassigned w k kwargs x k' P → P.instantiate = true → ∀ d : Nat, P.default = .ref d →
    ∃ (I : Inst) (c' : Nat), (doMkInst w k kwargs).1.insts = w.insts ++ [I] ∧
      aget I.values x = some (.ref c') ∧ c' ≠ d ∧ w.cells.length ≤ c' ∧
      deref (doMkInst w k kwargs).1.cells c' = deref w.cells d ∧
      ∀ ops : List Op, ¬ heldOutside (run (doMkInst w k kwargs).1 ops) w.insts.length c' ∧
        (neverSets w.insts.length x ops →
          (run (doMkInst w k kwargs).1 ops).getInst w.insts.length x = some (.ref c'))

/-- **C12 (instantiate_true_copied_so_mutation_private).**  For a parameter with `instantiate=True`
whose class default is a container `d`, a successful `K(**kwargs)` (not naming it) stores a *new*
container with equal contents; nobody but the new instance references it, not then and not after any
further interleaving of operations, and the instance goes on holding it until it is assigned there; hence
(`mutation_touches_one_container`, `class_write_invisible_to_instances`) mutating it in place is
seen by nobody else, and mutating the class default or another instance's copy does not change it. -/
theorem instantiate_true_copied_so_mutation_private : CopiedPrivate := by
  intro w k kwargs x k' P ⟨inv, hok, hx, hkw, hr⟩ hi d hd
  obtain ⟨I, h1, _, _, h4⟩ := doMkInst_values inv.boundedCls hok
  have hinit := h4 x hx hkw k' P hr
  simp only [InitOK, hi, hd, if_true] at hinit
  obtain ⟨c', hv, hfresh, hlt, hcont⟩ := hinit
  have hdl : d < w.cells.length :=
    inv.boundedCls d (resolve_held hr d (by simp [PObj.cells, hd, Val.cells]))
  have hI : (doMkInst w k kwargs).1.insts[w.insts.length]? = some I := by rw [h1]; simp
  refine ⟨I, c', h1, hv, by omega, hfresh, hcont, ?_⟩
  intro ops
  exact ⟨private_stays_private_run ops _ _ c' hlt ((doMkInst_effect w k kwargs).1.fresh_private inv hfresh),
    fun hn => (set_instance_keeps_own _ ops _ I x hI hn).1 _ hv⟩

/-- **C12 (in-place mutation).**  `target.x.append(v)` changes the contents of exactly one container,
the one `target.x` evaluates to; all records stay as they are.  So a mutation through an instance is
visible precisely to those who reference that same object (nobody else for an `instantiate=True`
copy; everybody sharing an `instantiate=False` default by identity). -/
theorem mutation_touches_one_container (w : World) (t : Target) (x : Name) (n : Int) :
    (step w (.mutVal t x n)).1.classes = w.classes ∧ (step w (.mutVal t x n)).1.insts = w.insts ∧
    ∀ c : Nat, w.read t x ≠ some (.ref c) → deref (step w (.mutVal t x n)).1.cells c = deref w.cells c :=
  ⟨(doMutVal_frame w t x n).1, (doMutVal_frame w t x n).2.1, (doMutVal_frame w t x n).2.2.2⟩

/-- … and so does `target.x[i].append(v)` on a tuple of lists: item `i` of the tuple `target.x` evaluates to, nothing else. -/
theorem item_mutation_touches_one_container (w : World) (t : Target) (x : Name) (i : Nat) (n : Int) :
    (step w (.mutItem t x i n)).1.classes = w.classes ∧ (step w (.mutItem t x i n)).1.insts = w.insts ∧
    ∀ c : Nat, (∀ cs, w.read t x = some (.tup cs) → cs[i]? ≠ some c) →
      deref (step w (.mutItem t x i n)).1.cells c = deref w.cells c :=
  ⟨(doMutItem_frame w t x i n).1, (doMutItem_frame w t x i n).2.1, (doMutItem_frame w t x i n).2.2.2⟩

/-- **C12 (nested mutable defaults).**  For a parameter with `instantiate=True` whose class default is a TUPLE of
lists (`([0, 0], [0, 0])` — immutable itself, its items are not), a successful `K(**kwargs)` (not naming it) stores a
tuple of NEW lists with equal contents (`copy.deepcopy` rebuilds the tuple around copies of its items); nobody but the
new instance references any of them, not then and not after any further interleaving — so `inst.x[i].append(v)` is
seen by nobody else — and the instance goes on holding that tuple until it is assigned there. -/
theorem instantiate_true_tuple_items_copied (w : World) (k : ClsId) (kwargs : List (Name × Lit)) (x : Name)
    (k' : ClsId) (P : PObj) (hu : Unassigned w k kwargs x k' P) (hi : P.instantiate = true)
    (ds : List Nat) (hd : P.default = .tup ds) :
    ∃ (I : Inst) (cs' : List Nat), (doMkInst w k kwargs).1.insts = w.insts ++ [I] ∧
      aget I.values x = some (.tup cs') ∧ (∀ c' ∈ cs', w.cells.length ≤ c' ∧ c' ∉ ds) ∧
      cs'.map (deref (doMkInst w k kwargs).1.cells) = ds.map (deref w.cells) ∧
      ∀ ops : List Op, (∀ c' ∈ cs', ¬ heldOutside (run (doMkInst w k kwargs).1 ops) w.insts.length c') ∧
        (neverSets w.insts.length x ops →
          (run (doMkInst w k kwargs).1 ops).getInst w.insts.length x = some (.tup cs')) := by
  obtain ⟨inv, hok, hx, hkw, hr⟩ := hu
  obtain ⟨I, h1, _, _, h4⟩ := doMkInst_values inv.boundedCls hok
  have hinit := h4 x hx hkw k' P hr
  simp only [InitOK, hi, hd, if_true] at hinit
  obtain ⟨cs', hv, hfresh, hcont⟩ := hinit
  have hdl : ∀ d ∈ ds, d < w.cells.length := fun d hdm =>
    inv.boundedCls d (resolve_held hr d (by simp [PObj.cells, hd, Val.cells, hdm]))
  have hI : (doMkInst w k kwargs).1.insts[w.insts.length]? = some I := by rw [h1]; simp
  refine ⟨I, cs', h1, hv, ?_, hcont, ?_⟩
  · intro c' hc'
    refine ⟨(hfresh c' hc').1, fun hm => ?_⟩
    have := hdl c' hm
    have := (hfresh c' hc').1
    omega
  · intro ops
    refine ⟨fun c' hc' => private_stays_private_run ops _ _ c' (hfresh c' hc').2
        ((doMkInst_effect w k kwargs).1.fresh_private inv (hfresh c' hc').1),
      fun hn => (set_instance_keeps_own _ ops _ I x hI hn).1 _ hv⟩

/-- **C12 (class-level copy-on-write).**  `K.x = v` on a class that inherits `x` installs a Parameter object
of its own whose mutable attribute values (`_objects`, `names`, list `bounds`, ...) are NEW containers: from
then on in-place changes of the subclass's Parameter attributes do not reach the ancestor's (only `default`
objects stay shared, as for per-instance copies). -/
theorem subclass_copy_has_own_slots (w : World) (k k' : ClsId) (x : Name) (lit : Lit) (P : PObj)
    (hr : w.resolve k x = some (k', P)) (hne : k' ≠ k) (hok : (doSetClsCore w k x lit).2 = none) :
    ∃ (K : Cls) (p : PObj), (doSetClsCore w k x lit).1.classes[k]? = some K ∧ aget K.own x = some p ∧
      p.owner = .cls k ∧ ∀ c : Nat, c ∈ p.slotCells → w.cells.length ≤ c := by
  unfold doSetClsCore at hok ⊢
  simp only [hr] at hok ⊢
  generalize hev : evalLit w.cells lit = r at hok ⊢
  obtain ⟨v, cells1⟩ := r
  obtain ⟨⟨extra, rfl⟩, _⟩ := evalLit_spec hev
  simp only [hne, if_false] at hok ⊢
  generalize hcs : copySlots (w.cells ++ extra) P.mslots = r2 at hok ⊢
  obtain ⟨ms, c2⟩ := r2
  obtain ⟨_, hfresh⟩ := copySlots_spec _ _ _ _ hcs
  simp only at hok ⊢
  have hk : ∃ K0, w.classes[k]? = some K0 := by
    unfold World.resolve World.cls? at hr
    cases h : w.classes[k]? with
    | none => simp [h] at hr
    | some K0 => exact ⟨K0, rfl⟩
  obtain ⟨K0, hK0⟩ := hk
  split at hok
  · simp at hok
  · rename_i cells2 _
    split at hok
    · simp at hok
    rename_i hro
    rw [if_neg hro]
    have h1 := setOwn_get (w := { w with cells := c2 }) (x := x)
      (p := { P with owner := Owner.cls k, mslots := ms }) hK0
    have h2 := setOwn_get (w := { ({ w with cells := c2 }).setOwn k x { P with owner := Owner.cls k, mslots := ms } with cells := cells2 })
      (x := x) (p := { P with owner := Owner.cls k, mslots := ms, default := v }) h1
    refine ⟨_, { P with owner := Owner.cls k, mslots := ms, default := v }, h2, aget_aset_self _ _ _, rfl, ?_⟩
    intro c hc
    simp only [PObj.slotCells, List.mem_map] at hc
    obtain ⟨sc, hsc, rfl⟩ := hc
    have := hfresh sc.1 sc.2 hsc
    simp at this; omega

/-- **C12 (read-only Parameters, class level).**  `K.x = v` on a read-only Parameter raises and leaves every class
`__dict__` and every instance record as it was — also when `K` only inherits `x`: the copy made for the assignment is
removed again whatever the exception type (here TypeError, raised after validation), so `K` goes on following its
parent. -/
theorem readonly_class_assignment_rejected (w : World) (k k' : ClsId) (x : Name) (lit : Lit) (P : PObj)
    (hr : w.resolve k x = some (k', P)) (hro : P.readonly = true) :
    (doSetClsCore w k x lit).2 ≠ none ∧ (doSetClsCore w k x lit).1.classes = w.classes ∧
    (doSetClsCore w k x lit).1.insts = w.insts := by
  unfold doSetClsCore
  simp only [hr]
  generalize evalLit w.cells lit = r
  obtain ⟨v, cells1⟩ := r
  simp only
  by_cases hk : k' = k
  · simp only [hk, if_true]
    split
    · exact ⟨by simp, rfl, rfl⟩
    · simp [hro]
  · simp only [hk, if_false]
    generalize copySlots cells1 P.mslots = r2
    obtain ⟨ms, c⟩ := r2
    simp only
    split
    · exact ⟨by simp, rfl, rfl⟩
    · simp [hro]

/-! ## The statement as a whole -/

/-- every clause of C12 but the one about construction -/
def C12_except_construction : Prop :=
  InstanceWritesInvisible ∧ ClassWritesInvisible ∧ ValuesFollow ∧ SharedByIdentity ∧ CopiedPrivate ∧ ConstantKept

/-- the full statement: all clauses -/
def C12_full : Prop := C12_except_construction ∧ ConstructionInvisible

/-- **C12, everything but construction, holds** -/
theorem C12_full_except_construction : C12_except_construction :=
  ⟨instance_write_invisible_elsewhere, class_write_invisible_to_instances, set_instance_keeps_own,
   instantiate_false_shared_by_identity, instantiate_true_copied_so_mutation_private,
   constant_keeps_construction_object⟩

/-- **C12 is false as stated** — and the conjunct that fails is the construction clause, the others being proved
(`C12_full_except_construction`): `C12_full ↔ ConstructionInvisible`, which is refuted. -/
theorem C12_full_refuted : ¬ C12_full := fun h => construction_is_the_failing_clause h.2

/-! ## Non-vacuity -/

def c12Decls : List Decl :=
  [{ name := 0, kind := .number, default := .int 5, instantiate := false, constant := false, perInstance := true,
     checkOnSet := false, boundsTup := none, boundsList := some (0, 10), objects := none },
   c12Decl,
   { name := 2, kind := .plain, default := .list [1, 2], instantiate := true, constant := false, perInstance := true,
     checkOnSet := false, boundsTup := none, boundsList := none, objects := none },
   { name := 3, kind := .plain, default := .list [7], instantiate := false, constant := true, perInstance := true,
     checkOnSet := false, boundsTup := none, boundsList := none, objects := none }]
def c12World : World := run World.empty [.mkClass [] c12Decls, .mkClass [0] [], .mkInst 0 [], .mkInst 1 []]

example : Inv c12World := reachable_inv _
-- instance 0 may get its own Parameter for every name; the hypotheses of the frame theorem hold
example : usesOwn c12World 0 1 := ⟨_, 0, _, rfl, rfl, Or.inr rfl⟩
example : instOp (.setVal (.inst 0) 1 (.int 77)) = some (0, 1) := rfl
-- `obj.s = 77` on a Selector without check_on_set: appended to the instance's own list only
example : deref (step c12World (.setVal (.inst 0) 1 (.int 77))).1.cells 1 = [1, 2] := by decide
example : (step c12World (.setVal (.inst 0) 1 (.int 77))).1.getInst 0 1 = some (.int 77) := by decide
-- construction: instantiate=True default copied (new container 5, contents [1,2]); constant default referenced (container 4)
example : c12World.getInst 0 2 = some (.ref 5) ∧ deref c12World.cells 5 = [1, 2] ∧ c12World.getCls 0 2 = some (.ref 3) := by decide
example : c12World.getInst 0 3 = some (.ref 4) ∧ c12World.getCls 0 3 = some (.ref 4) := by decide
example : (doMkInst c12World 0 []).2 = none := by decide
example : ∀ e ∈ ([(1, Lit.int 2)] : List (Name × Lit)), kwargSafe c12World 0 e := by
  intro e he; simp at he; subst he
  intro k' P n c hr _ _ hl ho
  simp at hl; subst hl
  have : c12World.resolve 0 1 = some (0, (declare [[0, 10]] 0 c12Decl).1) := by decide
  rw [this] at hr; simp at hr; obtain ⟨_, rfl⟩ := hr
  have : aget (declare [[0, 10]] 0 c12Decl).1.mslots Slot.objects = some 1 := by decide
  rw [this] at ho; simp at ho; subst ho
  decide
-- an interleaved history — another instance's write, a class assignment, `obj.param.x`, a Parameter-attribute edit and
-- an assignment to another name on the same instance, a further construction — that never assigns name 0 on instance 0:
def c12Mixed : List Op :=
  [.setVal (.inst 1) 0 (.int 3), .setVal (.cls 0) 0 (.int 7), .access 0 0, .slotSet (.inst 0) 0 (.boundsTup (some (0, 9))),
   .setVal (.inst 0) 1 (.int 2), .mkInst 1 []]
example : neverSets 0 0 c12Mixed := by
  intro op h
  simp only [c12Mixed, List.mem_cons, List.mem_nil_iff, or_false] at h
  rcases h with rfl | rfl | rfl | rfl | rfl | rfl <;> simp [assigns]
-- … instance 0 follows the class default through it; had it set the value first, it keeps its own
example : (run c12World c12Mixed).getInst 0 0 = some (.int 7) := by decide
example : (run (run c12World [.setVal (.inst 0) 0 (.int 4)]) c12Mixed).getInst 0 0 = some (.int 4) := by decide
-- the hypotheses of the construction clauses hold for `A()` and the `instantiate=True` list parameter 2
example : ∃ k' P, Unassigned c12World 0 [] 2 k' P ∧ P.instantiate = true := by
  cases h : c12World.resolve 0 2 with
  | none => exact absurd h (by decide)
  | some kP =>
    have hi : (c12World.resolve 0 2).map (·.2.instantiate) = some true := by decide
    rw [h] at hi; simp at hi
    exact ⟨kP.1, kP.2, ⟨reachable_inv _, by decide, by decide, by decide, h⟩, hi⟩
-- class → instance: once instance 0 has its own copy of the Selector (lists 7, 8), `A.s = 50` appends to the class
-- list (1) and not to the instance's
example : classOp (.setVal (.cls 0) 1 (.int 50)) = true := rfl
example : deref (run c12World [.access 0 1, .setVal (.cls 0) 1 (.int 50)]).cells 1 = [1, 2, 50] ∧
    deref (run c12World [.access 0 1, .setVal (.cls 0) 1 (.int 50)]).cells 7 = [1, 2] := by decide
-- a tuple of lists as `instantiate=True` default: every instance gets a tuple of NEW lists (class 0,1; instances 2,3 and 4,5);
-- `inst0.p[0].append(9)` changes list 2 only
def c12TupDecl : Decl :=
  { name := 0, kind := .plain, default := .tup [[0, 0], [1]], instantiate := true, constant := false, perInstance := true,
    checkOnSet := false, boundsTup := none, boundsList := none, objects := none }
def c12TupWorld : World := run World.empty [.mkClass [] [c12TupDecl], .mkInst 0 [], .mkInst 0 []]
example : c12TupWorld.getCls 0 0 = some (.tup [0, 1]) ∧ c12TupWorld.getInst 0 0 = some (.tup [2, 3]) ∧
    c12TupWorld.getInst 1 0 = some (.tup [4, 5]) := by decide
example : deref (run c12TupWorld [.mutItem (.inst 0) 0 0 9]).cells 2 = [0, 0, 9] ∧
    deref (run c12TupWorld [.mutItem (.inst 0) 0 0 9]).cells 0 = [0, 0] ∧
    deref (run c12TupWorld [.mutItem (.inst 0) 0 0 9]).cells 4 = [0, 0] := by decide
-- the object a constant parameter holds is what the attribute READS: instance 0 has a Parameter copy of its own (default
-- snapshot 5) made constant; after `A.p0 = 7` it reads 7, so `obj.p0 = 7` is accepted (a no-op) and `obj.p0 = 5` is refused
def c12ConstW : World := run c12World [.access 0 0, .slotSet (.inst 0) 0 (.constant true), .setVal (.cls 0) 0 (.int 7)]
example : c12ConstW.getInst 0 0 = some (.int 7) ∧ (step c12ConstW (.setVal (.inst 0) 0 (.int 7))).2 = none ∧
    (step c12ConstW (.setVal (.inst 0) 0 (.int 5))).2 = some .typeError := by decide
-- a read-only Parameter: `B.p = v` on the inheriting subclass is rejected and B goes on inheriting
def c12RoDecl : Decl :=
  { name := 0, kind := .number, default := .int 5, instantiate := false, constant := false, perInstance := true,
    checkOnSet := false, boundsTup := none, boundsList := some (0, 10), objects := none, readonly := true }
def c12RoWorld : World := run World.empty [.mkClass [] [c12RoDecl], .mkClass [0] []]
example : (c12RoWorld.resolve 1 0).map (·.2.readonly) = some true ∧
    (step c12RoWorld (.setVal (.cls 1) 0 (.int 7))).2 = some .typeError ∧
    (step c12RoWorld (.setVal (.cls 1) 0 (.int 7))).1.classes = c12RoWorld.classes := by decide
-- the subclass follows the class default until it is assigned there (copy-on-write)
example : (run c12World [.setVal (.cls 0) 0 (.int 7)]).getInst 1 0 = some (.int 7) := by decide
example : (run c12World [.setVal (.cls 1) 0 (.int 9), .setVal (.cls 0) 0 (.int 7)]).getInst 1 0 = some (.int 9) := by decide

end ParamVerif.Objects
