/-
C07 — Sub-object dependencies follow the object currently attached.

  "For a dependency written as a path through sub-objects ('a.b.x', 'a.param'), after any sequence of
   replacing objects along the path and assigning leaf parameters, the dependent method fires
   exactly once when, and only when, the value reached through the current path changes (the path
   resolving both before and after) - by a leaf assignment on the attached object or by attaching
   an object whose corresponding value differs - and never because of an object that has been
   detached. This holds for every dependency of the method, including several dependencies that
   pass through the same sub-object, and detached objects keep no watcher installed on the
   parent's behalf."

Model: Depends/Paths.lean (`_update_deps`, `_spec_to_obj`, `_resolve_dynamic_deps`, `_watch_group`,
`_skip_event`, the setter's rebinding, as written — after the repairs 90d0a70 (filter dict and
callback from EVERY dependency of a group) and f7ea1af (ALL dynamic dependencies of the method are
rebuilt after the pop)).  Helper lemmas: Depends/PathsLemmas.lean (`_spec_to_obj` = the walk from the
root, what one spec asks of each holder), PathsGroups.lean (grouping, the filter dict, the rebuild),
PathsStep*.lean (one assignment on an installed world).  Oracle: Depends/PathsSpec.lean.

The theorems hold for a method with ANY NUMBER of path dependencies, through the same or different
sub-objects, of any depth, whose body MAY RAISE on any of its invocations (`Scope`: the owner `t` is
the only object with dependent methods, one method, leaves are ordinary integer-valued Parameters,
every object has the parameters the paths name).  The rebinding callback runs before the method body
(`_sync_caller`), so an exception raised by the body leaves the dispatch loop with the dependencies
already rebound: `installed_preserved_by_assignment` and the call counts hold for such steps too.  `Installed` — the watchers of `t.m` are exactly one per object that currently holds one of
its dependencies, with the filter and callback all those dependencies ask for — is established by
the constructor, kept by every assignment and every construction, and implies all parts of the
statement.  Assumed per state (`Simple`): no resolution chain visits an object twice.  Without it the
statement is still false of the code: `_resolve_dynamic_deps` locates a holder by the FIRST position
of the object in the chain, so with an object attached below itself (`t.a = t`, `@depends('a.x')`) a
leaf assignment is compared through the wrong sub-path and skipped — `C07_full` (every history) is
refuted from that witness (recorded finding `object-attached-below-itself`, corpus/C07/self-cycle.json).
Batched assignments on one object (`param.update`, `batch_call_watchers`, keys possibly repeated) and
`discard_events` are modelled (`Step.update`, `Step.discard`) and checked by correspondence and the oracle; the
theorems are about unbatched assignments.
What the theorems do NOT cover (model + differential run + oracle only): `'a.param'` leaves (the
English names them; `Scope.leaf` excludes them), object-valued leaves (`'a.b'` next to `'a.b.x'`;
`Typing.leafInt`), several methods on the owner, several owners, batched steps (`C07_full_batch_refuted`),
discarded steps (`C07_full_discard_refuted`), inherited declarations and falsy objects (generator dimensions only:
the model takes the class's `_depends['watch']` as given and has no truth values — the code tests `is None`),
attach-from / detach-to `None` call counts (the English excludes them), and there is no theorem that the
log of a whole in-scope history satisfies `specHistoryP` — the per-step theorems and the oracle are tied
by `oracle_read_set_is_the_walk` only.  `history_keeps_installed` assumes per state only `SimpleAlong`.
Not modelled: nested batches, slots (`a.x:bounds`), `'a.b.param'`; `'a.param'`, several methods and several
owners are covered by the differential run and the oracle only.
-/
import ParamVerif.Depends.PathsStep4

namespace ParamVerif.Depends

/-! ## The full statement and its refutation -/

/-- **Full statement**: on every history the model's own observations satisfy the specification
(`specHistoryP`: not touched → no call; touched and a dependency's reached value changed → exactly
one call; unchanged → none; no watcher of `t.m` outside the current chains). -/
def C07_full : Prop :=
  ∀ (classes : List PClass) (steps : List Step), wfClasses classes = true →
    (specHistoryP classes 0 [] (steps.zip (modelObs classes steps))).2 = none

def nodeCls (ms : List PMethod) : PClass := ⟨["a", "b"], ["x", "y"], ms⟩
def meth (n : Name) (specs : List PathSpec) (raises : List Nat := []) : PMethod := ⟨n, specs, raises⟩
def mkVals (name : Int) (a b : Val) (x y : Int) : List (Name × Val) :=
  [("name", .int name), ("a", a), ("b", b), ("x", .int x), ("y", .int y)]

/-- witness: the owner attached below itself; `t.x = 5` is skipped -/
def witnessClasses : List PClass := [nodeCls [], nodeCls [meth "m" [⟨["a"], "x"⟩]]]
def witnessSteps : List Step := [.new 1 (mkVals 0 .none .none 0 0), .set 0 "a" (.ref 0), .set 0 "x" (.int 5)]

theorem C07_full_refuted : ¬ C07_full := by
  intro H
  have := H witnessClasses witnessSteps (by decide)
  revert this
  decide

/-- the former witnesses (before 90d0a70 / f7ea1af) now satisfy the specification -/
def sharedClasses : List PClass := [nodeCls [], nodeCls [meth "m" [⟨["a"], "x"⟩, ⟨["a"], "y"⟩]]]
def sharedSteps : List Step := [
  .new 0 (mkVals 0 .none .none 5 2), .new 0 (mkVals 0 .none .none 5 7),
  .new 1 (mkVals 0 (.ref 0) .none 0 0), .set 2 "a" (.ref 1)]
def rootsClasses : List PClass := [nodeCls [], nodeCls [meth "m" [⟨["a"], "x"⟩, ⟨["b"], "y"⟩]]]
def rootsSteps : List Step := [
  .new 0 (mkVals 0 .none .none 0 0), .new 0 (mkVals 0 .none .none 0 0), .new 0 (mkVals 0 .none .none 4 0),
  .new 1 (mkVals 0 (.ref 0) (.ref 1) 0 0), .set 3 "a" (.ref 2), .set 1 "y" (.int 2)]

example : (specHistoryP sharedClasses 0 [] (sharedSteps.zip (modelObs sharedClasses sharedSteps))).2 = none := by decide
example : (specHistoryP rootsClasses 0 [] (rootsSteps.zip (modelObs rootsClasses rootsSteps))).2 = none := by decide

/-! ## One method, any number of path dependencies -/

/-- what is assumed of a state: scope, typing of the parameters the paths name, simple resolution chains -/
structure Good (w : PWorld) (t : Oid) (m : Name) (specs : List PathSpec) : Prop where
  scope : Scope w t m specs
  typing : Typing w specs
  simple : Simple w t specs

/-- the oracle's notion of "touched" (`readPairs`, PathsSpec.lean) is the read set `depsFrom` the
theorems below are stated with -/
theorem oracle_read_set_is_the_walk {w : PWorld} {t : Oid} {m : Name} {specs : List PathSpec} (hg : Good w t m specs)
    {s : PathSpec} (hs : s ∈ specs) : readPairs w t s = depsFrom w t s.path s.leaf := by
  obtain ⟨ct, _, hct, _⟩ := hg.scope.tcls
  have := readPairs_eq_depsFrom w s.leaf (hg.scope.leaf s hs) (hg.scope.hasLeaf s hs) s.path t (classOf_lt hct)
    (fun n hn => ⟨(hg.scope.names s hs n hn).1, (hg.scope.names s hs n hn).2.1⟩)
  cases s
  exact this

/-- **C07 (never because of an object that has been detached).**  An assignment to a parameter that
the current walk of NONE of the method's paths reads — a parameter of a detached object, or an
unrelated parameter of an attached one — fires nothing, changes neither what any dependency reaches
nor what it reads, and leaves every watcher where it was. -/
theorem detached_never_fires {w w' : PWorld} {t : Oid} {m : Name} {specs : List PathSpec} {o : Oid} {p : Name} {v : Val}
    (hg : Good w t m specs) (hi : Installed w t m specs) (hstep : setParam w o p v = .ok w')
    (hun : ∀ s ∈ specs, (o, p) ∉ depsFrom w t s.path s.leaf) :
    w'.log = w.log ∧ Installed w' t m specs ∧
      ∀ s ∈ specs, follow w' (.ref t) s.elems = follow w (.ref t) s.elems ∧
        depsFrom w' t s.path s.leaf = depsFrom w t s.path s.leaf := by
  obtain ⟨h1, h2, _, _, h5⟩ := step_untouched hg.scope hg.typing hi hg.simple hstep hun
  exact ⟨h1, h2, fun s hs => ⟨(h5 s hs).2, (h5 s hs).1⟩⟩

/-- **C07 (fires exactly once iff the value reached through the current path changes — for every
dependency of the method).**  An assignment to a parameter that the walk of at least one dependency
reads — a root attribute of the owner, an attribute of an attached intermediate object, a leaf
parameter of an attached last object, shared by several dependencies or not — where the assigned
slot holds something (an object / a value, not `None`) before and after: the log gains exactly one
call of the method if for SOME dependency the value at the end of its path differs between before
and after (compared as a changes-only watcher compares), and no call if it differs for none. -/
theorem fires_iff_reached_value_changes {w w' : PWorld} {t : Oid} {m : Name} {specs : List PathSpec}
    {o : Oid} {p : Name} {v old : Val}
    (hg : Good w t m specs) (hi : Installed w t m specs) (hstep : setParam w o p v = .ok w')
    (hsim' : Simple w' t specs)
    (hto : ∃ s ∈ specs, (o, p) ∈ depsFrom w t s.path s.leaf) (hold : getParam w o p = some old)
    (ho : old ≠ .none) (hv : v ≠ .none) :
    w'.log = w.log ++ (if specs.all (fun s => valEq (follow w (.ref t) s.elems) (follow w' (.ref t) s.elems)) then []
      else [⟨t, m, readsOf w' t m⟩]) := by
  by_cases hot : o = t
  · subst hot
    obtain ⟨s, hs, h⟩ := hto
    obtain ⟨n0, rest0, hpe⟩ := List.exists_cons_of_ne_nil (hg.scope.path s hs)
    have hp : s.root = p := by rw [root_dep_unique hpe (hg.simple s hs) h]; simp [PathSpec.root, hpe]
    exact (step_root hg.scope hg.typing hi hg.simple hstep ⟨s, hs, hp⟩ hsim').2.2.2 old hold ho hv
  · exact (step_deeper hg.scope hg.typing hi hg.simple hstep hot hto).2.2.2 old hold ho hv

/-- **C07 (the invariant is kept by every assignment).**  Whatever is assigned — attach, replace,
detach at any level, leaf values, on attached or detached objects — afterwards the watchers of `t.m`
are again exactly those the (new) current paths need. -/
theorem installed_preserved_by_assignment {w w' : PWorld} {t : Oid} {m : Name} {specs : List PathSpec}
    {o : Oid} {p : Name} {v : Val}
    (hg : Good w t m specs) (hi : Installed w t m specs) (hstep : setParam w o p v = .ok w')
    (hsim' : Simple w' t specs) : Installed w' t m specs ∧ Good w' t m specs := by
  by_cases hto : ∃ s ∈ specs, (o, p) ∈ depsFrom w t s.path s.leaf
  · by_cases hot : o = t
    · subst hot
      obtain ⟨s, hs, h⟩ := hto
      obtain ⟨n0, rest0, hpe⟩ := List.exists_cons_of_ne_nil (hg.scope.path s hs)
      have hp : s.root = p := by rw [root_dep_unique hpe (hg.simple s hs) h]; simp [PathSpec.root, hpe]
      obtain ⟨h1, h2, h3, _⟩ := step_root hg.scope hg.typing hi hg.simple hstep ⟨s, hs, hp⟩ hsim'
      exact ⟨h1, h2, h3, hsim'⟩
    · obtain ⟨h1, h2, h3, _⟩ := step_deeper hg.scope hg.typing hi hg.simple hstep hot hto
      exact ⟨h1, h2, h3, hsim'⟩
  · have hun : ∀ s ∈ specs, (o, p) ∉ depsFrom w t s.path s.leaf := fun s hs h => hto ⟨s, hs, h⟩
    obtain ⟨_, h2, h3, h4, _⟩ := step_untouched hg.scope hg.typing hi hg.simple hstep hun
    exact ⟨h2, h3, h4, hsim'⟩

/-- **C07 (no watcher left on a detached object).**  In an installed state every watcher calling
`t.m` sits on an object of the current resolution chain of one of the method's paths — so after any
assignment (previous theorem) no detached object holds a watcher on the owner's behalf. -/
theorem no_watcher_left_on_detached {w : PWorld} {t : Oid} {m : Name} {specs : List PathSpec}
    (hi : Installed w t m specs) :
    ∀ x ∈ w.watchers, (∃ s ∈ specs, x.on ∈ chainObjsFrom w t s.path) ∧ x.owner = t ∧ x.method = m :=
  installed_on_chain hi

/-- the constructor of the owner (`_update_deps(init=True)`) establishes the invariant, calling nothing -/
theorem installed_by_constructor {w w' : PWorld} {cls : Nat} {vals : List (Name × Val)} {t : Oid} {m : Name}
    {specs : List PathSpec} (hnew : newObj w cls vals = .ok w') (ht : t = w.objs.length)
    (hw : w.watchers = [] ∧ w.dyn = []) (hg' : Good w' t m specs) : Installed w' t m specs ∧ w'.log = w.log :=
  new_owner_installed hnew ht hw hg'.scope

/-- the one genuine per-state assumption: along the history no resolution chain visits an object twice -/
def SimpleAlong (t : Oid) (specs : List PathSpec) : PWorld → List Step → Prop
  | w, [] => Simple w t specs
  | w, st :: rest => Simple w t specs ∧ ∀ w1, runStep w st = .ok w1 → SimpleAlong t specs w1 rest

def runSteps : PWorld → List Step → Except PErr PWorld
  | w, [] => .ok w
  | w, st :: rest =>
    match runStep w st with
    | .error e => .error e
    | .ok w1 => runSteps w1 rest

/-- a history inside the scope of the theorems: unbatched assignments, and constructions of objects whose
class has no dependent method and declares the parameters the paths name with the right kinds -/
def StepsInScope (classes : List PClass) (specs : List PathSpec) (steps : List Step) : Prop :=
  ∀ st ∈ steps, (∀ o kvs, st ≠ .update o kvs) ∧ (∀ o kvs, st ≠ .discard o kvs) ∧
    (∀ cls vals, st = .new cls vals → ∀ c, classes[cls]? = some c → ClassFits c specs)

/-- **C07 (after any sequence of replacing objects along the path and assigning leaf parameters).**
From an installed state satisfying the standing assumptions, along EVERY history of unbatched
assignments and constructions of method-less objects (`StepsInScope`) in which no resolution chain
ever visits an object twice (`SimpleAlong` — the only per-state assumption; scope and typing are
derived), the invariant and the assumptions hold at the end, hence at every point: the single-step
theorems above apply to every step.  Batched steps (`Step.update`) are modelled and checked by
correspondence and the oracle only (`C07_full_batch_refuted`). -/
theorem history_keeps_installed (t : Oid) (m : Name) (specs : List PathSpec) : ∀ (steps : List Step) (w w' : PWorld),
    StepsInScope w.classes specs steps → Installed w t m specs → Scope w t m specs → Typing w specs →
    SimpleAlong t specs w steps → runSteps w steps = .ok w' →
    Installed w' t m specs ∧ Good w' t m specs := by
  intro steps
  induction steps with
  | nil =>
    intro w w' _ hi hs hty hsim hr
    simp only [runSteps, Except.ok.injEq] at hr
    subst hr
    exact ⟨hi, hs, hty, hsim⟩
  | cons st rest ih =>
    intro w w' hin hi hs hty hsim hr
    obtain ⟨hsim0, hnext⟩ := hsim
    simp only [runSteps] at hr
    split at hr
    · simp at hr
    · rename_i w1 h1
      have hall := hnext w1 h1
      have hsim1 : Simple w1 t specs := by
        cases rest with
        | nil => exact hall
        | cons _ _ => exact hall.1
      have hcl : w1.classes = w.classes := runStep_classes h1
      have hstep : Installed w1 t m specs ∧ Scope w1 t m specs ∧ Typing w1 specs := by
        cases st with
        | set o p v =>
          obtain ⟨a, b⟩ := installed_preserved_by_assignment ⟨hs, hty, hsim0⟩ hi h1 hsim1
          exact ⟨a, b.scope, b.typing⟩
        | new cls vals =>
          obtain ⟨a, b⟩ := new_scope h1 hs hty (fun c hc => (hin _ (by simp)).2.2 cls vals rfl c hc)
          exact ⟨(new_other_installed h1 hs hi a).1, a, b⟩
        | update o kvs => exact absurd rfl ((hin _ (by simp)).1 o kvs)
        | discard o kvs => exact absurd rfl ((hin _ (by simp)).2.1 o kvs)
      exact ih w1 w' (by rw [hcl]; exact fun st hst => hin st (List.mem_cons_of_mem _ hst)) hstep.1 hstep.2.1 hstep.2.2 hall hr

/-- **The statement is false for batched replacements of two sub-objects** (no cycle, no sharing involved):
`t.param.update(a=…, b=…)` with `@depends('a.x','b.y')` calls the method twice (recorded finding
`batch-two-roots-stale-queued-watcher`, corpus/C07/batch-two-roots.json) — which is why `Step.update` is
outside the theorems. -/
def batchClasses : List PClass := [nodeCls [], nodeCls [meth "m" [⟨["a"], "x"⟩, ⟨["b"], "y"⟩]]]
def batchSteps : List Step := [
  .new 0 (mkVals 0 .none .none 1 0), .new 0 (mkVals 0 .none .none 0 1), .new 1 (mkVals 0 (.ref 0) (.ref 1) 0 0),
  .new 0 (mkVals 0 .none .none 2 0), .new 0 (mkVals 0 .none .none 0 2), .update 2 [("a", .ref 3), ("b", .ref 4)]]

theorem C07_full_batch_refuted :
    (specHistoryP batchClasses 0 [] (batchSteps.zip (modelObs batchClasses batchSteps))).2 ≠ none := by
  decide

/-- **The statement is false under `discard_events` on an intermediate object**: the owner's dependencies are
rebound by a callback carried by the owner's watcher on the intermediate object; `with discard_events(mid):
mid.b = new` drops that watcher's queued run together with the event, so the owner keeps its watcher on the
detached object and has none on the attached one — for good, not only inside the block (recorded finding
`discard-events-on-intermediate-loses-rebinding`, corpus/C07/discard-intermediate.json).  `Step.discard` is
outside the theorems. -/
def discardClasses : List PClass := [nodeCls [], nodeCls [meth "m" [⟨["a", "b"], "x"⟩]]]
def discardSteps : List Step := [
  .new 0 (mkVals 0 .none .none 0 0), .new 0 (mkVals 0 .none (.ref 0) 0 0), .new 1 (mkVals 0 (.ref 1) .none 0 0),
  .new 0 (mkVals 0 .none .none 0 0), .discard 1 [("b", .ref 3)]]

theorem C07_full_discard_refuted :
    (specHistoryP discardClasses 0 [] (discardSteps.zip (modelObs discardClasses discardSteps))).2 ≠ none := by
  decide

/-! ## Non-vacuity -/

-- (1) a depth-2 path: two leaves, a middle object, the owner with `@depends('a.b.x')`, constructed attached
def exClasses : List PClass := [nodeCls [], nodeCls [meth "m" [⟨["a", "b"], "x"⟩]]]
def exSpecs : List PathSpec := [⟨["a", "b"], "x"⟩]
def exSteps : List Step := [
  .new 0 (mkVals 0 .none .none 1 0),            -- 0: leaf x=1
  .new 0 (mkVals 0 .none (.ref 0) 0 0),         -- 1: middle, b = leaf 0
  .new 0 (mkVals 0 .none .none 1 0),            -- 2: another leaf x=1
  .new 0 (mkVals 0 .none .none 5 0)]            -- 3: another leaf x=5
def exW0 : PWorld := (runSteps (emptyWorld exClasses) exSteps).toOption.getD (emptyWorld exClasses)
def exW : PWorld := (newObj exW0 1 (mkVals 0 (.ref 1) .none 0 0)).toOption.getD exW0   -- 4: the owner, a = middle

example : Good exW 4 "m" exSpecs := ⟨scopeB_spec (by decide), typingB_spec (by decide), simpleB_spec (by decide)⟩
example : Installed exW 4 "m" exSpecs :=
  (installed_by_constructor (w := exW0) (cls := 1) (vals := mkVals 0 (.ref 1) .none 0 0) (by rfl) (by decide)
    (by decide) ⟨scopeB_spec (by decide), typingB_spec (by decide), simpleB_spec (by decide)⟩).1
example : exW.watchers.map shapeOf =
    [⟨4, ["a"], [("a", some [["b", "x"]])], false⟩, ⟨1, ["b"], [("b", some [["x"]])], true⟩, ⟨0, ["x"], [("x", none)], false⟩] := by decide
example : ((setParam exW 0 "x" (.int 2)).toOption.map (·.log.length)) = some 1 := by decide
example : ((setParam exW 1 "b" (.ref 2)).toOption.map (·.log.length)) = some 0 := by decide
example : ((setParam exW 1 "b" (.ref 3)).toOption.map (fun w => (w.log.length, w.watchers.map (·.on)))) = some (1, [4, 1, 3]) := by decide
example : (0, "x") ∈ depsFrom exW 4 ["a", "b"] "x" ∧ (2, "x") ∉ depsFrom exW 4 ["a", "b"] "x" := by decide

-- (2) two dependencies through the SAME sub-object and (3) through DIFFERENT sub-objects: the hypotheses
-- hold in the states of the former counterexamples
def shW0 : PWorld := (runSteps (emptyWorld sharedClasses) (sharedSteps.take 2)).toOption.getD (emptyWorld sharedClasses)
def shW : PWorld := (newObj shW0 1 (mkVals 0 (.ref 0) .none 0 0)).toOption.getD shW0
def shSpecs : List PathSpec := [⟨["a"], "x"⟩, ⟨["a"], "y"⟩]
example : Good shW 2 "m" shSpecs := ⟨scopeB_spec (by decide), typingB_spec (by decide), simpleB_spec (by decide)⟩
example : Installed shW 2 "m" shSpecs :=
  (installed_by_constructor (w := shW0) (cls := 1) (vals := mkVals 0 (.ref 0) .none 0 0) (by rfl) (by decide)
    (by decide) ⟨scopeB_spec (by decide), typingB_spec (by decide), simpleB_spec (by decide)⟩).1
-- one watcher on the owner (filter for `a`: both sub-paths), one on the sub-object for x and y
example : shW.watchers.map shapeOf =
    [⟨2, ["a"], [("a", some [["x"], ["y"]])], false⟩, ⟨0, ["x", "y"], [("x", none), ("y", none)], false⟩] := by decide
-- replacing the sub-object by one that differs only in `y` now calls `m` once
example : ((setParam shW 2 "a" (.ref 1)).toOption.map (·.log.length)) = some 1 := by decide

def rtW0 : PWorld := (runSteps (emptyWorld rootsClasses) (rootsSteps.take 3)).toOption.getD (emptyWorld rootsClasses)
def rtW : PWorld := (newObj rtW0 1 (mkVals 0 (.ref 0) (.ref 1) 0 0)).toOption.getD rtW0
def rtSpecs : List PathSpec := [⟨["a"], "x"⟩, ⟨["b"], "y"⟩]
example : Good rtW 3 "m" rtSpecs := ⟨scopeB_spec (by decide), typingB_spec (by decide), simpleB_spec (by decide)⟩
example : Installed rtW 3 "m" rtSpecs :=
  (installed_by_constructor (w := rtW0) (cls := 1) (vals := mkVals 0 (.ref 0) (.ref 1) 0 0) (by rfl) (by decide)
    (by decide) ⟨scopeB_spec (by decide), typingB_spec (by decide), simpleB_spec (by decide)⟩).1
-- after replacing `a`, a change of `b.y` is still announced
example : (((setParam rtW 3 "a" (.ref 2)).toOption.bind (fun w => (setParam { w with log := [] } 1 "y" (.int 2)).toOption)).map (·.log.length)) = some 1 := by decide

-- (4) the method raises on its 1st invocation, which happens while the nested object `a.b` is replaced:
-- the exception propagates (`raised`), the call is logged, and the watchers are those of the new path
def rsClasses : List PClass := [nodeCls [], nodeCls [meth "m" [⟨["a", "b"], "x"⟩] [1]]]
def rsW0 : PWorld := (runSteps (emptyWorld rsClasses) exSteps).toOption.getD (emptyWorld rsClasses)
def rsW : PWorld := (newObj rsW0 1 (mkVals 0 (.ref 1) .none 0 0)).toOption.getD rsW0
example : Good rsW 4 "m" exSpecs := ⟨scopeB_spec (by decide), typingB_spec (by decide), simpleB_spec (by decide)⟩
example : ((setParam rsW 1 "b" (.ref 3)).toOption.map (fun w => (w.raised, w.log.length, w.watchers.map (·.on)))) =
    some (true, 1, [4, 1, 3]) := by decide
example : ∀ w', setParam rsW 1 "b" (.ref 3) = .ok w' → Simple w' 4 exSpecs → Installed w' 4 "m" exSpecs :=
  fun w' h hs => (installed_preserved_by_assignment
    ⟨scopeB_spec (by decide), typingB_spec (by decide), simpleB_spec (by decide)⟩
    ((installed_by_constructor (w := rsW0) (cls := 1) (vals := mkVals 0 (.ref 1) .none 0 0) (by rfl) (by decide)
      (by decide) ⟨scopeB_spec (by decide), typingB_spec (by decide), simpleB_spec (by decide)⟩).1) h hs).1

end ParamVerif.Depends
