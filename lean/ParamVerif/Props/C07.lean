/-
C07 — Sub-object dependencies follow the object currently attached.

  "For a dependency written as a path through sub-objects ('a.b.x', 'a.param'), after any sequence of
   replacing objects along the path and assigning leaf parameters, the dependent method fires
   exactly once when, and only when, the value reached through the current path changes (the path
   resolving both before and after) - by a leaf assignment on the attached object or by attaching
   an object whose corresponding value differs - and never because of an object that has been
   detached. This holds for every dependency of the method, including several dependencies that
   pass through the same sub-object, and detached objects keep no watcher installed on the
   parent's behalf."

Model: Depends/Paths.lean (`_update_deps`, `_spec_to_obj`, `_resolve_dynamic_deps`, `_watch_group`,
`_skip_event`, the setter's rebinding, as written).  Helper lemmas: Depends/PathsLemmas.lean
(`_spec_to_obj` = the walk from the root; what one rebuild installs), Depends/PathsStep.lean (one
assignment on an installed world).  Oracle: Depends/PathsSpec.lean.

The sentence "This holds for every dependency of the method, including several dependencies that
pass through the same sub-object" is FALSE of the code (and of the model, which mirrors it): every
object on which several dependencies of a method are registered — the owner itself as soon as the
method has two path dependencies — holds ONE watcher whose sub-path filter and parent-notification
callback come from `group[0]` only, and `_update_deps(attribute)` removes all dynamic watchers of a
method but rebuilds only those below `attribute`.  `C07_full` (the oracle holds of every history)
is refuted from the witnesses the check replays (corpus/C07/*.json); the theorems below are the
`_partial` form whose hypothesis `Scope` is the excluded class made explicit: the owner `t` is the
only object with dependent methods, ONE method with ONE path dependency (arbitrary depth, leaf an
ordinary Parameter), every object has the parameters the path names.  `Installed` (the watchers of
`t.m` are exactly those of a walk along the current path) is established by the constructor, kept by
every assignment and every construction, and implies all three parts of the statement.
Also assumed, per state: the resolution chain visits no object twice (forest-shaped graphs).
Not modelled: batching, slots (`a.x:bounds`), `'a.b.param'`.
-/
import ParamVerif.Depends.PathsStep

namespace ParamVerif.Depends

/-! ## The full statement and its refutation -/

/-- **Full statement**: on every history the model's own observations satisfy the specification
(`specHistoryP`: not touched → no call; touched and a dependency's reached value changed → exactly
one call; unchanged → none; no watcher of `t.m` outside the current chains) — for every number of
dependencies. -/
def C07_full : Prop :=
  ∀ (classes : List PClass) (steps : List Step), wfClasses classes = true →
    (specHistoryP classes 0 [] (steps.zip (modelObs classes steps))).2 = none

def nodeCls (ms : List PMethod) : PClass := ⟨["a", "b"], ["x", "y"], ms⟩
def mkVals (name : Int) (a b : Val) (x y : Int) : List (Name × Val) :=
  [("name", .int name), ("a", a), ("b", b), ("x", .int x), ("y", .int y)]

/-- witness (design probe p5): `@depends('a.x', 'a.y', watch=True) m`; the sub-object is replaced by
one that differs only in `y` — `m` is not called -/
def witnessClasses : List PClass := [nodeCls [], nodeCls [⟨"m", [⟨["a"], "x"⟩, ⟨["a"], "y"⟩]⟩]]
def witnessSteps : List Step := [
  .new 0 (mkVals 0 .none .none 5 2), .new 0 (mkVals 0 .none .none 5 7),
  .new 1 (mkVals 0 (.ref 0) .none 0 0), .set 2 "a" (.ref 1)]

theorem C07_full_refuted : ¬ C07_full := by
  intro H
  have := H witnessClasses witnessSteps (by decide)
  revert this
  decide

/-- second witness (dependencies below different sub-objects): `@depends('a.x', 'b.y')`; after
replacing `a`, a change of `b.y` is no longer announced -/
def witnessClasses2 : List PClass := [nodeCls [], nodeCls [⟨"m", [⟨["a"], "x"⟩, ⟨["b"], "y"⟩]⟩]]
def witnessSteps2 : List Step := [
  .new 0 (mkVals 0 .none .none 0 0), .new 0 (mkVals 0 .none .none 0 0), .new 0 (mkVals 0 .none .none 4 0),
  .new 1 (mkVals 0 (.ref 0) (.ref 1) 0 0), .set 3 "a" (.ref 2), .set 1 "y" (.int 2)]

theorem C07_full_refuted' : (specHistoryP witnessClasses2 0 [] (witnessSteps2.zip (modelObs witnessClasses2 witnessSteps2))).2 ≠ none := by
  decide

/-! ## The partial form: one method with one path dependency -/

/-- what is assumed of a state: scope, typing of the path parameters, a simple resolution chain -/
structure Good (w : PWorld) (t : Oid) (m : Name) (s : PathSpec) : Prop where
  scope : Scope w t m s
  objOnly : ObjOnly w s
  simple : (chainObjsFrom w t s.path).Nodup

/-- the oracle's notion of "touched" (`readPairs`, PathsSpec.lean) is the read set `depsFrom` the
theorems below are stated with -/
theorem oracle_read_set_is_the_walk {w : PWorld} {t : Oid} {m : Name} {s : PathSpec} (hg : Good w t m s) :
    readPairs w t s = depsFrom w t s.path s.leaf := by
  obtain ⟨ct, hct, _⟩ := hg.scope.tcls
  have := readPairs_eq_depsFrom w s.leaf hg.scope.leaf hg.scope.hasLeaf s.path t (classOf_lt hct)
    (fun n hn => ⟨(hg.scope.names n hn).1, (hg.scope.names n hn).2.1⟩)
  cases s
  exact this

/-- **C07 (never because of an object that has been detached).**  An assignment to a parameter the
current walk of the path does not read — a parameter of a detached object, or an unrelated
parameter of an attached one — fires nothing, changes neither the value reached nor what is read,
and leaves every watcher where it was. -/
theorem detached_never_fires {w w' : PWorld} {t : Oid} {m : Name} {s : PathSpec} {o : Oid} {p : Name} {v : Val}
    (hg : Good w t m s) (hi : Installed w t m s) (hstep : setParam w o p v = .ok w')
    (hun : (o, p) ∉ depsFrom w t s.path s.leaf) :
    w'.log = w.log ∧ follow w' (.ref t) s.elems = follow w (.ref t) s.elems ∧
      depsFrom w' t s.path s.leaf = depsFrom w t s.path s.leaf ∧ Installed w' t m s := by
  obtain ⟨h1, h2, _, _, h5, h6⟩ := step_untouched hg.scope hg.objOnly hi hg.simple hstep hun
  exact ⟨h1, h6, h5, h2⟩

/-- **C07 (fires exactly once iff the value reached through the current path changes), partial.**
An assignment to a parameter the walk reads — the root attribute of the owner, an attribute of an
attached intermediate object, or the leaf parameter of the attached last object — where the
assigned slot holds something (an object / a value, not `None`) before and after: the log gains
exactly one call of the method if the value at the end of the path differs between before and after
(compared as a changes-only watcher compares), and none otherwise. -/
theorem fires_iff_reached_value_changes_partial {w w' : PWorld} {t : Oid} {m : Name} {s : PathSpec}
    {o : Oid} {p : Name} {v old : Val}
    (hg : Good w t m s) (hi : Installed w t m s) (hstep : setParam w o p v = .ok w')
    (hsim' : (chainObjsFrom w' t s.path).Nodup)
    (hto : (o, p) ∈ depsFrom w t s.path s.leaf) (hold : getParam w o p = some old) (ho : old ≠ .none) (hv : v ≠ .none) :
    w'.log = w.log ++ (if valEq (follow w (.ref t) s.elems) (follow w' (.ref t) s.elems) then []
      else [⟨t, m, readsOf w' t m⟩]) := by
  by_cases hot : o = t
  · subst hot
    obtain ⟨n0, _, _, hroot, hfirst, _⟩ := built_unfold hg.scope
    have hp : p = s.root := by rw [hroot]; exact deps_snd_unique hg.simple hto hfirst
    exact (step_root hg.scope hg.objOnly hi hg.simple hstep hp hsim').2.2.2 old hold ho hv
  · exact (step_deeper hg.scope hg.objOnly hi hg.simple hstep hot hto hsim').2.2.2 old hold ho hv

/-- **C07 (the invariant is kept by every assignment).**  Whatever is assigned — attach, replace,
detach at any level, leaf values, on attached or detached objects — afterwards the watchers of `t.m`
are again exactly those of a walk along the (new) current path. -/
theorem installed_preserved_by_assignment {w w' : PWorld} {t : Oid} {m : Name} {s : PathSpec} {o : Oid} {p : Name} {v : Val}
    (hg : Good w t m s) (hi : Installed w t m s) (hstep : setParam w o p v = .ok w')
    (hsim' : (chainObjsFrom w' t s.path).Nodup) : Installed w' t m s ∧ Good w' t m s := by
  by_cases hto : (o, p) ∈ depsFrom w t s.path s.leaf
  · by_cases hot : o = t
    · subst hot
      obtain ⟨n0, _, _, hroot, hfirst, _⟩ := built_unfold hg.scope
      have hp : p = s.root := by rw [hroot]; exact deps_snd_unique hg.simple hto hfirst
      obtain ⟨h1, h2, h3, _⟩ := step_root hg.scope hg.objOnly hi hg.simple hstep hp hsim'
      exact ⟨h1, h2, h3, hsim'⟩
    · obtain ⟨h1, h2, h3, _⟩ := step_deeper hg.scope hg.objOnly hi hg.simple hstep hot hto hsim'
      exact ⟨h1, h2, h3, hsim'⟩
  · obtain ⟨_, h2, h3, h4, _, _⟩ := step_untouched hg.scope hg.objOnly hi hg.simple hstep hto
    exact ⟨h2, h3, h4, hsim'⟩

/-- **C07 (no watcher left on a detached object).**  In an installed state every watcher calling
`t.m` sits on an object of the current resolution chain of the path — so after any assignment
(previous theorem) no detached object holds a watcher on the owner's behalf. -/
theorem no_watcher_left_on_detached {w : PWorld} {t : Oid} {m : Name} {s : PathSpec}
    (hg : Good w t m s) (hi : Installed w t m s) :
    ∀ x ∈ w.watchers, x.on ∈ chainObjsFrom w t s.path ∧ x.owner = t ∧ x.method = m :=
  installed_on_chain hg.scope hi hg.simple

/-- the constructor of the owner (`_update_deps(init=True)`) establishes the invariant, calling nothing -/
theorem installed_by_constructor {w w' : PWorld} {cls : Nat} {vals : List (Name × Val)} {t : Oid} {m : Name} {s : PathSpec}
    (hnew : newObj w cls vals = .ok w') (ht : t = w.objs.length) (hw : w.watchers = [] ∧ w.dyn = [])
    (hg' : Good w' t m s) : Installed w' t m s ∧ w'.log = w.log :=
  new_owner_installed hnew ht hw hg'.scope hg'.simple

/-- states reached along a history all satisfy the standing assumptions -/
def AllGood (t : Oid) (m : Name) (s : PathSpec) : PWorld → List Step → Prop
  | w, [] => Good w t m s
  | w, st :: rest => Good w t m s ∧ ∀ w1, runStep w st = .ok w1 → AllGood t m s w1 rest

def runSteps : PWorld → List Step → Except PErr PWorld
  | w, [] => .ok w
  | w, st :: rest =>
    match runStep w st with
    | .error e => .error e
    | .ok w1 => runSteps w1 rest

/-- **C07 (after any sequence of replacing objects along the path and assigning leaf parameters).**
From an installed state, along every history of assignments and constructions whose states satisfy
the standing assumptions, the invariant holds at the end (hence at every point): the single-step
theorems above apply to every step of every history. -/
theorem history_keeps_installed (t : Oid) (m : Name) (s : PathSpec) : ∀ (steps : List Step) (w w' : PWorld),
    Installed w t m s → AllGood t m s w steps → runSteps w steps = .ok w' → Installed w' t m s ∧ Good w' t m s := by
  intro steps
  induction steps with
  | nil =>
    intro w w' hi hg hr
    simp only [runSteps, Except.ok.injEq] at hr
    subst hr
    exact ⟨hi, hg⟩
  | cons st rest ih =>
    intro w w' hi hg hr
    obtain ⟨hg0, hnext⟩ := hg
    simp only [runSteps] at hr
    split at hr
    · simp at hr
    · rename_i w1 h1
      have hall := hnext w1 h1
      have hg1 : Good w1 t m s := by
        cases rest with
        | nil => exact hall
        | cons _ _ => exact hall.1
      have hi1 : Installed w1 t m s := by
        cases st with
        | set o p v => exact (installed_preserved_by_assignment hg0 hi h1 hg1.simple).1
        | new cls vals => exact (new_other_installed h1 hg0.scope hi hg1.scope).1
      exact ih w1 w' hi1 hall hr

/-! ## Non-vacuity -/

-- a depth-2 history: two leaves, a middle object, the owner with `@depends('a.b.x')`, constructed attached
def exClasses : List PClass := [nodeCls [], nodeCls [⟨"m", [⟨["a", "b"], "x"⟩]⟩]]
def exSpec : PathSpec := ⟨["a", "b"], "x"⟩
def exSteps : List Step := [
  .new 0 (mkVals 0 .none .none 1 0),            -- 0: leaf x=1
  .new 0 (mkVals 0 .none (.ref 0) 0 0),         -- 1: middle, b = leaf 0
  .new 0 (mkVals 0 .none .none 1 0),            -- 2: another leaf x=1
  .new 0 (mkVals 0 .none .none 5 0)]            -- 3: another leaf x=5
def exW0 : PWorld := (runSteps (emptyWorld exClasses) exSteps).toOption.getD (emptyWorld exClasses)
def exW : PWorld := (newObj exW0 1 (mkVals 0 (.ref 1) .none 0 0)).toOption.getD exW0   -- 4: the owner, a = middle

example : Good exW 4 "m" exSpec := ⟨scopeB_spec (by decide), objOnlyB_spec (by decide), by decide⟩
example : Installed exW 4 "m" exSpec :=
  (installed_by_constructor (w := exW0) (cls := 1) (vals := mkVals 0 (.ref 1) .none 0 0) (by rfl) (by decide)
    (by decide) ⟨scopeB_spec (by decide), objOnlyB_spec (by decide), by decide⟩).1
-- three watchers: on the owner (filter b.x), on the middle object (filter x, callback), on the leaf
example : exW.watchers.map shapeOf =
    [⟨4, ["a"], some [["b", "x"]], false⟩, ⟨1, ["b"], some [["x"]], true⟩, ⟨0, ["x"], none, false⟩] := by decide
-- leaf assignment on the attached leaf fires; replacing the leaf by an equal one does not, by a different one does;
-- the detached leaf keeps no watcher and no longer fires
example : ((setParam exW 0 "x" (.int 2)).toOption.map (·.log.length)) = some 1 := by decide
example : ((setParam exW 1 "b" (.ref 2)).toOption.map (·.log.length)) = some 0 := by decide
example : ((setParam exW 1 "b" (.ref 3)).toOption.map (fun w => (w.log.length, w.watchers.map (·.on)))) = some (1, [4, 1, 3]) := by decide
example : (((setParam exW 1 "b" (.ref 3)).toOption.bind (fun w => (setParam { w with log := [] } 0 "x" (.int 9)).toOption)).map (·.log.length)) = some 0 := by decide
example : (0, "x") ∈ depsFrom exW 4 exSpec.path exSpec.leaf ∧ (2, "x") ∉ depsFrom exW 4 exSpec.path exSpec.leaf := by decide

end ParamVerif.Depends
