/-
C20 specification side, executable: "evaluating the text constructs an object of the same class
whose parameter values equal the original's (auto-generated names aside)" as a decidable check.
Used by the driver as the oracle on the implementation's text (already bracket-matched into a
token tree by the harness; the driver checks that the tree flattens to the very tokens Python's
`tokenize` produced).
-/
import ParamVerif.Repr.Model

namespace ParamVerif.Repr

/-- the name of the reconstructed object `r` is acceptable for the original name `o` -/
def nameEqv (cname : String) (r o : Lit) : Bool :=
  match r, o with
  | .atom ra, .atom oa =>
    (oa.kind == .str && isAutoLike cname oa.text)     -- auto-generated names aside
    || ra == oa
  | _, _ => false

mutual
/-- `sEqv recon orig`: the same literal, nested objects compared by `objEqvL` -/
def sEqv (classes : Classes) : Lit → Lit → Bool
  | .atom a, .atom b => a == b
  | .list xs, .list ys => sEqvL classes xs ys
  | .tuple xs, .tuple ys => sEqvL classes xs ys
  | .set xs, .set ys => xs == ys
  | .dict ks vs, .dict ks' vs' => ks == ks' && sEqvL classes vs vs'
  | .obj c vals, .obj c' vals' =>
    c == c' && (match classes[c]? with
      | some cls => objEqvL classes cls.name cls.params vals vals'
      | none => false)
  | _, _ => false
def sEqvL (classes : Classes) : List Lit → List Lit → Bool
  | [], [] => true
  | x :: xs, y :: ys => sEqv classes x y && sEqvL classes xs ys
  | _, _ => false
/-- parameter by parameter: the name up to auto-generation; any other value either the same
literal, or Python-equal (`==`), or equal for `Comparator.is_equal` -/
def objEqvL (classes : Classes) (cname : String) : List PInfo → List Lit → List Lit → Bool
  | [], [], [] => true
  | p :: ps, r :: rs, o :: os =>
    (if p.name == "name" then nameEqv cname r o
     else (sEqv classes r o || pyEq r o || isEqual o r)) && objEqvL classes cname ps rs os
  | _, _, _ => false
end

/-- round trip of a token tree: (reason) or none -/
def specRoundtrip (classes : Classes) (evalAtom : List String → Option Atom) (tt : TT) (orig : Lit) : Option String :=
  match evalTT classes evalAtom tt with
  | none => some "the text does not evaluate (TypeError/NameError/SyntaxError in Python's reading)"
  | some recon =>
    if sEqv classes recon orig then none
    else some "the text evaluates to an object with different parameter values"

/-! atoms occurring in a case: the table the driver's `evalAtom` looks tokens up in -/
mutual
def atomsOf : Lit → List Atom
  | .atom a => [a]
  | .list xs => atomsOfL xs
  | .tuple xs => atomsOfL xs
  | .set xs => xs
  | .dict ks vs => ks ++ atomsOfL vs
  | .obj _ vals => atomsOfL vals
def atomsOfL : List Lit → List Atom
  | [] => []
  | x :: xs => atomsOf x ++ atomsOfL xs
end

def atomsOfClasses (classes : Classes) : List Atom :=
  classes.flatMap fun c =>
    c.params.flatMap (fun p => atomsOf p.default) ++ c.sig.defaults.flatMap atomsOf ++
    c.sig.kwonly.flatMap (fun p => match p.2 with | some d => atomsOf d | none => [])

def tableEvalAtom (table : List Atom) (toks : List String) : Option Atom :=
  table.find? (fun a => a.toks == toks)

end ParamVerif.Repr
