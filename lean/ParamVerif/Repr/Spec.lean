/-
C20 specification side, executable: "evaluating the text constructs an object of the same class
whose parameter values equal the original's (auto-generated names aside)" as a decidable check.
Used by the driver as the oracle on the implementation's text (already bracket-matched into a
token tree by the harness; the driver checks that the tree flattens to the very tokens Python's
`tokenize` produced).
-/
import ParamVerif.Repr.Model

namespace ParamVerif.Repr

/-- the name of the reconstructed object `r` is acceptable for the original name `o` -/
def nameEqv (cname : String) (r o : Lit) : Bool :=
  match r, o with
  | .atom ra, .atom oa =>
    (oa.kind == .str && isAutoForm cname oa.text)     -- auto-generated names aside
    || ra == oa
  | _, _ => false

mutual
/-- `sEqv recon orig`: the same literal, nested objects compared by `objEqvL` -/
def sEqv (classes : Classes) : Lit → Lit → Bool
  | .atom a, .atom b => a == b
  | .list xs, .list ys => sEqvL classes xs ys
  | .tuple xs, .tuple ys => sEqvL classes xs ys
  | .set xs, .set ys => xs.length == ys.length && xs.all (fun x => ys.contains x)   -- sets are unordered
  | .dict ks vs, .dict ks' vs' => ks == ks' && sEqvL classes vs vs'
  | .obj c vals, .obj c' vals' =>
    c == c' && (match classes[c]? with
      | some cls => objEqvL classes cls.name cls.params vals vals'
      | none => false)
  | _, _ => false
def sEqvL (classes : Classes) : List Lit → List Lit → Bool
  | [], [] => true
  | x :: xs, y :: ys => sEqv classes x y && sEqvL classes xs ys
  | _, _ => false
/-- parameter by parameter: the name up to auto-generation; any other value either the same
literal, or Python-equal (`==`), or equal for `Comparator.is_equal` -/
def objEqvL (classes : Classes) (cname : String) : List PInfo → List Lit → List Lit → Bool
  | [], [], [] => true
  | p :: ps, r :: rs, o :: os =>
    (if p.name == "name" then nameEqv cname r o
     else (sEqv classes r o || pyEq r o || isEqual o r)) && objEqvL classes cname ps rs os
  | _, _, _ => false
end

/-- round trip of a token tree: (reason) or none -/
def specRoundtrip (classes : Classes) (evalAtom : List String → Option Atom) (tt : TT) (orig : Lit) : Option String :=
  match evalTT classes evalAtom tt with
  | none => some "the text does not evaluate (TypeError/NameError/SyntaxError in Python's reading)"
  | some recon =>
    if sEqv classes recon orig then none
    else some "the text evaluates to an object with different parameter values"

/-! ### well-formedness: the hypotheses of the round-trip theorem -/

mutual
def noObj : Lit → Bool
  | .atom _ => true
  | .list xs => noObjL xs
  | .tuple xs => noObjL xs
  | .set _ => true
  | .dict _ vs => noObjL vs
  | .obj _ _ => false
def noObjL : List Lit → Bool
  | [] => true
  | x :: xs => noObj x && noObjL xs
end

/-- the constructor signatures the theorem covers: positional-or-keyword arguments (with or
without defaults) named like parameters, `**params`, no `*args`, no keyword-only arguments,
`name` not among the explicit arguments -/
def SigOK (cls : Cls) : Prop :=
  cls.sig.varargs = none ∧ cls.sig.kwonly = [] ∧ cls.sig.varkw = true ∧ cls.sig.args.Nodup ∧
  (∀ a ∈ cls.sig.args, a ∈ cls.params.map (·.name)) ∧ "name" ∉ cls.sig.args ∧
  cls.sig.defaults.length ≤ cls.sig.args.length

/-- the class is the one Python finds under its name; parameter names are distinct -/
def ClsOK (classes : Classes) (c : Nat) (cls : Cls) : Prop :=
  classes.findIdx? (·.name == cls.name) = some c ∧ classes.find? (·.name == cls.name) = some cls ∧
  cls.name ≠ "set" ∧ (cls.params.map (·.name)).Nodup ∧ SigOK cls

/-- the `name` parameter holds a string which is either of the auto-generated form (class name +
at least five digits), or neither looks like one to `_pprint` (class name + some digits) nor
equals the class-level default of `name` (the class name) -/
def NameOK (cls : Cls) (vals : List Lit) : Prop :=
  ∀ p v, (p, v) ∈ cls.params.zip vals → p.name = "name" →
    ∃ a, v = .atom a ∧ a.kind = .str ∧
      (isAutoForm cls.name a.text = true ∨ (isAutoLike cls.name a.text = false ∧ isEqual v p.default = false))

mutual
/-- "a Parameterized object whose parameter values are literals, containers of literals or
nested Parameterized objects" (of classes satisfying `ClsOK`) -/
def WF (classes : Classes) : Lit → Prop
  | .atom a => a.kind ≠ .auto
  | .list xs => WFL classes xs
  | .tuple xs => WFL classes xs
  | .set xs => ∀ a ∈ xs, a.kind ≠ .auto
  | .dict ks vs => (∀ a ∈ ks, a.kind ≠ .auto) ∧ ks.length = vs.length ∧ WFL classes vs ∧ noObjL vs = true
  | .obj c vals => ∃ cls, classes[c]? = some cls ∧ ClsOK classes c cls ∧ vals.length = cls.params.length ∧
      NameOK cls vals ∧ WFL classes vals
def WFL (classes : Classes) : List Lit → Prop
  | [] => True
  | x :: xs => WF classes x ∧ WFL classes xs
end

/-! atoms occurring in a case: the table the driver's `evalAtom` looks tokens up in -/
mutual
def atomsOf : Lit → List Atom
  | .atom a => [a]
  | .list xs => atomsOfL xs
  | .tuple xs => atomsOfL xs
  | .set xs => xs
  | .dict ks vs => ks ++ atomsOfL vs
  | .obj _ vals => atomsOfL vals
def atomsOfL : List Lit → List Atom
  | [] => []
  | x :: xs => atomsOf x ++ atomsOfL xs
end

def atomsOfClasses (classes : Classes) : List Atom :=
  classes.flatMap fun c =>
    c.params.flatMap (fun p => atomsOf p.default) ++ c.sig.defaults.flatMap atomsOf ++
    c.sig.kwonly.flatMap (fun p => match p.2 with | some d => atomsOf d | none => [])

def tableEvalAtom (table : List Atom) (toks : List String) : Option Atom :=
  table.find? (fun a => a.toks == toks)

end ParamVerif.Repr
