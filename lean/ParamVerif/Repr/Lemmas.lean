/-
C20 helper lemmas: the printer loop, sorting, association lists, the reader on printed
obj-free literals.  Property theorems are in Props/C20.lean.
-/
import ParamVerif.Repr.Spec

namespace ParamVerif.Repr

/-! ### association lists -/

theorem lookupS_zip_map {α β} (f : α → β) : ∀ (ks : List String) (xs : List α) (k : String),
    lookupS k (ks.zip (xs.map f)) = (lookupS k (ks.zip xs)).map f
  | [], _, _ => rfl
  | _ :: _, [], _ => rfl
  | k' :: ks, x :: xs, k => by
    simp only [List.map_cons, List.zip_cons_cons, lookupS]
    split
    · rfl
    · exact lookupS_zip_map f ks xs k

theorem lookupS_some_of_mem {α} : ∀ (ks : List String) (xs : List α) (k : String),
    ks.length = xs.length → k ∈ ks → ∃ x, lookupS k (ks.zip xs) = some x
  | [], _, _, _, h => by simp at h
  | _ :: _, [], _, hl, _ => by simp at hl
  | k' :: ks, x :: xs, k, hl, h => by
    simp only [List.zip_cons_cons, lookupS]
    by_cases e : k = k'
    · simp [e]
    · simp only [beq_iff_eq, e, if_false]
      exact lookupS_some_of_mem ks xs k (by simpa using hl) (by simpa [e] using h)

theorem lookupS_mem {α} : ∀ (l : List (String × α)) (k : String) (x : α),
    lookupS k l = some x → (k, x) ∈ l
  | [], _, _, h => by simp [lookupS] at h
  | (k', v) :: l, k, x, h => by
    simp only [lookupS] at h
    split at h
    · rename_i e
      simp only [beq_iff_eq] at e
      simp only [Option.some.injEq] at h
      simp [e, h]
    · exact List.mem_cons_of_mem _ (lookupS_mem l k x h)

theorem lookupS_none_of_not_mem {α} : ∀ (l : List (String × α)) (k : String),
    k ∉ l.map (·.1) → lookupS k l = none
  | [], _, _ => rfl
  | (k', v) :: l, k, h => by
    simp only [List.map_cons, List.mem_cons, not_or] at h
    simp only [lookupS, beq_iff_eq, h.1, if_false]
    exact lookupS_none_of_not_mem l k h.2

theorem lookupS_of_mem_nodup {α} : ∀ (l : List (String × α)) (k : String) (x : α),
    (l.map (·.1)).Nodup → (k, x) ∈ l → lookupS k l = some x
  | [], _, _, _, h => by simp at h
  | (k', v) :: l, k, x, hn, h => by
    simp only [List.map_cons, List.nodup_cons] at hn
    simp only [List.mem_cons, Prod.mk.injEq] at h
    simp only [lookupS]
    rcases h with ⟨rfl, rfl⟩ | h
    · simp
    · have : k ≠ k' := by
        intro e; subst e
        exact hn.1 (List.mem_map.2 ⟨(k, x), h, rfl⟩)
      simp only [beq_iff_eq, this, if_false]
      exact lookupS_of_mem_nodup l k x hn.2 h

theorem lookupS_append {α} : ∀ (l m : List (String × α)) (k : String),
    lookupS k (l ++ m) = match lookupS k l with
      | some x => some x
      | none => lookupS k m
  | [], _, _ => rfl
  | (k', v) :: l, m, k => by
    simp only [List.cons_append, lookupS]
    split
    · rfl
    · exact lookupS_append l m k

/-! ### stable sort keeps the elements -/

theorem mem_insertSorted {α} (le : α → α → Bool) (x y : α) : ∀ (l : List α),
    y ∈ insertSorted le x l ↔ y = x ∨ y ∈ l
  | [] => by simp [insertSorted]
  | z :: l => by
    simp only [insertSorted]
    split
    · simp
    · simp only [List.mem_cons, mem_insertSorted le x y l]
      constructor
      · rintro (h | h | h) <;> simp [h]
      · rintro (h | h | h) <;> simp [h]

theorem mem_stableSort {α} (le : α → α → Bool) (y : α) : ∀ (l : List α),
    y ∈ stableSort le l ↔ y ∈ l
  | [] => by simp [stableSort]
  | x :: l => by
    simp only [stableSort, mem_insertSorted, mem_stableSort le y l, List.mem_cons]

/-! ### the printer loop -/

theorem ppLoop_mem (dec : String → Dec) : ∀ (ks proc : List String) (outs : List (String × Dec)),
    ppLoop dec ks proc = some outs → ∀ k d, (k, d) ∈ outs →
      k ∈ ks ∧ k ∉ proc ∧ dec k = d ∧ d ≠ .skip ∧ d ≠ .bad
  | [], _, outs, h, k, d, hm => by
    simp only [ppLoop, Option.some.injEq] at h
    subst h; simp at hm
  | k' :: ks, proc, outs, h, k, d, hm => by
    simp only [ppLoop] at h
    split at h
    · have := ppLoop_mem dec ks proc outs h k d hm
      exact ⟨List.mem_cons_of_mem _ this.1, this.2⟩
    · rename_i hproc
      have hproc' : k' ∉ proc := by simpa using hproc
      split at h
      · have := ppLoop_mem dec ks proc outs h k d hm
        exact ⟨List.mem_cons_of_mem _ this.1, this.2⟩
      · simp at h
      · rename_i d' hs hb
        cases hr : ppLoop dec ks (proc ++ [k']) with
        | none => simp [hr] at h
        | some outs' =>
          simp only [hr, Option.map_some, Option.some.injEq] at h
          subst h
          simp only [List.mem_cons, Prod.mk.injEq] at hm
          rcases hm with ⟨rfl, rfl⟩ | hm
          · exact ⟨by simp, hproc', rfl, fun e => hs (by rw [e]), fun e => hb (by rw [e])⟩
          · have := ppLoop_mem dec ks (proc ++ [k']) outs' hr k d hm
            refine ⟨List.mem_cons_of_mem _ this.1, ?_, this.2.2⟩
            intro hk
            exact this.2.1 (by simp [hk])

theorem ppLoop_nodup (dec : String → Dec) : ∀ (ks proc : List String) (outs : List (String × Dec)),
    ppLoop dec ks proc = some outs → (outs.map (·.1)).Nodup
  | [], _, outs, h => by
    simp only [ppLoop, Option.some.injEq] at h
    subst h; simp
  | k' :: ks, proc, outs, h => by
    simp only [ppLoop] at h
    split at h
    · exact ppLoop_nodup dec ks proc outs h
    · split at h
      · exact ppLoop_nodup dec ks proc outs h
      · simp at h
      · cases hr : ppLoop dec ks (proc ++ [k']) with
        | none => simp [hr] at h
        | some outs' =>
          simp only [hr, Option.map_some, Option.some.injEq] at h
          subst h
          simp only [List.map_cons, List.nodup_cons]
          refine ⟨?_, ppLoop_nodup dec ks _ outs' hr⟩
          intro hm
          obtain ⟨⟨k, d⟩, hkd, e⟩ := List.mem_map.1 hm
          simp only at e
          subst e
          exact (ppLoop_mem dec ks _ outs' hr k d hkd).2.1 (by simp)

theorem ppLoop_complete (dec : String → Dec) : ∀ (ks proc : List String) (outs : List (String × Dec)),
    ppLoop dec ks proc = some outs → ∀ k, k ∈ ks → k ∉ proc → dec k ≠ .skip → (k, dec k) ∈ outs
  | [], _, _, _, k, hk, _, _ => by simp at hk
  | k' :: ks, proc, outs, h, k, hk, hp, hs => by
    simp only [ppLoop] at h
    split at h
    · rename_i hproc
      have hne : k ≠ k' := by
        intro e; subst e
        exact hp (by simpa using hproc)
      exact ppLoop_complete dec ks proc outs h k (by simpa [hne] using hk) hp hs
    · split at h
      · rename_i hsk
        have hne : k ≠ k' := by
          intro e; subst e; exact hs hsk
        exact ppLoop_complete dec ks proc outs h k (by simpa [hne] using hk) hp hs
      · simp at h
      · cases hr : ppLoop dec ks (proc ++ [k']) with
        | none => simp [hr] at h
        | some outs' =>
          simp only [hr, Option.map_some, Option.some.injEq] at h
          subst h
          by_cases hne : k = k'
          · subst hne; simp
          · exact List.mem_cons_of_mem _ (ppLoop_complete dec ks _ outs' hr k (by simpa [hne] using hk)
              (by simp [hp, hne]) hs)

theorem ppLoop_total (dec : String → Dec) : ∀ (ks proc : List String),
    (∀ k ∈ ks, dec k ≠ .bad) → ∃ outs, ppLoop dec ks proc = some outs
  | [], _, _ => ⟨[], rfl⟩
  | k' :: ks, proc, h => by
    simp only [ppLoop]
    split
    · exact ppLoop_total dec ks proc (fun k hk => h k (List.mem_cons_of_mem _ hk))
    · split
      · exact ppLoop_total dec ks proc (fun k hk => h k (List.mem_cons_of_mem _ hk))
      · rename_i hb
        exact absurd hb (h k' (by simp))
      · obtain ⟨outs, ho⟩ := ppLoop_total dec ks (proc ++ [k']) (fun k hk => h k (List.mem_cons_of_mem _ hk))
        exact ⟨_, by rw [ho]; rfl⟩

/-- a prefix of distinct keys that are all printed positionally comes out first, in order -/
theorem ppLoop_prefix (dec : String → Dec) (tvOf : String → TT) : ∀ (pre rest proc : List String),
    pre.Nodup → (∀ k ∈ pre, k ∉ proc) → (∀ k ∈ pre, dec k = .pos (tvOf k)) →
    ppLoop dec (pre ++ rest) proc =
      (ppLoop dec rest (proc ++ pre)).map (fun o => pre.map (fun k => (k, Dec.pos (tvOf k))) ++ o)
  | [], rest, proc, _, _, _ => by
    simp only [List.nil_append, List.append_nil, List.map_nil]
    cases ppLoop dec rest proc <;> rfl
  | k :: pre, rest, proc, hn, hp, hd => by
    simp only [List.nodup_cons] at hn
    have hk : proc.contains k = false := by
      have := hp k (by simp)
      simpa using this
    simp only [List.cons_append, ppLoop, hk, hd k (by simp)]
    rw [ppLoop_prefix dec tvOf pre rest (proc ++ [k]) hn.2
      (by
        intro x hx
        have h1 := hp x (by simp [hx])
        have h2 : x ≠ k := by intro e; subst e; exact hn.1 hx
        simp [h1, h2])
      (fun x hx => hd x (by simp [hx]))]
    simp only [List.append_assoc, List.singleton_append, List.map_cons]
    cases ppLoop dec rest (proc ++ k :: pre) <;> simp

/-! ### more list helpers -/

theorem zip_prefix_map {α β} (f : α → β) : ∀ (l m : List α), (l ++ m).zip (l.map f) = l.map (fun k => (k, f k))
  | [], m => by simp
  | x :: l, m => by simp [zip_prefix_map f l m]

theorem zip_map_fst_snd {α β γ} (g : α → γ) (h : α → β) : ∀ (l : List α),
    (l.map g).zip (l.map h) = l.map (fun p => (g p, h p))
  | [] => rfl
  | x :: l => by simp [zip_map_fst_snd g h l]

theorem lookupS_map_self {α} (f : String → α) : ∀ (l : List String) (k : String),
    k ∈ l → lookupS k (l.map (fun k => (k, f k))) = some (f k)
  | [], _, h => by simp at h
  | k' :: l, k, h => by
    simp only [List.map_cons, lookupS]
    by_cases e : k = k'
    · simp [e]
    · simp only [beq_iff_eq, e, if_false]
      exact lookupS_map_self f l k (by simpa [e] using h)

theorem lookupS_filter_key {α} (g : String → Bool) : ∀ (l : List (String × α)) (k : String),
    lookupS k (l.filter (fun p => g p.1)) = if g k then lookupS k l else none
  | [], k => by simp [lookupS]
  | (k', v) :: l, k => by
    simp only [List.filter_cons]
    by_cases e : k = k'
    · subst e
      by_cases hg : g k
      · simp [hg, lookupS]
      · simp only [hg, Bool.false_eq_true, if_false]
        rw [lookupS_filter_key g l k]; simp [hg]
    · by_cases hg : g k'
      · simp only [hg, if_true, lookupS, beq_iff_eq, e, if_false]
        exact lookupS_filter_key g l k
      · simp only [hg, Bool.false_eq_true, if_false, lookupS, beq_iff_eq, e]
        exact lookupS_filter_key g l k

theorem filterMap_kwOf_keys_sublist : ∀ (outs : List (String × Dec)),
    List.Sublist ((outs.filterMap kwOf).map (·.1)) (outs.map (·.1))
  | [] => List.Sublist.slnil
  | (k, d) :: outs => by
    cases d <;> simp only [List.filterMap_cons, kwOf, List.map_cons]
    all_goals first
      | exact List.Sublist.cons _ (filterMap_kwOf_keys_sublist outs)
      | exact List.Sublist.cons₂ _ (filterMap_kwOf_keys_sublist outs)

theorem mem_filterMap_kwOf (outs : List (String × Dec)) (k : String) (tv : TT) :
    (k, tv) ∈ outs.filterMap kwOf ↔ (k, Dec.kw tv) ∈ outs := by
  simp only [List.mem_filterMap]
  constructor
  · rintro ⟨⟨k', d⟩, hm, he⟩
    cases d <;> simp [kwOf] at he
    obtain ⟨rfl, rfl⟩ := he
    exact hm
  · intro h
    exact ⟨(k, .kw tv), h, rfl⟩

/-! ### the reader on lists of printed values -/

theorem evalL_map (classes : Classes) (ev : List String → Option Atom) {α} (f : α → TT) (g : α → Lit) :
    ∀ (l : List α), (∀ x ∈ l, evalTT classes ev (f x) = some (g x)) →
      evalL classes ev (l.map f) = some (l.map g)
  | [], _ => rfl
  | x :: l, h => by
    simp only [List.map_cons, evalL, h x (by simp),
      evalL_map classes ev f g l (fun y hy => h y (by simp [hy]))]

theorem evalL_length (classes : Classes) (ev : List String → Option Atom) : ∀ (ts : List TT) (rs : List Lit),
    evalL classes ev ts = some rs → rs.length = ts.length
  | [], rs, h => by simp only [evalL, Option.some.injEq] at h; subst h; rfl
  | t :: ts, rs, h => by
    simp only [evalL] at h
    split at h
    · rename_i x xs _ hxs
      simp only [Option.some.injEq] at h; subst h
      simp [evalL_length classes ev ts xs hxs]
    · simp at h

theorem sEqvL_length (classes : Classes) : ∀ (rs vs : List Lit), sEqvL classes rs vs = true → rs.length = vs.length
  | [], [], _ => rfl
  | [], _ :: _, h => by simp [sEqvL] at h
  | _ :: _, [], h => by simp [sEqvL] at h
  | r :: rs, v :: vs, h => by
    simp only [sEqvL, Bool.and_eq_true] at h
    simp [sEqvL_length classes rs vs h.2]

theorem ppL_length (classes : Classes) (q : Bool) : ∀ (xs : List Lit) (ts : List TT),
    ppL classes q xs = .ok ts → ts.length = xs.length
  | [], ts, h => by simp only [ppL, pure, Except.pure, Except.ok.injEq] at h; subst h; rfl
  | x :: xs, ts, h => by
    simp only [ppL, bind, Except.bind, pure, Except.pure] at h
    split at h
    · simp at h
    · split at h
      · simp at h
      · rename_i ts' hts
        simp only [Except.ok.injEq] at h; subst h
        simp [ppL_length classes q xs ts' hts]

/-- values, their printed forms and what the printed forms evaluate to, looked up by name -/
theorem lookup_triple (classes : Classes) (ev : List String → Option Atom) :
    ∀ (names : List String) (vals : List Lit) (tvs : List TT) (rs : List Lit),
    evalL classes ev tvs = some rs → sEqvL classes rs vals = true →
    ∀ k v, lookupS k (names.zip vals) = some v →
      ∃ tv r, lookupS k (names.zip tvs) = some tv ∧ lookupS k (names.zip rs) = some r ∧
        evalTT classes ev tv = some r ∧ sEqv classes r v = true
  | [], _, _, _, _, _, k, v, h => by simp [lookupS] at h
  | _ :: _, [], _, _, _, _, k, v, h => by simp [lookupS] at h
  | n :: names, v0 :: vals, tvs, rs, he, hs, k, v, h => by
    cases rs with
    | nil => simp [sEqvL] at hs
    | cons r0 rs =>
      cases tvs with
      | nil => simp [evalL] at he
      | cons t0 tvs =>
        simp only [evalL] at he
        split at he
        · rename_i x xs hx hxs
          simp only [Option.some.injEq, List.cons.injEq] at he
          obtain ⟨rfl, rfl⟩ := he
          simp only [sEqvL, Bool.and_eq_true] at hs
          simp only [List.zip_cons_cons, lookupS] at h ⊢
          split
          · rename_i e
            simp only [e, if_true, Option.some.injEq] at h
            subst h
            exact ⟨t0, x, rfl, rfl, hx, hs.1⟩
          · rename_i e
            simp only [e, if_false] at h
            exact lookup_triple classes ev names vals tvs xs hxs hs.2 k v h
        · simp at he

theorem lookupS_zip_of_mem_zip : ∀ (P : List PInfo) (vals : List Lit) (p : PInfo) (v : Lit),
    (P.map (·.name)).Nodup → (p, v) ∈ P.zip vals → lookupS p.name ((P.map (·.name)).zip vals) = some v
  | [], _, _, _, _, h => by simp at h
  | _ :: _, [], _, _, _, h => by simp at h
  | p0 :: P, v0 :: vals, p, v, hn, h => by
    simp only [List.map_cons, List.nodup_cons] at hn
    simp only [List.zip_cons_cons, List.mem_cons, Prod.mk.injEq] at h
    simp only [List.map_cons, List.zip_cons_cons, lookupS]
    rcases h with ⟨rfl, rfl⟩ | h
    · simp
    · have hne : p.name ≠ p0.name := by
        intro e
        apply hn.1
        rw [← e]
        exact List.mem_map.2 ⟨p, (List.of_mem_zip h).1, rfl⟩
      simp only [beq_iff_eq, hne, if_false]
      exact lookupS_zip_of_mem_zip P vals p v hn.2 h

theorem objEqvL_map (classes : Classes) (cname : String) (f : PInfo → Lit) :
    ∀ (P : List PInfo) (vals : List Lit), P.length = vals.length →
    (∀ p v, (p, v) ∈ P.zip vals →
      (if p.name == "name" then nameEqv cname (f p) v
       else (sEqv classes (f p) v || pyEq (f p) v || isEqual v (f p))) = true) →
    objEqvL classes cname P (P.map f) vals = true
  | [], [], _, _ => rfl
  | [], _ :: _, hl, _ => by simp at hl
  | _ :: _, [], hl, _ => by simp at hl
  | p :: P, v :: vals, hl, h => by
    simp only [List.map_cons, objEqvL, Bool.and_eq_true]
    exact ⟨h p v (by simp), objEqvL_map classes cname f P vals (by simpa using hl)
      (fun p' v' hm => h p' v' (by simp [hm]))⟩

theorem sEqv_atom_right (classes : Classes) (r : Lit) (a : Atom) (h : sEqv classes r (.atom a) = true) :
    r = .atom a := by
  cases r <;> simp [sEqv] at h
  rw [h]

/-! ### names -/

theorem isAutoForm_isAutoLike (c n : String) (h : isAutoForm c n = true) : isAutoLike c n = true := by
  unfold isAutoForm at h
  unfold isAutoLike
  split at h
  · simp only [Bool.and_eq_true, decide_eq_true_eq] at h
    simp only [Bool.and_eq_true, decide_eq_true_eq]
    exact ⟨by omega, h.2⟩
  · simp at h

theorem isAutoName_isAutoLike (c n : String) (h : isAutoName c n = true) : isAutoLike c n = true := by
  unfold isAutoName at h
  unfold isAutoLike
  split at h
  · rename_i rest hsw
    simp only [hsw]
    simp only [Bool.and_eq_true, beq_iff_eq] at h
    simp [h.1, h.2]
  · simp at h

/-! ### the signature splits into positional names and defaulted names -/

theorem sig_split (spec : Sig) (h : spec.defaults.length ≤ spec.args.length) :
    spec.args = posargsOf spec ++ (kwargsOf spec).map (·.1) ∧
    posargsOf spec = spec.args.take (spec.args.length - spec.defaults.length) ∧
    kwargsOf spec = (spec.args.drop (spec.args.length - spec.defaults.length)).zip spec.defaults := by
  unfold posargsOf kwargsOf
  by_cases h0 : spec.defaults.length = 0
  · have hd : spec.defaults = [] := List.eq_nil_of_length_eq_zero h0
    simp [h0, hd]
  · have hb : (spec.defaults.length == 0) = false := by simpa using h0
    simp only [hb, Bool.false_eq_true, if_false, and_true]
    rw [List.map_fst_zip (by simp; omega)]
    exact (List.take_append_drop _ _).symm

/-! ### obj-free literals are read back exactly -/

theorem mapM_atom : ∀ (xs : List Atom),
    (xs.map Lit.atom).mapM Lit.asAtom = some xs
  | [] => rfl
  | a :: xs => by simp [mapM_atom xs, Lit.asAtom]

theorem bind_ok {α β} (x : α) (f : α → Except String β) : (Except.ok x >>= f) = f x := rfl

mutual
theorem rp_exact (classes : Classes) (ev : List String → Option Atom) : ∀ (o : Lit),
    noObj o = true → WF classes o → (∀ a ∈ atomsOf o, ev a.toks = some a) →
    ∃ tt, rp classes o = .ok tt ∧ evalTT classes ev tt = some o
  | .atom a, _, hw, he => by
    have hk : (a.kind == AKind.auto) = false := by simpa [WF] using hw
    exact ⟨.atom a.toks, by simp [rp, hk, pure, Except.pure], by simp [evalTT, he a (by simp [atomsOf])]⟩
  | .list xs, hn, hw, he => by
    obtain ⟨tts, h1, h2⟩ := rpL_exact classes ev xs (by simpa [noObj] using hn) (by simpa [WF] using hw)
      (by simpa [atomsOf] using he)
    exact ⟨.brack tts, by simp [rp, h1, bind, Except.bind, pure, Except.pure], by simp [evalTT, h2]⟩
  | .tuple xs, hn, hw, he => by
    obtain ⟨tts, h1, h2⟩ := rpL_exact classes ev xs (by simpa [noObj] using hn) (by simpa [WF] using hw)
      (by simpa [atomsOf] using he)
    refine ⟨.paren tts (xs.length == 1), by simp [rp, h1, bind, Except.bind, pure, Except.pure], ?_⟩
    simp only [evalTT, h2]
    match xs with
    | [] => rfl
    | [x] => rfl
    | x :: y :: zs => rfl
  | .set [], _, _, _ => ⟨_, rfl, by simp [evalTT, evalL, findClass]⟩
  | .set (a :: as), _, _, he => by
    refine ⟨_, rfl, ?_⟩
    have := evalL_map classes ev (fun (a : Atom) => TT.atom a.toks) Lit.atom (a :: as)
      (fun x hx => by simp [evalTT, he x (by simpa [atomsOf] using hx)])
    simp only [evalTT, this, mapM_atom, Option.map_some]
  | .dict ks vs, hn, hw, he => by
    simp only [WF] at hw
    obtain ⟨tts, h1, h2⟩ := rpL_exact classes ev vs (by simpa [noObj] using hn) hw.2.2.1
      (fun a ha => he a (by simp [atomsOf, ha]))
    refine ⟨.dict (ks.map fun a => .atom a.toks) tts, by simp [rp, h1, bind, Except.bind, pure, Except.pure], ?_⟩
    have hk := evalL_map classes ev (fun (a : Atom) => TT.atom a.toks) Lit.atom ks
      (fun x hx => by simp [evalTT, he x (by simp [atomsOf, hx])])
    simp only [evalTT, hk, h2, List.length_map, hw.2.1, bne_self_eq_false, Bool.false_eq_true, if_false,
      mapM_atom, Option.map_some]
  | .obj _ _, hn, _, _ => by simp [noObj] at hn
theorem rpL_exact (classes : Classes) (ev : List String → Option Atom) : ∀ (xs : List Lit),
    noObjL xs = true → WFL classes xs → (∀ a ∈ atomsOfL xs, ev a.toks = some a) →
    ∃ tts, rpL classes xs = .ok tts ∧ evalL classes ev tts = some xs
  | [], _, _, _ => ⟨[], rfl, rfl⟩
  | x :: xs, hn, hw, he => by
    simp only [noObjL, Bool.and_eq_true] at hn
    simp only [WFL] at hw
    obtain ⟨t, h1, h2⟩ := rp_exact classes ev x hn.1 hw.1 (fun a ha => he a (by simp [atomsOfL, ha]))
    obtain ⟨ts, h3, h4⟩ := rpL_exact classes ev xs hn.2 hw.2 (fun a ha => he a (by simp [atomsOfL, ha]))
    exact ⟨t :: ts, by simp [rpL, h1, h3, bind, Except.bind, pure, Except.pure], by simp [evalL, h2, h4]⟩
end

mutual
theorem sEqv_refl_noObj (classes : Classes) : ∀ (o : Lit), noObj o = true → sEqv classes o o = true
  | .atom a, _ => by simp [sEqv]
  | .list xs, h => by simpa [sEqv] using sEqvL_refl_noObj classes xs (by simpa [noObj] using h)
  | .tuple xs, h => by simpa [sEqv] using sEqvL_refl_noObj classes xs (by simpa [noObj] using h)
  | .set xs, _ => by simp [sEqv]
  | .dict ks vs, h => by simpa [sEqv] using sEqvL_refl_noObj classes vs (by simpa [noObj] using h)
  | .obj _ _, h => by simp [noObj] at h
theorem sEqvL_refl_noObj (classes : Classes) : ∀ (xs : List Lit), noObjL xs = true → sEqvL classes xs xs = true
  | [], _ => rfl
  | x :: xs, h => by
    simp only [noObjL, Bool.and_eq_true] at h
    simp [sEqvL, sEqv_refl_noObj classes x h.1, sEqvL_refl_noObj classes xs h.2]
end

/-! ### calling the constructor with the printed arguments -/

theorem any_false_of_forall {α} (l : List α) (f : α → Bool) (h : ∀ x ∈ l, f x = false) : l.any f = false := by
  rw [List.any_eq_false]
  intro x hx
  simp [h x hx]

theorem construct_ok (cls : Cls) (c : Nat) (posargs kwsN : List String) (rOf : String → Lit)
    (hvk : cls.sig.varkw = true) (hko : cls.sig.kwonly = [])
    (hsplit : cls.sig.args = posargs ++ (kwargsOf cls.sig).map (·.1))
    (hpos : posargs = cls.sig.args.take (cls.sig.args.length - cls.sig.defaults.length))
    (hkw : kwargsOf cls.sig = (cls.sig.args.drop (cls.sig.args.length - cls.sig.defaults.length)).zip cls.sig.defaults)
    (hkn : kwsN.Nodup) (hdisj : ∀ k ∈ kwsN, k ∉ posargs)
    (hall : ∀ k, k ∈ posargs ∨ k ∈ kwsN ∨ k ∈ (kwargsOf cls.sig).map (·.1) → k ∈ cls.params.map (·.name)) :
    construct cls c (posargs.map rOf) (kwsN.map fun k => (k, rOf k)) =
      some (.obj c (cls.params.map fun p =>
        match lookupS p.name (posargs.map (fun k => (k, rOf k)) ++ kwsN.map (fun k => (k, rOf k)) ++
            (kwargsOf cls.sig).filter (fun p => (lookupS p.1
              (posargs.map (fun k => (k, rOf k)) ++ kwsN.map (fun k => (k, rOf k)))).isNone)) with
        | some v => v
        | none => if p.name == "name" then .atom autoAtom else p.default)) := by
  have hbound : cls.sig.args.zip (posargs.map rOf) = posargs.map (fun k => (k, rOf k)) := by
    rw [hsplit]; exact zip_prefix_map rOf posargs _
  have h1 : ((posargs.map rOf).length > cls.sig.args.length && cls.sig.varargs.isNone) = false := by
    have : posargs.length ≤ cls.sig.args.length := by rw [hsplit]; simp
    simp only [List.length_map, Bool.and_eq_false_imp, decide_eq_true_eq]
    intro h; omega
  have h2 : (!decide ((kwsN.map fun k => (k, rOf k)).map (·.1)).Nodup) = false := by
    simp only [List.map_map, Function.comp_def, List.map_id', Bool.not_eq_false', decide_eq_true_eq]
    simpa using hkn
  have h3 : (kwsN.map fun k => (k, rOf k)).any
      (fun p => ((posargs.map (fun k => (k, rOf k))).map (·.1)).contains p.1) = false := by
    apply any_false_of_forall
    intro x hx
    obtain ⟨k, hk, rfl⟩ := List.mem_map.1 hx
    simp only [List.map_map, Function.comp_def, List.map_id', List.contains_eq_mem, decide_eq_false_iff_not]
    simpa using hdisj k hk
  have h4 : (kwsN.map fun k => (k, rOf k)).any
      (fun p => !(cls.sig.args.contains p.1 || (cls.sig.kwonly.map (·.1)).contains p.1 || cls.sig.varkw)) = false := by
    apply any_false_of_forall
    intro x _
    simp [hvk]
  have hlk : ∀ a ∈ posargs, lookupS a (posargs.map (fun k => (k, rOf k)) ++ kwsN.map (fun k => (k, rOf k)))
      = some (rOf a) := by
    intro a ha
    rw [lookupS_append, lookupS_map_self rOf posargs a ha]
  have h5 : (cls.sig.args.take (cls.sig.args.length - cls.sig.defaults.length)).any
      (fun a => (lookupS a (posargs.map (fun k => (k, rOf k)) ++ kwsN.map (fun k => (k, rOf k)))).isNone) = false := by
    rw [← hpos]
    apply any_false_of_forall
    intro a ha
    simp [hlk a ha]
  have h7 : ∀ (rest : List (String × Lit)), (∀ p ∈ rest, p.1 ∈ (kwargsOf cls.sig).map (·.1)) →
      (posargs.map (fun k => (k, rOf k)) ++ kwsN.map (fun k => (k, rOf k)) ++ rest).any
        (fun p => !(cls.params.map (·.name)).contains p.1) = false := by
    intro rest hrest
    apply any_false_of_forall
    intro x hx
    have : x.1 ∈ cls.params.map (·.name) := by
      simp only [List.mem_append, List.mem_map] at hx
      rcases hx with (⟨k, hk, rfl⟩ | ⟨k, hk, rfl⟩) | hx
      · exact hall k (Or.inl hk)
      · exact hall k (Or.inr (Or.inl hk))
      · exact hall x.1 (Or.inr (Or.inr (hrest x hx)))
    simpa using this
  unfold construct
  simp only [hbound, h1, h2, h3, h4, h5, hko, Bool.false_eq_true, if_false, List.any_nil, List.filterMap_nil,
    List.append_nil, List.map_nil]
  rw [← hkw]
  rw [h7 _ (fun p hp => List.mem_map.2 ⟨p, (List.mem_filter.1 hp).1, rfl⟩)]
  simp
  exact ⟨fun _ _ _ => hvk, fun _ _ => rfl⟩

/-! ### the loop body, case by case -/

section decide
variable (cn : String) (vs : List (String × Lit)) (tvs : List (String × TT)) (pos : List String)
  (kw : List (String × Lit)) (vk : Bool) (k : String)

theorem decideKey_pos_inv (tv : TT) (h : decideKey cn vs tvs pos kw vk k = .pos tv) :
    pos.contains k = true ∧ lookupS k tvs = some tv := by
  unfold decideKey at h
  split at h
  · simp at h
  · split at h
    · rename_i v tv' hv htv
      split at h
      · simp at h
      · split at h
        · rename_i hp
          simp only [Dec.pos.injEq] at h
          exact ⟨hp, by rw [htv, h]⟩
        · split at h <;> simp at h
    · simp at h

theorem decideKey_kw_inv (tv : TT) (h : decideKey cn vs tvs pos kw vk k = .kw tv) :
    lookupS k tvs = some tv := by
  unfold decideKey at h
  split at h
  · simp at h
  · split at h
    · rename_i v tv' hv htv
      split at h
      · simp at h
      · split at h
        · simp at h
        · split at h
          · simp only [Dec.kw.injEq] at h
            rw [htv, h]
          · simp at h
    · simp at h

theorem decideKey_ne_bad (v : Lit) (tv : TT) (hv : lookupS k vs = some v) (ht : lookupS k tvs = some tv) :
    decideKey cn vs tvs pos kw vk k ≠ .bad := by
  unfold decideKey
  simp only [hv, ht]
  split
  · simp
  · split
    · simp
    · split
      · simp
      · split <;> simp

theorem decideKey_eq_pos (v : Lit) (tv : TT) (hn : nameSuppressed cn vs k = false)
    (hv : lookupS k vs = some v) (ht : lookupS k tvs = some tv) (hu : kwUnchanged kw k v = false)
    (hp : pos.contains k = true) : decideKey cn vs tvs pos kw vk k = .pos tv := by
  unfold decideKey
  simp only [hn, hv, ht, hu, hp, Bool.false_eq_true, if_false, if_true]

theorem decideKey_eq_kw (v : Lit) (tv : TT) (hn : nameSuppressed cn vs k = false)
    (hv : lookupS k vs = some v) (ht : lookupS k tvs = some tv) (hu : kwUnchanged kw k v = false)
    (hp : pos.contains k = false) (hk : ((lookupS k kw).isSome || vk) = true) :
    decideKey cn vs tvs pos kw vk k = .kw tv := by
  unfold decideKey
  simp only [hn, hv, ht, hu, hp, Bool.false_eq_true, if_false, hk, if_true]

theorem decideKey_eq_skip_unchanged (v : Lit) (tv : TT) (hv : lookupS k vs = some v) (ht : lookupS k tvs = some tv)
    (hu : kwUnchanged kw k v = true) : decideKey cn vs tvs pos kw vk k = .skip := by
  unfold decideKey
  split
  · rfl
  · simp [hv, ht, hu]

end decide

/-! ### changed names -/

theorem changedNames_subset (cn : String) : ∀ (P : List PInfo) (vals : List Lit) (k : String),
    k ∈ changedNames cn P vals → k ∈ P.map (·.name) := by
  intro P vals k h
  unfold changedNames at h
  obtain ⟨⟨p, v⟩, hm, he⟩ := List.mem_filterMap.1 h
  simp only at he
  split at he
  · simp at he
  · split at he
    · simp at he
    · simp only [Option.some.injEq] at he
      exact List.mem_map.2 ⟨p, (List.of_mem_zip hm).1, he⟩

theorem changedNames_mem (cn : String) (P : List PInfo) (vals : List Lit) (p : PInfo) (v : Lit)
    (hm : (p, v) ∈ P.zip vals) (hauto : autoNamed cn p v = false)
    (hne : isEqual v p.default = false) : p.name ∈ changedNames cn P vals := by
  unfold changedNames
  refine List.mem_filterMap.2 ⟨(p, v), hm, ?_⟩
  simp only [hauto, Bool.false_eq_true, if_false, hne]

theorem mem_ordering (P : List PInfo) (ch : List String) (k : String) : k ∈ ordering P ch ↔ k ∈ ch := by
  unfold ordering
  rw [mem_stableSort, mem_stableSort]

theorem filterMap_posOf_prefix (f : String → TT) : ∀ (l : List String),
    (l.map (fun k => (k, Dec.pos (f k)))).filterMap posOf = l.map f
  | [] => rfl
  | k :: l => by simp [posOf, filterMap_posOf_prefix f l]

theorem filterMap_kwOf_prefix (f : String → TT) : ∀ (l : List String),
    (l.map (fun k => (k, Dec.pos (f k)))).filterMap kwOf = []
  | [] => rfl
  | k :: l => by simp [kwOf, filterMap_kwOf_prefix f l]

def tvOfL (l : List (String × TT)) (k : String) : TT :=
  match lookupS k l with
  | some t => t
  | none => .atom []

def rOfL (l : List (String × Lit)) (k : String) : Lit :=
  match lookupS k l with
  | some r => r
  | none => .atom autoAtom

theorem lookupS_some_of_mem_keys {α} : ∀ (l : List (String × α)) (k : String),
    k ∈ l.map (·.1) → ∃ d, lookupS k l = some d
  | [], _, h => by simp at h
  | (k', v) :: l, k, h => by
    simp only [lookupS]
    by_cases e : k = k'
    · simp [e]
    · simp only [beq_iff_eq, e, if_false]
      exact lookupS_some_of_mem_keys l k (by simpa [e] using h)

/-! ### one object: print, read, compare -/

theorem obj_roundtrip (classes : Classes) (ev : List String → Option Atom) (q : Bool) (c : Nat) (cls : Cls)
    (vals : List Lit) (tvs : List TT) (rs : List Lit)
    (hc : classes[c]? = some cls) (hok : ClsOK classes c cls) (hlen : vals.length = cls.params.length)
    (hname : NameOK cls vals)
    (he : evalL classes ev tvs = some rs) (hs : sEqvL classes rs vals = true) :
    ∃ tt r, ppObjWith classes q c vals tvs = .ok tt ∧ evalTT classes ev tt = some r ∧
      sEqv classes r (.obj c vals) = true := by
  obtain ⟨hidx, hfind, hset, hnd, hva, hko, hvk, hand, hargs, hnoname, hdl⟩ := hok
  obtain ⟨hsplit, hpos, hkw⟩ := sig_split cls.sig hdl
  have hnlen : (cls.params.map (·.name)).length = vals.length := by simp [hlen]
  have htriple := lookup_triple classes ev (cls.params.map (·.name)) vals tvs rs he hs
  -- every parameter name: its value, printed form, and what the printed form evaluates to
  have hfacts : ∀ k ∈ cls.params.map (·.name), ∃ v, lookupS k ((cls.params.map (·.name)).zip vals) = some v ∧
      lookupS k ((cls.params.map (·.name)).zip tvs) = some (tvOfL ((cls.params.map (·.name)).zip tvs) k) ∧
      evalTT classes ev (tvOfL ((cls.params.map (·.name)).zip tvs) k)
        = some (rOfL ((cls.params.map (·.name)).zip rs) k) ∧
      sEqv classes (rOfL ((cls.params.map (·.name)).zip rs) k) v = true := by
    intro k hk
    obtain ⟨v, hv⟩ := lookupS_some_of_mem _ vals k hnlen hk
    obtain ⟨tv, r, h1, h2, h3, h4⟩ := htriple k v hv
    exact ⟨v, hv, by simp [tvOfL, h1], by simp [tvOfL, rOfL, h1, h2, h3], by simp [rOfL, h2, h4]⟩
  -- the signature
  have hnda : (posargsOf cls.sig ++ (kwargsOf cls.sig).map (·.1)).Nodup := hsplit ▸ hand
  obtain ⟨hpn, hkn, hdj⟩ := List.nodup_append.1 hnda
  have hmem_args : ∀ k, k ∈ cls.sig.args ↔ k ∈ posargsOf cls.sig ∨ k ∈ (kwargsOf cls.sig).map (·.1) := by
    intro k; rw [hsplit]; simp
  have hns : ∀ k, k ≠ "name" → nameSuppressed cls.name ((cls.params.map (·.name)).zip vals) k = false := by
    intro k hk
    unfold nameSuppressed
    simp [hk]
  have hkwnone : ∀ k, k ∉ (kwargsOf cls.sig).map (·.1) → ∀ v, kwUnchanged (kwargsOf cls.sig) k v = false := by
    intro k hk v
    unfold kwUnchanged
    rw [lookupS_none_of_not_mem _ k hk]
  have hdec_pos : ∀ k ∈ posargsOf cls.sig, decOf cls vals tvs k
      = .pos (tvOfL ((cls.params.map (·.name)).zip tvs) k) := by
    intro k hk
    have hka : k ∈ cls.sig.args := (hmem_args k).2 (Or.inl hk)
    obtain ⟨v, hv, ht, _, _⟩ := hfacts k (hargs k hka)
    have hkn' : k ≠ "name" := fun e => hnoname (e ▸ hka)
    exact decideKey_eq_pos _ _ _ _ _ _ k v _ (hns k hkn') hv ht
      (hkwnone k (fun h => hdj k hk k h rfl) v) (by simpa using hk)
  have hkeys : keysOf cls vals = posargsOf cls.sig ++ ((kwargsOf cls.sig).map (·.1) ++
      ordering cls.params (changedNames cls.name cls.params vals)) := by
    unfold keysOf
    rw [← List.append_assoc, ← hsplit]
  have hrest_names : ∀ k ∈ (kwargsOf cls.sig).map (·.1) ++ ordering cls.params (changedNames cls.name cls.params vals),
      k ∈ cls.params.map (·.name) := by
    intro k hk
    rcases List.mem_append.1 hk with h | h
    · exact hargs k ((hmem_args k).2 (Or.inr h))
    · exact changedNames_subset _ _ _ k ((mem_ordering _ _ k).1 h)
  obtain ⟨outs', hout'⟩ := ppLoop_total (decOf cls vals tvs) _ (posargsOf cls.sig) (fun k hk => by
    obtain ⟨v, hv, ht, _, _⟩ := hfacts k (hrest_names k hk)
    exact decideKey_ne_bad _ _ _ _ _ _ k v _ hv ht)
  have hloop := ppLoop_prefix (decOf cls vals tvs) (tvOfL ((cls.params.map (·.name)).zip tvs))
    (posargsOf cls.sig) ((kwargsOf cls.sig).map (·.1) ++
      ordering cls.params (changedNames cls.name cls.params vals)) [] hpn (by simp) hdec_pos
  rw [← hkeys] at hloop
  simp only [List.nil_append, hout', Option.map_some] at hloop
  -- what the loop produced after the positional prefix
  have hm' := ppLoop_mem _ _ _ _ hout'
  have hnopos : outs'.filterMap posOf = [] := by
    rw [List.filterMap_eq_nil_iff]
    intro ⟨k, d⟩ hkd
    cases d with
    | pos tv =>
      have h1 := hm' k _ hkd
      have := (decideKey_pos_inv _ _ _ _ _ _ k tv h1.2.2.1).1
      exact absurd (by simpa using this) h1.2.1
    | _ => rfl
  have hkws_nodup : ((outs'.filterMap kwOf).map (·.1)).Nodup :=
    List.Nodup.sublist (filterMap_kwOf_keys_sublist outs') (ppLoop_nodup _ _ _ _ hout')
  have hkws : ∀ k tv, (k, tv) ∈ outs'.filterMap kwOf →
      k ∈ cls.params.map (·.name) ∧ k ∉ posargsOf cls.sig ∧
      tv = tvOfL ((cls.params.map (·.name)).zip tvs) k := by
    intro k tv h
    have h1 := hm' k _ ((mem_filterMap_kwOf outs' k tv).1 h)
    have h2 := decideKey_kw_inv _ _ _ _ _ _ k tv h1.2.2.1
    exact ⟨hrest_names k h1.1, h1.2.1, by simp [tvOfL, h2]⟩
  -- the printed text
  have hpp : ppObjWith classes q c vals tvs = .ok (.call (if q = true then cls.qual else []) cls.name
      ((posargsOf cls.sig).map (tvOfL ((cls.params.map (·.name)).zip tvs)))
      ((outs'.filterMap kwOf).map (·.1)) ((outs'.filterMap kwOf).map (·.2)) none) := by
    unfold ppObjWith
    simp only [hc, hlen, bne_self_eq_false, Bool.false_eq_true, if_false, hloop, hva,
      List.filterMap_append, filterMap_posOf_prefix, filterMap_kwOf_prefix, hnopos, List.append_nil,
      List.nil_append]
  -- reading it back
  have hcons := construct_ok cls c (posargsOf cls.sig) ((outs'.filterMap kwOf).map (·.1))
      (rOfL ((cls.params.map (·.name)).zip rs)) hvk hko hsplit hpos hkw hkws_nodup
      (by
        intro k hk
        obtain ⟨⟨k', tv⟩, hm, rfl⟩ := List.mem_map.1 hk
        exact (hkws k' tv hm).2.1)
      (by
        intro k hk
        rcases hk with h | h | h
        · exact hargs k ((hmem_args k).2 (Or.inl h))
        · obtain ⟨⟨k', tv⟩, hm, rfl⟩ := List.mem_map.1 h
          exact (hkws k' tv hm).1
        · exact hargs k ((hmem_args k).2 (Or.inr h)))
  have hev : evalTT classes ev (.call (if q = true then cls.qual else []) cls.name
      ((posargsOf cls.sig).map (tvOfL ((cls.params.map (·.name)).zip tvs)))
      ((outs'.filterMap kwOf).map (·.1)) ((outs'.filterMap kwOf).map (·.2)) none)
      = construct cls c ((posargsOf cls.sig).map (rOfL ((cls.params.map (·.name)).zip rs)))
          (((outs'.filterMap kwOf).map (·.1)).map
            (fun k => (k, rOfL ((cls.params.map (·.name)).zip rs) k))) := by
    have hpe := evalL_map classes ev (tvOfL ((cls.params.map (·.name)).zip tvs))
      (rOfL ((cls.params.map (·.name)).zip rs)) (posargsOf cls.sig) (fun k hk => by
        obtain ⟨_, _, _, h3, _⟩ := hfacts k (hargs k ((hmem_args k).2 (Or.inl hk)))
        exact h3)
    have hke := evalL_map classes ev (fun (p : String × TT) => p.2)
      (fun p => rOfL ((cls.params.map (·.name)).zip rs) p.1) (outs'.filterMap kwOf) (fun p hp => by
        obtain ⟨h1, _, h3⟩ := hkws p.1 p.2 hp
        obtain ⟨_, _, _, h4, _⟩ := hfacts p.1 h1
        rw [h3]; exact h4)
    have hfc : findClass classes (if q = true then cls.qual else []) cls.name = some (c, cls) := by
      unfold findClass
      simp only [hidx, hfind]
      cases q <;> simp
    have hns' : (cls.name == "set") = false := by simpa using hset
    simp only [evalTT, hpe, hke, List.length_map, bne_self_eq_false, Bool.false_eq_true, if_false, hfc, hns',
      Bool.and_false, Bool.false_and]
    rw [zip_map_fst_snd (fun (p : String × TT) => p.1) (fun p => rOfL ((cls.params.map (·.name)).zip rs) p.1)]
    simp only [List.map_map, Function.comp_def]
  refine ⟨_, _, hpp, hev.trans hcons, ?_⟩
  -- parameter by parameter
  simp only [sEqv, beq_self_eq_true, Bool.true_and, hc]
  apply objEqvL_map classes cls.name _ cls.params vals hlen.symm
  intro p v hpv
  have hkn' : p.name ∈ cls.params.map (·.name) := List.mem_map.2 ⟨p, (List.of_mem_zip hpv).1, rfl⟩
  obtain ⟨v', hv', ht, hevk, hsv⟩ := hfacts p.name hkn'
  have hv : lookupS p.name ((cls.params.map (·.name)).zip vals) = some v :=
    lookupS_zip_of_mem_zip cls.params vals p v hnd hpv
  rw [hv] at hv'
  simp only [Option.some.injEq] at hv'
  subst hv'
  -- the three places a name can be bound in
  have hPOSkeys : ((posargsOf cls.sig).map fun k => (k, rOfL ((cls.params.map (·.name)).zip rs) k)).map (·.1)
      = posargsOf cls.sig := by simp [List.map_map, Function.comp_def]
  have hKWkeys : (((outs'.filterMap kwOf).map (·.1)).map
      fun k => (k, rOfL ((cls.params.map (·.name)).zip rs) k)).map (·.1) = (outs'.filterMap kwOf).map (·.1) := by
    simp [List.map_map, Function.comp_def]
  have hL_pos : p.name ∈ posargsOf cls.sig → ∀ F, lookupS p.name
      ((posargsOf cls.sig).map (fun k => (k, rOfL ((cls.params.map (·.name)).zip rs) k)) ++
        ((outs'.filterMap kwOf).map (·.1)).map (fun k => (k, rOfL ((cls.params.map (·.name)).zip rs) k)) ++ F)
      = some (rOfL ((cls.params.map (·.name)).zip rs) p.name) := by
    intro h F
    rw [lookupS_append, lookupS_append, lookupS_map_self _ _ _ h]
  have hL_kw : p.name ∉ posargsOf cls.sig → p.name ∈ (outs'.filterMap kwOf).map (·.1) → ∀ F, lookupS p.name
      ((posargsOf cls.sig).map (fun k => (k, rOfL ((cls.params.map (·.name)).zip rs) k)) ++
        ((outs'.filterMap kwOf).map (·.1)).map (fun k => (k, rOfL ((cls.params.map (·.name)).zip rs) k)) ++ F)
      = some (rOfL ((cls.params.map (·.name)).zip rs) p.name) := by
    intro h1 h2 F
    rw [lookupS_append, lookupS_append, lookupS_none_of_not_mem _ _ (by rw [hPOSkeys]; exact h1),
      lookupS_map_self _ _ _ h2]
  have hL_un : p.name ∉ posargsOf cls.sig → p.name ∉ (outs'.filterMap kwOf).map (·.1) → lookupS p.name
      ((posargsOf cls.sig).map (fun k => (k, rOfL ((cls.params.map (·.name)).zip rs) k)) ++
        ((outs'.filterMap kwOf).map (·.1)).map (fun k => (k, rOfL ((cls.params.map (·.name)).zip rs) k)) ++
        (kwargsOf cls.sig).filter (fun p => (lookupS p.1
          ((posargsOf cls.sig).map (fun k => (k, rOfL ((cls.params.map (·.name)).zip rs) k)) ++
          ((outs'.filterMap kwOf).map (·.1)).map
            (fun k => (k, rOfL ((cls.params.map (·.name)).zip rs) k)))).isNone))
      = lookupS p.name (kwargsOf cls.sig) := by
    intro h1 h2
    have hnone : lookupS p.name
        ((posargsOf cls.sig).map (fun k => (k, rOfL ((cls.params.map (·.name)).zip rs) k)) ++
        ((outs'.filterMap kwOf).map (·.1)).map (fun k => (k, rOfL ((cls.params.map (·.name)).zip rs) k))) = none := by
      rw [lookupS_append, lookupS_none_of_not_mem _ _ (by rw [hPOSkeys]; exact h1),
        lookupS_none_of_not_mem _ _ (by rw [hKWkeys]; exact h2)]
    rw [lookupS_append, hnone]
    simp only
    rw [lookupS_filter_key (fun k => (lookupS k
      ((posargsOf cls.sig).map (fun k => (k, rOfL ((cls.params.map (·.name)).zip rs) k)) ++
      ((outs'.filterMap kwOf).map (·.1)).map
        (fun k => (k, rOfL ((cls.params.map (·.name)).zip rs) k)))).isNone) (kwargsOf cls.sig) p.name]
    simp only [hnone, Option.isNone_none, if_true]
  -- bound by keyword exactly when the loop decided `kw`
  have hbound_of_kw : ∀ tv, p.name ∉ posargsOf cls.sig →
      p.name ∈ (kwargsOf cls.sig).map (·.1) ++ ordering cls.params (changedNames cls.name cls.params vals) →
      decOf cls vals tvs p.name = .kw tv → p.name ∈ (outs'.filterMap kwOf).map (·.1) := by
    intro tv h1 h2 h3
    have := ppLoop_complete _ _ _ _ hout' p.name h2 h1 (by rw [h3]; simp)
    rw [h3] at this
    exact List.mem_map.2 ⟨(p.name, tv), (mem_filterMap_kwOf outs' _ _).2 this, rfl⟩
  have hunbound_of_skip : decOf cls vals tvs p.name = .skip → p.name ∉ (outs'.filterMap kwOf).map (·.1) := by
    intro h hm
    obtain ⟨⟨k', tv⟩, hmem, e⟩ := List.mem_map.1 hm
    simp only at e
    subst e
    have := (hm' _ _ ((mem_filterMap_kwOf outs' _ _).1 hmem)).2.2.1
    rw [h] at this
    simp at this
  have hunbound_of_notkey : p.name ∉ (kwargsOf cls.sig).map (·.1) ++
      ordering cls.params (changedNames cls.name cls.params vals) → p.name ∉ (outs'.filterMap kwOf).map (·.1) := by
    intro h hm
    obtain ⟨⟨k', tv⟩, hmem, e⟩ := List.mem_map.1 hm
    simp only at e
    subst e
    exact h (hm' _ _ ((mem_filterMap_kwOf outs' _ _).1 hmem)).1
  by_cases hp1 : p.name ∈ posargsOf cls.sig
  · -- (1) a positional argument
    have hne : p.name ≠ "name" := fun e => hnoname (e ▸ (hmem_args _).2 (Or.inl hp1))
    simp only [hL_pos hp1, beq_iff_eq, hne, if_false, hsv, Bool.true_or]
  · by_cases hp2 : p.name ∈ (kwargsOf cls.sig).map (·.1)
    · -- (2) an argument with a default in the signature
      have hne : p.name ≠ "name" := fun e => hnoname (e ▸ (hmem_args _).2 (Or.inr hp2))
      obtain ⟨d, hd⟩ := lookupS_some_of_mem_keys _ _ hp2
      by_cases hpe : pyEq d v = true
      · have hsk : decOf cls vals tvs p.name = .skip :=
          decideKey_eq_skip_unchanged _ _ _ _ _ _ _ v _ hv ht (by simp [kwUnchanged, hd, hpe])
        simp only [hL_un hp1 (hunbound_of_skip hsk), hd, beq_iff_eq, hne, if_false, hpe, Bool.true_or,
          Bool.or_true]
      · have hkw' : decOf cls vals tvs p.name = .kw _ :=
          decideKey_eq_kw _ _ _ _ _ _ _ v _ (hns _ hne) hv ht (by simp [kwUnchanged, hd, hpe])
            (by simpa using hp1) (by simp [hd])
        have hb := hbound_of_kw _ hp1 (List.mem_append.2 (Or.inl hp2)) hkw'
        simp only [hL_kw hp1 hb, beq_iff_eq, hne, if_false, hsv, Bool.true_or]
    · -- (3) not an argument of the signature: reaches the constructor through **params
      have hkwn : lookupS p.name (kwargsOf cls.sig) = none := lookupS_none_of_not_mem _ _ hp2
      by_cases hsup : nameSuppressed cls.name ((cls.params.map (·.name)).zip vals) p.name = true
      · -- a name of the auto-generated form: never printed
        have hsk : decOf cls vals tvs p.name = .skip := by
          unfold decOf decideKey
          simp [hsup]
        unfold nameSuppressed at hsup
        simp only [Bool.and_eq_true, beq_iff_eq, hv] at hsup
        obtain ⟨hnm, hrest⟩ := hsup
        obtain ⟨a, rfl, _, hor⟩ := hname p v hpv hnm
        simp only [Bool.and_eq_true, beq_iff_eq] at hrest
        have hform : isAutoForm cls.name a.text = true := by
          rcases hor with h | h
          · exact h
          · rw [hrest.2] at h; simp at h
        simp only [hL_un hp1 (hunbound_of_skip hsk), hkwn]
        simp only [hnm, beq_self_eq_true, if_true, nameEqv, hrest.1, hform, Bool.and_self, Bool.true_or]
      · have hsup' : nameSuppressed cls.name ((cls.params.map (·.name)).zip vals) p.name = false := by
          simpa using hsup
        by_cases hord : p.name ∈ ordering cls.params (changedNames cls.name cls.params vals)
        · have hkw' : decOf cls vals tvs p.name = .kw _ :=
            decideKey_eq_kw _ _ _ _ _ _ _ v _ hsup' hv ht (hkwnone _ hp2 v) (by simpa using hp1) (by simp [hvk])
          have hb := hbound_of_kw _ hp1 (List.mem_append.2 (Or.inr hord)) hkw'
          by_cases hnm : p.name = "name"
          · obtain ⟨a, rfl, _, _⟩ := hname p v hpv hnm
            have := sEqv_atom_right classes _ a hsv
            simp only [hL_kw hp1 hb, this]
            simp only [hnm, beq_self_eq_true, if_true, nameEqv, Bool.or_true]
          · simp only [hL_kw hp1 hb, beq_iff_eq, hnm, if_false, hsv, Bool.true_or]
        · -- unchanged: the constructor falls back to the Parameter default
          have hub := hunbound_of_notkey (by
            intro h; rcases List.mem_append.1 h with h | h
            · exact hp2 h
            · exact hord h)
          have hnotch : p.name ∉ changedNames cls.name cls.params vals :=
            fun h => hord ((mem_ordering _ _ _).2 h)
          by_cases hnm : p.name = "name"
          · exfalso
            obtain ⟨a, rfl, hstr, hor⟩ := hname p v hpv hnm
            have hnl : isAutoLike cls.name a.text = false := by
              unfold nameSuppressed at hsup'
              simp only [hnm, beq_self_eq_true, Bool.true_and] at hsup'
              rw [← hnm, hv] at hsup'
              simpa [hstr] using hsup'
            rcases hor with h | ⟨_, h⟩
            · rw [isAutoForm_isAutoLike _ _ h] at hnl; simp at hnl
            · apply hnotch
              apply changedNames_mem _ _ _ p _ hpv _ h
              unfold autoNamed
              have : isAutoName cls.name a.text = false := by
                cases hh : isAutoName cls.name a.text
                · rfl
                · rw [isAutoName_isAutoLike _ _ hh] at hnl; simp at hnl
              simp [this]
          · have heq : isEqual v p.default = true := by
              cases hh : isEqual v p.default
              · exfalso
                apply hnotch
                apply changedNames_mem _ _ _ p _ hpv _ hh
                unfold autoNamed
                simp [hnm]
              · rfl
            simp only [hL_un hp1 hub, hkwn, beq_iff_eq, hnm, if_false, heq, Bool.or_true]

end ParamVerif.Repr
