/-
C15 / C16 — the JSON value universe of the model.

`Json` is the tree that `json.loads(json.dumps(x))` yields, *before* it is turned
back into Python objects: null / bool / int / float / string / array / object.
Numbers keep the int-vs-float distinction of the JSON text (`1` vs `1.0`), floats
are exact rationals or one of the three non-finite tokens Python emits
(`Infinity`, `-Infinity`, `NaN`), which are not standard JSON.

Strings are either plain or *formatted timestamps*.  A timestamp produced by
`strftime` is modelled by its fields, not by its characters: (year value, number
of characters the year occupies, month, day, optional time part).  The platform
fact the model has to carry is exactly the width of the year field: glibc's
`%Y` does not zero-pad, `strptime`'s `%Y` demands four digits.
-/
namespace ParamVerif.Json

/-- IEEE double: exact rational or non-finite -/
inductive Fl where
  | fin (q : Rat)
  | posInf
  | negInf
  | nan
  deriving DecidableEq, Repr

namespace Fl

def isFinite : Fl → Bool
  | fin _ => true
  | _ => false

/-- IEEE / Python `<` on doubles and exact numbers: every comparison with NaN is false -/
def lt : Fl → Fl → Bool
  | nan, _ => false
  | _, nan => false
  | negInf, negInf => false
  | negInf, _ => true
  | _, negInf => false
  | posInf, _ => false
  | fin _, posInf => true
  | fin a, fin b => decide (a < b)

def le : Fl → Fl → Bool
  | nan, _ => false
  | _, nan => false
  | negInf, _ => true
  | _, negInf => false
  | _, posInf => true
  | posInf, fin _ => false
  | fin a, fin b => decide (a ≤ b)

/-- numeric equality (`==` of Python numbers / equality of JSON numbers) -/
def eqv : Fl → Fl → Bool
  | fin a, fin b => decide (a = b)
  | posInf, posInf => true
  | negInf, negInf => true
  | _, _ => false

def ofInt (n : Int) : Fl := fin (n : Rat)

/-- the number has no fractional part (JSON-Schema draft 6+: `1.0` is an integer) -/
def isIntegral : Fl → Bool
  | fin q => q.den == 1
  | _ => false

end Fl

/-- a string produced by `strftime("%Y-%m-%d")` or `strftime("%Y-%m-%dT%H:%M:%S.%f")`,
as fields.  `yearWidth` is the number of characters the year occupies; month, day,
hour, minute, second are always two characters, microseconds six. -/
structure Stamp where
  year : Nat
  yearWidth : Nat
  month : Nat
  day : Nat
  time : Option (Nat × Nat × Nat × Nat)     -- (hour, minute, second, microsecond)
  deriving DecidableEq, Repr

/-- `len(s)` of the formatted string: `Y…-MM-DD` plus `THH:MM:SS.ffffff` -/
def Stamp.length (t : Stamp) : Nat :=
  t.yearWidth + 6 + (match t.time with | some _ => 16 | none => 0)

inductive JStr where
  | plain (s : String)
  | stamp (t : Stamp)
  deriving DecidableEq, Repr

def JStr.length : JStr → Nat
  | .plain s => s.length
  | .stamp t => t.length

inductive Json where
  | null
  | bool (b : Bool)
  | int (n : Int)
  | float (x : Fl)
  | str (s : JStr)
  | arr (l : List Json)
  | obj (kvs : List (String × Json))
  deriving Repr

namespace Json

-- structural equality (executable; `beq_iff_eq` in Lemmas)
mutual
def beq : Json → Json → Bool
  | .null, .null => true
  | .bool a, .bool b => a == b
  | .int a, .int b => a == b
  | .float a, .float b => a == b
  | .str a, .str b => a == b
  | .arr a, .arr b => beqL a b
  | .obj a, .obj b => beqO a b
  | _, _ => false
def beqL : List Json → List Json → Bool
  | [], [] => true
  | a :: as, b :: bs => beq a b && beqL as bs
  | _, _ => false
def beqO : List (String × Json) → List (String × Json) → Bool
  | [], [] => true
  | (k, a) :: as, (k', b) :: bs => k == k' && beq a b && beqO as bs
  | _, _ => false
end

instance : BEq Json := ⟨beq⟩

/-- the numeric value of a JSON number -/
def num? : Json → Option Fl
  | .int n => some (Fl.ofInt n)
  | .float x => some x
  | _ => none

def isScalar : Json → Bool
  | .arr _ => false
  | .obj _ => false
  | _ => true

/-- equality of JSON *scalars* as JSON Schema defines it for `enum`: numbers by
value (`1` equals `1.0`), booleans are not numbers, everything else structural.
Arrays and objects never compare equal here; `wellFormed` admits only scalar
`enum` members, so this is exact on the supported subset. -/
def scalarEq : Json → Json → Bool
  | .null, .null => true
  | .bool a, .bool b => a == b
  | .str a, .str b => a == b
  | .int a, .int b => a == b
  | .int a, .float b => Fl.eqv (Fl.ofInt a) b
  | .float a, .int b => Fl.eqv a (Fl.ofInt b)
  | .float a, .float b => Fl.eqv a b
  | _, _ => false

-- no `Infinity` / `-Infinity` / `NaN` token anywhere: the text is standard JSON
mutual
def standard : Json → Bool
  | .float x => x.isFinite
  | .arr l => standardL l
  | .obj kvs => standardO kvs
  | _ => true
def standardL : List Json → Bool
  | [] => true
  | a :: as => standard a && standardL as
def standardO : List (String × Json) → Bool
  | [] => true
  | (_, a) :: as => standard a && standardO as
end

def lookup (k : String) : List (String × Json) → Option Json
  | [] => none
  | (k', v) :: rest => if k' = k then some v else lookup k rest

end Json

end ParamVerif.Json
