/-
Driver support for C15 / C16 (not part of the model): conversion between the
transport JSON (`Lean.Json`, one request per line) and the model's types.

Transport encodings
  Json tree : null | true/false | {"i":n} | {"f":[num,den]} | {"f":"inf"|"-inf"|"nan"}
              | "plain string" | {"stamp":[y,width,mo,d]} | {"stamp":[y,width,mo,d,h,mi,s,us]}
              | [ … ] | {"o":[[key,value],…]}
  PyVal     : {"t":"none"} | {"t":"bool","v":b} | {"t":"int","v":n} | {"t":"float","v":<fl>}
              | {"t":"str","v":<string or stamp>} | {"t":"list","v":[…]} | {"t":"tuple","v":[…]}
              | {"t":"dict","v":[[<key PyVal>,<PyVal>],…]} | {"t":"date","v":[y,m,d]}
              | {"t":"datetime","v":[y,m,d,h,mi,s,us]}
  Res       : {"ok":x} | {"err":"ExceptionName"}
-/
import ParamVerif.Util.Proto
import ParamVerif.Json.Spec

namespace ParamVerif.Json.Transport
open Lean (Json toJson)
open ParamVerif.Proto
open ParamVerif.Json

abbrev LJson := Lean.Json
abbrev MJson := ParamVerif.Json.Json

def nats (j : LJson) : Except String (List Nat) := do
  (← j.getArr?).toList.mapM (·.getNat?)

def parseFl (j : LJson) : Except String Fl := do
  match j with
  | .str "inf" => return .posInf
  | .str "-inf" => return .negInf
  | .str "nan" => return .nan
  | .arr a =>
    if a.size != 2 then throw "float: [num, den] expected"
    let n ← a[0]!.getInt?
    let d ← a[1]!.getNat?
    if d == 0 then throw "float: zero denominator"
    return .fin (mkRat n d)
  | _ => throw "float expected"

def jFl : Fl → LJson
  | .fin q => Lean.Json.arr #[toJson q.num, toJson q.den]
  | .posInf => "inf"
  | .negInf => "-inf"
  | .nan => "nan"

def parseStamp (j : LJson) : Except String Stamp := do
  match ← nats j with
  | [y, w, mo, d] => return ⟨y, w, mo, d, none⟩
  | [y, w, mo, d, h, mi, s, us] => return ⟨y, w, mo, d, some (h, mi, s, us)⟩
  | _ => throw "stamp: 4 or 8 fields expected"

def jStamp (t : Stamp) : LJson :=
  let base := [t.year, t.yearWidth, t.month, t.day]
  let all := match t.time with
    | some (h, mi, s, us) => base ++ [h, mi, s, us]
    | none => base
  Lean.Json.mkObj [("stamp", Lean.Json.arr (all.map toJson).toArray)]

def parseJStr (j : LJson) : Except String JStr := do
  match j with
  | .str s => return .plain s
  | _ => return .stamp (← parseStamp (← j.getObjVal? "stamp"))

def jJStr : JStr → LJson
  | .plain s => Lean.Json.str s
  | .stamp t => jStamp t

partial def parseTree (j : LJson) : Except String MJson := do
  match j with
  | .null => return .null
  | .bool b => return .bool b
  | .str s => return .str (.plain s)
  | .arr a => return .arr (← a.toList.mapM parseTree)
  | .num _ => throw "bare number in a tree"
  | .obj _ =>
    match getOpt j "i", getOpt j "f", getOpt j "stamp", getOpt j "o" with
    | some n, _, _, _ => return .int (← n.getInt?)
    | _, some f, _, _ => return .float (← parseFl f)
    | _, _, some s, _ => return .str (.stamp (← parseStamp s))
    | _, _, _, some o =>
      let kvs ← (← o.getArr?).toList.mapM fun p => do
        let q ← p.getArr?
        if q.size != 2 then throw "pair expected"
        return (← q[0]!.getStr?, ← parseTree q[1]!)
      return .obj kvs
    | _, _, _, _ =>
      -- {"o": []} parses `o` as an empty array, which getOpt returns as some; {} is not produced
      throw "unknown tree node"

mutual
partial def jTree : MJson → LJson
  | .null => Lean.Json.null
  | .bool b => Lean.Json.bool b
  | .int n => Lean.Json.mkObj [("i", toJson n)]
  | .float x => Lean.Json.mkObj [("f", jFl x)]
  | .str s => jJStr s
  | .arr l => Lean.Json.arr (l.map jTree).toArray
  | .obj kvs => jFields kvs
partial def jFields (kvs : List (String × MJson)) : LJson :=
  Lean.Json.mkObj [("o", Lean.Json.arr (kvs.map fun (k, v) => Lean.Json.arr #[Lean.Json.str k, jTree v]).toArray)]
end

def parseFields (j : LJson) : Except String (List (String × MJson)) := do
  match ← parseTree j with
  | .obj kvs => return kvs
  | _ => throw "object tree expected"

def parseKey (j : LJson) : Except String PyKey := do
  match ← getStr j "t" with
  | "none" => return .none
  | "bool" => return .bool (← getBool j "v")
  | "int" => return .int (← getInt j "v")
  | "str" => return .str (← getStr j "v")
  | t => throw s!"unsupported key type {t}"

partial def parseVal (j : LJson) : Except String PyVal := do
  match ← getStr j "t" with
  | "none" => return .none
  | "bool" => return .bool (← getBool j "v")
  | "int" => return .int (← getInt j "v")
  | "float" => return .float (← parseFl (← j.getObjVal? "v"))
  | "str" => return .str (← parseJStr (← j.getObjVal? "v"))
  | "list" => return .list (← (← getArr j "v").toList.mapM parseVal)
  | "tuple" => return .tuple (← (← getArr j "v").toList.mapM parseVal)
  | "dict" =>
    let kvs ← (← getArr j "v").toList.mapM fun p => do
      let q ← p.getArr?
      if q.size != 2 then throw "pair expected"
      return (← parseKey q[0]!, ← parseVal q[1]!)
    return .dict kvs
  | "date" =>
    match ← nats (← j.getObjVal? "v") with
    | [y, m, d] => return .date y m d
    | _ => throw "date: 3 fields"
  | "datetime" =>
    match ← nats (← j.getObjVal? "v") with
    | [y, m, d, h, mi, s, us] => return .datetime y m d h mi s us
    | _ => throw "datetime: 7 fields"
  | t => throw s!"unknown value type {t}"

def jKey : PyKey → LJson
  | .none => Lean.Json.mkObj [("t", "none")]
  | .bool b => Lean.Json.mkObj [("t", "bool"), ("v", Lean.Json.bool b)]
  | .int n => Lean.Json.mkObj [("t", "int"), ("v", toJson n)]
  | .str s => Lean.Json.mkObj [("t", "str"), ("v", Lean.Json.str s)]

partial def jVal : PyVal → LJson
  | .none => Lean.Json.mkObj [("t", "none")]
  | .bool b => Lean.Json.mkObj [("t", "bool"), ("v", Lean.Json.bool b)]
  | .int n => Lean.Json.mkObj [("t", "int"), ("v", toJson n)]
  | .float x => Lean.Json.mkObj [("t", "float"), ("v", jFl x)]
  | .str s => Lean.Json.mkObj [("t", "str"), ("v", jJStr s)]
  | .list l => Lean.Json.mkObj [("t", "list"), ("v", Lean.Json.arr (l.map jVal).toArray)]
  | .tuple l => Lean.Json.mkObj [("t", "tuple"), ("v", Lean.Json.arr (l.map jVal).toArray)]
  | .dict kvs => Lean.Json.mkObj [("t", "dict"),
      ("v", Lean.Json.arr (kvs.map fun (k, v) => Lean.Json.arr #[jKey k, jVal v]).toArray)]
  | .date y m d => Lean.Json.mkObj [("t", "date"), ("v", Lean.Json.arr #[toJson y, toJson m, toJson d])]
  | .datetime y m d h mi s us => Lean.Json.mkObj [("t", "datetime"),
      ("v", Lean.Json.arr ([y, m, d, h, mi, s, us].map toJson).toArray)]

def parseRes {α : Type} (f : LJson → Except String α) (j : LJson) : Except String (Res α) := do
  match getOpt j "err" with
  | some e => return .error (← e.getStr?)
  | none => return .ok (← f (← j.getObjVal? "ok"))

def jRes {α : Type} (f : α → LJson) : Res α → LJson
  | .ok a => Lean.Json.mkObj [("ok", f a)]
  | .error e => Lean.Json.mkObj [("err", Lean.Json.str e)]

def parseNamed {α : Type} (f : LJson → Except String α) (j : LJson) : Except String (List (String × α)) := do
  (← j.getArr?).toList.mapM fun p => do
    let q ← p.getArr?
    if q.size != 2 then throw "pair expected"
    return (← q[0]!.getStr?, ← f q[1]!)

def jNamed {α : Type} (f : α → LJson) (l : List (String × α)) : LJson :=
  Lean.Json.arr (l.map fun (k, v) => Lean.Json.arr #[Lean.Json.str k, f v]).toArray

/-! ### declarations -/

def parseNum (j : LJson) : Except String Num := do
  match ← parseVal j with
  | .int n => return .int n
  | .float x => return .float x
  | _ => throw "numeric bound expected"

def parseOptNum (j : LJson) : Except String (Option Num) :=
  match j with
  | .null => return none
  | j => return some (← parseNum j)

def parseBounds (j : LJson) : Except String Bounds := do
  let inc ← getArr j "inclusive"
  let range ← match getOpt j "bounds" with
    | none => pure none
    | some b =>
      let a ← b.getArr?
      if a.size != 2 then throw "bounds: pair expected"
      pure (some (← parseOptNum a[0]!, ← parseOptNum a[1]!))
  return { range := range, incLo := ← inc[0]!.getBool?, incHi := ← inc[1]!.getBool? }

def parseAtom (s : String) : Except String ClassAtom :=
  match s with
  | "int" => return .int
  | "float" => return .float
  | "str" => return .str
  | "NoneType" => return .noneType
  | "bool" => return .bool
  | "dict" => return .dict
  | "list" => return .list
  | s => throw s!"unknown class {s}"

def parseSpec (j : LJson) : Except String ClassSpec := do
  match j with
  | .str s => return .one (← parseAtom s)
  | .arr a => return .many (← a.toList.mapM fun x => do parseAtom (← x.getStr?))
  | _ => throw "class spec expected"

def optNat (j : LJson) (k : String) : Except String (Option Nat) :=
  match getOpt j k with
  | none => return none
  | some v => return some (← v.getNat?)

def parseParam (j : LJson) : Except String Param := do
  let objs : Except String (List PyVal) := do (← getArr j "objects").toList.mapM parseVal
  let cfg : PCfg ← match ← getStr j "type" with
    | "Integer" => pure (.integer (← parseBounds j))
    | "Number" => pure (.number (← parseBounds j))
    | "String" => pure .string
    | "Boolean" => pure .boolean
    | "Tuple" => pure (.tuple (← optNat j "length"))
    | "NumericTuple" => pure (.numericTuple (← optNat j "length"))
    | "XYCoordinates" => pure .xy
    | "Range" => pure (.range (← parseBounds j))
    | "Date" => pure .date
    | "CalendarDate" => pure .calendarDate
    | "DateRange" => pure .dateRange
    | "CalendarDateRange" => pure .calendarDateRange
    | "List" =>
      let it ← match getOpt j "item_type" with
        | none => pure none
        | some s => pure (some (← parseSpec s))
      pure (.list it (← optNat j "min_len") (← optNat j "max_len"))
    | "Dict" => pure .dict
    | "Selector" => pure (.selector (← objs))
    | "ListSelector" => pure (.listSelector (← objs))
    | "Color" => pure .color
    | "ClassSelector" => pure (.classSelector (← parseSpec (← j.getObjVal? "class_")))
    | t => throw s!"unknown parameter type {t}"
  let an : Tri := match j.getObjVal? "allow_None" with
    | .ok (.bool true) => .yes
    | .ok (.bool false) => .no
    | _ => .undef
  let dflt ← match getOpt j "default" with
    | none => pure none
    | some d => pure (some (← parseVal d))
  let doc := (getOpt j "doc").bind (fun d => d.getStr?.toOption)
  return { name := ← getStr j "name", cfg := cfg, allowNone := an, default := dflt, doc := doc,
           label := ← getStr j "label" }

/-- a per-instance edit of a Parameter attribute (`obj.param.n.bounds = …`): the instance's own
Parameter object then *is* the edited declaration -/
def applyEdit (p : Param) (slot : String) (v : LJson) : Except String Param := do
  let newBounds (b : Bounds) : Except String Bounds := do
    match slot with
    | "bounds" =>
      match v with
      | .null => pure { b with range := none }
      | v =>
        let a ← v.getArr?
        if a.size != 2 then throw "bounds: pair expected"
        pure { b with range := some (← parseOptNum a[0]!, ← parseOptNum a[1]!) }
    | "inclusive_bounds" =>
      let a ← v.getArr?
      pure { b with incLo := ← a[0]!.getBool?, incHi := ← a[1]!.getBool? }
    | s => throw s!"unsupported edit {s}"
  match slot with
  | "item_type" =>
    -- `p.item_type = …` on an existing List Parameter (both old and new non-None)
    match p.cfg with
    | .list (some _) lo hi => pure { p with cfg := .list (some (← parseSpec v)) lo hi }
    | _ => throw "item_type edit: a List with an item type expected"
  | "default" =>
    -- a plain value assigned on a class (`B.x = v`): the class's Parameter gets the new default;
    -- `allow_None` was fixed when the Parameter was constructed and does not follow
    pure { p with allowNone := (if p.effAllowNone then .yes else p.allowNone), default := some (← parseVal v) }
  | "allow_None" =>
    -- the attribute is assigned directly; only `True` is modelled
    if (← v.getBool?) then pure { p with allowNone := .yes } else throw "allow_None edit: only True"
  | _ =>
    match p.cfg with
    | .integer b => pure { p with cfg := .integer (← newBounds b) }
    | .number b => pure { p with cfg := .number (← newBounds b) }
    | .range b => pure { p with cfg := .range (← newBounds b) }
    | _ => throw "bounds edit on a parameter without bounds"

/-- the state of the case: declared parameters paired with their current values
(class level: the effective defaults).  `edits` are applied to the Parameter objects the object
reads (the instance's own, or those of the class / of an ancestor class it inherits from) after
construction; instance level: then the `final` values are assigned. -/
def parseState (case : LJson) : Except String (List (Param × PyVal)) := do
  let ps0 ← (← getArr case "params").toList.mapM parseParam
  let edits ← match getOpt case "edits" with
    | none => pure []
    | some e => (← e.getArr?).toList.mapM fun x => do
      let q ← x.getArr?
      if q.size != 3 then throw "edit: triple expected"
      pure (← q[0]!.getStr?, ← q[1]!.getStr?, q[2]!)
  let ps ← ps0.mapM fun p =>
    (edits.filter (·.1 == p.name)).foldlM (fun acc (_, slot, val) => applyEdit acc slot val) p
  match ← getStr case "level" with
  | "class" =>
    -- the class attribute `name` is the class name, every other value is the effective default
    let clsName ← getStr case "cls_name"
    ps.mapM fun p =>
      if p.name == "name" then pure (p, PyVal.str (.plain clsName)) else
      match p.effDefault with
      | .ok d => pure (p, d)
      | .error e => throw s!"default of {p.name}: {e.name}"
  | _ =>
    let vs ← (← getArr case "values").toList.mapM parseVal
    if vs.length != ps.length then throw "values: one per parameter expected"
    let finals ← match getOpt case "final" with
      | none => pure []
      | some f => parseNamed parseVal f
    return (ps.zip vs).map fun (p, v) =>
      match finals.find? (·.1 == p.name) with
      | some (_, w) => (p, w)
      | none => (p, v)

def parseSubset (case : LJson) : Except String (Option (List String)) :=
  match getOpt case "subset" with
  | none => return none
  | some s => return some (← (← s.getArr?).toList.mapM (·.getStr?))

def optS : Option String → LJson
  | some s => Lean.Json.str s
  | none => Lean.Json.null

end ParamVerif.Json.Transport
