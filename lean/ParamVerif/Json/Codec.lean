/-
C15 — model of the JSON codec of param: Python values, `json.dumps`/`json.loads`
as tree conversions, the per-type `serialize` / `deserialize` hooks, the
object-level loops of `JSONSerialization`, and the validity predicate that the
theorems take as hypothesis.

Branch order and error paths follow the source; shapes the model does not cover
are answered with `Err.unsupported` (never with a default value).
-/
import ParamVerif.Json.Json

namespace ParamVerif.Json

inductive Err where
  | valueError | typeError | keyError | attributeError
  | unserializable          -- serializer.UnserializableException
  | unsafeSer               -- serializer.UnsafeserializableException
  | unsupported             -- outside the model
  deriving DecidableEq, Repr

def Err.name : Err → String
  | .valueError => "ValueError" | .typeError => "TypeError" | .keyError => "KeyError"
  | .attributeError => "AttributeError" | .unserializable => "UnserializableException"
  | .unsafeSer => "UnsafeserializableException"
  | .unsupported => "unsupported"

/-- dictionary keys that `json.dumps` accepts (float keys are outside the model) -/
inductive PyKey where
  | str (s : String) | int (n : Int) | bool (b : Bool) | none
  deriving DecidableEq, Repr

/-- Python values: the exact Python type is part of the value -/
inductive PyVal where
  | none
  | bool (b : Bool)
  | int (n : Int)
  | float (x : Fl)
  | str (s : JStr)
  | list (l : List PyVal)
  | tuple (l : List PyVal)
  | dict (kvs : List (PyKey × PyVal))
  | date (y m d : Nat)
  | datetime (y m d h mi s us : Nat)
  deriving Repr

namespace PyVal

mutual
def beq : PyVal → PyVal → Bool
  | .none, .none => true
  | .bool a, .bool b => a == b
  | .int a, .int b => a == b
  | .float a, .float b => a == b
  | .str a, .str b => a == b
  | .list a, .list b => beqL a b
  | .tuple a, .tuple b => beqL a b
  | .dict a, .dict b => beqD a b
  | .date y m d, .date y' m' d' => y == y' && m == m' && d == d'
  | .datetime y m d h mi s us, .datetime y' m' d' h' mi' s' us' =>
    y == y' && m == m' && d == d' && h == h' && mi == mi' && s == s' && us == us'
  | _, _ => false
def beqL : List PyVal → List PyVal → Bool
  | [], [] => true
  | a :: as, b :: bs => beq a b && beqL as bs
  | _, _ => false
def beqD : List (PyKey × PyVal) → List (PyKey × PyVal) → Bool
  | [], [] => true
  | (k, a) :: as, (k', b) :: bs => k == k' && beq a b && beqD as bs
  | _, _ => false
end

instance : BEq PyVal := ⟨beq⟩

/-- numeric value of a Python number (`bool` is a number: `True == 1`) -/
def num? : PyVal → Option Fl
  | .int n => some (Fl.ofInt n)
  | .float x => some x
  | .bool b => some (Fl.ofInt (if b then 1 else 0))
  | _ => Option.none

/-- Python `==` between the values that occur as Selector objects -/
def pyEq (a b : PyVal) : Bool :=
  match a.num?, b.num? with
  | some x, some y => Fl.eqv x y
  | Option.none, Option.none => beq a b
  | _, _ => false

def pyIn (v : PyVal) (objs : List PyVal) : Bool := objs.any (pyEq v)

-- no `inf` / `nan` anywhere in the value
mutual
def finite : PyVal → Bool
  | .float x => x.isFinite
  | .list l => finiteL l
  | .tuple l => finiteL l
  | .dict kvs => finiteD kvs
  | _ => true
def finiteL : List PyVal → Bool
  | [] => true
  | a :: as => finite a && finiteL as
def finiteD : List (PyKey × PyVal) → Bool
  | [] => true
  | (_, a) :: as => finite a && finiteD as
end

def isStrKey : PyKey → Bool
  | .str _ => true
  | _ => false

-- JSON-native: what `json.loads` can give back — no tuple, no date, string keys only
mutual
def jsonNative : PyVal → Bool
  | .tuple _ => false
  | .date .. => false
  | .datetime .. => false
  | .list l => jsonNativeL l
  | .dict kvs => jsonNativeD kvs
  | _ => true
def jsonNativeL : List PyVal → Bool
  | [] => true
  | a :: as => jsonNative a && jsonNativeL as
def jsonNativeD : List (PyKey × PyVal) → Bool
  | [] => true
  | (k, a) :: as => isStrKey k && jsonNative a && jsonNativeD as
end

end PyVal

/-! ## `json.dumps` followed by `json.loads`, as trees -/

/-- src: json.encoder — keys: str kept, `True`→"true", int→decimal, `None`→"null" -/
def PyKey.dumps : PyKey → String
  | .str s => s
  | .int n => toString n
  | .bool true => "true"
  | .bool false => "false"
  | .none => "null"

/- src: serializer.py JSONSerialization.dumps (json.dumps): tuples become arrays,
dates are not serializable (TypeError) -/
mutual
def dumps : PyVal → Except Err Json
  | .none => .ok .null
  | .bool b => .ok (.bool b)
  | .int n => .ok (.int n)
  | .float x => .ok (.float x)
  | .str s => .ok (.str s)
  | .list l => match dumpsL l with
    | .ok js => .ok (.arr js)
    | .error e => .error e
  | .tuple l => match dumpsL l with
    | .ok js => .ok (.arr js)
    | .error e => .error e
  | .dict kvs => match dumpsD kvs with
    | .ok js => .ok (.obj js)
    | .error e => .error e
  | .date .. => .error .typeError
  | .datetime .. => .error .typeError
def dumpsL : List PyVal → Except Err (List Json)
  | [] => .ok []
  | a :: as => match dumps a with
    | .error e => .error e
    | .ok j => match dumpsL as with
      | .error e => .error e
      | .ok js => .ok (j :: js)
def dumpsD : List (PyKey × PyVal) → Except Err (List (String × Json))
  | [] => .ok []
  | (k, a) :: as => match dumps a with
    | .error e => .error e
    | .ok j => match dumpsD as with
      | .error e => .error e
      | .ok js => .ok ((k.dumps, j) :: js)
end

/- src: serializer.py JSONSerialization.loads (json.loads) -/
mutual
def loads : Json → PyVal
  | .null => .none
  | .bool b => .bool b
  | .int n => .int n
  | .float x => .float x
  | .str s => .str s
  | .arr l => .list (loadsL l)
  | .obj kvs => .dict (loadsD kvs)
def loadsL : List Json → List PyVal
  | [] => []
  | a :: as => loads a :: loadsL as
def loadsD : List (String × Json) → List (PyKey × PyVal)
  | [] => []
  | (k, a) :: as => (.str k, loads a) :: loadsD as
end

/-! ## strftime / strptime at field level -/

/-- number of characters of the year field — src: parameters.py `_strftime`: `%Y` is replaced by
`'%04d' % value.year`, i.e. zero-padded to four digits whatever the C library does -/
def yearDigits (y : Nat) : Nat :=
  if y < 10000 then 4 else 5

def fmtDate (y m d : Nat) : JStr := .stamp ⟨y, yearDigits y, m, d, none⟩
def fmtDateTime (y m d h mi s us : Nat) : JStr := .stamp ⟨y, yearDigits y, m, d, some (h, mi, s, us)⟩

/-- `v.strftime("%Y-%m-%d")` -/
def strftimeDate : PyVal → Except Err PyVal
  | .date y m d => .ok (.str (fmtDate y m d))
  | .datetime y m d _ _ _ _ => .ok (.str (fmtDate y m d))
  | _ => .error .attributeError

/-- `v.strftime("%Y-%m-%dT%H:%M:%S.%f")` -/
def strftimeDateTime : PyVal → Except Err PyVal
  | .date y m d => .ok (.str (fmtDateTime y m d 0 0 0 0))
  | .datetime y m d h mi s us => .ok (.str (fmtDateTime y m d h mi s us))
  | _ => .error .attributeError

/-- `dt.datetime.strptime(v, "%Y-%m-%dT%H:%M:%S.%f")`; `%Y` demands four digits -/
def strptimeDateTime : PyVal → Except Err PyVal
  | .str (.stamp t) =>
    match t.time with
    | some (h, mi, s, us) =>
      if t.yearWidth = 4 then .ok (.datetime t.year t.month t.day h mi s us) else .error .valueError
    | none => .error .valueError
  | .str (.plain _) => .error .valueError
  | _ => .error .typeError

/-- `dt.datetime.strptime(v, "%Y-%m-%d").date()` -/
def strptimeDate : PyVal → Except Err PyVal
  | .str (.stamp t) =>
    match t.time with
    | none => if t.yearWidth = 4 then .ok (.date t.year t.month t.day) else .error .valueError
    | some _ => .error .valueError
  | .str (.plain _) => .error .valueError
  | _ => .error .typeError

/-- `value == 'null' or value is None` -/
def isNullish : PyVal → Bool
  | .none => true
  | .str (.plain s) => s == "null"
  | _ => false

/-! ## Parameter declarations -/

/-- a numeric bound as written in the declaration (int or float) -/
inductive Num where
  | int (n : Int) | float (x : Fl)
  deriving DecidableEq, Repr

def Num.fl : Num → Fl
  | .int n => Fl.ofInt n
  | .float x => x

/-- `bounds` (None, or a pair of optional numbers) and `inclusive_bounds` -/
structure Bounds where
  range : Option (Option Num × Option Num)
  incLo : Bool
  incHi : Bool
  deriving DecidableEq, Repr

inductive ClassAtom where
  | int | float | str | noneType | bool | dict | list
  deriving DecidableEq, Repr

/-- `class_` / `item_type`: one class or a tuple of classes -/
inductive ClassSpec where
  | one (a : ClassAtom)
  | many (l : List ClassAtom)
  deriving DecidableEq, Repr

inductive PCfg where
  | integer (b : Bounds)
  | number (b : Bounds)
  | string
  | boolean
  | tuple (length : Option Nat)
  | numericTuple (length : Option Nat)
  | xy
  | range (b : Bounds)
  | date
  | calendarDate
  | dateRange
  | calendarDateRange
  | list (itemType : Option ClassSpec) (minLen maxLen : Option Nat)
  | dict
  | selector (objects : List PyVal)
  | listSelector (objects : List PyVal)
  | color
  | classSelector (cls : ClassSpec)
  deriving Repr

/-- how `allow_None` was passed -/
inductive Tri where
  | undef | yes | no
  deriving DecidableEq, Repr

structure Param where
  name : String
  cfg : PCfg
  allowNone : Tri
  /-- `none`: `default` not passed (modelled for Selector / ListSelector only) -/
  default : Option PyVal
  doc : Option String
  label : String
  deriving Repr

/-- src: parameters.py Selector.__init__ (autodefault), ListSelector.__init__ (empty_default) -/
def Param.effDefault (p : Param) : Except Err PyVal :=
  match p.default with
  | some d => .ok d
  | none =>
    match p.cfg with
    | .selector objs => .ok (match objs with | o :: _ => o | [] => .none)
    | .listSelector _ => .ok .none
    | _ => .error .unsupported

/-- src: parameterized.py Parameter._set_allow_None; parameters.py Selector.__init__
(overwrites it with the declared value or the slot default `None`) -/
def Param.effAllowNone (p : Param) : Bool :=
  match p.cfg with
  | .selector _ => p.allowNone == .yes
  | .listSelector _ => p.allowNone == .yes
  | _ =>
    match p.default with
    | some .none => true
    | _ => p.allowNone == .yes

/-- src: parameters.py Tuple.__init__ — a non-empty default fixes the length -/
def tupleLength (decl : Option Nat) : Option PyVal → Except Err Nat
  | some .none => match decl with
    | some n => .ok n
    | none => .error .valueError
  | some (.tuple l) => if l.isEmpty then .ok (decl.getD 0) else .ok l.length
  | _ => .error .unsupported

/-- the `length` slot of the Tuple family -/
def Param.length (p : Param) : Except Err Nat :=
  match p.cfg with
  | .tuple n => tupleLength n p.default
  | .numericTuple n => tupleLength n p.default
  | .xy => tupleLength (some 2) p.default
  | .range _ => tupleLength (some 2) p.default
  | .dateRange => tupleLength (some 2) p.default
  | .calendarDateRange => tupleLength (some 2) p.default
  | _ => .error .unsupported

/-! ## Validity: the values the real validators accept (hypothesis of the theorems,
compared with the real code's accept/reject by the correspondence run) -/

/-- src: parameters.py Number._validate_bounds -/
def Bounds.contains (b : Bounds) (x : Fl) : Bool :=
  match b.range with
  | none => true
  | some (lo, hi) =>
    (match hi with
     | none => true
     | some h => if b.incHi then Fl.le x h.fl else Fl.lt x h.fl) &&
    (match lo with
     | none => true
     | some l => if b.incLo then Fl.le l.fl x else Fl.lt l.fl x)

def ClassAtom.isInstance : ClassAtom → PyVal → Bool
  | .int, .int _ => true
  | .int, .bool _ => true
  | .float, .float _ => true
  | .str, .str _ => true
  | .noneType, .none => true
  | .bool, .bool _ => true
  | .dict, .dict _ => true
  | .list, .list _ => true
  | _, _ => false

def ClassSpec.isInstance : ClassSpec → PyVal → Bool
  | .one a, v => a.isInstance v
  | .many l, v => l.any (fun a => a.isInstance v)

def isNumber : PyVal → Bool
  | .int _ => true
  | .float _ => true
  | .bool _ => true
  | _ => false

def isDateLike : PyVal → Bool
  | .date .. => true
  | .datetime .. => true
  | _ => false

/-- calendar fields in range (Python cannot construct anything else) -/
def wfDate : PyVal → Bool
  | .date y m d => 1 ≤ y && y ≤ 9999 && 1 ≤ m && m ≤ 12 && 1 ≤ d && d ≤ 31
  | .datetime y m d h mi s us =>
    1 ≤ y && y ≤ 9999 && 1 ≤ m && m ≤ 12 && 1 ≤ d && d ≤ 31 && h < 24 && mi < 60 && s < 60 && us < 1000000
  | _ => true

/-- lexicographic `≤` on field lists of equal length -/
def lexLe : List Nat → List Nat → Bool
  | [], _ => true
  | _ :: _, [] => false
  | a :: as, b :: bs => a < b || (a == b && lexLe as bs)

/-- `end >= start` for two dates or two datetimes (mixed comparison raises TypeError) -/
def dateLe : PyVal → PyVal → Bool
  | .date y m d, .date y' m' d' => lexLe [y, m, d] [y', m', d']
  | .datetime y m d h mi s us, .datetime y' m' d' h' mi' s' us' =>
    lexLe [y, m, d, h, mi, s, us] [y', m', d', h', mi', s', us']
  | _, _ => false

def isDateOnly : PyVal → Bool
  | .date .. => true
  | _ => false

/-- the value part of `_validate` for a non-None value -/
def PCfg.accepts (c : PCfg) (len : Nat) (v : PyVal) : Bool :=
  match c, v with
  | .integer b, .int n => b.contains (Fl.ofInt n)
  | .integer b, .bool x => b.contains (Fl.ofInt (if x then 1 else 0))
  | .number b, .int n => b.contains (Fl.ofInt n)
  | .number b, .bool x => b.contains (Fl.ofInt (if x then 1 else 0))
  | .number b, .float x => b.contains x
  | .string, .str (.plain _) => true
  | .boolean, .bool _ => true
  | .tuple _, .tuple l => l.length == len
  | .numericTuple _, .tuple l => l.all isNumber && l.length == len
  | .xy, .tuple l => l.all isNumber && l.length == len
  | .range b, .tuple [x, y] =>
    len == 2 && isNumber x && isNumber y &&
    (match x.num?, y.num? with
     | some a, some c => b.contains a && b.contains c
     | _, _ => false)
  | .date, .date y m d => wfDate (.date y m d)
  | .date, .datetime y m d h mi s us => wfDate (.datetime y m d h mi s us)
  | .calendarDate, .date y m d => wfDate (.date y m d)
  | .dateRange, .tuple [x, y] => len == 2 && wfDate x && wfDate y && dateLe x y
  -- src: CalendarDateRange._validate_value: a tuple of dates, datetimes rejected
  | .calendarDateRange, .tuple [x, y] =>
    len == 2 && isDateOnly x && isDateOnly y && wfDate x && wfDate y && dateLe x y
  | .list it lo hi, .list l =>
    (match lo with | some n => decide (n ≤ l.length) | none => true) &&
    (match hi with | some n => decide (l.length ≤ n) | none => true) &&
    (match it with | some s => l.all s.isInstance | none => true)
  | .dict, .dict _ => true
  -- check_on_set defaults to `len(objects) != 0`: without objects every value is taken (and appended)
  | .selector objs, v => objs.isEmpty || PyVal.pyIn v objs
  | .listSelector objs, .list l => objs.isEmpty || l.all (fun x => PyVal.pyIn x objs)
  | .color, .str (.plain _) => true
  | .classSelector s, v => s.isInstance v
  | _, _ => false

/-- what assignment / the constructor accepts -/
def Param.validB (p : Param) (v : PyVal) : Bool :=
  let len := match p.length with | .ok n => n | .error _ => 0
  match v with
  | .none => p.effAllowNone || p.cfg.accepts len .none
  | v => p.cfg.accepts len v

/-- a reachable state: an accepted value, or the unvalidated `None` default of a Selector -/
def Param.stateOK (p : Param) (v : PyVal) : Bool :=
  p.validB v || (match v, p.effDefault with | .none, .ok .none => true | _, _ => false)

/-! ## Per-type hooks -/

/-- `list(value)` for the shapes that occur -/
def asList : PyVal → Except Err PyVal
  | .tuple l => .ok (.list l)
  | .list l => .ok (.list l)
  | _ => .error .unsupported

/-- `tuple(value)` for the shapes that occur -/
def asTuple : PyVal → Except Err PyVal
  | .list l => .ok (.tuple l)
  | .tuple l => .ok (.tuple l)
  | .int _ => .error .typeError
  | .float _ => .error .typeError
  | .bool _ => .error .typeError
  | _ => .error .unsupported

def mapE (f : PyVal → Except Err PyVal) : List PyVal → Except Err (List PyVal)
  | [] => .ok []
  | a :: as => match f a with
    | .error e => .error e
    | .ok b => match mapE f as with
      | .error e => .error e
      | .ok bs => .ok (b :: bs)

/-- the iterable a `for v in value` loop walks over -/
def iterOf : PyVal → Except Err (List PyVal)
  | .tuple l => .ok l
  | .list l => .ok l
  | .int _ => .error .typeError
  | .float _ => .error .typeError
  | .bool _ => .error .typeError
  | _ => .error .unsupported

/-- src: parameters.py DateRange.serialize loop body: `type(v) is dt.date` -/
def dateRangeItem : PyVal → Except Err PyVal
  | .date y m d => strftimeDate (.date y m d)
  | .datetime y m d h mi s us => strftimeDateTime (.datetime y m d h mi s us)
  | _ => .error .attributeError

/-- `len(v)` -/
def pyLen : PyVal → Except Err Nat
  | .str s => .ok s.length
  | .list l => .ok l.length
  | .tuple l => .ok l.length
  | .dict kvs => .ok kvs.length
  | _ => .error .typeError

/-- src: parameters.py DateRange.deserialize loop body: `len(v) == 10` selects the date format -/
def dateRangeItemBack (v : PyVal) : Except Err PyVal :=
  match pyLen v with
  | .error e => .error e
  | .ok n => if n = 10 then strptimeDate v else strptimeDateTime v

/-- src: parameterized.py Parameter.serialize; parameters.py Date/CalendarDate/Tuple/
DateRange/CalendarDateRange.serialize -/
def PCfg.serialize (c : PCfg) (v : PyVal) : Except Err PyVal :=
  match c with
  | .date => match v with
    | .none => .ok .none
    | v => strftimeDateTime v
  | .calendarDate => match v with
    | .none => .ok .none
    | v => strftimeDate v
  | .tuple _ => match v with
    | .none => .ok .none
    | v => asList v
  | .numericTuple _ => match v with
    | .none => .ok .none
    | v => asList v
  | .xy => match v with
    | .none => .ok .none
    | v => asList v
  | .range _ => match v with
    | .none => .ok .none
    | v => asList v
  | .dateRange => match v with
    | .none => .ok .none
    | v => match iterOf v with
      | .error e => .error e
      | .ok l => match mapE dateRangeItem l with
        | .error e => .error e
        | .ok l' => .ok (.list l')
  | .calendarDateRange => match v with
    | .none => .ok .none
    | v => match iterOf v with
      | .error e => .error e
      | .ok l => match mapE strftimeDate l with
        | .error e => .error e
        | .ok l' => .ok (.list l')
  | _ => .ok v

/-- src: parameterized.py Parameter.deserialize; parameters.py Date/CalendarDate/Tuple/
DateRange/CalendarDateRange.deserialize -/
def PCfg.deserialize (c : PCfg) (v : PyVal) : Except Err PyVal :=
  match c with
  | .date => if isNullish v then .ok .none else strptimeDateTime v
  | .calendarDate => if isNullish v then .ok .none else strptimeDate v
  | .tuple _ => if isNullish v then .ok .none else asTuple v
  | .numericTuple _ => if isNullish v then .ok .none else asTuple v
  | .xy => if isNullish v then .ok .none else asTuple v
  | .range _ => if isNullish v then .ok .none else asTuple v
  | .dateRange =>
    if isNullish v then .ok .none else
    match iterOf v with
    | .error e => .error e
    | .ok l => match mapE dateRangeItemBack l with
      | .error e => .error e
      | .ok l' => .ok (.tuple l')
  | .calendarDateRange =>
    if isNullish v then .ok .none else
    match iterOf v with
    | .error e => .error e
    | .ok l => match mapE strptimeDate l with
      | .error e => .error e
      | .ok l' => .ok (.tuple l')
  | _ => .ok v

/-! ## Parameter-level and object-level entry points -/

/-- src: serializer.py JSONSerialization.serialize_parameter_value -/
def serializeValue (p : Param) (v : PyVal) : Except Err Json :=
  match p.cfg.serialize v with
  | .error e => .error e
  | .ok s => dumps s

/-- src: serializer.py JSONSerialization.deserialize_parameter_value -/
def deserializeValue (p : Param) (j : Json) : Except Err PyVal :=
  p.cfg.deserialize (loads j)

def inSubset (subset : Option (List String)) (name : String) : Bool :=
  match subset with
  | none => true
  | some l => l.contains name

/-- src: serializer.py JSONSerialization.serialize_parameters — the loop -/
def serializeComponents (subset : Option (List String)) :
    List (Param × PyVal) → Except Err (List (String × PyVal))
  | [] => .ok []
  | (p, v) :: rest =>
    if !inSubset subset p.name then serializeComponents subset rest else
    match p.cfg.serialize v with
    | .error e => .error e
    | .ok s => match serializeComponents subset rest with
      | .error e => .error e
      | .ok r => .ok ((p.name, s) :: r)

/-- `json.dumps` of the components dictionary (keys are parameter names) -/
def dumpsFields : List (String × PyVal) → Except Err (List (String × Json))
  | [] => .ok []
  | (k, a) :: as => match dumps a with
    | .error e => .error e
    | .ok j => match dumpsFields as with
      | .error e => .error e
      | .ok js => .ok ((k, j) :: js)

/-- src: serializer.py JSONSerialization.serialize_parameters -/
def serializeParameters (state : List (Param × PyVal)) (subset : Option (List String)) :
    Except Err (List (String × Json)) :=
  match serializeComponents subset state with
  | .error e => .error e
  | .ok comps => dumpsFields comps

def findParam (ps : List Param) (name : String) : Option Param :=
  ps.find? (fun p => p.name == name)

/-- src: parameterized.py Parameterized.__init__ — `Cls(**kw)`: every keyword is validated by its
Parameter (an unknown name is rejected); the rebuilt object then holds the keyword values, read
back here in declaration order -/
def modelRebuild (ps : List Param) (l : List (String × PyVal)) : Except String (List (String × PyVal)) :=
  if l.all (fun (n, v) => match findParam ps n with | some p => p.validB v | none => false) then
    .ok (ps.filterMap fun p => (l.find? (fun x => x.1 == p.name)))
  else .error "rejected"

/-- src: serializer.py JSONSerialization.deserialize_parameters — the loop -/
def deserializeFields (ps : List Param) (subset : Option (List String)) :
    List (String × Json) → Except Err (List (String × PyVal))
  | [] => .ok []
  | (name, j) :: rest =>
    if !inSubset subset name then deserializeFields ps subset rest else
    match findParam ps name with
    | none => .error .keyError
    | some p => match p.cfg.deserialize (loads j) with
      | .error e => .error e
      | .ok v => match deserializeFields ps subset rest with
        | .error e => .error e
        | .ok r => .ok ((name, v) :: r)

end ParamVerif.Json
