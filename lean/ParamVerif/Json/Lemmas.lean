/-
Helper lemmas for C15 / C16 (no property statements here).
-/
import ParamVerif.Json.Spec

namespace ParamVerif.Json

/-! ### json.dumps / json.loads on JSON-native values -/

mutual
theorem loads_dumps : ∀ v : PyVal, v.jsonNative = true → ∃ j, dumps v = .ok j ∧ loads j = v
  | .none, _ => ⟨_, rfl, rfl⟩
  | .bool _, _ => ⟨_, rfl, rfl⟩
  | .int _, _ => ⟨_, rfl, rfl⟩
  | .float _, _ => ⟨_, rfl, rfl⟩
  | .str _, _ => ⟨_, rfl, rfl⟩
  | .list l, h => by
    obtain ⟨js, h1, h2⟩ := loadsL_dumpsL l (by simpa [PyVal.jsonNative] using h)
    exact ⟨.arr js, by simp [dumps, h1], by simp [loads, h2]⟩
  | .tuple _, h => by simp [PyVal.jsonNative] at h
  | .dict kvs, h => by
    obtain ⟨js, h1, h2⟩ := loadsD_dumpsD kvs (by simpa [PyVal.jsonNative] using h)
    exact ⟨.obj js, by simp [dumps, h1], by simp [loads, h2]⟩
  | .date .., h => by simp [PyVal.jsonNative] at h
  | .datetime .., h => by simp [PyVal.jsonNative] at h
theorem loadsL_dumpsL : ∀ l : List PyVal, PyVal.jsonNativeL l = true →
    ∃ js, dumpsL l = .ok js ∧ loadsL js = l
  | [], _ => ⟨[], rfl, rfl⟩
  | a :: as, h => by
    simp only [PyVal.jsonNativeL, Bool.and_eq_true] at h
    obtain ⟨j, h1, h2⟩ := loads_dumps a h.1
    obtain ⟨js, h3, h4⟩ := loadsL_dumpsL as h.2
    exact ⟨j :: js, by simp [dumpsL, h1, h3], by simp [loadsL, h2, h4]⟩
theorem loadsD_dumpsD : ∀ l : List (PyKey × PyVal), PyVal.jsonNativeD l = true →
    ∃ js, dumpsD l = .ok js ∧ loadsD js = l
  | [], _ => ⟨[], rfl, rfl⟩
  | (k, a) :: as, h => by
    simp only [PyVal.jsonNativeD, Bool.and_eq_true] at h
    obtain ⟨j, h1, h2⟩ := loads_dumps a h.1.2
    obtain ⟨js, h3, h4⟩ := loadsD_dumpsD as h.2
    refine ⟨(k.dumps, j) :: js, by simp [dumpsD, h1, h3], ?_⟩
    cases k <;> simp [PyVal.isStrKey] at h
    simp [loadsD, h2, h4, PyKey.dumps]
end

/-! ### finite values give standard JSON -/

mutual
theorem standard_dumps : ∀ (v : PyVal) (j : Json), v.finite = true → dumps v = .ok j → j.standard = true
  | .none, j, _, h => by simp [dumps] at h; subst h; rfl
  | .bool _, j, _, h => by simp [dumps] at h; subst h; rfl
  | .int _, j, _, h => by simp [dumps] at h; subst h; rfl
  | .float x, j, hf, h => by simp [dumps] at h; subst h; simpa [PyVal.finite, Json.standard] using hf
  | .str _, j, _, h => by simp [dumps] at h; subst h; rfl
  | .list l, j, hf, h => by
    simp only [dumps] at h
    split at h
    · rename_i js hjs
      simp only [Except.ok.injEq] at h; subst h
      simpa [Json.standard] using standardL_dumpsL l js (by simpa [PyVal.finite] using hf) hjs
    · simp at h
  | .tuple l, j, hf, h => by
    simp only [dumps] at h
    split at h
    · rename_i js hjs
      simp only [Except.ok.injEq] at h; subst h
      simpa [Json.standard] using standardL_dumpsL l js (by simpa [PyVal.finite] using hf) hjs
    · simp at h
  | .dict kvs, j, hf, h => by
    simp only [dumps] at h
    split at h
    · rename_i js hjs
      simp only [Except.ok.injEq] at h; subst h
      simpa [Json.standard] using standardO_dumpsD kvs js (by simpa [PyVal.finite] using hf) hjs
    · simp at h
  | .date .., _, _, h => by simp [dumps] at h
  | .datetime .., _, _, h => by simp [dumps] at h
theorem standardL_dumpsL : ∀ (l : List PyVal) (js : List Json), PyVal.finiteL l = true →
    dumpsL l = .ok js → Json.standardL js = true
  | [], js, _, h => by simp [dumpsL] at h; subst h; rfl
  | a :: as, js, hf, h => by
    simp only [PyVal.finiteL, Bool.and_eq_true] at hf
    simp only [dumpsL] at h
    split at h
    · simp at h
    · rename_i j hj
      split at h
      · simp at h
      · rename_i js' hjs'
        simp only [Except.ok.injEq] at h; subst h
        simp [Json.standardL, standard_dumps a j hf.1 hj, standardL_dumpsL as js' hf.2 hjs']
theorem standardO_dumpsD : ∀ (l : List (PyKey × PyVal)) (js : List (String × Json)), PyVal.finiteD l = true →
    dumpsD l = .ok js → Json.standardO js = true
  | [], js, _, h => by simp [dumpsD] at h; subst h; rfl
  | (k, a) :: as, js, hf, h => by
    simp only [PyVal.finiteD, Bool.and_eq_true] at hf
    simp only [dumpsD] at h
    split at h
    · simp at h
    · rename_i j hj
      split at h
      · simp at h
      · rename_i js' hjs'
        simp only [Except.ok.injEq] at h; subst h
        simp [Json.standardO, standard_dumps a j hf.1 hj, standardO_dumpsD as js' hf.2 hjs']
end

/-! ### numbers, dates -/

theorem isNumber_native {v : PyVal} (h : isNumber v = true) : v.jsonNative = true := by
  cases v <;> simp [isNumber] at h <;> rfl

theorem all_isNumber_nativeL : ∀ {l : List PyVal}, l.all isNumber = true → PyVal.jsonNativeL l = true
  | [], _ => rfl
  | a :: as, h => by
    simp only [List.all_cons, Bool.and_eq_true] at h
    simp [PyVal.jsonNativeL, isNumber_native h.1, all_isNumber_nativeL h.2]

theorem yearDigits_eq_four {y : Nat} (h : y ≤ 9999) : yearDigits y = 4 := by
  unfold yearDigits
  have d : y < 10000 := by omega
  simp [d]

/-- the parameter types that inherit `Parameter.serialize` / `Parameter.deserialize` -/
def PCfg.isIdentity : PCfg → Bool
  | .integer _ => true
  | .number _ => true
  | .string => true
  | .boolean => true
  | .list .. => true
  | .dict => true
  | .selector _ => true
  | .listSelector _ => true
  | .color => true
  | .classSelector _ => true
  | _ => false

theorem serialize_identity {c : PCfg} (h : c.isIdentity = true) (v : PyVal) : c.serialize v = .ok v := by
  cases c <;> simp [PCfg.isIdentity] at h <;> rfl

theorem deserialize_identity {c : PCfg} (h : c.isIdentity = true) (v : PyVal) : c.deserialize v = .ok v := by
  cases c <;> simp [PCfg.isIdentity] at h <;> rfl

/-- identity codec: the value survives when it is JSON-native -/
theorem identity_roundtrip {p : Param} {v : PyVal} (hc : p.cfg.isIdentity = true) (hn : v.jsonNative = true) :
    ∃ j, serializeValue p v = .ok j ∧ deserializeValue p j = .ok v := by
  obtain ⟨j, h1, h2⟩ := loads_dumps v hn
  exact ⟨j, by simp [serializeValue, serialize_identity hc, h1],
            by simp [deserializeValue, h2, deserialize_identity hc]⟩

/-- Tuple family: `list(value)` out, `tuple(value)` back -/
theorem tuple_roundtrip {l : List PyVal} (hn : PyVal.jsonNativeL l = true) :
    ∃ j, dumps (.list l) = .ok j ∧ loads j = .list l ∧ isNullish (loads j) = false :=  by
  obtain ⟨js, h1, h2⟩ := loadsL_dumpsL l hn
  exact ⟨.arr js, by simp [dumps, h1], by simp [loads, h2], by simp [loads, isNullish]⟩

/-! ### `serialize` keeps values finite -/

theorem mapE_finite {f : PyVal → Except Err PyVal} (hf : ∀ a b, f a = .ok b → b.finite = true) :
    ∀ (l l' : List PyVal), mapE f l = .ok l' → PyVal.finiteL l' = true
  | [], l', h => by simp [mapE] at h; subst h; rfl
  | a :: as, l', h => by
    simp only [mapE] at h
    split at h
    · simp at h
    · rename_i b hb
      split at h
      · simp at h
      · rename_i bs hbs
        simp only [Except.ok.injEq] at h; subst h
        simp [PyVal.finiteL, hf a b hb, mapE_finite hf as bs hbs]

theorem strftimeDate_finite (a b : PyVal) (h : strftimeDate a = .ok b) : b.finite = true := by
  cases a <;> simp [strftimeDate] at h <;> subst h <;> rfl

theorem strftimeDateTime_finite (a b : PyVal) (h : strftimeDateTime a = .ok b) : b.finite = true := by
  cases a <;> simp [strftimeDateTime] at h <;> subst h <;> rfl

theorem dateRangeItem_finite (a b : PyVal) (h : dateRangeItem a = .ok b) : b.finite = true := by
  cases a <;> simp [dateRangeItem] at h
  · exact strftimeDate_finite _ _ h
  · exact strftimeDateTime_finite _ _ h

theorem asList_finite {v s : PyVal} (h : asList v = .ok s) (hf : v.finite = true) : s.finite = true := by
  cases v <;> simp [asList] at h <;> subst h <;> simpa [PyVal.finite] using hf

theorem serialize_finite {c : PCfg} {v s : PyVal} (h : c.serialize v = .ok s) (hf : v.finite = true) :
    s.finite = true := by
  cases c <;> simp only [PCfg.serialize] at h
  case date =>
    split at h
    · simp at h; subst h; rfl
    · exact strftimeDateTime_finite _ _ h
  case calendarDate =>
    split at h
    · simp at h; subst h; rfl
    · exact strftimeDate_finite _ _ h
  case dateRange =>
    split at h
    · simp at h; subst h; rfl
    · split at h
      · simp at h
      · split at h
        · simp at h
        · rename_i l _ l' hl'
          simp at h; subst h
          simpa [PyVal.finite] using mapE_finite dateRangeItem_finite _ _ hl'
  case calendarDateRange =>
    split at h
    · simp at h; subst h; rfl
    · split at h
      · simp at h
      · split at h
        · simp at h
        · rename_i l _ l' hl'
          simp at h; subst h
          simpa [PyVal.finite] using mapE_finite strftimeDate_finite _ _ hl'
  all_goals first
    | (simp at h; subst h; exact hf)
    | (split at h
       · simp at h; subst h; rfl
       · exact asList_finite h hf)

theorem standard_serializeValue {p : Param} {v : PyVal} {j : Json} (hf : v.finite = true)
    (h : serializeValue p v = .ok j) : j.standard = true := by
  unfold serializeValue at h
  split at h
  · simp at h
  · rename_i s hs
    exact standard_dumps s j (serialize_finite hs hf) h

/-! ### object-level loops -/

theorem findParam_of_nodup : ∀ (ps : List Param), (ps.map (·.name)).Nodup →
    ∀ p ∈ ps, findParam ps p.name = some p
  | [], _, p, hp => by simp at hp
  | q :: qs, hnd, p, hp => by
    simp only [List.map_cons, List.nodup_cons] at hnd
    rcases List.mem_cons.1 hp with h | h
    · subst h; simp [findParam]
    · have : q.name ≠ p.name := by
        intro e; exact hnd.1 (e ▸ List.mem_map.2 ⟨p, h, rfl⟩)
      have ih := findParam_of_nodup qs hnd.2 p h
      simp only [findParam] at ih ⊢
      simp [this, ih]

/-- the two object-level loops compose to the identity on the selected parameters when every
parameter's own codec does; the text may be written with one subset and read back with another
(`none` = everything) -/
theorem roundtrip_fields₂ (ps : List Param) (s1 s2 : Option (List String)) :
    ∀ st : List (Param × PyVal),
      (∀ pv ∈ st, findParam ps pv.1.name = some pv.1) →
      (∀ pv ∈ st, ∃ j, serializeValue pv.1 pv.2 = .ok j ∧ j.standard = true ∧
                        deserializeValue pv.1 j = .ok pv.2) →
      ∃ fields, serializeParameters st s1 = .ok fields ∧ Json.standardO fields = true ∧
        deserializeFields ps s2 fields =
          .ok ((st.filter (fun pv => inSubset s1 pv.1.name && inSubset s2 pv.1.name)).map
                (fun pv => (pv.1.name, pv.2)))
  | [], _, _ => ⟨[], rfl, rfl, rfl⟩
  | (p, v) :: rest, hfind, hrt => by
    obtain ⟨fields, h1, h2, h3⟩ := roundtrip_fields₂ ps s1 s2 rest
      (fun pv h => hfind pv (List.mem_cons_of_mem _ h)) (fun pv h => hrt pv (List.mem_cons_of_mem _ h))
    unfold serializeParameters at h1 ⊢
    by_cases hsub : inSubset s1 p.name = true
    · obtain ⟨j, hj1, hj2, hj3⟩ := hrt (p, v) (List.mem_cons_self)
      have hf := hfind (p, v) (List.mem_cons_self)
      simp only [serializeValue] at hj1
      split at hj1
      · simp at hj1
      · rename_i s hs
        split at h1
        · simp at h1
        · rename_i comps hcomps
          refine ⟨(p.name, j) :: fields, ?_, ?_, ?_⟩
          · simp [serializeComponents, hsub, hs, hcomps, dumpsFields, hj1, h1]
          · simp [Json.standardO, hj2, h2]
          · simp only [deserializeValue] at hj3
            by_cases hsub2 : inSubset s2 p.name = true
            · simp [deserializeFields, hsub, hsub2, hf, hj3, h3]
            · simp only [Bool.not_eq_true] at hsub2
              simp [deserializeFields, hsub, hsub2, h3]
    · simp only [Bool.not_eq_true] at hsub
      refine ⟨fields, ?_, h2, ?_⟩
      · simpa [serializeComponents, hsub] using h1
      · simpa [hsub] using h3

theorem roundtrip_fields (ps : List Param) (subset : Option (List String))
    (st : List (Param × PyVal))
    (hfind : ∀ pv ∈ st, findParam ps pv.1.name = some pv.1)
    (hrt : ∀ pv ∈ st, ∃ j, serializeValue pv.1 pv.2 = .ok j ∧ j.standard = true ∧
                        deserializeValue pv.1 j = .ok pv.2) :
    ∃ fields, serializeParameters st subset = .ok fields ∧ Json.standardO fields = true ∧
      deserializeFields ps subset fields =
        .ok ((st.filter (fun pv => inSubset subset pv.1.name)).map (fun pv => (pv.1.name, pv.2))) := by
  obtain ⟨fields, h1, h2, h3⟩ := roundtrip_fields₂ ps subset subset st hfind hrt
  exact ⟨fields, h1, h2, by simpa using h3⟩

/-! ### the validator on the schema shapes param generates -/

theorem validateKws_append : ∀ (a b : List (String × Json)) (i : Json),
    validateKws (a ++ b) i = (validateKws a i && validateKws b i)
  | [], b, i => by simp [validateKws]
  | (k, s) :: a, b, i => by
    rw [List.cons_append, validateKws.eq_def, validateKws.eq_def ((k, s) :: a)]
    simp only [validateKws_append a b i, Bool.and_assoc]

theorem validate_typeObj (t : String) (j : Json) : validate (typeObj t) j = hasType t j := by
  simp [typeObj, jstr, validate, validateKws]

theorem validate_nullable (s j : Json) : validate (nullable s) j = (validate s j || hasType "null" j) := by
  simp [nullable, validate, validateKws, validateAny, validate_typeObj]

theorem Num.json_num (n : Num) : n.json.num? = some n.fl := by
  cases n <;> rfl

theorem Fl.le_negInf_fin {x : Fl} (h : x.isFinite = true) : Fl.le .negInf x = true ∧ Fl.lt .negInf x = true ∧
    Fl.le x .posInf = true ∧ Fl.lt x .posInf = true := by
  cases x <;> simp [Fl.isFinite] at h <;> simp [Fl.le, Fl.lt]

/-- the schema never asks more than the declared bounds: a finite number inside the bounds passes
every bounds keyword (any declaration) -/
theorem validate_numberSchema_of_contains (t : String) (b : Bounds) (j : Json) (x : Fl)
    (hx : j.num? = some x) (ht : hasType t j = true) (hc : b.contains x = true) :
    validate (numberSchema t b) j = true := by
  unfold numberSchema declareNumericBounds
  unfold Bounds.contains at hc
  rcases b with ⟨range, il, ih⟩
  rcases range with _ | ⟨lo, hi⟩
  · simp [validate, validateKws, jstr, ht]
  · rcases lo with _ | lo <;> rcases hi with _ | hi
    · simp [validate, validateKws, jstr, ht]
    · by_cases hp : hi.isFinite = true <;> cases ih <;> simp at hc <;>
        simp [validate, validateKws, jstr, numKw, hx, Num.json_num, hp, ht, hc]
    · by_cases hn : lo.isFinite = true <;> cases il <;> simp at hc <;>
        simp [validate, validateKws, jstr, numKw, hx, Num.json_num, hn, ht, hc]
    · by_cases hn : lo.isFinite = true <;> by_cases hp : hi.isFinite = true <;> cases il <;> cases ih <;>
        simp at hc <;>
        simp [validate, validateKws, jstr, numKw, hx, Num.json_num, hn, hp, ht, hc]

/-- for a finite JSON number and satisfiable bounds the bounds keywords say exactly
`Bounds.contains` (a skipped `-inf` / `+inf` bound constrains no finite number) -/
theorem validate_numberSchema (t : String) (b : Bounds) (j : Json) (x : Fl) (hx : j.num? = some x)
    (hfin : x.isFinite = true) (hs : b.sane = true) :
    validate (numberSchema t b) j = (hasType t j && b.contains x) := by
  obtain ⟨f1, f2, f3, f4⟩ := Fl.le_negInf_fin hfin
  have lo_cases : ∀ l : Num, (l.isFinite || l == .float .negInf) = true → l.isFinite = false → l.fl = .negInf := by
    intro l h1 h2
    simp only [h2, Bool.false_or, beq_iff_eq] at h1
    subst h1; rfl
  have hi_cases : ∀ l : Num, (l.isFinite || l == .float .posInf) = true → l.isFinite = false → l.fl = .posInf := by
    intro l h1 h2
    simp only [h2, Bool.false_or, beq_iff_eq] at h1
    subst h1; rfl
  unfold numberSchema declareNumericBounds Bounds.contains
  unfold Bounds.sane at hs
  rcases b with ⟨range, il, ih⟩
  rcases range with _ | ⟨lo, hi⟩
  · simp [validate, validateKws, jstr]
  · rcases lo with _ | lo <;> rcases hi with _ | hi
    · simp [validate, validateKws, jstr]
    · simp only [Bool.true_and] at hs
      by_cases hp : hi.isFinite = true
      · cases ih <;> simp [validate, validateKws, jstr, numKw, hx, Num.json_num, hp]
      · have e := hi_cases hi hs (by simpa using hp)
        cases ih <;> simp [validate, validateKws, jstr, hp, f3, f4, e]
    · simp only [Bool.and_true] at hs
      by_cases hn : lo.isFinite = true
      · cases il <;> simp [validate, validateKws, jstr, numKw, hx, Num.json_num, hn]
      · have e := lo_cases lo hs (by simpa using hn)
        cases il <;> simp [validate, validateKws, jstr, hn, f1, f2, e]
    · simp only [Bool.and_eq_true] at hs
      by_cases hn : lo.isFinite = true <;> by_cases hp : hi.isFinite = true
      · cases il <;> cases ih <;>
          simp [validate, validateKws, jstr, numKw, hx, Num.json_num, hn, hp, Bool.and_comm]
      · have e := hi_cases hi hs.2 (by simpa using hp)
        cases il <;> cases ih <;>
          simp [validate, validateKws, jstr, numKw, hx, Num.json_num, hn, hp, f3, f4, e]
      · have e := lo_cases lo hs.1 (by simpa using hn)
        cases il <;> cases ih <;>
          simp [validate, validateKws, jstr, numKw, hx, Num.json_num, hn, hp, f1, f2, e]
      · have e1 := lo_cases lo hs.1 (by simpa using hn)
        have e2 := hi_cases hi hs.2 (by simpa using hp)
        cases il <;> cases ih <;>
          simp [validate, validateKws, jstr, hn, hp, f1, f2, f3, f4, e1, e2]

theorem dumpsL_length : ∀ (l : List PyVal) (js : List Json), dumpsL l = .ok js → js.length = l.length
  | [], js, h => by simp [dumpsL] at h; subst h; rfl
  | a :: as, js, h => by
    simp only [dumpsL] at h
    split at h
    · simp at h
    · split at h
      · simp at h
      · rename_i js' hjs'
        simp only [Except.ok.injEq] at h; subst h
        simp [dumpsL_length as js' hjs']

/-- what `dumpsL` does element by element -/
theorem dumpsL_all {f : Json → Bool} :
    ∀ (l : List PyVal) (js : List Json), dumpsL l = .ok js →
      (∀ v ∈ l, ∀ j, dumps v = .ok j → f j = true) → js.all f = true
  | [], js, h, _ => by simp [dumpsL] at h; subst h; rfl
  | a :: as, js, h, hp => by
    simp only [dumpsL] at h
    split at h
    · simp at h
    · rename_i j hj
      split at h
      · simp at h
      · rename_i js' hjs'
        simp only [Except.ok.injEq] at h; subst h
        simp [hp a (List.mem_cons_self) j hj,
          dumpsL_all as js' hjs' (fun v hv => hp v (List.mem_cons_of_mem _ hv))]

theorem validate_tupleSchema (n : Nat) (extra : List (String × Json)) (js : List Json)
    (hlen : js.length = n) (hex : validateKws extra (.arr js) = true) :
    validate (.obj (tupleSchemaFields n ++ extra)) (.arr js) = true := by
  simp [validate, tupleSchemaFields, validateKws, jstr, hasType, hlen, hex]

theorem validateAny_of_mem : ∀ {ss : List Json} {s j : Json}, s ∈ ss → validate s j = true →
    validateAny ss j = true
  | _ :: _, _, _, h, hv => by
    rcases List.mem_cons.1 h with e | e
    · subst e; simp [validateAny, hv]
    · simp [validateAny, validateAny_of_mem e hv]

/-- the strict reading of `isinstance(v, class_)` under which the generated schema is right:
exact int (not bool), and no `bool` / `list` classes (declared `object`) -/
def ClassAtom.exact : ClassAtom → PyVal → Bool
  | .int, .int _ => true
  | .float, .float _ => true
  | .str, .str _ => true
  | .noneType, .none => true
  | .dict, .dict _ => true
  | _, _ => false

def ClassSpec.exact : ClassSpec → PyVal → Bool
  | .one a, v => a.exact v
  | .many l, v => l.any (fun a => a.exact v)

theorem validate_atom {a : ClassAtom} {v : PyVal} {j : Json} (h : a.exact v = true) (hd : dumps v = .ok j) :
    validate a.schema j = true := by
  cases a <;> cases v <;> simp [ClassAtom.exact] at h <;> simp [dumps] at hd
  · subst hd; simp [ClassAtom.schema, validate_typeObj, hasType]
  · subst hd; simp [ClassAtom.schema, validate_typeObj, hasType]
  · subst hd; simp [ClassAtom.schema, validate_typeObj, hasType]
  · subst hd; simp [ClassAtom.schema, validate_typeObj, hasType]
  · split at hd
    · simp at hd; subst hd; simp [ClassAtom.schema, validate_typeObj, hasType]
    · simp at hd

theorem validate_spec {s : ClassSpec} {v : PyVal} {j : Json} (h : s.exact v = true) (hd : dumps v = .ok j) :
    validate s.schema j = true := by
  cases s with
  | one a => exact validate_atom h hd
  | many l =>
    simp only [ClassSpec.exact, List.any_eq_true] at h
    obtain ⟨a, ha, hx⟩ := h
    simp only [ClassSpec.schema, validate, validateKws, Bool.and_true]
    exact validateAny_of_mem (List.mem_map.2 ⟨a, ha, rfl⟩) (validate_atom hx hd)


theorem literalTypes_mem : ∀ {objs : List PyVal} {ts : List String} {v : PyVal},
    literalTypes objs = some ts → v ∈ objs → ∃ t, literalType v = some t ∧ t ∈ ts
  | o :: os, ts, v, h, hv => by
    simp only [literalTypes] at h
    split at h
    · simp at h
    · rename_i t ht
      split at h
      · simp at h
      · rename_i ts' hts'
        simp only [Option.some.injEq] at h; subst h
        rcases List.mem_cons.1 hv with e | e
        · subst e; exact ⟨t, ht, List.mem_cons_self⟩
        · obtain ⟨t', h1, h2⟩ := literalTypes_mem hts' e
          exact ⟨t', h1, List.mem_cons_of_mem _ h2⟩

theorem literalTypes_length : ∀ {objs : List PyVal} {ts : List String},
    literalTypes objs = some ts → ts.length = objs.length
  | [], ts, h => by simp [literalTypes] at h; subst h; rfl
  | o :: os, ts, h => by
    simp only [literalTypes] at h
    split at h
    · simp at h
    · split at h
      · simp at h
      · rename_i ts' hts'
        simp only [Option.some.injEq] at h; subst h
        simp [literalTypes_length hts']

theorem literalType_known {v : PyVal} {t : String} (h : literalType v = some t) : knownType t = true := by
  cases v <;> simp [literalType] at h <;> subst h <;> decide

theorem dumps_literal {v : PyVal} {t : String} {j : Json} (h : literalType v = some t)
    (hd : dumps v = .ok j) : hasType t j = true ∧ j.isScalar = true := by
  cases v <;> simp [literalType] at h <;> subst h <;> simp [dumps] at hd <;> subst hd <;>
    simp [hasType, Json.isScalar]

theorem Fl.eqv_refl {x : Fl} (h : x.isFinite = true) : Fl.eqv x x = true := by
  cases x <;> simp [Fl.isFinite] at h <;> simp [Fl.eqv]

theorem scalarEq_refl {j : Json} (h1 : j.isScalar = true) (h2 : j.standard = true) :
    Json.scalarEq j j = true := by
  cases j <;> simp [Json.isScalar] at h1 <;> simp [Json.scalarEq]
  · exact Fl.eqv_refl (by simpa [Json.standard] using h2)

theorem dumpsL_mem : ∀ {objs : List PyVal} {js : List Json} {v : PyVal} {j : Json},
    dumpsL objs = .ok js → v ∈ objs → dumps v = .ok j → j ∈ js
  | o :: os, js, v, j, h, hv, hd => by
    simp only [dumpsL] at h
    split at h
    · simp at h
    · rename_i j' hj'
      split at h
      · simp at h
      · rename_i js' hjs'
        simp only [Except.ok.injEq] at h; subst h
        rcases List.mem_cons.1 hv with e | e
        · subst e; rw [hd] at hj'; simp only [Except.ok.injEq] at hj'; subst hj'; exact List.mem_cons_self
        · exact List.mem_cons_of_mem _ (dumpsL_mem hjs' e hd)

theorem validateAny_typeObj {ts : List String} {t : String} {j : Json} (ht : t ∈ ts)
    (h : hasType t j = true) : validateAny (ts.map typeObj) j = true :=
  validateAny_of_mem (List.mem_map.2 ⟨t, ht, rfl⟩) (by rw [validate_typeObj]; exact h)

/-- a value that is (structurally) one of the literal-typed objects validates against the
`anyOf`/`enum` pair of `selector_schema` -/
theorem validate_selector {objs : List PyVal} {ts : List String} {enum : List Json} {v : PyVal} {j : Json}
    (hts : literalTypes objs = some ts) (he : dumpsL objs = .ok enum) (hv : v ∈ objs)
    (hf : v.finite = true) (hd : dumps v = .ok j) :
    validate (.obj [("anyOf", .arr (ts.map typeObj)), ("enum", .arr enum)]) j = true := by
  obtain ⟨t, h1, h2⟩ := literalTypes_mem hts hv
  obtain ⟨h3, h4⟩ := dumps_literal h1 hd
  simp only [validate, validateKws, Bool.and_true, Bool.and_eq_true, List.any_eq_true]
  exact ⟨validateAny_typeObj h2 h3, j, dumpsL_mem he hv hd, scalarEq_refl h4 (standard_dumps v j hf hd)⟩

theorem validate_enum {objs : List PyVal} {ts : List String} {enum : List Json} {v : PyVal} {j : Json}
    (hts : literalTypes objs = some ts) (he : dumpsL objs = .ok enum) (hv : v ∈ objs)
    (hf : v.finite = true) (hd : dumps v = .ok j) :
    validate (.obj [("enum", .arr enum)]) j = true := by
  obtain ⟨t, h1, _⟩ := literalTypes_mem hts hv
  obtain ⟨_, h4⟩ := dumps_literal h1 hd
  simp only [validate, validateKws, Bool.and_true, List.any_eq_true]
  exact ⟨j, dumpsL_mem he hv hd, scalarEq_refl h4 (standard_dumps v j hf hd)⟩

/-! ### well-formedness of the generated shapes -/

theorem wellFormedKws_append : ∀ (a b : List (String × Json)),
    wellFormedKws (a ++ b) = (wellFormedKws a && wellFormedKws b)
  | [], b => by simp [wellFormedKws]
  | (k, s) :: a, b => by
    rw [List.cons_append, wellFormedKws.eq_def, wellFormedKws.eq_def ((k, s) :: a)]
    simp only [wellFormedKws_append a b, Bool.and_assoc]

theorem wellFormed_typeObj (t : String) : wellFormed (typeObj t) = knownType t := by
  simp [typeObj, jstr, wellFormed, wellFormedKws]

theorem wellFormed_nullable (s : Json) : wellFormed (nullable s) = wellFormed s := by
  simp [nullable, wellFormed, wellFormedKws, wellFormedAll, wellFormed_typeObj, knownType]

theorem Num.json_finite {n : Num} (h : n.isFinite = true) : isFiniteNumber n.json = true := by
  cases n
  · rfl
  · simpa [Num.isFinite, Num.json, isFiniteNumber] using h

/-- every bound written into the schema is finite, whatever was declared -/
theorem wellFormed_numberSchema (t : String) (b : Bounds) (ht : knownType t = true) :
    wellFormed (numberSchema t b) = true := by
  unfold numberSchema declareNumericBounds
  rcases b with ⟨range, il, ih⟩
  rcases range with _ | ⟨lo, hi⟩
  · simp [wellFormed, wellFormedKws, jstr, ht]
  · rcases lo with _ | lo <;> rcases hi with _ | hi
    · simp [wellFormed, wellFormedKws, jstr, ht]
    · by_cases hp : hi.isFinite = true <;> cases ih <;>
        simp [wellFormed, wellFormedKws, jstr, ht, hp, Num.json_finite]
    · by_cases hn : lo.isFinite = true <;> cases il <;>
        simp [wellFormed, wellFormedKws, jstr, ht, hn, Num.json_finite]
    · by_cases hn : lo.isFinite = true <;> by_cases hp : hi.isFinite = true <;> cases il <;> cases ih <;>
        simp [wellFormed, wellFormedKws, jstr, ht, hn, hp, Num.json_finite]

theorem wellFormed_atom (a : ClassAtom) : wellFormed a.schema = true := by
  cases a <;> simp [ClassAtom.schema, wellFormed_typeObj, knownType]

theorem wellFormedAll_atoms : ∀ l : List ClassAtom, wellFormedAll (l.map ClassAtom.schema) = true
  | [] => rfl
  | a :: as => by simp [wellFormedAll, wellFormed_atom, wellFormedAll_atoms as]

def ClassSpec.nonEmpty : ClassSpec → Bool
  | .one _ => true
  | .many l => !l.isEmpty

theorem wellFormed_spec {s : ClassSpec} (h : s.nonEmpty = true) : wellFormed s.schema = true := by
  cases s with
  | one a => exact wellFormed_atom a
  | many l =>
    cases l with
    | nil => simp [ClassSpec.nonEmpty] at h
    | cons a as =>
      simp only [ClassSpec.schema, wellFormed, wellFormedKws, List.map_cons, Bool.and_true]
      simp [wellFormedAll, wellFormed_atom a, wellFormedAll_atoms as]

theorem wellFormedAll_typeObjs : ∀ {ts : List String}, (∀ t ∈ ts, knownType t = true) →
    wellFormedAll (ts.map typeObj) = true
  | [], _ => rfl
  | t :: ts, h => by
    simp [wellFormedAll, wellFormed_typeObj, h t List.mem_cons_self,
      wellFormedAll_typeObjs (fun t' ht' => h t' (List.mem_cons_of_mem _ ht'))]

theorem literalTypes_known : ∀ {objs : List PyVal} {ts : List String}, literalTypes objs = some ts →
    ∀ t ∈ ts, knownType t = true
  | [], ts, h, t, ht => by simp [literalTypes] at h; subst h; simp at ht
  | o :: os, ts, h, t, ht => by
    simp only [literalTypes] at h
    split at h
    · simp at h
    · rename_i t0 ht0
      split at h
      · simp at h
      · rename_i ts' hts'
        simp only [Option.some.injEq] at h; subst h
        rcases List.mem_cons.1 ht with e | e
        · subst e; exact literalType_known ht0
        · exact literalTypes_known hts' t e

/-- the `enum` operand: the objects are literal-typed and finite, so every member is a standard scalar -/
theorem enum_members_ok : ∀ {objs : List PyVal} {ts : List String} {enum : List Json},
    literalTypes objs = some ts → dumpsL objs = .ok enum → PyVal.finiteL objs = true →
    enum.all (fun v => v.isScalar && v.standard) = true
  | [], _, enum, _, he, _ => by simp [dumpsL] at he; subst he; rfl
  | o :: os, ts, enum, h, he, hf => by
    simp only [literalTypes] at h
    split at h
    · simp at h
    · rename_i t0 ht0
      split at h
      · simp at h
      · rename_i ts' hts'
        simp only [dumpsL] at he
        split at he
        · simp at he
        · rename_i j hj
          split at he
          · simp at he
          · rename_i js hjs
            simp only [Except.ok.injEq] at he; subst he
            simp only [PyVal.finiteL, Bool.and_eq_true] at hf
            simp [(dumps_literal ht0 hj).2, standard_dumps o j hf.1 hj, enum_members_ok hts' hjs hf.2]

theorem wellFormed_addField {kvs : List (String × Json)} {k : String} {v : Json}
    (hk : k = "description" ∨ k = "title") (hv : isPlainStr v = true) :
    wellFormed (addField (.obj kvs) k v) = wellFormed (.obj kvs) := by
  rcases hk with rfl | rfl <;> simp [addField, wellFormed, wellFormedKws_append, wellFormedKws, hv]


theorem serialize_none (c : PCfg) : c.serialize .none = .ok .none := by
  cases c <;> rfl

theorem validate_lift {s j : Json} (an : Bool) (h : validate s j = true) :
    validate (if an then nullable s else s) j = true := by
  cases an <;> simp [validate_nullable, h]

theorem baseSchema_obj (p : Param) (s : Json) (hs : p.baseSchema = .ok s) : ∃ kvs, s = .obj kvs := by
  obtain ⟨name, cfg, an, dflt, doc, label⟩ := p
  cases cfg <;> simp only [Param.baseSchema] at hs
  case tuple n => split at hs <;> simp at hs; exact ⟨_, hs.symm⟩
  case numericTuple n => split at hs <;> simp at hs; exact ⟨_, hs.symm⟩
  case xy => split at hs <;> simp at hs; exact ⟨_, hs.symm⟩
  case range n => split at hs <;> simp at hs; exact ⟨_, hs.symm⟩
  case list it lo hi => cases it <;> simp at hs <;> exact ⟨_, hs.symm⟩
  case selector objs =>
    simp only [selectorSchema] at hs
    split at hs
    · simp at hs; exact ⟨_, hs.symm⟩
    · simp at hs; exact ⟨_, hs.symm⟩
    · split at hs <;> simp at hs; exact ⟨_, hs.symm⟩
  case listSelector objs =>
    simp only [listSelectorSchema] at hs
    split at hs
    · simp at hs
    · split at hs <;> simp at hs; exact ⟨_, hs.symm⟩
  case classSelector sp =>
    simp at hs; subst hs
    cases sp with
    | one a => cases a <;> exact ⟨_, rfl⟩
    | many l => exact ⟨_, rfl⟩
  all_goals (simp at hs; exact ⟨_, hs.symm⟩)

/-! ### object level -/

theorem finiteL_mem : ∀ {l : List PyVal} {e : PyVal}, PyVal.finiteL l = true → e ∈ l → e.finite = true
  | a :: as, e, h, he => by
    simp only [PyVal.finiteL, Bool.and_eq_true] at h
    rcases List.mem_cons.1 he with r | r
    · subst r; exact h.1
    · exact finiteL_mem h.2 r

theorem validate_addField {kvs : List (String × Json)} {k : String} {v j : Json}
    (hk : k = "description" ∨ k = "title") :
    validate (addField (.obj kvs) k v) j = validate (.obj kvs) j := by
  rcases hk with rfl | rfl <;> simp [addField, validate, validateKws_append, validateKws]

theorem schema_obj (p : Param) (s : Json) (hs : p.schema = .ok s) : ∃ kvs, s = .obj kvs := by
  unfold Param.schema at hs
  split at hs
  · simp at hs
  · rename_i s0 hs0
    simp only [Except.ok.injEq] at hs; subst hs
    obtain ⟨kvs, rfl⟩ := baseSchema_obj p s0 hs0
    cases p.schemaNullable
    · exact ⟨kvs, rfl⟩
    · exact ⟨_, rfl⟩

/-- description / title are annotations: the entry validates what the parameter's schema validates -/
theorem validate_schemaEntry {p : Param} {s : Json} (hs : p.schemaEntry = .ok s) :
    ∃ s0, p.schema = .ok s0 ∧ ∀ j, validate s j = validate s0 j := by
  unfold Param.schemaEntry at hs
  split at hs
  · simp at hs
  · rename_i s0 hs0
    obtain ⟨kvs, rfl⟩ := schema_obj p s0 hs0
    refine ⟨_, hs0, fun j => ?_⟩
    simp only [Except.ok.injEq] at hs; subst hs
    cases hd : p.doc with
    | none =>
      by_cases hl : p.label.isEmpty = true <;>
        simp [hl, addField, validate, validateKws_append, validateKws]
    | some d =>
      by_cases hde : d.isEmpty = true <;> by_cases hl : p.label.isEmpty = true <;>
        simp [hde, hl, addField, validate, validateKws_append, validateKws]

theorem schemaEntries_mem (subset : Option (List String)) : ∀ (ps : List Param) (entries : List (String × Json)),
    schemaEntries subset ps = .ok entries → ∀ n s, (n, s) ∈ entries →
    ∃ p ∈ ps, p.name = n ∧ p.schemaEntry = .ok s
  | [], entries, h, n, s, hm => by simp [schemaEntries] at h; subst h; simp at hm
  | p :: ps, entries, h, n, s, hm => by
    simp only [schemaEntries] at h
    split at h
    · obtain ⟨q, hq, h1, h2⟩ := schemaEntries_mem subset ps entries h n s hm
      exact ⟨q, List.mem_cons_of_mem _ hq, h1, h2⟩
    · split at h
      · simp at h
      · rename_i s1 hs1
        split at h
        · simp at h
        · rename_i r hr
          simp only [Except.ok.injEq] at h; subst h
          rcases List.mem_cons.1 hm with e | e
          · simp only [Prod.mk.injEq] at e
            exact ⟨p, List.mem_cons_self, e.1.symm, e.2 ▸ hs1⟩
          · obtain ⟨q, hq, h1, h2⟩ := schemaEntries_mem subset ps r hr n s e
            exact ⟨q, List.mem_cons_of_mem _ hq, h1, h2⟩

theorem serializeComponents_lookup (subset : Option (List String)) :
    ∀ (st : List (Param × PyVal)) (comps : List (String × PyVal)) (fields : List (String × Json)),
    serializeComponents subset st = .ok comps → dumpsFields comps = .ok fields →
    ∀ n j, Json.lookup n fields = some j →
    ∃ pv ∈ st, pv.1.name = n ∧ serializeValue pv.1 pv.2 = .ok j
  | [], comps, fields, hc, hd, n, j, hl => by
    simp [serializeComponents] at hc; subst hc
    simp [dumpsFields] at hd; subst hd
    simp [Json.lookup] at hl
  | (p, v) :: rest, comps, fields, hc, hd, n, j, hl => by
    simp only [serializeComponents] at hc
    split at hc
    · obtain ⟨pv, hpv, h1, h2⟩ := serializeComponents_lookup subset rest comps fields hc hd n j hl
      exact ⟨pv, List.mem_cons_of_mem _ hpv, h1, h2⟩
    · split at hc
      · simp at hc
      · rename_i s hs
        split at hc
        · simp at hc
        · rename_i comps' hcomps'
          simp only [Except.ok.injEq] at hc; subst hc
          simp only [dumpsFields] at hd
          split at hd
          · simp at hd
          · rename_i j0 hj0
            split at hd
            · simp at hd
            · rename_i js hjs
              simp only [Except.ok.injEq] at hd; subst hd
              simp only [Json.lookup] at hl
              split at hl
              · rename_i hn
                simp only [Option.some.injEq] at hl; subst hl
                exact ⟨(p, v), List.mem_cons_self, hn, by simp [serializeValue, hs, hj0]⟩
              · obtain ⟨pv, hpv, h1, h2⟩ := serializeComponents_lookup subset rest comps' js hcomps' hjs n j hl
                exact ⟨pv, List.mem_cons_of_mem _ hpv, h1, h2⟩

theorem serializeParameters_lookup (subset : Option (List String))
    (st : List (Param × PyVal)) (fields : List (String × Json))
    (h : serializeParameters st subset = .ok fields) (n : String) (j : Json)
    (hl : Json.lookup n fields = some j) :
    ∃ pv ∈ st, pv.1.name = n ∧ serializeValue pv.1 pv.2 = .ok j := by
  unfold serializeParameters at h
  split at h
  · simp at h
  · rename_i comps hcomps
    exact serializeComponents_lookup subset st comps fields hcomps h n j hl

theorem validateProps_of : ∀ (props fields : List (String × Json)),
    (∀ n s, (n, s) ∈ props → ∀ j, Json.lookup n fields = some j → validate s j = true) →
    validateProps props fields = true
  | [], _, _ => by simp [validateProps]
  | (n, s) :: ps, fields, h => by
    simp only [validateProps, Bool.and_eq_true]
    refine ⟨?_, validateProps_of ps fields (fun n' s' hm => h n' s' (List.mem_cons_of_mem _ hm))⟩
    split
    · rename_i j hj; exact h n s List.mem_cons_self j hj
    · rfl

theorem eq_of_name_eq {ps : List Param} (hnd : (ps.map (·.name)).Nodup) {p q : Param}
    (hp : p ∈ ps) (hq : q ∈ ps) (h : p.name = q.name) : p = q := by
  have h1 := findParam_of_nodup ps hnd p hp
  have h2 := findParam_of_nodup ps hnd q hq
  rw [h] at h1; rw [h1] at h2; exact Option.some.inj h2

theorem wellFormed_schemaEntry {p : Param} {s : Json} (hs : p.schemaEntry = .ok s) :
    ∃ s0, p.schema = .ok s0 ∧ wellFormed s = wellFormed s0 := by
  unfold Param.schemaEntry at hs
  split at hs
  · simp at hs
  · rename_i s0 hs0
    obtain ⟨kvs, rfl⟩ := schema_obj p s0 hs0
    refine ⟨_, hs0, ?_⟩
    simp only [Except.ok.injEq] at hs; subst hs
    cases hd : p.doc with
    | none =>
      by_cases hl : p.label.isEmpty = true <;>
        simp [hl, addField, wellFormed, wellFormedKws_append, wellFormedKws, jstr, isPlainStr]
    | some d =>
      by_cases hde : d.isEmpty = true <;> by_cases hl : p.label.isEmpty = true <;>
        simp [hde, hl, addField, wellFormed, wellFormedKws_append, wellFormedKws, jstr, isPlainStr]

/-! ### the executable equalities of the oracle are equality -/

mutual
theorem PyVal.eq_of_beq : ∀ (a b : PyVal), PyVal.beq a b = true → a = b
  | .none, b, h => by cases b <;> simp [PyVal.beq] at h <;> rfl
  | .bool _, b, h => by cases b <;> simp [PyVal.beq] at h <;> simp [h]
  | .int _, b, h => by cases b <;> simp [PyVal.beq] at h <;> simp [h]
  | .float _, b, h => by cases b <;> simp [PyVal.beq] at h <;> simp [h]
  | .str _, b, h => by cases b <;> simp [PyVal.beq] at h <;> simp [h]
  | .list l, b, h => by
    cases b <;> simp [PyVal.beq] at h
    rename_i l'; rw [PyVal.eqL_of_beqL l l' h]
  | .tuple l, b, h => by
    cases b <;> simp [PyVal.beq] at h
    rename_i l'; rw [PyVal.eqL_of_beqL l l' h]
  | .dict l, b, h => by
    cases b <;> simp [PyVal.beq] at h
    rename_i l'; rw [PyVal.eqD_of_beqD l l' h]
  | .date .., b, h => by cases b <;> simp [PyVal.beq] at h <;> simp [h]
  | .datetime .., b, h => by cases b <;> simp [PyVal.beq] at h <;> simp [h]
theorem PyVal.eqL_of_beqL : ∀ (a b : List PyVal), PyVal.beqL a b = true → a = b
  | [], b, h => by cases b <;> simp [PyVal.beqL] at h <;> rfl
  | x :: xs, b, h => by
    cases b <;> simp [PyVal.beqL] at h
    rename_i y ys
    rw [PyVal.eq_of_beq x y h.1, PyVal.eqL_of_beqL xs ys h.2]
theorem PyVal.eqD_of_beqD : ∀ (a b : List (PyKey × PyVal)), PyVal.beqD a b = true → a = b
  | [], b, h => by cases b <;> simp [PyVal.beqD] at h <;> rfl
  | (k, x) :: xs, b, h => by
    cases b with
    | nil => simp [PyVal.beqD] at h
    | cons y ys =>
      obtain ⟨k', y⟩ := y
      simp [PyVal.beqD] at h
      rw [h.1.1, PyVal.eq_of_beq x y h.1.2, PyVal.eqD_of_beqD xs ys h.2]
end

mutual
theorem PyVal.beq_refl : ∀ (a : PyVal), PyVal.beq a a = true
  | .none => rfl
  | .bool _ => by simp [PyVal.beq]
  | .int _ => by simp [PyVal.beq]
  | .float _ => by simp [PyVal.beq]
  | .str _ => by simp [PyVal.beq]
  | .list l => by simp [PyVal.beq, PyVal.beqL_refl l]
  | .tuple l => by simp [PyVal.beq, PyVal.beqL_refl l]
  | .dict l => by simp [PyVal.beq, PyVal.beqD_refl l]
  | .date .. => by simp [PyVal.beq]
  | .datetime .. => by simp [PyVal.beq]
theorem PyVal.beqL_refl : ∀ (a : List PyVal), PyVal.beqL a a = true
  | [] => rfl
  | x :: xs => by simp [PyVal.beqL, PyVal.beq_refl x, PyVal.beqL_refl xs]
theorem PyVal.beqD_refl : ∀ (a : List (PyKey × PyVal)), PyVal.beqD a a = true
  | [] => rfl
  | (k, x) :: xs => by simp [PyVal.beqD, PyVal.beq_refl x, PyVal.beqD_refl xs]
end

/-- the executable equality the oracle uses is equality -/
theorem PyVal.beq_iff_eq (a b : PyVal) : PyVal.beq a b = true ↔ a = b :=
  ⟨PyVal.eq_of_beq a b, fun h => h ▸ PyVal.beq_refl a⟩

mutual
theorem Json.eq_of_beq : ∀ (a b : Json), Json.beq a b = true → a = b
  | .null, b, h => by cases b <;> simp [Json.beq] at h <;> rfl
  | .bool _, b, h => by cases b <;> simp [Json.beq] at h <;> simp [h]
  | .int _, b, h => by cases b <;> simp [Json.beq] at h <;> simp [h]
  | .float _, b, h => by cases b <;> simp [Json.beq] at h <;> simp [h]
  | .str _, b, h => by cases b <;> simp [Json.beq] at h <;> simp [h]
  | .arr l, b, h => by
    cases b <;> simp [Json.beq] at h
    rename_i l'; rw [Json.eqL_of_beqL l l' h]
  | .obj l, b, h => by
    cases b <;> simp [Json.beq] at h
    rename_i l'; rw [Json.eqO_of_beqO l l' h]
theorem Json.eqL_of_beqL : ∀ (a b : List Json), Json.beqL a b = true → a = b
  | [], b, h => by cases b <;> simp [Json.beqL] at h <;> rfl
  | x :: xs, b, h => by
    cases b <;> simp [Json.beqL] at h
    rename_i y ys
    rw [Json.eq_of_beq x y h.1, Json.eqL_of_beqL xs ys h.2]
theorem Json.eqO_of_beqO : ∀ (a b : List (String × Json)), Json.beqO a b = true → a = b
  | [], b, h => by cases b <;> simp [Json.beqO] at h <;> rfl
  | (k, x) :: xs, b, h => by
    cases b with
    | nil => simp [Json.beqO] at h
    | cons y ys =>
      obtain ⟨k', y⟩ := y
      simp [Json.beqO] at h
      rw [h.1.1, Json.eq_of_beq x y h.1.2, Json.eqO_of_beqO xs ys h.2]
end

/-! ### rebuilding, `None`, what `json.loads` returns -/

theorem deserialize_none (c : PCfg) : c.deserialize .none = .ok .none := by
  cases c <;> simp [PCfg.deserialize, isNullish]

mutual
theorem loads_jsonNative : ∀ j : Json, (loads j).jsonNative = true
  | .null => rfl
  | .bool _ => rfl
  | .int _ => rfl
  | .float _ => rfl
  | .str _ => rfl
  | .arr l => by simpa [loads, PyVal.jsonNative] using loadsL_jsonNative l
  | .obj kvs => by simpa [loads, PyVal.jsonNative] using loadsD_jsonNative kvs
theorem loadsL_jsonNative : ∀ l : List Json, PyVal.jsonNativeL (loadsL l) = true
  | [] => rfl
  | a :: as => by simp [loadsL, PyVal.jsonNativeL, loads_jsonNative a, loadsL_jsonNative as]
theorem loadsD_jsonNative : ∀ l : List (String × Json), PyVal.jsonNativeD (loadsD l) = true
  | [] => rfl
  | (k, a) :: as => by
    simp [loadsD, PyVal.jsonNativeD, PyVal.isStrKey, loads_jsonNative a, loadsD_jsonNative as]
end

/-- reading the keyword values back in declaration order gives the keywords themselves when they
are one per declared parameter, in order -/
theorem find_back (st : List (Param × PyVal)) (hnd : ((st.map (·.1)).map (·.name)).Nodup) :
    ∀ pv ∈ st, (st.map (fun pv => (pv.1.name, pv.2))).find? (fun x => x.1 == pv.1.name) = some (pv.1.name, pv.2) := by
  induction st with
  | nil => intro pv h; simp at h
  | cons a as ih =>
    intro pv hpv
    simp only [List.map_cons, List.nodup_cons] at hnd
    rcases List.mem_cons.1 hpv with e | e
    · subst e; simp
    · have hne : a.1.name ≠ pv.1.name := by
        intro h
        exact hnd.1 (List.mem_map.2 ⟨pv.1, List.mem_map.2 ⟨pv, e, rfl⟩, h.symm⟩)
      simp only [List.map_cons, List.find?_cons]
      have : (a.1.name == pv.1.name) = false := by simpa using hne
      simp only [this]
      exact ih hnd.2 pv e

theorem rebuild_state (st : List (Param × PyVal)) (hnd : ((st.map (·.1)).map (·.name)).Nodup)
    (hv : ∀ pv ∈ st, pv.1.validB pv.2 = true) :
    modelRebuild (st.map (·.1)) (st.map (fun pv => (pv.1.name, pv.2))) =
      .ok (st.map (fun pv => (pv.1.name, pv.2))) := by
  unfold modelRebuild
  have hall : (st.map (fun pv => (pv.1.name, pv.2))).all
      (fun (n, v) => match findParam (st.map (·.1)) n with | some p => p.validB v | none => false) = true := by
    simp only [List.all_map, List.all_eq_true]
    intro pv hpv
    have := findParam_of_nodup _ hnd pv.1 (List.mem_map.2 ⟨pv, hpv, rfl⟩)
    simp [this, hv pv hpv]
  split
  case isFalse h => exact absurd hall h
  congr 1
  rw [List.filterMap_map]
  have : ∀ l : List (Param × PyVal), (∀ pv ∈ l, pv ∈ st) →
      l.filterMap ((fun p : Param => (st.map (fun pv => (pv.1.name, pv.2))).find? (fun x => x.1 == p.name)) ∘ (·.1)) =
        l.map (fun pv => (pv.1.name, pv.2)) := by
    intro l
    induction l with
    | nil => intro _; rfl
    | cons a as ih =>
      intro h
      simp only [List.filterMap_cons, Function.comp, find_back st hnd a (h a List.mem_cons_self), List.map_cons]
      rw [← ih (fun pv hpv => h pv (List.mem_cons_of_mem _ hpv))]
  exact this st (fun _ h => h)

/-! ### totality: `schema()` and `serialize_parameters()` return -/

theorem literalTypes_dumpsL : ∀ {objs : List PyVal} {ts : List String}, literalTypes objs = some ts →
    ∃ js, dumpsL objs = .ok js
  | [], _, _ => ⟨[], rfl⟩
  | o :: os, ts, h => by
    simp only [literalTypes] at h
    split at h
    · simp at h
    · rename_i t ht
      split at h
      · simp at h
      · rename_i ts' hts'
        obtain ⟨js, hjs⟩ := literalTypes_dumpsL hts'
        have : ∃ j, dumps o = .ok j := by
          cases o <;> simp [literalType] at ht <;> exact ⟨_, rfl⟩
        obtain ⟨j, hj⟩ := this
        exact ⟨j :: js, by simp [dumpsL, hj, hjs]⟩

/-- the declarations for which `schema()` returns a schema at all: the `length` slot of the Tuple
family is defined (the constructor raises otherwise), and a ListSelector's objects are literal-typed
(`listselector_schema` raises UnserializableException otherwise — a declared refusal) -/
def Declarable (p : Param) : Bool :=
  match p.cfg with
  | .tuple _ => p.length.toBool
  | .numericTuple _ => p.length.toBool
  | .xy => p.length.toBool
  | .range _ => p.length.toBool
  | .listSelector objs => (literalTypes objs).isSome
  | _ => true

theorem baseSchema_total (p : Param) (h : Declarable p = true) : ∃ s, p.baseSchema = .ok s := by
  obtain ⟨name, cfg, an, dflt, doc, label⟩ := p
  cases cfg <;> simp only [Param.baseSchema, Declarable] at h ⊢
  case tuple n => split <;> simp_all [Except.toBool]
  case numericTuple n => split <;> simp_all [Except.toBool]
  case xy => split <;> simp_all [Except.toBool]
  case range b => split <;> simp_all [Except.toBool]
  case list it lo hi => cases it <;> exact ⟨_, rfl⟩
  case selector objs =>
    simp only [selectorSchema]
    split
    · exact ⟨_, rfl⟩
    · exact ⟨_, rfl⟩
    · rename_i ts _ hts
      obtain ⟨js, hjs⟩ := literalTypes_dumpsL hts
      simp [hjs]
  case listSelector objs =>
    simp only [listSelectorSchema]
    split
    · rename_i hts; simp [hts] at h
    · rename_i ts hts
      obtain ⟨js, hjs⟩ := literalTypes_dumpsL hts
      simp [hjs]
  all_goals exact ⟨_, rfl⟩

theorem schemaEntry_total (p : Param) (h : Declarable p = true) : ∃ s, p.schemaEntry = .ok s := by
  obtain ⟨s, hs⟩ := baseSchema_total p h
  simp [Param.schemaEntry, Param.schema, hs]

theorem schemaEntries_total (subset : Option (List String)) : ∀ (ps : List Param),
    (∀ p ∈ ps, Declarable p = true) → ∃ entries, schemaEntries subset ps = .ok entries
  | [], _ => ⟨[], rfl⟩
  | p :: ps, h => by
    obtain ⟨r, hr⟩ := schemaEntries_total subset ps (fun q hq => h q (List.mem_cons_of_mem _ hq))
    obtain ⟨s, hs⟩ := schemaEntry_total p (h p List.mem_cons_self)
    simp only [schemaEntries]
    split
    · exact ⟨r, hr⟩
    · exact ⟨(p.name, s) :: r, by simp [hs, hr]⟩

theorem serializeParameters_total (subset : Option (List String)) : ∀ (st : List (Param × PyVal)),
    (∀ pv ∈ st, ∃ j, serializeValue pv.1 pv.2 = .ok j) → ∃ fields, serializeParameters st subset = .ok fields
  | [], _ => ⟨[], rfl⟩
  | (p, v) :: rest, h => by
    obtain ⟨fields, hf⟩ := serializeParameters_total subset rest (fun pv hpv => h pv (List.mem_cons_of_mem _ hpv))
    obtain ⟨j, hj⟩ := h (p, v) List.mem_cons_self
    unfold serializeParameters at hf ⊢
    by_cases hsub : inSubset subset p.name = true
    · simp only [serializeValue] at hj
      split at hj
      · simp at hj
      · rename_i s hs
        split at hf
        · simp at hf
        · rename_i comps hcomps
          exact ⟨(p.name, j) :: fields, by simp [serializeComponents, hsub, hs, hcomps, dumpsFields, hj, hf]⟩
    · simp only [Bool.not_eq_true] at hsub
      exact ⟨fields, by simpa [serializeComponents, hsub] using hf⟩


theorem dumps_of_native {v : PyVal} (h : v.jsonNative = true) : ∃ j, dumps v = .ok j :=
  let ⟨j, hj, _⟩ := loads_dumps v h; ⟨j, hj⟩

theorem serializeValue_total (p : Param) (v : PyVal) (hsc : inScope16 p.cfg = true)
    (hst : p.stateOK v = true) (hn : nativeElems p.cfg v = true) : ∃ j, serializeValue p v = .ok j := by
  have hcases : p.validB v = true ∨ v = .none := by
    unfold Param.stateOK at hst
    simp only [Bool.or_eq_true] at hst
    rcases hst with h | h
    · exact Or.inl h
    · right; split at h <;> simp_all
  rcases hcases with hv | rfl
  case inr => exact ⟨.null, by simp [serializeValue, serialize_none, dumps]⟩
  have ident : p.cfg.isIdentity = true → v.jsonNative = true → ∃ j, serializeValue p v = .ok j := by
    intro hc hnat
    obtain ⟨j, hj⟩ := dumps_of_native hnat
    exact ⟨j, by simp [serializeValue, serialize_identity hc, hj]⟩
  have tup : ∀ l, v = .tuple l → p.cfg.serialize v = asList v → PyVal.jsonNativeL l = true →
      ∃ j, serializeValue p v = .ok j := by
    intro l hl hser hnat
    subst hl
    obtain ⟨j, hj, _⟩ := tuple_roundtrip hnat
    exact ⟨j, by simp [serializeValue, hser, asList, hj]⟩
  obtain ⟨name, cfg, an, dflt, doc, label⟩ := p
  cases cfg with
  | integer b => exact ident rfl (by cases v <;> simp [Param.validB, PCfg.accepts] at hv <;> rfl)
  | number b => exact ident rfl (by cases v <;> simp [Param.validB, PCfg.accepts] at hv <;> rfl)
  | string => exact ident rfl (by cases v <;> simp [Param.validB, PCfg.accepts] at hv <;> rfl)
  | boolean => exact ident rfl (by cases v <;> simp [Param.validB, PCfg.accepts] at hv <;> rfl)
  | color => simp [inScope16] at hsc
  | dateRange => simp [inScope16] at hsc
  | calendarDateRange => simp [inScope16] at hsc
  | list it lo hi => exact ident rfl (by simpa [nativeElems] using hn)
  | dict => exact ident rfl (by simpa [nativeElems] using hn)
  | selector objs => exact ident rfl (by simpa [nativeElems] using hn)
  | listSelector objs => exact ident rfl (by simpa [nativeElems] using hn)
  | classSelector sp => exact ident rfl (by simpa [nativeElems] using hn)
  | tuple n =>
    cases v <;> simp [Param.validB, PCfg.accepts] at hv
    · exact ⟨.null, rfl⟩
    · exact tup _ rfl rfl (by simpa [nativeElems] using hn)
  | numericTuple n =>
    cases v <;> simp [Param.validB, PCfg.accepts] at hv
    · exact ⟨.null, rfl⟩
    · exact tup _ rfl rfl (all_isNumber_nativeL (by simpa using hv.1))
  | xy =>
    cases v <;> simp [Param.validB, PCfg.accepts] at hv
    · exact ⟨.null, rfl⟩
    · exact tup _ rfl rfl (all_isNumber_nativeL (by simpa using hv.1))
  | range b =>
    cases v with
    | none => exact ⟨.null, rfl⟩
    | tuple l =>
      rcases l with _ | ⟨x, _ | ⟨y, _ | ⟨z, r⟩⟩⟩ <;> simp [Param.validB, PCfg.accepts] at hv
      exact tup _ rfl rfl (by simp [PyVal.jsonNativeL, isNumber_native hv.1.1.2, isNumber_native hv.1.2])
    | _ => simp [Param.validB, PCfg.accepts] at hv
  | date =>
    cases v <;> simp [Param.validB, PCfg.accepts] at hv
    · exact ⟨.null, rfl⟩
    · exact ⟨_, rfl⟩
    · exact ⟨_, rfl⟩
  | calendarDate =>
    cases v <;> simp [Param.validB, PCfg.accepts] at hv
    · exact ⟨.null, rfl⟩
    · exact ⟨_, rfl⟩

theorem Fl.eqv_symm {x y : Fl} (h : Fl.eqv x y = true) : Fl.eqv y x = true := by
  cases x <;> cases y <;> simp [Fl.eqv] at h ⊢
  exact h.symm

theorem Fl.integral_of_eqv_int {x : Fl} {b : Int} (h : Fl.eqv x (Fl.ofInt b) = true) : x.isIntegral = true := by
  cases x <;> simp [Fl.eqv, Fl.ofInt] at h
  subst h
  simp [Fl.isIntegral, Rat.den_intCast]

/-- `v` serialises to a JSON value equal, in the JSON sense, to that of `o`: the same value, or two
non-bool numbers of equal value (`1.0` for `1`) -/
def sameJson (v o : PyVal) : Bool :=
  match v, o with
  | .int a, .float y => Fl.eqv (Fl.ofInt a) y
  | .float x, .int b => Fl.eqv x (Fl.ofInt b)
  | .float x, .float y => Fl.eqv x y
  | v, o => PyVal.beq v o

theorem sameJson_validates {v o : PyVal} {t : String} {jo j : Json} (ht : literalType o = some t)
    (hdo : dumps o = .ok jo) (hs : sameJson v o = true) (hd : dumps v = .ok j) (hf : v.finite = true) :
    hasType t j = true ∧ Json.scalarEq jo j = true := by
  have same : PyVal.beq v o = true → hasType t j = true ∧ Json.scalarEq jo j = true := by
    intro hb
    have e := PyVal.eq_of_beq v o hb
    subst e
    rw [hd] at hdo; simp only [Except.ok.injEq] at hdo; subst hdo
    obtain ⟨h1, h2⟩ := dumps_literal ht hd
    exact ⟨h1, scalarEq_refl h2 (standard_dumps v j hf hd)⟩
  cases v <;> cases o <;> simp only [sameJson] at hs <;> try exact same hs
  · -- int, float
    simp [literalType] at ht; subst ht
    simp [dumps] at hdo hd; subst hdo; subst hd
    exact ⟨by simp [hasType], by simpa [Json.scalarEq] using Fl.eqv_symm hs⟩
  · -- float, int
    simp [literalType] at ht; subst ht
    simp [dumps] at hdo hd; subst hdo; subst hd
    exact ⟨by simpa [hasType] using Fl.integral_of_eqv_int hs, by simpa [Json.scalarEq] using Fl.eqv_symm hs⟩
  · -- float, float
    simp [literalType] at ht; subst ht
    simp [dumps] at hdo hd; subst hdo; subst hd
    exact ⟨by simp [hasType], by simpa [Json.scalarEq] using Fl.eqv_symm hs⟩

theorem dumpsL_mem' : ∀ {objs : List PyVal} {js : List Json} {o : PyVal},
    dumpsL objs = .ok js → o ∈ objs → ∃ jo, dumps o = .ok jo ∧ jo ∈ js
  | x :: xs, js, o, h, ho => by
    simp only [dumpsL] at h
    split at h
    · simp at h
    · rename_i j' hj'
      split at h
      · simp at h
      · rename_i js' hjs'
        simp only [Except.ok.injEq] at h; subst h
        rcases List.mem_cons.1 ho with e | e
        · subst e; exact ⟨j', hj', List.mem_cons_self⟩
        · obtain ⟨jo, h1, h2⟩ := dumpsL_mem' hjs' e
          exact ⟨jo, h1, List.mem_cons_of_mem _ h2⟩

/-- a value JSON-equal to one of the literal-typed objects validates against the `anyOf`/`enum`
pair of `selector_schema` -/
theorem validate_selector' {objs : List PyVal} {ts : List String} {enum : List Json} {v o : PyVal} {j : Json}
    (hts : literalTypes objs = some ts) (he : dumpsL objs = .ok enum) (ho : o ∈ objs)
    (hs : sameJson v o = true) (hf : v.finite = true) (hd : dumps v = .ok j) :
    validate (.obj [("anyOf", .arr (ts.map typeObj)), ("enum", .arr enum)]) j = true := by
  obtain ⟨t, h1, h2⟩ := literalTypes_mem hts ho
  obtain ⟨jo, hjo, hmem⟩ := dumpsL_mem' he ho
  obtain ⟨h3, h4⟩ := sameJson_validates h1 hjo hs hd hf
  simp only [validate, validateKws, Bool.and_true, Bool.and_eq_true, List.any_eq_true]
  exact ⟨validateAny_typeObj h2 h3, jo, hmem, h4⟩

theorem validate_enum' {objs : List PyVal} {ts : List String} {enum : List Json} {v o : PyVal} {j : Json}
    (hts : literalTypes objs = some ts) (he : dumpsL objs = .ok enum) (ho : o ∈ objs)
    (hs : sameJson v o = true) (hf : v.finite = true) (hd : dumps v = .ok j) :
    validate (.obj [("enum", .arr enum)]) j = true := by
  obtain ⟨t, h1, _⟩ := literalTypes_mem hts ho
  obtain ⟨jo, hjo, hmem⟩ := dumpsL_mem' he ho
  obtain ⟨_, h4⟩ := sameJson_validates h1 hjo hs hd hf
  simp only [validate, validateKws, Bool.and_true, List.any_eq_true]
  exact ⟨jo, hmem, h4⟩

end ParamVerif.Json
