/-
C16 — model of the JSON-schema generation of param (`serializer.py`):
`param_schema` with its dispatch on the lower-cased class name, every `*_schema`
method of the types in scope, `JSONNullable`, and the object-level loop of
`JSONSerialization.schema` (description / title).  `safe=False` only.

Key order inside the generated objects follows the insertion order of the source.
-/
import ParamVerif.Json.Codec

namespace ParamVerif.Json

def jstr (s : String) : Json := .str (.plain s)

def typeObj (t : String) : Json := .obj [("type", jstr t)]

/-- src: serializer.py JSONNullable -/
def nullable (s : Json) : Json := .obj [("anyOf", .arr [s, typeObj "null"])]

def Num.json : Num → Json
  | .int n => .int n
  | .float x => .float x

/-- `finite(b)` of declare_numeric_bounds: `not (isinstance(b, float) and (b != b or b in (inf, -inf)))` -/
def Num.isFinite : Num → Bool
  | .int _ => true
  | .float x => x.isFinite

/-- the declared bounds can be met by some number at all: the lower bound is a number or `-inf`,
the upper bound a number or `+inf` (a lower bound `+inf`/`nan`, an upper bound `-inf`/`nan` admit
no value; JSON Schema has no keyword operand for them and the code writes nothing) -/
def Bounds.sane (b : Bounds) : Bool :=
  match b.range with
  | none => true
  | some (lo, hi) =>
    (match lo with | some l => l.isFinite || l == .float .negInf | none => true) &&
    (match hi with | some h => h.isFinite || h == .float .posInf | none => true)

/-- src: serializer.py JSONSerialization.declare_numeric_bounds
(the keys are fresh, so `schema[key] = …` appends; a bound that is a non-finite float — nan,
+inf or -inf on either side — is skipped) -/
def declareNumericBounds (schema : List (String × Json)) (b : Bounds) : List (String × Json) :=
  match b.range with
  | none => schema
  | some (lo, hi) =>
    let s1 := match lo with
      | some l =>
        if !l.isFinite then schema
        else schema ++ [(if b.incLo then "minimum" else "exclusiveMinimum", l.json)]
      | none => schema
    match hi with
    | some h =>
      if !h.isFinite then s1
      else s1 ++ [(if b.incHi then "maximum" else "exclusiveMaximum", h.json)]
    | none => s1

/-- src: serializer.py JSONSerialization.number_schema / integer_schema -/
def numberSchema (typeName : String) (b : Bounds) : Json :=
  .obj (declareNumericBounds [("type", jstr typeName)] b)

/-- src: serializer.py JSONSerialization.tuple_schema (`p.length` is never None) -/
def tupleSchemaFields (len : Nat) : List (String × Json) :=
  [("type", jstr "array"), ("minItems", .int len), ("maxItems", .int len)]

/-- src: serializer.py JSONSerialization.class__schema for one class:
`json_schema_literal_types` has int, float, str, NoneType — everything else that is
not a Parameterized subclass is declared an object -/
def ClassAtom.schema : ClassAtom → Json
  | .int => typeObj "integer"
  | .float => typeObj "number"
  | .str => typeObj "string"
  | .noneType => typeObj "null"
  | .bool => typeObj "object"
  | .dict => typeObj "object"
  | .list => typeObj "object"

/-- src: serializer.py JSONSerialization.class__schema -/
def ClassSpec.schema : ClassSpec → Json
  | .one a => a.schema
  | .many l => .obj [("anyOf", .arr (l.map ClassAtom.schema))]

/-- `json_schema_literal_types[type(obj)]` — exact type, so `bool` is a KeyError -/
def literalType : PyVal → Option String
  | .int _ => some "integer"
  | .float _ => some "number"
  | .str _ => some "string"
  | .none => some "null"
  | _ => none

def literalTypes : List PyVal → Option (List String)
  | [] => some []
  | o :: os => match literalType o with
    | none => none
    | some t => match literalTypes os with
      | none => none
      | some ts => some (t :: ts)

/-- src: serializer.py JSONSerialization.selector_schema (`safe=False`: any exception → `{}`) -/
def selectorSchema (objs : List PyVal) : Except Err Json :=
  match literalTypes objs with
  | none => .ok (.obj [])
  | some [] => .ok (.obj [])                 -- `if not allowed_types: return {}`
  | some ts => match dumpsL objs with
    | .error _ => .error .unsupported
    | .ok enum => .ok (.obj [("anyOf", .arr (ts.map typeObj)), ("enum", .arr enum)])

/-- src: serializer.py JSONSerialization.listselector_schema (`p.objects` is never None) -/
def listSelectorSchema (objs : List PyVal) : Except Err Json :=
  match literalTypes objs with
  | none => .error .unserializable
  | some _ => match dumpsL objs with
    | .error _ => .error .unsupported
    | .ok enum => .ok (.obj [("type", jstr "array"), ("items", .obj [("enum", .arr enum)])])

/-- the dispatch of `param_schema` on `ptype.lower() + '_schema'`, before the nullable wrapper -/
def Param.baseSchema (p : Param) : Except Err Json :=
  match p.cfg with
  | .integer b => .ok (numberSchema "integer" b)
  | .number b => .ok (numberSchema "number" b)
  | .string => .ok (typeObj "string")              -- no string_schema: {'type': ptype.lower()}
  | .boolean => .ok (typeObj "boolean")
  | .color => .ok (typeObj "color")
  | .dateRange => .ok (typeObj "daterange")
  | .calendarDateRange => .ok (typeObj "calendardaterange")
  | .tuple _ => match p.length with
    | .error e => .error e
    | .ok n => .ok (.obj (tupleSchemaFields n))
  | .numericTuple _ => match p.length with
    | .error e => .error e
    | .ok n => .ok (.obj (tupleSchemaFields n ++ [("additionalItems", typeObj "number")]))
  | .xy => match p.length with
    | .error e => .error e
    | .ok n => .ok (.obj (tupleSchemaFields n ++ [("additionalItems", typeObj "number")]))
  | .range b => match p.length with
    | .error e => .error e
    | .ok n => .ok (.obj (tupleSchemaFields n ++ [("additionalItems", numberSchema "number" b)]))
  | .date => .ok (.obj [("type", jstr "string"), ("format", jstr "date-time")])
  | .calendarDate => .ok (.obj [("type", jstr "string"), ("format", jstr "date")])
  | .list it _ _ => match it with
    | none => .ok (typeObj "array")
    | some s => .ok (.obj [("type", jstr "array"), ("items", s.schema)])
  | .dict => .ok (typeObj "object")
  | .selector objs => selectorSchema objs
  | .listSelector objs => listSelectorSchema objs
  | .classSelector s => .ok s.schema

/-- `p.allow_None or p.default is None` -/
def Param.schemaNullable (p : Param) : Bool :=
  p.effAllowNone || (match p.effDefault with | .ok .none => true | _ => false)

/-- src: serializer.py JSONSerialization.param_schema / parameterized.py Parameter.schema -/
def Param.schema (p : Param) : Except Err Json :=
  match p.baseSchema with
  | .error e => .error e
  | .ok s => .ok (if p.schemaNullable then nullable s else s)

/-- `d[key] = v` on a schema that is a dict -/
def addField (s : Json) (k : String) (v : Json) : Json :=
  match s with
  | .obj kvs => .obj (kvs ++ [(k, v)])
  | j => j

/-- one entry of `JSONSerialization.schema`: description when `p.doc`, title when `p.label`
(docs are single-line and trimmed in the model, so `dedent/replace/strip` is the identity) -/
def Param.schemaEntry (p : Param) : Except Err Json :=
  match p.schema with
  | .error e => .error e
  | .ok s =>
    let s1 := match p.doc with
      | some d => if d.isEmpty then s else addField s "description" (jstr d)
      | none => s
    .ok (if p.label.isEmpty then s1 else addField s1 "title" (jstr p.label))

/-- src: serializer.py JSONSerialization.schema — the loop -/
def schemaEntries (subset : Option (List String)) : List Param → Except Err (List (String × Json))
  | [] => .ok []
  | p :: rest =>
    if !inSubset subset p.name then schemaEntries subset rest else
    match p.schemaEntry with
    | .error e => .error e
    | .ok s => match schemaEntries subset rest with
      | .error e => .error e
      | .ok r => .ok ((p.name, s) :: r)

/-! ### `safe=True` -/

/-- the `*_schema` methods that raise UnsafeserializableException under `safe=True`:
`dict_schema` always, `list_schema` without an item type, `selector_schema` when the type lookup of
an object fails (the `except` branch that returns `{}` otherwise).  Nothing else reads `safe`. -/
def PCfg.safeRefuses : PCfg → Bool
  | .dict => true
  | .list none _ _ => true
  | .selector objs => (literalTypes objs).isNone
  | _ => false

/-- src: `Parameter.schema(safe=True)` -/
def Param.schemaSafe (p : Param) : Except Err Json :=
  if p.cfg.safeRefuses then .error .unsafeSer else p.schema

def Param.schemaEntrySafe (p : Param) : Except Err Json :=
  if p.cfg.safeRefuses then .error .unsafeSer else p.schemaEntry

/-- src: serializer.py JSONSerialization.schema with `safe=True` — the loop stops at the first refusal -/
def schemaEntriesSafe (subset : Option (List String)) : List Param → Except Err (List (String × Json))
  | [] => .ok []
  | p :: rest =>
    if !inSubset subset p.name then schemaEntriesSafe subset rest else
    match p.schemaEntrySafe with
    | .error e => .error e
    | .ok s => match schemaEntriesSafe subset rest with
      | .error e => .error e
      | .ok r => .ok ((p.name, s) :: r)

/-- how the documentation tells users to validate:
`{"type": "object", "properties": Cls.param.schema()}` -/
def objectSchema (entries : List (String × Json)) : Json :=
  .obj [("type", jstr "object"), ("properties", .obj entries)]

end ParamVerif.Json
