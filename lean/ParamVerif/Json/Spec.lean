/-
C15 / C16 specification side, executable: the conclusions of the theorems in
Props/C15.lean and Props/C16.lean as decidable checks on *observations* (of the
implementation or of the model), plus the model's own observation.  Used by the
drivers as the oracle.
-/
import ParamVerif.Json.Schema
import ParamVerif.Json.Validator

namespace ParamVerif.Json

/-- outcome of a call: value or the name of the exception class -/
abbrev Res (α : Type) := Except String α

def liftE {α : Type} : Except Err α → Res α
  | .ok a => .ok a
  | .error e => .error e.name

def beqFields (a b : List (String × PyVal)) : Bool :=
  a.length == b.length && (a.zip b).all (fun (x, y) => x.1 == y.1 && PyVal.beq x.2 y.2)

def beqJFields (a b : List (String × Json)) : Bool := Json.beqO a b

/-! ## hypotheses shared by the C15 / C16 statements -/

/-- "naive datetime values for Date parameters": a `dt.date` held by a Date parameter
is outside the C15 statement (it is accepted, and comes back as a datetime). -/
def inStatement (c : PCfg) (v : PyVal) : Bool :=
  match c, v with
  | .date, .date .. => false
  | _, _ => true

/-- what JSON can carry: elements of an untyped Tuple / List / Dict / Selector value are
JSON-native (no tuple, no date, string keys). -/
def nativeElems (c : PCfg) (v : PyVal) : Bool :=
  match c, v with
  | .tuple _, .tuple l => PyVal.jsonNativeL l
  | .list .., v => v.jsonNative
  | .dict, v => v.jsonNative
  | .selector _, v => v.jsonNative
  | .listSelector _, v => v.jsonNative
  | .classSelector _, v => v.jsonNative
  | _, _ => true

/-! ## C15 -/

structure Obs15 where
  invalid : Bool                                   -- the constructor rejected the state
  state : List (String × PyVal)                    -- values of the object before serialising
  ser : Res (List (String × Json))                 -- json.loads(serialize_parameters())
  standard : Bool                                  -- the text parses as strict JSON
  deser : Res (List (String × PyVal))              -- deserialize_parameters(text)
  rebuilt : Res (List (String × PyVal))            -- values of Cls(**deser)
  perValue : List (String × Res Json × Res PyVal)  -- serialize_value / deserialize_value
  subSer : Res (List (String × Json))              -- the same under subset=
  subDeser : Res (List (String × PyVal))
  narrowDeser : Res (List (String × PyVal))        -- deserialize_parameters(full text, subset=…)
  -- the caller's subset object (list / tuple / set / frozenset / dict keys) is used for every call
  subSer2 : Res (List (String × Json))             -- serialize_parameters(subset) once more, at the end
  subsetIntact : Bool                              -- the subset object still holds the same names
  -- the same text deserialized a second time, after the containers of the first result (and of
  -- the object rebuilt from it) were mutated in place
  againDeser : Res (List (String × PyVal))
  againRebuilt : Res (List (String × PyVal))
  againShared : Bool                               -- a list/dict object of the first result reappears
  againPerValue : List (String × Res PyVal)        -- second deserialize_value of the same text

/-- the statement's preconditions: finite numbers, naive datetimes (not dates) in Date parameters -/
def applicable15 (st : List (Param × PyVal)) : Bool :=
  st.all fun (p, v) =>
    -- validity of a state is decided by the real code accepting it (the harness reports a rejected
    -- constructor call); the one state the code never validates is the `None` default, which is a
    -- valid state only if the Parameter's own validator would take it
    (match v with | .none => p.validB .none | _ => true) &&
    v.finite && (match p.cfg, v with
                 | .date, .date .. => false
                 | _, _ => true)

def perValueModel : List (Param × PyVal) → List (String × Res Json × Res PyVal)
  | [] => []
  | (p, v) :: rest =>
    let s := serializeValue p v
    let d : Res PyVal := match s with
      | .ok j => liftE (deserializeValue p j)
      | .error _ => .error "noser"
    (p.name, liftE s, d) :: perValueModel rest

def model15 (st : List (Param × PyVal)) (subset : Option (List String)) (classLevel : Bool) : Obs15 :=
  let ps := st.map (·.1)
  let ser := serializeParameters st none
  let deser : Res (List (String × PyVal)) := match ser with
    | .ok f => liftE (deserializeFields ps none f)
    | .error _ => .error "noser"
  let subSer := serializeParameters st subset
  { invalid := !st.all (fun (p, v) => if classLevel then p.stateOK v else p.validB v)
    state := st.map fun (p, v) => (p.name, v)
    ser := liftE ser
    standard := match ser with | .ok f => Json.standardO f | .error _ => true
    deser := deser
    rebuilt := match deser with
      | .ok l => modelRebuild ps l
      | .error _ => .error "nodeser"
    perValue := perValueModel st
    subSer := liftE subSer
    subDeser := match subSer with
      | .ok f => liftE (deserializeFields ps subset f)
      | .error _ => .error "noser"
    subSer2 := liftE subSer       -- the calls are functions of (state, names): arguments are not consumed
    subsetIntact := true
    narrowDeser := match ser with
      | .ok f => liftE (deserializeFields ps subset f)
      | .error _ => .error "noser"
    -- deserialization is a function of the text: a second call gives fresh, equal values
    againDeser := deser
    againRebuilt := match deser with
      | .ok l => modelRebuild ps l
      | .error _ => .error "nodeser"
    againShared := false
    againPerValue := (perValueModel st).map fun (n, _, d) => (n, d) }

/-- The C15 conclusions on an observation.  The per-parameter entry points are checked
first so that the message names the parameter at fault. -/
def spec15 (subset : Option (List String)) (o : Obs15) : Option String :=
  match o.ser with
  | .error e => some s!"serialize_parameters raised {e}"
  | .ok _ =>
  if !o.standard then some "the text is not standard JSON" else
  match o.perValue.findSome? (fun (n, s, d) =>
      match s, d, o.state.find? (fun x => x.1 == n) with
      | .error e, _, _ => some s!"parameter {n}: serialize_value raised {e}"
      | .ok _, .error e, _ => some s!"parameter {n}: deserialize_value raised {e}"
      | .ok _, .ok v, some (_, w) =>
        if PyVal.beq v w then none
        else some s!"parameter {n}: serialize_value/deserialize_value does not restore value and type"
      | .ok _, .ok _, none => some s!"parameter {n}: not part of the state") with
  | some w => some w
  | none =>
  if o.perValue.length != o.state.length then some "serialize_value: parameters missing" else
  match o.deser with
  | .error e => some s!"deserialize_parameters raised {e}"
  | .ok _ =>
  match o.rebuilt with
  | .error e => some s!"rebuilding from the deserialized arguments failed ({e})"
  | .ok r =>
    match (o.state.zip r).find? (fun (a, b) => !(a.1 == b.1 && PyVal.beq a.2 b.2)) with
    | some (a, _) => some s!"parameter {a.1}: rebuilt value differs in value or Python type"
    | none =>
    if r.length != o.state.length then some "rebuilt object lacks parameters" else
    match o.subDeser with
    | .error e => some s!"subset: deserialize_parameters raised {e}"
    | .ok l =>
      if !beqFields l (o.state.filter fun x => inSubset subset x.1) then
        some "subset: deserialized arguments are not the subset of the state" else
      -- the full text read back with the narrower subset: exactly the selected names, deserialized
      match o.narrowDeser with
      | .error e => some s!"subset: deserialize_parameters(full text, subset) raised {e}"
      | .ok ln =>
      if !beqFields ln (o.state.filter fun x => inSubset subset x.1) then
        some "subset: deserialize_parameters(full text, subset) is not the subset of the state" else
      -- the subset object is an argument, not a work list: unchanged, and usable again
      if !o.subsetIntact then some "subset: the caller's subset object was modified" else
      if !(match o.subSer2, o.subSer with
           | .ok f2, .ok f1 => beqJFields f2 f1
           | .error e2, .error e1 => e2 == e1
           | _, _ => false) then
        some "subset: a second serialize_parameters with the same subset object differs from the first" else
      -- a second deserialization of the same text, after the first result was mutated in place
      if o.againShared then some "repeat: the second deserialization shares list/dict objects with the first" else
      match o.againDeser with
      | .error e => some s!"repeat: second deserialize_parameters raised {e}"
      | .ok l2 =>
        if !beqFields l2 o.state then some "repeat: second deserialize_parameters of the same text differs from the state" else
        match o.againRebuilt with
        | .error e => some s!"repeat: rebuilding from the second result failed ({e})"
        | .ok r2 =>
          if !beqFields r2 o.state then some "repeat: object rebuilt from the second result differs from the state" else
          match o.againPerValue.find? (fun (n, d) =>
              match d, o.state.find? (fun x => x.1 == n) with
              | .ok v, some (_, w) => !PyVal.beq v w
              | _, _ => true) with
          | some (n, _) => some s!"repeat: parameter {n}: second deserialize_value of the same text differs"
          | none => none

/-! ## C16 -/

structure Probe where
  name : String
  value : Json                 -- a JSON number
  accepted : Bool              -- the Parameter's own validator accepts it
  deriving Repr

structure Obs16 where
  invalid : Bool
  schema : Res (List (String × Json))         -- Cls.param.schema()
  schemaSafe : Res (List (String × Json))     -- Cls.param.schema(safe=True)
  paramSchemas : List (String × Res Json)     -- obj.param[name].schema() per parameter (no title/description)
  ser : Res (List (String × Json))            -- json.loads(serialize_parameters())
  probes : List Probe
  allowNone : List (String × Bool)            -- effective allow_None (truthiness) per parameter

def inScope16 : PCfg → Bool
  | .color => false
  | .dateRange => false
  | .calendarDateRange => false
  | _ => true

def applicable16 (st : List (Param × PyVal)) : Bool :=
  st.all fun (p, v) => v.finite && inScope16 p.cfg

def Param.bounds? (p : Param) : Option Bounds :=
  match p.cfg with
  | .integer b => some b
  | .number b => some b
  | _ => none

/-- what the Number/Integer validator does with a numeric probe -/
def probeAccepted (p : Param) (x : Json) : Bool :=
  match x with
  | .int n => p.validB (.int n)
  | .float f => p.validB (.float f)
  | _ => false

def model16 (st : List (Param × PyVal)) (probes : List (String × Json)) (classLevel : Bool) : Obs16 :=
  let ps := st.map (·.1)
  { invalid := !st.all (fun (p, v) => if classLevel then p.stateOK v else p.validB v)
    schema := liftE (schemaEntries none ps)
    schemaSafe := liftE (schemaEntriesSafe none ps)
    paramSchemas := ps.map fun p => (p.name, liftE p.schema)
    ser := liftE (serializeParameters st none)
    probes := probes.filterMap fun (n, x) =>
      (findParam ps n).map fun p => { name := n, value := x, accepted := probeAccepted p x }
    allowNone := ps.map fun p => (p.name, p.effAllowNone) }

/-- The C16 conclusions on an observation; `ps` gives the declared bounds for the probes. -/
def spec16 (ps : List Param) (o : Obs16) : Option String :=
  match o.schema with
  | .error e => some s!"schema() raised {e}"
  | .ok entries =>
  match entries.find? (fun (_, s) => !wellFormed s) with
  | some (n, _) => some s!"parameter {n}: schema is not a well-formed JSON Schema"
  | none =>
  match o.ser with
  | .error e => some s!"serialize_parameters raised {e}"
  | .ok fields =>
  match entries.find? (fun (n, s) => match Json.lookup n fields with
                                     | some j => !validate s j
                                     | none => false) with
  | some (n, _) => some s!"parameter {n}: serialized value does not validate against its schema"
  | none =>
  if !validate (objectSchema entries) (.obj fields) then some "serialized state does not validate" else
  -- the per-parameter entry point `Parameter.schema()` answers, and the state validates against it too
  match o.paramSchemas.findSome? (fun (n, r) =>
      match r, Json.lookup n fields with
      | .error e, _ => some s!"parameter {n}: Parameter.schema() raised {e}"
      | .ok s, some j =>
        if !wellFormed s then some s!"parameter {n}: Parameter.schema() is not a well-formed JSON Schema"
        else if !validate s j then some s!"parameter {n}: serialized value does not validate against Parameter.schema()"
        else none
      | .ok _, none => none) with
  | some w => some w
  | none =>
  -- `safe=True` may refuse, never give another schema
  if (match o.schemaSafe with
      | .ok safeEntries => !beqJFields safeEntries entries
      | .error _ => false) then some "schema(safe=True) differs from schema()" else
  match o.probes.find? (fun pr =>
      match findParam ps pr.name, Json.lookup pr.name entries, pr.value.num? with
      | some p, some s, some x =>
        (match p.bounds? with
         -- `Bounds.sane`: bounds no number can meet (lower +inf/nan, upper -inf/nan) have no schema form
         | some b => b.sane && x.isFinite && !b.contains x && validate s pr.value
         | none => false)
      | _, _, _ => false) with
  | some pr => some s!"parameter {pr.name}: out-of-bounds probe is accepted by the schema"
  | none => none

end ParamVerif.Json
