/-
C16 — the specification side: a JSON-Schema validator (draft 6/7 semantics) for the
keyword subset that param generates, and `wellFormed`, the check that a tree *is* a
schema of that subset.

Kept as simple as the standard allows; cross-validated against the `jsonschema`
package (Draft7Validator) in the thorough tier.

Keywords: type (string form; integer vs number, a boolean is neither), anyOf, enum
(scalar members), minimum / maximum / exclusiveMinimum / exclusiveMaximum (numeric
form), minItems / maxItems, items (schema form), properties; additionalItems (has
no effect without array-form `items`, which `wellFormed` excludes), format, title,
description and unknown keywords are annotations.
-/
import ParamVerif.Json.Json

namespace ParamVerif.Json

/-- JSON-Schema `type` (draft 6+: a number without fractional part is an integer;
`true`/`false` are booleans, never numbers) -/
def hasType (t : String) (j : Json) : Bool :=
  match t, j with
  | "null", .null => true
  | "boolean", .bool _ => true
  | "integer", .int _ => true
  | "integer", .float x => x.isIntegral
  | "number", .int _ => true
  | "number", .float _ => true
  | "string", .str _ => true
  | "array", .arr _ => true
  | "object", .obj _ => true
  | _, _ => false

def knownType (t : String) : Bool :=
  ["null", "boolean", "integer", "number", "string", "array", "object"].contains t

/-- a numeric keyword constrains numbers only -/
def numKw (cmp : Fl → Fl → Bool) (bound inst : Json) : Bool :=
  match inst.num?, bound.num? with
  | some x, some b => cmp x b
  | some _, none => false          -- malformed bound
  | none, _ => true

mutual
def validate : Json → Json → Bool
  | .obj kws, inst => validateKws kws inst
  | .bool b, _ => b
  | _, _ => false
def validateKws : List (String × Json) → Json → Bool
  | [], _ => true
  | (k, sub) :: rest, inst =>
    (match k with
     | "type" => (match sub with
        | .str (.plain t) => hasType t inst
        | _ => false)
     | "anyOf" => (match sub with
        | .arr ss => validateAny ss inst
        | _ => false)
     | "enum" => (match sub with
        | .arr vs => vs.any (fun v => Json.scalarEq v inst)
        | _ => false)
     | "minimum" => numKw (fun x b => Fl.le b x) sub inst
     | "exclusiveMinimum" => numKw (fun x b => Fl.lt b x) sub inst
     | "maximum" => numKw (fun x b => Fl.le x b) sub inst
     | "exclusiveMaximum" => numKw (fun x b => Fl.lt x b) sub inst
     | "minItems" => (match inst, sub with
        | .arr es, .int n => decide (n ≤ (es.length : Int))
        | .arr _, _ => false
        | _, _ => true)
     | "maxItems" => (match inst, sub with
        | .arr es, .int n => decide ((es.length : Int) ≤ n)
        | .arr _, _ => false
        | _, _ => true)
     | "items" => (match inst with
        | .arr es => es.all (fun e => validate sub e)
        | _ => true)
     | "properties" => (match sub, inst with
        | .obj props, .obj fields => validateProps props fields
        | _, _ => true)
     | _ => true) && validateKws rest inst
def validateAny : List Json → Json → Bool
  | [], _ => false
  | s :: ss, inst => validate s inst || validateAny ss inst
def validateProps : List (String × Json) → List (String × Json) → Bool
  | [], _ => true
  | (n, s) :: ps, fields =>
    (match Json.lookup n fields with
     | some j => validate s j
     | none => true) && validateProps ps fields
end

def isFiniteNumber : Json → Bool
  | .int _ => true
  | .float x => x.isFinite
  | _ => false

def isPlainStr : Json → Bool
  | .str (.plain _) => true
  | _ => false

/- "is a schema of the supported subset": only known keywords with operands of the
right shape, `type` one of the seven JSON-Schema types, numeric operands finite
(so that the schema can be written as standard JSON), `anyOf` non-empty, `enum`
members scalar and finite. -/
mutual
def wellFormed : Json → Bool
  | .obj kws => wellFormedKws kws
  | .bool _ => true
  | _ => false
def wellFormedKws : List (String × Json) → Bool
  | [] => true
  | (k, sub) :: rest =>
    (match k with
     | "type" => (match sub with
        | .str (.plain t) => knownType t
        | _ => false)
     | "anyOf" => (match sub with
        | .arr [] => false
        | .arr ss => wellFormedAll ss
        | _ => false)
     | "enum" => (match sub with
        | .arr vs => vs.all (fun v => v.isScalar && v.standard)
        | _ => false)
     | "minimum" => isFiniteNumber sub
     | "exclusiveMinimum" => isFiniteNumber sub
     | "maximum" => isFiniteNumber sub
     | "exclusiveMaximum" => isFiniteNumber sub
     | "minItems" => (match sub with
        | .int n => decide (0 ≤ n)
        | _ => false)
     | "maxItems" => (match sub with
        | .int n => decide (0 ≤ n)
        | _ => false)
     | "items" => wellFormed sub
     | "additionalItems" => wellFormed sub
     | "properties" => (match sub with
        | .obj props => wellFormedProps props
        | _ => false)
     | "format" => isPlainStr sub
     | "title" => isPlainStr sub
     | "description" => isPlainStr sub
     | _ => false) && wellFormedKws rest
def wellFormedAll : List Json → Bool
  | [] => true
  | s :: ss => wellFormed s && wellFormedAll ss
def wellFormedProps : List (String × Json) → Bool
  | [] => true
  | (_, s) :: ps => wellFormed s && wellFormedProps ps
end

end ParamVerif.Json
