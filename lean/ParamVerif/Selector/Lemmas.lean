/-
Helper lemmas for C18 (kept apart from the property theorems in Props/C18.lean).
-/
import ParamVerif.Selector.ListProxy
import Std.Data.String.ToInt

namespace ParamVerif.Selector

/-! ### association-list dictionary -/

theorem Dict.get?_mem {d : Dict} {k : Key} {v : Obj} (h : Dict.get? d k = some v) :
    (k, v) ∈ d := by
  induction d with
  | nil => simp [Dict.get?] at h
  | cons kv d ih =>
    obtain ⟨k', v'⟩ := kv
    simp only [Dict.get?] at h
    split at h
    · simp_all
    · simp [ih h]

theorem Dict.get?_none_iff {d : Dict} {k : Key} :
    Dict.get? d k = none ↔ k ∉ d.map (·.1) := by
  induction d with
  | nil => simp [Dict.get?]
  | cons kv d ih =>
    obtain ⟨k', v'⟩ := kv
    simp only [Dict.get?]
    split
    · simp_all
    · simp_all [eq_comm]

theorem Dict.set_keys_of_mem {d : Dict} {k : Key} {v : Obj} (h : k ∈ d.map (·.1)) :
    (Dict.set d k v).map (·.1) = d.map (·.1) := by
  induction d with
  | nil => simp at h
  | cons kv d ih =>
    obtain ⟨k', v'⟩ := kv
    simp only [Dict.set]
    split
    · simp
    · have : k ∈ d.map (·.1) := by simp_all [eq_comm]
      simp [ih this]

theorem Dict.set_of_not_mem {d : Dict} {k : Key} {v : Obj} (h : k ∉ d.map (·.1)) :
    Dict.set d k v = d ++ [(k, v)] := by
  induction d with
  | nil => simp [Dict.set]
  | cons kv d ih =>
    obtain ⟨k', v'⟩ := kv
    simp only [Dict.set]
    split
    · simp_all
    · simp_all

theorem Dict.set_keys_nodup {d : Dict} {k : Key} {v : Obj} (h : (d.map (·.1)).Nodup) :
    ((Dict.set d k v).map (·.1)).Nodup := by
  by_cases hk : k ∈ d.map (·.1)
  · rw [Dict.set_keys_of_mem hk]; exact h
  · rw [Dict.set_of_not_mem hk]
    simp only [List.map_append, List.map_cons, List.map_nil]
    rw [List.nodup_append]
    refine ⟨h, by simp, ?_⟩
    intro a ha b hb
    simp at hb
    subst hb
    intro e; subst e; exact hk ha

theorem Dict.set_ne_nil (d : Dict) (k : Key) (v : Obj) : Dict.set d k v ≠ [] := by
  cases d with
  | nil => simp [Dict.set]
  | cons kv d => obtain ⟨k', v'⟩ := kv; simp only [Dict.set]; split <;> simp

/-- Replacing the value of an existing key replaces, in the list of values, the
old object at its position. -/
theorem Dict.set_vals_of_get {d : Dict} {k : Key} {old o : Obj}
    (hv : (d.map (·.2)).Nodup) (hg : Dict.get? d k = some old) :
    ∃ idx, indexOf? (d.map (·.2)) old = some idx ∧ idx < d.length ∧
      (Dict.set d k o).map (·.2) = (d.map (·.2)).set idx o := by
  induction d with
  | nil => simp [Dict.get?] at hg
  | cons kv d ih =>
    obtain ⟨k', v'⟩ := kv
    simp only [Dict.get?] at hg
    simp only [List.map_cons, List.nodup_cons] at hv
    by_cases hk : k' = k
    · simp only [hk, if_true, Option.some.injEq] at hg
      subst hg
      exact ⟨0, by simp [indexOf?], by simp, by simp [Dict.set, hk]⟩
    · simp only [hk, if_false] at hg
      obtain ⟨idx, h1, h2, h3⟩ := ih hv.2 hg
      have hmem : old ∈ d.map (·.2) := List.mem_map.2 ⟨(k, old), Dict.get?_mem hg, rfl⟩
      have hne : v' ≠ old := fun e => hv.1 (e ▸ hmem)
      refine ⟨idx + 1, ?_, by simp; omega, ?_⟩
      · simp [indexOf?, hne, h1]
      · simp [Dict.set, hk, h3]

theorem Dict.erase_vals {d : Dict} {k : Key} {o : Obj}
    (hv : (d.map (·.2)).Nodup) (hg : Dict.get? d k = some o) :
    removeFirst (d.map (·.2)) o = some ((Dict.erase d k).map (·.2)) := by
  induction d with
  | nil => simp [Dict.get?] at hg
  | cons kv d ih =>
    obtain ⟨k', v'⟩ := kv
    simp only [Dict.get?] at hg
    simp only [List.map_cons, List.nodup_cons] at hv
    by_cases hk : k' = k
    · simp only [hk, if_true, Option.some.injEq] at hg
      subst hg
      simp [removeFirst, Dict.erase, hk]
    · simp only [hk, if_false] at hg
      have hmem : o ∈ d.map (·.2) := List.mem_map.2 ⟨(k, o), Dict.get?_mem hg, rfl⟩
      have hne : v' ≠ o := fun e => hv.1 (e ▸ hmem)
      simp [removeFirst, Dict.erase, hk, hne, ih hv.2 hg]

theorem Dict.erase_keys_sublist (d : Dict) (k : Key) :
    ((Dict.erase d k).map (·.1)).Sublist (d.map (·.1)) := by
  induction d with
  | nil => simp [Dict.erase]
  | cons kv d ih =>
    obtain ⟨k', v'⟩ := kv
    simp only [Dict.erase]
    split
    · simp
    · simpa using ih

/-! ### list helpers -/

theorem nodup_set {l : List Obj} {n : Nat} {o : Obj} (h : l.Nodup) (ho : o ∉ l) :
    (l.set n o).Nodup := by
  induction l generalizing n with
  | nil => simp
  | cons x l ih =>
    cases n with
    | zero => simp_all
    | succ n =>
      simp only [List.set_cons_succ, List.nodup_cons] at *
      simp only [List.mem_cons, not_or] at ho
      refine ⟨?_, ih h.2 ho.2⟩
      intro hx
      rcases List.mem_or_eq_of_mem_set hx with h1 | h1
      · exact h.1 h1
      · exact ho.1 h1.symm

theorem removeFirst_eq_filter {l : List Obj} {o : Obj} (h : l.Nodup) (ho : o ∈ l) :
    removeFirst l o = some (l.filter (· ≠ o)) := by
  induction l with
  | nil => simp at ho
  | cons x l ih =>
    simp only [List.nodup_cons] at h
    by_cases hx : x = o
    · subst hx
      have : l.filter (· ≠ x) = l := by
        apply List.filter_eq_self.2
        intro a ha; simp; intro e; subst e; exact h.1 ha
      simp only [ne_eq, decide_not] at this
      simp [removeFirst, this]
    · have ho' : o ∈ l := by
        rcases List.mem_cons.1 ho with e | e
        · exact absurd e.symm hx
        · exact e
      simp [removeFirst, hx, ih h.2 ho']

theorem removeFirst_none {l : List Obj} {o : Obj} (ho : o ∉ l) : removeFirst l o = none := by
  induction l with
  | nil => rfl
  | cons x l ih =>
    simp only [List.mem_cons, not_or] at ho
    simp [removeFirst, Ne.symm ho.1, ih ho.2]

theorem removeFirst_some_mem {l l' : List Obj} {o : Obj} (h : removeFirst l o = some l') : o ∈ l := by
  by_cases ho : o ∈ l
  · exact ho
  · rw [removeFirst_none ho] at h; cases h

theorem eraseIdx_eq_filter {l : List Obj} {n : Nat} (h : l.Nodup) (hn : n < l.length) :
    l.eraseIdx n = l.filter (· ≠ l.getD n 0) := by
  induction l generalizing n with
  | nil => simp at hn
  | cons x l ih =>
    simp only [List.nodup_cons] at h
    cases n with
    | zero =>
      have : l.filter (· ≠ x) = l := by
        apply List.filter_eq_self.2
        intro a ha; simp; intro e; subst e; exact h.1 ha
      simp only [ne_eq, decide_not] at this
      simp [this]
    | succ n =>
      simp only [List.length_cons, Nat.add_lt_add_iff_right] at hn
      have hmem : l.getD n 0 ∈ l := by
        simp [List.getD, List.getElem?_eq_getElem hn]
      have hne : x ≠ l.getD n 0 := fun e => h.1 (e ▸ hmem)
      have hne' : x ≠ l[n]?.getD 0 := by simpa [List.getD] using hne
      have := ih h.2 hn
      simp only [ne_eq, List.getD] at this
      simp only [List.eraseIdx_cons_succ, List.getD, List.getElem?_cons_succ, ne_eq, this]
      rw [List.filter_cons]
      simp [hne']
      rfl

theorem map_snd_filter (d : Dict) (o : Obj) :
    (d.filter (fun kv => kv.2 ≠ o)).map (·.2) = (d.map (·.2)).filter (· ≠ o) := by
  induction d with
  | nil => rfl
  | cons kv d ih =>
    simp only [ne_eq, decide_not] at ih ⊢
    by_cases h : kv.2 = o <;> simp [List.filter_cons, h, ih]

theorem map_fst_filter_sublist (d : Dict) (p : Key × Obj → Bool) :
    ((d.filter p).map (·.1)).Sublist (d.map (·.1)) :=
  (List.filter_sublist).map _

theorem insertAt_nodup {l : List Obj} {n : Nat} {o : Obj} (h : l.Nodup) (ho : o ∉ l) :
    (insertAt l n o).Nodup := by
  unfold insertAt
  have hp : (l.take n ++ o :: l.drop n).Perm (o :: (l.take n ++ l.drop n)) :=
    List.perm_middle
  rw [hp.nodup_iff, List.take_append_drop]
  exact List.nodup_cons.2 ⟨ho, h⟩

theorem normIdx_lt {len : Nat} {i : Int} {n : Nat} (h : normIdx len i = some n) : n < len := by
  unfold normIdx at h
  by_cases hi : i < 0 <;> simp [hi] at h <;> omega

theorem key_unique_of_vals_nodup {d : Dict} {k k' : Key} {v : Obj}
    (hv : (d.map (·.2)).Nodup) (h1 : (k', v) ∈ d) (h2 : (k, v) ∈ d) : k' = k := by
  induction d with
  | nil => simp at h1
  | cons x d ih =>
    simp only [List.map_cons, List.nodup_cons] at hv
    rcases List.mem_cons.1 h1 with e1 | e1 <;> rcases List.mem_cons.1 h2 with e2 | e2
    · rw [← e2] at e1; exact (Prod.mk.inj e1).1
    · exact absurd (List.mem_map.2 ⟨(k, v), e2, rfl⟩) (by rw [← e1] at hv; exact hv.1)
    · exact absurd (List.mem_map.2 ⟨(k', v), e1, rfl⟩) (by rw [← e2] at hv; exact hv.1)
    · exact ih hv.2 e1 e2

/-! ### `_named_objs` -/

section
variable (str : Obj → Key) (hstr : ∀ a b, str a = str b → a = b)

theorem nameOf_nil (o : Obj) : nameOf str [] o = str o := by simp [nameOf]

theorem namedObjs_nil_unfold (objs : List Obj) :
    namedObjs str objs [] = objs.foldl (fun d o => Dict.set d (str o) o) [] := by
  unfold namedObjs
  congr 1

include hstr in
/-- Without a names dictionary `_named_objs` lists distinct objects under their `str`, in order. -/
theorem namedObjs_nil_aux (acc : Dict) (objs : List Obj)
    (hacc : ∀ o ∈ objs, str o ∉ acc.map (·.1)) (h : objs.Nodup) :
    objs.foldl (fun d o => Dict.set d (str o) o) acc
      = acc ++ objs.map (fun o => (str o, o)) := by
  induction objs generalizing acc with
  | nil => simp
  | cons x l ih =>
    simp only [List.nodup_cons] at h
    simp only [List.foldl_cons]
    rw [Dict.set_of_not_mem (hacc x (by simp))]
    rw [ih _ ?_ h.2]
    · simp
    · intro o ho
      simp only [List.map_append, List.map_cons, List.map_nil, List.mem_append,
        List.mem_cons, List.not_mem_nil, or_false, not_or]
      refine ⟨hacc o (by simp [ho]), ?_⟩
      intro e
      have := hstr _ _ e
      subst this
      exact h.1 ho

include hstr in
theorem namedObjs_nil {objs : List Obj} (h : objs.Nodup) :
    namedObjs str objs [] = objs.map (fun o => (str o, o)) := by
  rw [namedObjs_nil_unfold, namedObjs_nil_aux str hstr [] objs (by simp) h]; simp

include hstr in
theorem namedObjs_nil_vals {objs : List Obj} (h : objs.Nodup) :
    (namedObjs str objs []).map (·.2) = objs := by
  rw [namedObjs_nil str hstr h]; simp [List.map_map, Function.comp_def]

include hstr in
theorem nodup_map_str {objs : List Obj} (h : objs.Nodup) : (objs.map str).Nodup := by
  induction objs with
  | nil => simp
  | cons x l ih =>
    simp only [List.nodup_cons, List.map_cons, List.mem_map, not_exists, not_and] at *
    refine ⟨?_, ih h.2⟩
    intro y hy e
    have := hstr _ _ e
    subst this
    exact h.1 hy

include hstr in
theorem namedObjs_nil_keys_nodup {objs : List Obj} (h : objs.Nodup) :
    ((namedObjs str objs []).map (·.1)).Nodup := by
  rw [namedObjs_nil str hstr h]
  simp only [List.map_map, Function.comp_def]
  exact nodup_map_str str hstr h

include hstr in
theorem namedObjs_nil_ne_nil {objs : List Obj} (h : objs.Nodup) (hne : objs ≠ []) :
    namedObjs str objs [] ≠ [] := by
  rw [namedObjs_nil str hstr h]; simpa using hne

end

end ParamVerif.Selector
