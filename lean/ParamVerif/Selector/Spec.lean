/-
C18 specification side, executable: the conclusions of the theorems in
Props/C18.lean as a decidable check on *observations* (of the implementation or
of the model).  Used by the driver as the oracle.
-/
import ParamVerif.Selector.ListProxy

namespace ParamVerif.Selector

/-- what is observed after a call (or after the declaration) -/
structure Obs where
  list : List Obj              -- list(p.objects)
  items : Dict                 -- list(p.objects.items())
  names : Dict                 -- list(p.names.items())
  range : Dict                 -- list(p.get_range().items())
  ret : Option Obj
  err : Option String
  notifs : List (Payload × Payload)
  accepts : List Bool          -- per element of the probe univ; [] when not probed
  /-- a second, changes-only (`onlychanged=True`, the default of `watch`) watcher of `objects` was called once
  for every notification whose old and new payload differ (same type and `==` in Python), and for no other;
  judged by the harness, `true` in the model -/
  chg : Bool := true
  /-- the list view *through which* the mutations were made (one `ListProxy` object kept across the calls, until
  a wholesale replacement) lists the same objects as a freshly fetched view; judged by the harness, `true` in
  the model (whose state has a single list of objects) -/
  held : Bool := true
  deriving Repr, DecidableEq

def Obs.st (o : Obs) (c : Bool) : St := { objs := o.list, names := o.names, checkOnSet := c }

def invB (s : St) : Bool :=
  decide (s.objs.Nodup) && (s.names.isEmpty ||
    (s.names.map (·.2) == s.objs && decide ((s.names.map (·.1)).Nodup)))

def okB (s : St) : Op → Bool
  | .setIdx _ o => s.names.isEmpty && !s.objs.contains o
  | .setKey _ o => (!s.names.isEmpty || s.objs.isEmpty) && !s.objs.contains o
  | .append o => s.names.isEmpty && !s.objs.contains o
  | .insert _ o => s.names.isEmpty && !s.objs.contains o
  | .extend os => s.names.isEmpty && decide os.Nodup && os.all (fun o => !s.objs.contains o)
  | .update kvs => (!s.names.isEmpty || s.objs.isEmpty) && decide (kvs.map (·.2)).Nodup
                    && kvs.all (fun kv => !s.objs.contains kv.2)
  | .popIdx _ => true
  | .popKey _ => true
  | .popKeyD _ _ => true
  | .remove _ => true
  | .clear => true
  | .replaceList os => decide os.Nodup
  | .replaceDict kvs => decide ((Dict.updateAll [] kvs).map (·.2)).Nodup
  | .assign _ => true       -- the property makes no exception for value assignments (`Op.okFull`)
  | .inherited => true

/-- the views of one observation agree (theorem `views_agree`) -/
def viewsOk (o : Obs) (c : Bool) (univ : List Obj) : Option String :=
  if !invB (o.st c) then some "objects/names inconsistent (Inv fails)"
  else if o.items.map (·.2) != o.list then some "items() lists other objects than the list view"
  else if o.range.map (·.2) != o.list then some "get_range() lists other objects than the list view"
  else if !o.names.isEmpty && (o.items != o.names || o.range != o.names) then
    some "items()/get_range() differ from the names mapping"
  else if c && !o.accepts.isEmpty && o.accepts != univ.map (fun v => o.list.contains v) then
    some "accepted values differ from the current objects"
  else none

/-- the operations for which `notification_payload` is stated (in-place mutations of an existing view) -/
def payloadCovered : Op → Bool
  | .replaceList _ | .replaceDict _ | .setKey _ _ | .update _ | .assign _ => false
  | _ => true

/-- conclusions about one call, given the observation before and after -/
def callOk (prev cur : Obs) (c : Bool) (op : Op) : Option String :=
  let mutator := match op with
    | .assign _ => false
    | .inherited => false       -- acts on the throw-away proxy: not a mutation of the Parameter
    | .popKeyD k _ => (Dict.get? prev.names k).isSome     -- a missing key: the default is returned, nothing changes
    | _ => true
  if !cur.chg then
    some "a changes-only watcher of `objects` was not notified exactly when the objects changed"
  else if !cur.held && cur.err.isNone then
    some "the list view through which the mutation was made lists other objects than the Selector's own views"
  else if cur.err.isNone && mutator && cur.notifs.length != 1 then
    some s!"{cur.notifs.length} notifications for one successful mutation"
  else if (cur.err.isSome || !mutator) && !cur.notifs.isEmpty then
    some "notification without a successful mutation"
  else if cur.err.isNone && mutator && payloadCovered op &&
      cur.notifs != [(payloadOld (prev.st c), payloadNew (cur.st c))] then
    -- theorem `notification_payload`: the event carries the view before and the view after the call
    some "the notification does not carry the objects before and after the mutation"
  else match op with
  | .popIdx i =>
    match normIdx prev.list.length i with
    | some n =>
      if cur.err.isSome then some "pop(index) failed on a valid index"
      else if cur.ret != prev.list[n]? then some "pop(index) did not return the object it removed"
      else if cur.list != prev.list.eraseIdx n then some "pop(index) removed something else"
      else none
    | none => if cur.err.isNone then some "pop(index) succeeded on an invalid index" else none
  | .popKey k =>
    if prev.names.isEmpty then none else
    match Dict.get? prev.names k with
    | some o =>
      if cur.err.isSome then some "pop(key) failed on an existing key"
      else if cur.ret != some o then some "pop(key) did not return the object it removed"
      else if cur.list.contains o then some "pop(key) left the object in place"
      else none
    | none => if cur.err.isNone then some "pop(key) succeeded on a missing key" else none
  | .popKeyD k d =>
    if prev.names.isEmpty then none else
    match Dict.get? prev.names k with
    | some o =>
      if cur.err.isSome then some "pop(key, default) failed on an existing key"
      else if cur.ret != some o then some "pop(key, default) did not return the object it removed"
      else if cur.list.contains o then some "pop(key, default) left the object in place"
      else none
    | none =>
      if cur.err.isSome then some "pop(key, default) raised for a missing key"
      else if cur.ret != some d then some "pop(key, default) did not return the default for a missing key"
      else if cur.list != prev.list || cur.names != prev.names then some "pop(key, default) of a missing key changed the objects"
      else none
  | .assign v =>
    if c then
      if cur.err.isNone != prev.list.contains v then some "membership not checked against the current objects"
      else if cur.list != prev.list || cur.names != prev.names then some "assignment changed the objects"
      else none
    else none
  | _ => none

/-- Walk a history of observations; stop being applicable at the first
operation that is not style-consistent in the observed state. -/
def specHistory (c : Bool) (univ : List Obj) :
    Obs → List (Op × Obs) → Nat → (Nat × Option String)
  | _, [], n => (n, none)
  | prev, (op, cur) :: rest, n =>
    if !okB (prev.st c) op then (n, none) else
    match callOk prev cur c op with
    | some w => (n + 1, some s!"step {n} ({repr op}): {w}")
    | none =>
      match viewsOk cur c univ with
      | some w => (n + 1, some s!"after step {n} ({repr op}): {w}")
      | none => specHistory c univ cur rest (n + 1)

end ParamVerif.Selector
