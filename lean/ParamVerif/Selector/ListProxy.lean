/-
Model of `param.parameters.ListProxy` + the `objects` machinery of `Selector`
(param/parameters.py, `class ListProxy`, `Selector.objects` property/setter,
`Selector._validate/_validate_value/_ensure_value_is_in_objects/get_range`,
param/_utils.py `_named_objs`).

Objects are integers (the property restricts itself to *unique* objects, so
identity `is` and equality `==` coincide), keys are strings.  The Parameter's
state is `(_objects, names)`; the `ListProxy` handed out by the `objects`
property is a *fresh copy* of `_objects` on every access, and every mutator
applies the same list operation to the copy and to `_parameter._objects`, so
the copy never outlives one call and is not part of the state.

No Mathlib, no imports: this file is also loaded by the driver.
-/
namespace ParamVerif.Selector

abbrev Obj := Int
abbrev Key := String
abbrev Dict := List (Key × Obj)      -- insertion-ordered `dict`

/-! ### Python `dict` on association lists (unique keys, insertion order) -/

def Dict.get? : Dict → Key → Option Obj
  | [], _ => none
  | (k', v) :: d, k => if k' = k then some v else Dict.get? d k

/-- `d[k] = v`: replace in place when the key exists, else append. -/
def Dict.set : Dict → Key → Obj → Dict
  | [], k, v => [(k, v)]
  | (k', v') :: d, k, v => if k' = k then (k', v) :: d else (k', v') :: Dict.set d k v

def Dict.erase : Dict → Key → Dict
  | [], _ => []
  | (k', v') :: d, k => if k' = k then d else (k', v') :: Dict.erase d k

/-- `dict(pairs)` / `d.update(pairs)` -/
def Dict.updateAll (d : Dict) (kvs : List (Key × Obj)) : Dict :=
  kvs.foldl (fun d kv => Dict.set d kv.1 kv.2) d

/-! ### Python `list` helpers -/

/-- Python index normalisation for `l[i]`, `l.pop(i)`: `none` = IndexError. -/
def normIdx (len : Nat) (i : Int) : Option Nat :=
  let j := if i < 0 then i + len else i
  if 0 ≤ j ∧ j < len then some j.toNat else none

/-- Python `list.insert` clamps the index. -/
def clampIdx (len : Nat) (i : Int) : Nat :=
  let j := if i < 0 then i + len else i
  if j < 0 then 0 else if j > len then len else j.toNat

def insertAt (l : List Obj) (n : Nat) (o : Obj) : List Obj :=
  l.take n ++ o :: l.drop n

/-- `list.remove(x)`: first occurrence; `none` = ValueError. -/
def removeFirst : List Obj → Obj → Option (List Obj)
  | [], _ => none
  | x :: l, o => if x = o then some l else (removeFirst l o).map (x :: ·)

/-- `list.index(x)`; `none` = ValueError. -/
def indexOf? : List Obj → Obj → Option Nat
  | [], _ => none
  | x :: l, o => if x = o then some 0 else (indexOf? l o).map (· + 1)

/-! ### State, operations, observable output -/

structure St where
  objs : List Obj
  names : Dict
  /-- `check_on_set` of the Selector (value assignments only) -/
  checkOnSet : Bool := true
  deriving Repr, DecidableEq

inductive Err | indexError | valueError | keyError
  deriving Repr, DecidableEq

/-- The payload of an `objects` notification: `names or _objects`. -/
inductive Payload
  | lst (l : List Obj)
  | dct (d : Dict)
  deriving Repr, DecidableEq

inductive Op
  | setIdx (i : Int) (o : Obj)         -- `objects[i] = o`
  | setKey (k : Key) (o : Obj)         -- `objects[k] = o`
  | append (o : Obj)
  | insert (i : Int) (o : Obj)
  | extend (os : List Obj)
  | update (kvs : List (Key × Obj))    -- `objects.update({..})`
  | popIdx (i : Int)                   -- `objects.pop(i)`; `pop()` is `popIdx (-1)`
  | popKey (k : Key)                   -- `objects.pop(k)`
  | popKeyD (k : Key) (d : Obj)        -- `objects.pop(k, d)`: like `dict.pop`, the default for a missing key
  | remove (o : Obj)
  | clear
  | replaceList (os : List Obj)        -- `p.objects = [..]`
  | replaceDict (kvs : List (Key × Obj))  -- `p.objects = {..}`
  | assign (v : Obj)                   -- `obj.p = v` (Selector value assignment)
  /-- a `list` mutator that `ListProxy` does not override (`reverse`, `sort`, `del objects[i]`,
  `objects += [..]`, `objects *= n`), called on `p.objects`: it acts on the throw-away proxy only -/
  | inherited
  deriving Repr, DecidableEq

structure Out where
  /-- value returned by the call (`pop` only) -/
  ret : Option Obj := none
  err : Option Err := none
  /-- `(old, new)` of every `objects` notification raised by the call -/
  notifs : List (Payload × Payload) := []
  deriving Repr, DecidableEq

/-- `_named_objs(objlist, namesdict)` for integer objects: the name recorded for
the object in `namesdict` (the *last* key holding it) else `str(obj)` (a parameter of the model);
`objs[k] = obj` on an ordered dict. -/
def nameOf (str : Obj → Key) (names : Dict) (o : Obj) : Key :=
  match (names.reverse.find? (fun kv => kv.2 = o)) with
  | some kv => kv.1
  | none => str o

def namedObjs (str : Obj → Key) (objs : List Obj) (names : Dict) : Dict :=
  objs.foldl (fun d o => Dict.set d (nameOf str names o) o) []

/-- Python's `str` on the objects of the driver's universe: model object 0 stands for `None`, object
`k > 0` for the Python integer `1000 * k` (the harness hands every such object over as a fresh `int`
outside CPython's small-integer cache, so that equal objects are not identical), and object `-k` for the
Python *string* `str(1000 * k)` — a different object with the same `str`, so that this `str` is NOT
injective: `pyStr 7 = pyStr (-7)`.  The consistency theorems assume an injective `str` (`hstr`);
`C18_str_collision_refuted` shows that the assumption is needed, and the driver probes the library there. -/
def pyStr (o : Obj) : Key :=
  if o = 0 then "None"
  -- objects 900..909 are the (unhashable) sets `{1000*o}`, objects 910..919 carry a `name` attribute "n<o>"
  -- (`_named_objs` labels an object by `obj.name`, `obj.__name__`, else `str(obj)`)
  else if 900 ≤ o ∧ o < 910 then "{" ++ Int.repr (o * 1000) ++ "}"
  else if 910 ≤ o ∧ o < 920 then "n" ++ Int.repr o
  -- objects 920..929 are functions named "f<o>" (no `name`, but `__name__`)
  else if 920 ≤ o ∧ o < 930 then "f" ++ Int.repr o
  else Int.repr (o.natAbs * 1000)

def payloadOld (s : St) : Payload :=       -- `dict(names) or list(_objects)`
  if s.names ≠ [] then .dct s.names else .lst s.objs
def payloadNew (s : St) : Payload :=       -- `names or _objects`
  if s.names ≠ [] then .dct s.names else .lst s.objs

/-- the body of `__setitem__(key, object)` after the optional names conversion -/
def setKeyCore (s : St) (k : Key) (o : Obj) : Except Err St :=
  match Dict.get? s.names k with
  | some old =>
    match indexOf? s.objs old with
    | some idx => .ok { s with objs := s.objs.set idx o, names := Dict.set s.names k o }
    | none => .error .valueError
  | none => .ok { s with objs := s.objs ++ [o], names := Dict.set s.names k o }

/-- `if self and not names: names = _named_objs(self)` -/
def convertNames (str : Obj → Key) (s : St) : St :=
  if s.objs ≠ [] ∧ s.names = [] then { s with names := namedObjs str s.objs [] } else s

def updateCore (str : Obj → Key) : St → List (Key × Obj) → St × Option Err
  | s, [] => (s, none)
  | s, (k, o) :: kvs =>
    -- nested `__setitem__(k, v, trigger=False)`: its own conversion test runs again;
    -- an exception leaves the pairs applied so far in place
    match setKeyCore (convertNames str s) k o with
    | .ok s' => updateCore str s' kvs
    | .error e => (convertNames str s, some e)

/-- One call on the Parameter, as written.  On an error the state is the one
reached when the exception was raised and no notification is sent (`_trigger`
has no `finally`). -/
def step (str : Obj → Key) (s : St) : Op → St × Out
  | .setIdx i o =>
    match normIdx s.objs.length i with
    | some n => let s' := { s with objs := s.objs.set n o }
                (s', { notifs := [(payloadOld s, payloadNew s')] })
    | none => (s, { err := some .indexError })
  | .setKey k o =>
    let s0 := convertNames str s
    match setKeyCore s0 k o with
    | .ok s' => (s', { notifs := [(payloadOld s0, payloadNew s')] })
    | .error e => (s0, { err := some e })
  | .append o =>
    let s' := { s with objs := s.objs ++ [o] }
    (s', { notifs := [(payloadOld s, payloadNew s')] })
  | .insert i o =>
    let s' := { s with objs := insertAt s.objs (clampIdx s.objs.length i) o }
    (s', { notifs := [(payloadOld s, payloadNew s')] })
  | .extend os =>
    let s' := { s with objs := s.objs ++ os }
    (s', { notifs := [(payloadOld s, payloadNew s')] })
  | .update kvs =>
    let s0 := if s.names = [] then { s with names := namedObjs str s.objs [] } else s
    match updateCore str s0 kvs with
    | (s', none) => (s', { notifs := [(payloadOld s0, payloadNew s')] })
    | (s', some e) => (s', { err := some e })
  | .popIdx i =>
    match normIdx s.objs.length i with
    | some n =>
      let o := s.objs.getD n 0
      let s' := { s with objs := s.objs.eraseIdx n,
                         names := s.names.filter (fun kv => kv.2 ≠ o) }
      (s', { ret := some o, notifs := [(payloadOld s, payloadNew s')] })
    | none => (s, { err := some .indexError })
  | .popKey k =>
    if s.objs ≠ [] ∧ s.names = [] then (s, { err := some .valueError }) else
    match Dict.get? s.names k with
    | none => (s, { err := some .keyError })
    | some o =>
      let s1 := { s with names := Dict.erase s.names k }
      match removeFirst s.objs o with
      | some l => let s' := { s1 with objs := l }
                  (s', { ret := some o, notifs := [(payloadOld s, payloadNew s')] })
      | none => (s1, { err := some .valueError })
  | .popKeyD k d =>
    if s.objs ≠ [] ∧ s.names = [] then (s, { err := some .valueError }) else
    match Dict.get? s.names k with
    | none => (s, { ret := some d })          -- nothing removed, nobody notified
    | some o =>
      let s1 := { s with names := Dict.erase s.names k }
      match removeFirst s.objs o with
      | some l => let s' := { s1 with objs := l }
                  (s', { ret := some o, notifs := [(payloadOld s, payloadNew s')] })
      | none => (s1, { err := some .valueError })
  | .remove o =>
    match removeFirst s.objs o with
    | some l =>
      let s' := { s with objs := l, names := s.names.filter (fun kv => kv.2 ≠ o) }
      (s', { notifs := [(payloadOld s, payloadNew s')] })
    | none => (s, { err := some .valueError })
  | .clear =>
    let s' := { s with objs := [], names := [] }
    (s', { notifs := [(payloadOld s, payloadNew s')] })
  | .replaceList os =>
    let s' := { s with objs := os, names := [] }
    -- Parameter.__setattr__('objects'): old = ListProxy(old _objects), new = the list
    (s', { notifs := [(.lst s.objs, .lst os)] })
  | .replaceDict kvs =>
    let d := Dict.updateAll [] kvs
    let s' := { s with objs := d.map (·.2), names := d }
    (s', { notifs := [(.lst s.objs, .dct d)] })
  | .assign v =>
    if s.checkOnSet then
      if v ∈ s.objs then (s, {}) else (s, { err := some .valueError })
    else
      -- `_ensure_value_is_in_objects`: appended to `_objects` only, silently
      if v ∈ s.objs then (s, {}) else ({ s with objs := s.objs ++ [v] }, {})
  | .inherited => (s, {})     -- `p.objects` is a fresh `ListProxy(self._objects)` copy: nothing is written through

def run (str : Obj → Key) (s : St) (ops : List Op) : St := ops.foldl (fun s op => (step str s op).1) s

/-! ### The four views the property speaks about -/

/-- `list(p.objects)` -/
def listView (s : St) : List Obj := s.objs
/-- `p.objects.items()` -/
def itemsView (str : Obj → Key) (s : St) : Dict :=
  if s.names ≠ [] then s.names else namedObjs str s.objs []
/-- `p.get_range()` -/
def rangeView (str : Obj → Key) (s : St) : Dict := namedObjs str s.objs s.names
/-- does `obj.p = v` succeed (with `check_on_set`) -/
def accepts (s : St) (v : Obj) : Bool := decide (v ∈ s.objs)

end ParamVerif.Selector
