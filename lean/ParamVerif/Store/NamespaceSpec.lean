/-
C13 specification side, executable: the conclusions of the theorems in Props/C13.lean as a
decidable check on *observations* (of the implementation or of the model).  Used by the
driver as the oracle.  Parameter objects appear as canonical creation indices.
-/
import ParamVerif.Store.Namespace

namespace ParamVerif.Store.Namespace

/-- what the public API shows for one (class, name) -/
structure ClsRow where
  listed : Bool            -- `n in C.param`
  pid : Option PId         -- `C.param[n]` (identity)
  static : Option PId      -- `inspect.getattr_static(C, n)` when it is a Parameter
  pdefault : Option Int    -- `C.param[n].default`
  attr : Option Int        -- `getattr(C, n)` when `static` is a Parameter
  value : Option Int       -- `C.param.values().get(n)`
  ser : Option Int         -- `json.loads(C.param.serialize_parameters()).get(n)`
  attrpid : Option PId     -- `C.param.<n>` (attribute-style access, `Parameters.__getattr__`), identity
  deriving Repr, DecidableEq

structure ClsObs where
  c : CId
  order : List Name        -- `list(C.param)` (without `name`)
  rows : List ClsRow       -- one per name of the case's universe
  deriving Repr, DecidableEq

/-- what the public API shows for one (instance, name) -/
structure InstRow where
  listed : Bool            -- `n in obj.param`
  pid : Option PId         -- `obj.param.objects('existing').get(n)`
  gov : Option PId         -- per-instance copy if any, else `getattr_static(type(obj), n)`
  attr : Option Int        -- `getattr(obj, n)` when governed by a Parameter
  value : Option Int       -- `obj.param.values().get(n)`
  ser : Option Int         -- serialisation
  deriving Repr, DecidableEq

structure InstObs where
  i : IId
  rows : List InstRow
  deriving Repr, DecidableEq

structure StepObs where
  res : String
  cls : List ClsObs
  insts : List InstObs
  deriving Repr, DecidableEq

def clsRowOk (n : Name) (r : ClsRow) : Option String :=
  if r.listed != r.static.isSome then
    some s!"'{n}': listed in .param = {r.listed} but Parameter attribute reachable = {r.static.isSome}"
  else if r.pid != r.static then
    some s!"'{n}': .param[name] is Parameter #{r.pid} but attribute lookup finds #{r.static}"
  else if r.attrpid != r.static then
    some s!"'{n}': .param.<name> is Parameter #{r.attrpid} but attribute lookup finds #{r.static}"
  else if r.pdefault != r.attr then
    some s!"'{n}': .param[name].default = {r.pdefault} but the class attribute is {r.attr}"
  else if r.value != r.attr then
    some s!"'{n}': .param.values() gives {r.value} but getattr gives {r.attr}"
  else if r.ser != r.attr then
    some s!"'{n}': serialisation gives {r.ser} but getattr gives {r.attr}"
  else none

def instRowOk (n : Name) (r : InstRow) : Option String :=
  if r.listed != r.gov.isSome then
    some s!"'{n}': listed in .param = {r.listed} but governed by a Parameter = {r.gov.isSome}"
  else if r.pid != r.gov then
    some s!"'{n}': .param sees Parameter #{r.pid} but attribute access is governed by #{r.gov}"
  else if r.value != r.attr then
    some s!"'{n}': .param.values() gives {r.value} but getattr gives {r.attr}"
  else if r.ser != r.attr then
    some s!"'{n}': serialisation gives {r.ser} but getattr gives {r.attr}"
  else none

def firstSome {α : Type} (f : α → Option String) : List α → Option String
  | [] => none
  | a :: l => match f a with | some w => some w | none => firstSome f l

def clsObsOk (names : List Name) (o : ClsObs) : Option String :=
  if o.rows.length != names.length then some s!"class {o.c}: malformed observation" else
  match firstSome (fun (nr : Name × ClsRow) => clsRowOk nr.1 nr.2) (names.zip o.rows) with
  | some w => some s!"class {o.c} {w}"
  | none =>
    -- iteration lists exactly the reachable Parameter attributes, once each
    let reach := (names.zip o.rows).filter (fun nr => nr.2.static.isSome) |>.map (·.1)
    if !decide o.order.Nodup then some s!"class {o.c}: list(.param) repeats a name"
    else if !(reach.all (o.order.contains ·)) then some s!"class {o.c}: list(.param) misses a reachable Parameter"
    else if !((o.order.filter (names.contains ·)).all (reach.contains ·)) then
      some s!"class {o.c}: list(.param) lists a name that is not a reachable Parameter"
    else none

def instObsOk (names : List Name) (o : InstObs) : Option String :=
  if o.rows.length != names.length then some s!"instance {o.i}: malformed observation" else
  match firstSome (fun (nr : Name × InstRow) => instRowOk nr.1 nr.2) (names.zip o.rows) with
  | some w => some s!"instance {o.i} {w}"
  | none => none

def stepObsOk (names : List Name) (o : StepObs) : Option String :=
  match firstSome (clsObsOk names) o.cls with
  | some w => some w
  | none => firstSome (instObsOk names) o.insts

/-- `add_parameter(n, P)` / `C.n = P` that returned normally installed `P`: the class reads `P`'s
default under `n` (checked when the class is observed after the step) -/
def installedOk (names : List Name) (op : Op) (o : StepObs) : Option String :=
  let chk (c : CId) (n : Name) (d : Int) : Option String :=
    if o.res != "ok" then none else
    match o.cls.find? (·.c == c), names.findIdx? (· == n) with
    | some co, some k =>
      (match co.rows[k]? with
       | some r =>
         if r.static.isNone then some s!"class {c} '{n}': the Parameter just added is not reachable as an attribute"
         else if r.attr != some d then some s!"class {c} '{n}': the Parameter just added has default {d} but the class attribute is {r.attr}"
         else none
       | none => none)
    | _, _ => none
  match op with
  | .addParam c n d _ => chk c n d
  | .clsSetParam c n d _ => chk c n d
  | _ => none

/-- walk a history of observations; returns (steps checked, first disagreement) -/
def specHistory (names : List Name) : List (Op × StepObs) → Nat → Nat × Option String
  | [], k => (k, none)
  | (op, o) :: rest, k =>
    match stepObsOk names o with
    | some w => (k + 1, some s!"after step {k}: {w}")
    | none =>
      match installedOk names op o with
      | some w => (k + 1, some s!"after step {k}: {w}")
      | none => specHistory names rest (k + 1)

/-! ### The same observations computed from a model state -/

/-- `dyn`: the Parameters of the history are of a `Dynamic` type (Integer) -/
def clsRowOf (dyn : Bool) (s : St) (c : CId) (n : Name) : ClsRow :=
  let p := aget (nsView s c) n
  let v := if dyn then clsValuesDyn s c n else clsValues s c n
  { listed := p.isSome, pid := p, static := staticAttr s c n, pdefault := nsDefault s c n,
    attr := clsAttr s c n, value := v, ser := v, attrpid := p }

def clsObsOf (dyn : Bool) (s : St) (names : List Name) (c : CId) : ClsObs :=
  { c := c, order := akeys (nsView s c), rows := names.map (clsRowOf dyn s c) }

def instRowOf (dyn : Bool) (s : St) (i : IId) (n : Name) : InstRow :=
  let p := instExisting s i n
  let v := if dyn then instValuesDyn s i n else instValues s i n
  { listed := match s.insts[i]? with | some x => (aget (nsView s x.cls) n).isSome | none => false,
    pid := p, gov := instGoverning s i n, attr := instAttr s i n, value := v, ser := v }

def instObsOf (dyn : Bool) (s : St) (names : List Name) (i : IId) : InstObs :=
  { i := i, rows := names.map (instRowOf dyn s i) }

end ParamVerif.Store.Namespace
