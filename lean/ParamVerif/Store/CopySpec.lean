/-
C17 specification side, executable: what the property demands of a copy, as decidable checks on
*observations* (of the implementation or of the model): canonical snapshots of everything reachable
from the original and from the copy, the invocation log of every later operation, and the same
operations replayed on a twin of the original.  Used by the driver as the oracle.

A snapshot names objects by the order of a depth-first walk from its root and containers by first
appearance, so two snapshots are equal iff the graphs are isomorphic (values, per-instance
Parameter attributes, ordinary attributes, watcher tables) — "equal up to the id bijection".
-/
import ParamVerif.Store.Copy

namespace ParamVerif.Copy

inductive SVal
  | none
  | int (n : Int)
  | cell (c : Nat) (l : List Int)
  | obj (label : Nat)
  deriving DecidableEq, Repr

structure SWatcher where
  inst : Nat
  kind : String                      -- "mcaller" | "bound"
  owner : Nat
  method : String
  changed : Option (List (String × Option (List String)))      -- sub-paths dotted: "leaf.x"
  precedence : Int
  /-- `(label of the object, attribute)` of the parent-notification callback -/
  callback : Option (Nat × Option String) := Option.none
  deriving DecidableEq, Repr

structure SDyn where
  inst : Nat
  owner : Nat
  method : String
  changed : Option (List (String × Option (List String)))
  /-- an equal watcher is still registered on `inst` (what `unwatch` will look for) -/
  found : Bool
  deriving DecidableEq, Repr

structure SObj where
  cls : String
  /-- per parameter: (stored on the instance?, `getattr` value) -/
  values : List (String × Bool × SVal)
  /-- per-instance Parameter copies: bounds, constant, the watchers of the attribute `bounds` -/
  pcopies : List (String × Option (Int × Int) × Bool × List SWatcher)
  /-- per Selector parameter: (has its own Parameter copy?, the objects it lists, the values of its names) —
  those of the instance's copy if there is one, else those of the class Parameter -/
  sel : List (String × Bool × List Int × List Int)
  attrs : List (String × SVal)
  watchers : List (String × List SWatcher)
  dyn : List (String × List SDyn)
  deriving DecidableEq, Repr

abbrev Snap := List SObj

structure LogEntry where
  side : String          -- "orig" | "copy" | "both" | "none"
  label : Nat
  method : String
  deriving DecidableEq, Repr

structure PostObs where
  side : String          -- the side the operation was applied to
  log : List LogEntry
  orig : Snap
  copy : Snap
  /-- the same operation on the twin of the original (copy-side operations only): log labels and snapshot -/
  twin : Option (List (Nat × String) × Snap)
  deriving DecidableEq, Repr

structure Obs where
  copyErr : Option String
  origAt : Snap
  copyAt : Option Snap
  /-- number of objects / containers reachable from both the original and the copy -/
  shared : Nat
  post : List PostObs
  /-- when the copy was taken inside a batch open on an original object: what the original delivered on leaving the
  batch, and what an object whose batch nobody copied delivers (labels in the visit order from the root) -/
  batchExit : Option (List (Nat × String) × List (Nat × String)) := Option.none
  deriving DecidableEq, Repr

/-! ### rendering a model world -/

def childrenOf (w : World) (o : Nat) : List Nat :=
  match w.objs[o]? with
  | Option.none => []
  | some ob =>
    match w.cls? ob with
    | Option.none => []
    | some c =>
      let ofVal : Option Val → List Nat := fun v => match v with | some (.obj x) => [x] | _ => []
      let ofW : Watcher → List Nat := fun wt =>
        [wt.inst, wt.fn.owner] ++ (match wt.fn.callback with | some cb => [cb.1] | Option.none => [])
      c.params.flatMap (fun d => ofVal (w.getVal o d.name)) ++
      c.params.flatMap (fun d => ((lookup ob.watchers d.name).getD []).flatMap ofW) ++
      c.params.flatMap (fun d => (((lookup ob.pcopies d.name).map (·.swatchers)).getD []).flatMap ofW) ++
      c.methods.flatMap (fun m => ((lookup ob.dyn m.name).getD []).flatMap ofW)

/-- depth-first preorder from `root` -/
def visitOrder (w : World) (root : Nat) : List Nat :=
  let rec go : Nat → List Nat → List Nat → List Nat
    | 0, _, seen => seen
    | _ + 1, [], seen => seen
    | fuel + 1, x :: stack, seen =>
      if x ∈ seen then go fuel stack seen
      else go fuel (childrenOf w x ++ stack) (seen ++ [x])
  go (w.objs.length + (w.objs.foldl (fun n ob => n + 2 * ob.refs.length + 4) 0) + 1) [root] []

def labelOf (order : List Nat) (o : Nat) : Nat := (order.findIdx? (· = o)).getD order.length

def insertStr {α : Type} (e : String × α) : List (String × α) → List (String × α)
  | [] => [e]
  | f :: r => if e.1 ≤ f.1 then e :: f :: r else f :: insertStr e r
def sortStr {α : Type} (l : List (String × α)) : List (String × α) := l.foldr insertStr []

/-- containers in order of first appearance -/
def cellOrder (w : World) (order : List Nat) : List Nat :=
  let cellsOf (o : Nat) : List Nat :=
    match w.objs[o]? with
    | Option.none => []
    | some ob =>
      let ofVal : Option Val → List Nat := fun v => match v with | some (.cell c) => [c] | _ => []
      (match w.cls? ob with
       | some c => c.params.flatMap (fun d => ofVal (w.getVal o d.name))
       | Option.none => []) ++ (sortStr ob.attrs).flatMap (fun kv => ofVal (some kv.2))
  (order.flatMap cellsOf).foldl (fun acc c => if c ∈ acc then acc else acc ++ [c]) []

def renderVal (w : World) (order corder : List Nat) : Val → SVal
  | .none => .none
  | .int n => .int n
  | .cell c => .cell (labelOf corder c) (deref w.cells c)
  | .obj o => .obj (labelOf order o)

def renderChanged (ch : Option (List (String × Option (List (List String))))) : Option (List (String × Option (List String))) :=
  ch.map fun d => d.map fun (n, sp) => (n, sp.map fun paths => paths.map fun path => ".".intercalate path)

def renderW (order : List Nat) (wt : Watcher) : SWatcher :=
  { inst := labelOf order wt.inst, kind := match wt.fn.kind with | .mcaller => "mcaller" | .bound => "bound" | .partialFn => "partial",
    owner := labelOf order wt.fn.owner, method := wt.fn.method, changed := renderChanged wt.fn.changed,
    precedence := wt.precedence, callback := wt.fn.callback.map fun cb => (labelOf order cb.1, cb.2) }

def kindName : CKind → String
  | .mcaller => "mcaller" | .bound => "bound" | .partialFn => "partial"

def renderObj (w : World) (order corder : List Nat) (o : Nat) : SObj :=
  match w.objs[o]? with
  | Option.none => { cls := "?", values := [], pcopies := [], sel := [], attrs := [], watchers := [], dyn := [] }
  | some ob =>
    match w.cls? ob with
    | Option.none => { cls := "?", values := [], pcopies := [], sel := [], attrs := [], watchers := [], dyn := [] }
    | some c =>
      { cls := c.name,
        values := c.params.filterMap (fun d => (w.getVal o d.name).map fun v =>
          (d.name, (lookup ob.values d.name).isSome, renderVal w order corder v)),
        pcopies := c.params.filterMap (fun d => (lookup ob.pcopies d.name).map fun pc =>
          (d.name, pc.bounds, pc.constant, pc.swatchers.map (renderW order))),
        sel := c.params.filterMap (fun d =>
          if d.sel = .notSel then Option.none else
          match (lookup ob.pcopies d.name).bind (·.slots), w.clsSlot ob.cls d.name with
          | some (co, cn), _ => some (d.name, true, deref w.cells co, deref w.cells cn)
          | Option.none, some (co, cn) => some (d.name, false, deref w.cells co, deref w.cells cn)
          | Option.none, Option.none => Option.none),
        attrs := (sortStr ob.attrs).map (fun kv => (kv.1, renderVal w order corder kv.2)),
        watchers := c.params.filterMap (fun d =>
          match lookup ob.watchers d.name with
          | some (wt :: ws) => some (d.name, (wt :: ws).map (renderW order))
          | _ => Option.none),
        dyn := c.methods.filterMap (fun m =>
          match lookup ob.dyn m.name with
          | some (wt :: ws) => some (m.name, (wt :: ws).map fun wt =>
              { inst := labelOf order wt.inst, owner := labelOf order wt.fn.owner, method := wt.fn.method,
                changed := renderChanged wt.fn.changed,
                found := wt.names.all fun n =>
                  (((w.objs[wt.inst]?).bind (fun io => lookup io.watchers n)).getD []).contains wt })
          | _ => Option.none) }

def snapshot (w : World) (root : Nat) : Snap :=
  let order := visitOrder w root
  let corder := cellOrder w order
  order.map (renderObj w order corder)

/-- ids reachable from both roots: objects, and containers referenced by them -/
def sharedCount (w : World) (r1 r2 : Nat) : Nat :=
  let o1 := visitOrder w r1
  let o2 := visitOrder w r2
  (o1.filter (· ∈ o2)).length + ((cellOrder w o1).filter (· ∈ cellOrder w o2)).length

def logEntry (w : World) (rOrig rCopy : Nat) (e : Nat × String) : LogEntry :=
  let o1 := visitOrder w rOrig
  let o2 := visitOrder w rCopy
  match o1.contains e.1, o2.contains e.1 with
  | true, false => ⟨"orig", labelOf o1 e.1, e.2⟩
  | false, true => ⟨"copy", labelOf o2 e.1, e.2⟩
  | true, true => ⟨"both", labelOf o1 e.1, e.2⟩
  | false, false => ⟨"none", 0, e.2⟩

/-! ### well-formedness of a model world (checked by the driver on every world it copies) -/

def valOKB (no nc : Nat) : Val → Bool
  | .obj o => decide (o < no)
  | .cell c => decide (c < nc)
  | _ => true

def watcherOKB (no : Nat) (wt : Watcher) : Bool :=
  decide (wt.inst < no) && decide (wt.fn.owner < no) &&
  (match wt.fn.callback with | some cb => decide (cb.1 < no) | Option.none => true)

def objOKB (no nc : Nat) (ob : Obj) : Bool :=
  ob.values.all (fun kv => valOKB no nc kv.2) && ob.attrs.all (fun kv => valOKB no nc kv.2) &&
  ob.watchers.all (fun kv => kv.2.all (watcherOKB no)) && ob.dyn.all (fun kv => kv.2.all (watcherOKB no)) &&
  ob.pcopies.all (fun kv => (match kv.2.slots with
    | some s => decide (s.1 < nc) && decide (s.2 < nc)
    | Option.none => true) && kv.2.swatchers.all (watcherOKB no))

/-- every reference of every object points into the world -/
def wfB (w : World) : Bool := w.objs.all (objOKB w.objs.length w.cells.length)

/-- every watcher registered on object `i` has `inst = i` -/
def ownWatchersB (w : World) : Bool :=
  (List.range w.objs.length).all fun i =>
    match w.objs[i]? with
    | some ob => ob.watchers.all fun kv => kv.2.all fun wt => wt.inst == i
    | Option.none => true

/-- no list of registered watchers holds two equal watchers: then "the same watcher object" (what the batched
dispatch asks) and "an equal watcher" coincide -/
def noDupB (w : World) : Bool :=
  w.objs.all fun ob => ob.watchers.all fun kv => decide kv.2.Nodup

/-! ### the oracle -/

/-- the conclusions of C17 on one observation:
  copy_succeeds, copy_isomorphic, copy_disjoint, and per later operation: dependencies act on the side
  operated on only, the other side does not change, and the copy behaves as the original would have -/
def specOK (o : Obs) : Nat × Option String :=
  match o.copyErr, o.copyAt with
  | some e, _ => (1, some s!"copy failed: {e}")
  | Option.none, Option.none => (1, some "copy not observed")
  | Option.none, some c =>
    if c != o.origAt then (1, some "copy is not isomorphic to the original (values / Parameter attributes / attributes / watcher tables)")
    else if o.shared != 0 then (1, some s!"original and copy share {o.shared} mutable object(s)")
    else if (match o.batchExit with | some (got, twin) => got != twin | Option.none => false) then
      (1, some "taking the copy inside the original's open batch changed what the original delivers on leaving the batch")
    else
      let rec go : List PostObs → Snap → Snap → Nat → Nat × Option String
        | [], _, _, n => (n, Option.none)
        | p :: rest, po, pc, n =>
          let other := if p.side = "orig" then "copy" else "orig"
          if p.log.any (fun e => e.side != p.side && !(p.side = "orig" && e.side = "none")) then
            (n + 1, some s!"post step {n}: an operation on the {p.side} invoked a method of an object of the {other} side (or of neither)")
          else if p.side = "orig" && p.copy != pc then (n + 1, some s!"post step {n}: an operation on the original changed the copy")
          else if p.side = "copy" && p.orig != po then (n + 1, some s!"post step {n}: an operation on the copy changed the original")
          else match p.twin with
            | some (tl, ts) =>
              if p.log.map (fun e => (e.label, e.method)) != tl then
                (n + 1, some s!"post step {n}: the copy invoked other methods than the original would have")
              else if p.copy != ts then (n + 1, some s!"post step {n}: the copy reached another state than the original would have")
              else go rest p.orig p.copy (n + 1)
            | Option.none => go rest p.orig p.copy (n + 1)
      go o.post o.origAt c 2

end ParamVerif.Copy
