/-
C17 — object-graph model of Parameterized instances for `copy.deepcopy` / pickle.

Modelled code (param/parameterized.py, as written):
  `Parameterized.__getstate__/__setstate__` (the watcher re-binding loop), `_m_caller`,
  `Parameterized.__init__` / `Parameters._update_deps` / `_watch_group` / `_resolve_dynamic_deps` for
  one-level dependencies (`depends('p', 'q', 'a.x', 'b.y', watch=True)`: one watcher per object that is
  depended on, the `changed=` filter a dict {parameter name -> sub-paths} built from every dependency of
  the group; assigning the root attribute of any dynamic dependency rebuilds ALL dynamic watchers of the method),
  `Parameter.__set__` (store, per-instance Parameter copy, `_update_deps`, dispatch with
  `onlychanged` and `_skip_event`), `Parameters.unwatch`, `_instantiated_parameter`.

Trusted, not modelled: the graph traversal of `copy.deepcopy` and `pickle` (memo, `__reduce_ex__`,
`functools.partial.__reduce__`, `copy._deepcopy_method`).  It is modelled as what it is documented to
produce: an isomorphic copy of everything reachable from the root.  The model renames *every* id of
the heap by an offset (`o ↦ N + o`); the images of objects that are not reachable from the root are
referenced by nothing and correspond to nothing in CPython — reachability matters only for deciding
on which objects `__setstate__` runs (and may fail).

Objects, list cells and `functools.partial` callers carry `Nat` ids; a watcher is found by
`list.remove` iff an *equal* one is in the list, and two `_m_caller` partials are equal only if they
are the same object — hence the `pid` of a method caller.

No Mathlib, no imports: loaded by the driver.
-/
namespace ParamVerif.Copy

inductive Val
  | none
  | int (n : Int)
  | cell (c : Nat)        -- a list object
  | obj (o : Nat)         -- a Parameterized instance
  deriving DecidableEq, Repr

/-- class-level default as written in the class body -/
inductive DVal
  | none
  | int (n : Int)
  | list (l : List Int)
  deriving DecidableEq, Repr

/-- `choice`: `Selector()` assigned by value; `named`: `Selector(objects={}, check_on_set=False)` extended
through `obj.param.p.objects[key] = value`; both without `check_on_set` and declared *empty* -/
inductive SelKind | notSel | choice | named
  deriving DecidableEq, Repr

structure ParamDef where
  name : String
  default : DVal
  instantiate : Bool
  bounds : Option (Int × Int)
  sel : SelKind := .notSel
  deriving DecidableEq, Repr

/-- what a `depends(.., watch=True)` method depends on: an own parameter `p`, or a path through sub-objects
(`'a.x'` = `["a", "x"]`, `'mid.leaf.x'` = `["mid", "leaf", "x"]`) -/
inductive Dep
  | own (p : String)
  | path (ps : List String)
  deriving DecidableEq, Repr

structure MethodDef where
  name : String
  deps : List Dep
  deriving DecidableEq, Repr

structure ClassDef where
  name : String
  params : List ParamDef
  /-- `param.depends(watch=True)` methods in `_depends['watch']` order -/
  methods : List MethodDef
  /-- undecorated methods (usable as explicit `param.watch` callbacks) -/
  plain : List String
  deriving DecidableEq, Repr

def ClassDef.hasAttr (c : ClassDef) (m : String) : Bool :=
  c.methods.any (·.name = m) || c.plain.contains m

inductive CKind
  | mcaller      -- `_m_caller` partial: carries `_watcher_name`
  | bound        -- a bound method passed to `param.watch`
  | partialFn    -- `functools.partial(obj.method, tag)` passed to `param.watch`
  deriving DecidableEq, Repr

/-- the callable of a watcher: `(owner object, method name, what='value', changed, callback kind)` -/
structure Caller where
  kind : CKind
  owner : Nat
  method : String
  /-- `changed=`: `None`, or a dict {name of the watched parameter -> sub-paths to compare | None} -/
  changed : Option (List (String × Option (List (List String))))
  /-- identity of the `functools.partial` object (0 for bound methods, which compare structurally) -/
  pid : Nat
  /-- `callback=`: `partial(_update_deps_of, obj, attribute)` — a watcher on an intermediate object of a path
  tells the object owning the method to rebuild its dynamic watchers -/
  callback : Option (Nat × Option String) := Option.none
  deriving DecidableEq, Repr

structure Watcher where
  inst : Nat
  fn : Caller
  names : List String
  precedence : Int
  /-- identity of the Watcher object of an explicit `param.watch(bound method)` registration: two registrations
  with identical arguments are two objects (the batched dispatch recognises a watcher by identity); 0 for the
  watchers whose caller is a `functools.partial`, which its `pid` identifies already -/
  wid : Nat := 0
  deriving DecidableEq, Repr

/-- a per-instance Parameter copy (the attributes that can be edited here) -/
structure PCopy where
  bounds : Option (Int × Int)
  constant : Bool
  /-- Selector: the copy's own `_objects` list and `names` dict (cells; a dict `{'k<v>': v}` is its values) -/
  slots : Option (Nat × Nat) := Option.none
  /-- watchers of the Parameter attribute `bounds` (`param.watch(.., what='bounds')`): they live in the
  `watchers` slot of the per-instance Parameter object -/
  swatchers : List Watcher := []
  deriving DecidableEq, Repr

structure Obj where
  cls : Nat
  values : List (String × Val)                -- `_param__private.values`
  pcopies : List (String × PCopy)             -- `_param__private.params`
  attrs : List (String × Val)                 -- ordinary attributes (`__dict__`)
  watchers : List (String × List Watcher)     -- `_param__private.watchers[p]['value']`
  dyn : List (String × List Watcher)          -- `_param__private.dynamic_watchers`
  deriving DecidableEq, Repr

structure World where
  classes : List ClassDef
  objs : List Obj
  cells : List (List Int)
  nextPid : Nat
  /-- method invocations `(self, method name)`, oldest first -/
  log : List (Nat × String)
  /-- the `_objects` / `names` containers of the *class* Selector Parameters: (class, parameter, cell, cell).
  They belong to the classes, which copy and pickle take by reference. -/
  clsSlots : List (Nat × String × Nat × Nat) := []
  deriving DecidableEq, Repr

inductive Err
  | attributeError
  | unsupported
  deriving DecidableEq, Repr

/-- `Parameterized.__setstate__`, the line that re-creates a method caller:
  * `always`  — the pinned source: `watcher_args[2] = _m_caller(self, fn._watcher_name)` for every caller;
  * `own`     — only when the copied caller's method belongs to the object being restored;
  * `unbound` — only when the copied caller carries no bound method (never, for callers made by `_m_caller`):
                the current source (repair 04a1761). -/
inductive Policy | always | own | unbound
  deriving DecidableEq, Repr

/-! ### association lists -/

def lookup {α : Type} (l : List (String × α)) (k : String) : Option α :=
  match l with
  | [] => none
  | (k', v) :: r => if k' = k then some v else lookup r k

def insert {α : Type} (l : List (String × α)) (k : String) (v : α) : List (String × α) :=
  match l with
  | [] => [(k, v)]
  | (k', v') :: r => if k' = k then (k', v) :: r else (k', v') :: insert r k v

def erase {α : Type} (l : List (String × α)) (k : String) : List (String × α) :=
  l.filter (·.1 ≠ k)

/-! ### reading -/

def World.cls? (w : World) (o : Obj) : Option ClassDef := w.classes[o.cls]?

def DVal.toVal : DVal → Option Val
  | .none => some .none
  | .int n => some (.int n)
  | .list _ => Option.none          -- list defaults are `instantiate=True` here: always stored

/-- `getattr(obj, p)` -- src: Parameter.__get__ -/
def World.getVal (w : World) (o : Nat) (p : String) : Option Val :=
  match w.objs[o]? with
  | Option.none => Option.none
  | some ob =>
    match lookup ob.values p with
    | some v => some v
    | Option.none =>
      match w.cls? ob with
      | Option.none => Option.none
      | some c => (c.params.find? (·.name = p)).bind (·.default.toVal)

def deref (cells : List (List Int)) (c : Nat) : List Int := (cells[c]?).getD []

/-- `Comparator.is_equal` on the values that occur here: numbers and None by `==`, lists elementwise,
Parameterized objects never -/
def valEq (cells : List (List Int)) : Val → Val → Bool
  | .none, .none => true
  | .int a, .int b => a == b
  | .cell a, .cell b => deref cells a == deref cells b
  | _, _ => false

/-! ### updating objects -/

def World.setObj (w : World) (o : Nat) (f : Obj → Obj) : World :=
  match w.objs[o]? with
  | some ob => { w with objs := w.objs.set o (f ob) }
  | Option.none => w

def World.clsSlot (w : World) (cls : Nat) (p : String) : Option (Nat × Nat) :=
  (w.clsSlots.find? (fun e => e.1 = cls ∧ e.2.1 = p)).map (·.2.2)

/-- `_instantiated_parameter`: create the per-instance Parameter copy of `p` if it does not exist;
`_instantiate_param_obj` gives it copies of the mutable slots (`_objects`, `names`) of the class Parameter -/
def World.touchParam (w : World) (o : Nat) (p : String) : World :=
  match w.objs[o]? with
  | Option.none => w
  | some ob =>
    match lookup ob.pcopies p with
    | some _ => w
    | Option.none =>
      match (w.cls? ob).bind (·.params.find? (·.name = p)) with
      | Option.none => w
      | some d =>
        match (if d.sel = .notSel then Option.none else w.clsSlot ob.cls p) with
        | Option.none =>
          w.setObj o fun ob => { ob with pcopies := insert ob.pcopies p ⟨d.bounds, false, Option.none, []⟩ }
        | some (co, cn) =>
          ({ w with cells := w.cells ++ [deref w.cells co, deref w.cells cn] }).setObj o fun ob =>
            { ob with pcopies := insert ob.pcopies p ⟨d.bounds, false, some (w.cells.length, w.cells.length + 1), []⟩ }

/-- `obj.param._watch(..)`: append to `watchers[name]['value']` for every name -/
def World.addWatcher (w : World) (wt : Watcher) : World :=
  wt.names.foldl (fun w n => w.setObj wt.inst fun ob =>
    { ob with watchers := insert ob.watchers n ((lookup ob.watchers n).getD [] ++ [wt]) }) w

def removeFirst (l : List Watcher) (wt : Watcher) : Option (List Watcher) :=
  match l with
  | [] => Option.none
  | x :: r => if x = wt then some r else (removeFirst r wt).map (x :: ·)

/-- `param.unwatch(w)`: `list.remove` per name; the first failure is swallowed (a warning) and ends it -/
def World.unwatch (w : World) (wt : Watcher) : World :=
  let rec go (w : World) : List String → World
    | [] => w
    | n :: ns =>
      match (w.objs[wt.inst]?).bind (fun ob => lookup ob.watchers n) with
      | Option.none => w
      | some l =>
        match removeFirst l wt with
        | Option.none => w
        | some l' => go (w.setObj wt.inst fun ob => { ob with watchers := insert ob.watchers n l' }) ns
  go w wt.names

def mkCaller (w : World) (owner : Nat) (m : String) (changed : Option (List (String × Option (List (List String)))))
    (callback : Option (Nat × Option String) := Option.none) : Caller × World :=
  ({ kind := .mcaller, owner := owner, method := m, changed := changed, pid := w.nextPid, callback := callback },
   { w with nextPid := w.nextPid + 1 })

def dedupS : List String → List String
  | [] => []
  | x :: xs => x :: (dedupS xs).filter (· ≠ x)

def dedupP : List (List String) → List (List String)
  | [] => []
  | x :: xs => x :: (dedupP xs).filter (· ≠ x)

def dedupN : List Nat → List Nat
  | [] => []
  | x :: xs => x :: (dedupN xs).filter (· ≠ x)

/-- one resolved dependency (`PInfo`): parameter `name` of object `inst`; `sub`: the rest of the path, compared
when `name` is re-assigned (`None` for the last parameter of the path); `cb`: the watcher needs the
parent-notification callback (`inst` is an intermediate object of the path) -/
structure Contribution where
  inst : Nat
  name : String
  sub : Option (List String)
  cb : Bool
  deriving DecidableEq, Repr

/-- the dependencies a path resolves to (`_spec_to_obj` with `intermediate=True`): nothing when the first
attribute holds no object; every object on the way contributes the attribute the path continues through -/
def World.pathContribs (w : World) : Nat → Nat → List String → List Contribution
  | _, _, [] => []
  | _, cur, [x] => [⟨cur, x, Option.none, false⟩]
  | 0, cur, a :: b :: rest =>
    match w.getVal cur a with
    | some (.obj s) => ⟨cur, a, some (b :: rest), false⟩ :: World.pathContribs w 1 s (b :: rest)
    | _ => []
  | d + 1, cur, a :: b :: rest =>
    ⟨cur, a, some (b :: rest), true⟩ ::
      (match w.getVal cur a with
       | some (.obj s) => World.pathContribs w (d + 2) s (b :: rest)
       | _ => [])

/-- `_resolve_mcs_deps(obj, [], [ddep])` for every dynamic dependency, in order -/
def World.dynContribs (w : World) (o : Nat) : List Dep → List Contribution
  | [] => []
  | .own _ :: rest => World.dynContribs w o rest
  | .path ps :: rest => w.pathContribs 0 o ps ++ World.dynContribs w o rest

def ownDeps : List Dep → List String
  | [] => []
  | .own p :: rest => p :: ownDeps rest
  | .path _ :: rest => ownDeps rest

/-- the objects depended on, in order of first appearance (the keys of `grouped`) -/
def groupObjs (cs : List Contribution) : List Nat := dedupN (cs.map (·.inst))

/-- `params` of `_watch_group` -/
def groupNames (cs : List Contribution) (g : Nat) : List String :=
  dedupS ((cs.filter (·.inst = g)).map (·.name))

/-- `subparams` of `_watch_group`: per parameter name the sub-paths of every dependency of the group, `None`
as soon as one of them has none -/
def groupChanged (cs : List Contribution) (g : Nat) : List (String × Option (List (List String))) :=
  (groupNames cs g).map fun n =>
    let subs := (cs.filter (fun c => c.inst = g ∧ c.name = n)).map (·.sub)
    (n, if subs.any (·.isNone) then Option.none else some (dedupP (subs.filterMap id)))

/-- `callback = callback or cb` over the dependencies of the group -/
def groupCallback (cs : List Contribution) (g : Nat) : Bool := cs.any fun c => c.inst = g && c.cb

/-- `inst.param[dep.name]` for every resolved dependency: the per-instance Parameter copies come into being -/
def World.touchAll (w : World) : List (Nat × String) → World
  | [] => w
  | (o, p) :: rest => World.touchAll (w.touchParam o p) rest

/-- one `_watch_group` per object depended on; `attr`: the `attribute` the rebuild was started for -/
def World.installGroups (w : World) (o : Nat) (m : String) (attr : Option String) (cs : List Contribution) :
    List Nat → World × List Watcher
  | [] => (w, [])
  | g :: gs =>
    let (c, w1) := mkCaller w o m (some (groupChanged cs g)) (if groupCallback cs g then some (o, attr) else Option.none)
    let wt : Watcher := { inst := g, fn := c, names := groupNames cs g, precedence := -1 }
    let (w2, rest) := World.installGroups (w1.addWatcher wt) o m attr cs gs
    (w2, wt :: rest)

/-- the dynamic watchers of one `depends` method of `o`; returned for `dynamic_watchers`
    -- src: Parameters._update_deps, _watch_group, _resolve_dynamic_deps, _resolve_mcs_deps -/
def World.installDyn (w : World) (o : Nat) (attr : Option String) (md : MethodDef) : World × List Watcher :=
  let cs := w.dynContribs o md.deps
  World.installGroups (w.touchAll (cs.map fun c => (c.inst, c.name))) o md.name attr cs (groupObjs cs)

/-- the watcher for the own-parameter dependencies of a method (`init=True` only) -/
def World.installConst (w : World) (o : Nat) (md : MethodDef) : World :=
  let ps := dedupS (ownDeps md.deps)
  if ps.isEmpty then w
  else
    let w := w.touchAll (ps.map fun p => (o, p))
    let (c, w) := mkCaller w o md.name Option.none
    w.addWatcher { inst := o, fn := c, names := ps, precedence := -1 }

/-- `_update_deps(init=True)` -/
def World.initDeps (w : World) (o : Nat) : List MethodDef → World
  | [] => w
  | md :: rest =>
    let (w, dynw) := (w.installConst o md).installDyn o Option.none md
    let w := if dynw.isEmpty then w else w.setObj o fun ob => { ob with dyn := insert ob.dyn md.name dynw }
    World.initDeps w o rest

/-- has the method a dynamic dependency that `_update_deps(attribute)` selects: every one for `None`, those
whose path starts at `attribute` otherwise -/
def rootedAt (attr : Option String) : List Dep → Bool
  | [] => false
  | .path ps :: rest => (match attr with | Option.none => true | some a => ps.head? == some a) || rootedAt attr rest
  | .own _ :: rest => rootedAt attr rest

/-- `_update_deps(attribute)`: a method with a selected dynamic dependency loses all its dynamic watchers and
gets ALL of them rebuilt -/
def World.updateDeps (w : World) (o : Nat) (attr : Option String) : List MethodDef → World
  | [] => w
  | md :: rest =>
    if rootedAt attr md.deps then
      let old := ((w.objs[o]?).bind (fun ob => lookup ob.dyn md.name)).getD []
      let w := w.setObj o fun ob => { ob with dyn := erase ob.dyn md.name }
      let w := old.foldl (fun w wt => w.unwatch wt) w
      let (w, dynw) := w.installDyn o attr md
      let w := if dynw.isEmpty then w else w.setObj o fun ob => { ob with dyn := insert ob.dyn md.name dynw }
      World.updateDeps w o attr rest
    else World.updateDeps w o attr rest

/-- the callback of a method caller: `_update_deps_of(obj, attribute)` = `obj.param._update_deps(attribute)` -/
def World.runCallback (w : World) (cb : Option (Nat × Option String)) : World :=
  match cb with
  | Option.none => w
  | some (obj, attr) =>
    match (w.objs[obj]?).bind (fun ob => w.cls? ob) with
    | some c => w.updateDeps obj attr c.methods
    | Option.none => w

/-! ### dispatch -/

def insertByPrec (wt : Watcher) : List Watcher → List Watcher
  | [] => [wt]
  | x :: r => if wt.precedence ≤ x.precedence then wt :: x :: r else x :: insertByPrec wt r

/-- `sorted(watchers, key=precedence)` (stable) -/
def sortByPrec (l : List Watcher) : List Watcher := l.foldr insertByPrec []

/-- `_getattrr(obj, 'b.x', None)`: follow the path, `None` when an object on the way is missing -/
def World.pathGet (w : World) : Val → List String → Val
  | v, [] => v
  | .obj o, p :: rest =>
    match w.getVal o p with
    | some v => World.pathGet w v rest
    | Option.none => .none
  | _, _ => .none

/-- `_skip_event` for one sub-path: are `old.<path>` and `new.<path>` equal (a missing object is `Undefined`,
equal to nothing) -/
def subEq (w : World) (old new : Val) (path : List String) : Bool :=
  match old, new with
  | .obj _, .obj _ => valEq w.cells (w.pathGet old path) (w.pathGet new path)
  | _, _ => false

/-- `_skip_event(*events, changed=..)`: skipped iff every event's parameter has sub-paths and they all compare equal -/
def skipEvents (w : World) (changed : Option (List (String × Option (List (List String))))) :
    List (String × Val × Val) → Bool
  | evs =>
    match changed with
    | Option.none => false
    | some d => evs.all fun (p, old, new) =>
        match lookup d p with
        | some (some paths) => paths.all (subEq w old new)
        | _ => false

/-- `_sync_caller(*events)`: the callback first, then — unless the events are skipped — the method;
returns the world (the callback may have rebuilt watchers) and the invocation, if any -/
def invoke (w : World) (wt : Watcher) (evs : List (String × Val × Val)) : World × Option (Nat × String) :=
  match wt.fn.kind with
  | .mcaller =>
    let w := w.runCallback wt.fn.callback
    (w, if skipEvents w wt.fn.changed evs then Option.none else some (wt.fn.owner, wt.fn.method))
  | _ => (w, some (wt.fn.owner, wt.fn.method))

def World.logInv (w : World) : Option (Nat × String) → World
  | some e => { w with log := w.log ++ [e] }
  | Option.none => w

/-- the dispatch loop of `Parameter.__set__` outside a batch: `_call_watcher` for every watcher of the
(sorted copy of the) list; `onlychanged` watchers see only changes -/
def dispatch (w : World) (p : String) (old new : Val) : List Watcher → World
  | [] => w
  | wt :: rest =>
    if valEq w.cells old new then dispatch w p old new rest
    else
      let (w, inv) := invoke w wt [(p, old, new)]
      dispatch (w.logInv inv) p old new rest

/-! ### operations -/

/-- argument of an operation -/
inductive Arg
  | none
  | int (n : Int)
  | newList (l : List Int)
  | obj (o : Nat)
  deriving DecidableEq, Repr

def evalArg (w : World) : Arg → Val × World
  | .none => (.none, w)
  | .int n => (.int n, w)
  | .newList l => (.cell w.cells.length, { w with cells := w.cells ++ [l] })
  | .obj o => (.obj o, w)

inductive PEdit
  | bounds (b : Option (Int × Int))
  | constant (b : Bool)
  deriving DecidableEq, Repr

inductive Op
  | new (cls : Nat) (kwargs : List (String × Arg))        -- `Cls(**kwargs)`
  | set (o : Nat) (p : String) (a : Arg)                   -- `obj.p = a`
  | mutate (o : Nat) (p : String) (n : Int)                -- `obj.p.append(n)`
  | pedit (o : Nat) (p : String) (e : PEdit)               -- `obj.param.p.bounds = ..`
  | setAttr (o : Nat) (name : String) (a : Arg)            -- `obj.name = a` (not a parameter)
  | mutAttr (o : Nat) (name : String) (n : Int)            -- `obj.name.append(n)`
  | watch (o : Nat) (ps : List String) (target : Nat) (cb : String)   -- `obj.param.watch(target.cb, [p, ..])`
  | update (o : Nat) (kvs : List (String × Arg))           -- `obj.param.update(p=v, ..)`: one batch
  | selAdd (o : Nat) (p : String) (n : Int)                -- `obj.param.p.objects['k<n>'] = n`
  | watchPartial (o : Nat) (p : String) (target : Nat) (cb : String)   -- `obj.param.watch(partial(target.cb, 'T'), [p])`
  | watchSlot (o : Nat) (p : String) (target : Nat) (cb : String)      -- `obj.param.watch(target.cb, [p], what='bounds')`
  deriving DecidableEq, Repr

/-- instantiate=True defaults are deep-copied into the new object -/
def initValues (w : World) : List ParamDef → List (String × Val) → List (String × Val) × World
  | [], vals => (vals, w)
  | d :: ds, vals =>
    if d.instantiate then
      match d.default with
      | .none => initValues w ds (insert vals d.name .none)
      | .int n => initValues w ds (insert vals d.name (.int n))
      | .list l => initValues { w with cells := w.cells ++ [l] } ds (insert vals d.name (.cell w.cells.length))
    else initValues w ds vals

def evalKwargs (w : World) : List (String × Arg) → List (String × Val) → List (String × Val) × World
  | [], vals => (vals, w)
  | (p, a) :: rest, vals =>
    let (v, w) := evalArg w a
    evalKwargs w rest (insert vals p v)

/-- `Cls(**kwargs)`: values, then (initialised) the dependency watchers -/
def doNew (w : World) (cls : Nat) (kwargs : List (String × Arg)) : Except Err World :=
  match w.classes[cls]? with
  | Option.none => .error .unsupported
  | some c =>
    if kwargs.all (fun kv => c.params.any (·.name = kv.1)) then
      let (vals, w) := initValues w c.params []
      let (vals, w) := evalKwargs w kwargs vals
      let o := w.objs.length
      let w : World := { w with objs := w.objs ++ [({ cls := cls, values := vals, pcopies := [], attrs := [], watchers := [], dyn := [] } : Obj)] }
      .ok (w.initDeps o c.methods)
    else .error .unsupported

/-- `Selector._validate` without `check_on_set` on the instance's own Parameter: a value that is not among
`_objects` is appended (`_ensure_value_is_in_objects`).  `none`: outside the fragment. -/
def World.ensureInObjects (w : World) (o : Nat) (p : String) (v : Val) : Option World :=
  match (w.objs[o]?).bind (fun ob => (w.cls? ob).bind (·.params.find? (·.name = p))) with
  | Option.none => Option.none
  | some d =>
    match d.sel with
    | .notSel => some w
    | .named => Option.none
    | .choice =>
      match v, (w.objs[o]?).bind (fun ob => (lookup ob.pcopies p).bind (·.slots)) with
      | .int n, some (co, _) =>
        if n ∈ deref w.cells co then some w else some { w with cells := w.cells.set co (deref w.cells co ++ [n]) }
      | _, _ => Option.none

/-- `obj.p = v` -- src: Parameter.__set__ -/
def doSet (w : World) (o : Nat) (p : String) (a : Arg) : Except Err World :=
  match w.objs[o]? with
  | Option.none => .error .unsupported
  | some ob =>
    match w.cls? ob with
    | Option.none => .error .unsupported
    | some c =>
      if c.params.any (·.name = p) then
        let (v, w) := evalArg w a
        let w := w.touchParam o p
        match w.getVal o p, w.ensureInObjects o p v with
        | some old, some w =>
          let w := w.setObj o fun ob => { ob with values := insert ob.values p v }
          let w := w.updateDeps o (some p) c.methods
          let ws := sortByPrec (((w.objs[o]?).bind (fun ob => lookup ob.watchers p)).getD [])
          .ok (dispatch w p old v ws)
        | _, _ => .error .unsupported
      else .error .unsupported

/-- `obj.param.p.objects['k<n>'] = n` on a names-declared Selector: `ListProxy.__setitem__` appends to
`_objects` and records the name (a key that exists already names the same object: nothing changes) -/
def doSelAdd (w : World) (o : Nat) (p : String) (n : Int) : Except Err World :=
  let w := w.touchParam o p
  match (w.objs[o]?).bind (fun ob => lookup ob.pcopies p) with
  | some pc =>
    match pc.slots, (w.objs[o]?).bind (fun ob => (w.cls? ob).bind (·.params.find? (·.name = p))) with
    | some (co, cn), some d =>
      if d.sel = .named then
        if n ∈ deref w.cells cn then .ok w
        else .ok { w with cells := (w.cells.set co (deref w.cells co ++ [n])).set cn (deref w.cells cn ++ [n]) }
      else .error .unsupported
    | _, _ => .error .unsupported
  | Option.none => .error .unsupported

def doMutate (w : World) (o : Nat) (p : String) (n : Int) : Except Err World :=
  match w.getVal o p with
  | some (.cell c) => .ok { w with cells := w.cells.set c (deref w.cells c ++ [n]) }
  | _ => .error .unsupported

/-- `obj.param.p.<attr> = v` -- src: Parameter.__setattr__ / _trigger_event: the watchers of the attribute
run in registration order, when the value changed (`onlychanged`, tuples compared elementwise) -/
def doPEdit (w : World) (o : Nat) (p : String) (e : PEdit) : Except Err World :=
  let w := w.touchParam o p
  match (w.objs[o]?).bind (fun ob => lookup ob.pcopies p) with
  | Option.none => .error .unsupported
  | some pc =>
    match e with
    | .bounds b =>
      let w := w.setObj o fun ob => { ob with pcopies := insert ob.pcopies p { pc with bounds := b } }
      .ok (if pc.bounds = b then w else { w with log := w.log ++ pc.swatchers.map fun wt => (wt.fn.owner, wt.fn.method) })
    | .constant b => .ok (w.setObj o fun ob => { ob with pcopies := insert ob.pcopies p { pc with constant := b } })

def doSetAttr (w : World) (o : Nat) (name : String) (a : Arg) : Except Err World :=
  match w.objs[o]? with
  | Option.none => .error .unsupported
  | some _ =>
    let (v, w) := evalArg w a
    .ok (w.setObj o fun ob => { ob with attrs := insert ob.attrs name v })

def doMutAttr (w : World) (o : Nat) (name : String) (n : Int) : Except Err World :=
  match (w.objs[o]?).bind (fun ob => lookup ob.attrs name) with
  | some (.cell c) => .ok { w with cells := w.cells.set c (deref w.cells c ++ [n]) }
  | _ => .error .unsupported

def doWatch (w : World) (o : Nat) (ps : List String) (target : Nat) (cb : String) : Except Err World :=
  match w.objs[o]?, w.objs[target]? with
  | some _, some t =>
    if ((w.cls? t).map (·.hasAttr cb)).getD false then
      .ok (({ w with nextPid := w.nextPid + 1 }).addWatcher
        { inst := o, fn := { kind := .bound, owner := target, method := cb, changed := Option.none, pid := 0 },
          names := ps, precedence := 0, wid := w.nextPid })
    else .error .unsupported
  | _, _ => .error .unsupported

/-- one assignment inside a batch: store, rebuild dependencies, and *queue* — every watcher of the parameter
that sees a change is queued once (`any(watcher is w ..)`: a Watcher record is one object, see `Watcher.wid`),
the event is recorded under the parameter's name -/
def updateOne (w : World) (o : Nat) (c : ClassDef) (p : String) (a : Arg)
    (evs : List (String × Val × Val)) (queued : List Watcher) :
    Option (World × List (String × Val × Val) × List Watcher) :=
  if c.params.any (·.name = p) then
    let (v, w) := evalArg w a
    let w := w.touchParam o p
    match w.getVal o p, w.ensureInObjects o p v with
    | some old, some w =>
      let w := w.setObj o fun ob => { ob with values := insert ob.values p v }
      let w := w.updateDeps o (some p) c.methods
      let ws := sortByPrec (((w.objs[o]?).bind (fun ob => lookup ob.watchers p)).getD [])
      if valEq w.cells old v || ws.isEmpty then some (w, evs, queued)
      else some (w, insert evs p (old, v), ws.foldl (fun q wt => if wt ∈ q then q else q ++ [wt]) queued)
    | _, _ => Option.none
  else Option.none

def updateLoop (w : World) (o : Nat) (c : ClassDef) :
    List (String × Arg) → List (String × Val × Val) → List Watcher →
    Option (World × List (String × Val × Val) × List Watcher)
  | [], evs, queued => some (w, evs, queued)
  | (p, a) :: rest, evs, queued =>
    match updateOne w o c p a evs queued with
    | some (w1, evs1, q1) => updateLoop w1 o c rest evs1 q1
    | Option.none => Option.none

/-- the flush at the end of the batch: every queued watcher, in (stable) precedence order, is called once with
the events of *its* parameter names -/
def flush (w : World) (evs : List (String × Val × Val)) : List Watcher → World
  | [] => w
  | wt :: rest =>
    let mine := wt.names.filterMap fun n => (lookup evs n).map fun e => (n, e)
    let (w, inv) := invoke w wt mine
    flush (w.logInv inv) evs rest

/-- `obj.param.update(p=v, ..)` -- src: Parameters._update, _call_watcher (batched), _batch_call_watchers -/
def doUpdate (w : World) (o : Nat) (kvs : List (String × Arg)) : Except Err World :=
  match (w.objs[o]?).bind (fun ob => w.cls? ob) with
  | Option.none => .error .unsupported
  | some c =>
    match updateLoop w o c kvs [] [] with
    | Option.none => .error .unsupported
    | some (w1, evs, queued) => .ok (flush w1 evs (sortByPrec queued))

def doWatchPartial (w : World) (o : Nat) (p : String) (target : Nat) (cb : String) : Except Err World :=
  match w.objs[o]?, w.objs[target]? with
  | some _, some t =>
    if ((w.cls? t).map (·.hasAttr cb)).getD false then
      .ok (({ w with nextPid := w.nextPid + 1 }).addWatcher
        { inst := o, fn := { kind := .partialFn, owner := target, method := cb, changed := Option.none, pid := w.nextPid },
          names := [p], precedence := 0 })
    else .error .unsupported
  | _, _ => .error .unsupported

/-- `_register_watcher` for `what != 'value'`: `self_[name].watchers[what].append(watcher)` on the
per-instance Parameter object (created by the access) -/
def doWatchSlot (w : World) (o : Nat) (p : String) (target : Nat) (cb : String) : Except Err World :=
  let w := w.touchParam o p
  match (w.objs[o]?).bind (fun ob => lookup ob.pcopies p), w.objs[target]? with
  | some pc, some t =>
    if ((w.cls? t).map (·.hasAttr cb)).getD false then
      let wt : Watcher := { inst := o, fn := { kind := .bound, owner := target, method := cb, changed := Option.none, pid := 0 },
                            names := [p], precedence := 0, wid := w.nextPid }
      .ok (({ w with nextPid := w.nextPid + 1 }).setObj o fun ob => { ob with pcopies := insert ob.pcopies p { pc with swatchers := pc.swatchers ++ [wt] } })
    else .error .unsupported
  | _, _ => .error .unsupported

def step (w : World) : Op → Except Err World
  | .new cls kwargs => doNew w cls kwargs
  | .set o p a => doSet w o p a
  | .mutate o p n => doMutate w o p n
  | .pedit o p e => doPEdit w o p e
  | .setAttr o name a => doSetAttr w o name a
  | .mutAttr o name n => doMutAttr w o name n
  | .watch o ps t cb => doWatch w o ps t cb
  | .update o kvs => doUpdate w o kvs
  | .selAdd o p n => doSelAdd w o p n
  | .watchPartial o p t cb => doWatchPartial w o p t cb
  | .watchSlot o p t cb => doWatchSlot w o p t cb

/-- a history: stops at the first operation outside the fragment -/
def runOps : World → List Op → Except Err World
  | w, [] => .ok w
  | w, op :: rest =>
    match step w op with
    | .ok w1 => runOps w1 rest
    | .error e => .error e

/-! ### copy.deepcopy / pickle round trip -/

def Obj.refs (ob : Obj) : List Nat :=
  let ofVal : Val → List Nat := fun v => match v with | .obj o => [o] | _ => []
  let ofW : Watcher → List Nat := fun wt =>
    [wt.inst, wt.fn.owner] ++ (match wt.fn.callback with | some cb => [cb.1] | Option.none => [])
  ob.values.flatMap (fun kv => ofVal kv.2) ++ ob.attrs.flatMap (fun kv => ofVal kv.2) ++
  ob.watchers.flatMap (fun kv => kv.2.flatMap ofW) ++ ob.dyn.flatMap (fun kv => kv.2.flatMap ofW) ++
  ob.pcopies.flatMap (fun kv => kv.2.swatchers.flatMap ofW)

def addNew (seen : List Nat) : List Nat → List Nat
  | [] => seen
  | x :: xs => if x ∈ seen then addNew seen xs else addNew (seen ++ [x]) xs

/-- objects reachable from `root` (what the pickler / deepcopy visits) -/
def reach (w : World) (root : Nat) : List Nat :=
  let rec go : Nat → List Nat → List Nat
    | 0, seen => seen
    | fuel + 1, seen =>
      go fuel (addNew seen (seen.flatMap fun o => match w.objs[o]? with | some ob => ob.refs | Option.none => []))
  go w.objs.length [root]

def renVal (no nc : Nat) : Val → Val
  | .cell c => .cell (nc + c)
  | .obj o => .obj (no + o)
  | v => v

def renCaller (no np : Nat) (c : Caller) : Caller :=
  { c with owner := no + c.owner, pid := (match c.kind with | .bound => c.pid | _ => np + c.pid),
           callback := c.callback.map fun cb => (no + cb.1, cb.2) }

def renWatcher (no np : Nat) (wt : Watcher) : Watcher :=
  { wt with inst := no + wt.inst, fn := renCaller no np wt.fn, wid := np + wt.wid }

def renPCopy (no nc np : Nat) (pc : PCopy) : PCopy :=
  { pc with slots := pc.slots.map (fun s => (nc + s.1, nc + s.2)),
            swatchers := pc.swatchers.map (renWatcher no np) }

/-- the deep copy of one object's state, before `__setstate__` -/
def renObj (no nc np : Nat) (ob : Obj) : Obj :=
  { ob with values := ob.values.map (fun kv => (kv.1, renVal no nc kv.2)),
            pcopies := ob.pcopies.map (fun kv => (kv.1, renPCopy no nc np kv.2)),
            attrs := ob.attrs.map (fun kv => (kv.1, renVal no nc kv.2)),
            watchers := ob.watchers.map (fun kv => (kv.1, kv.2.map (renWatcher no np))),
            dyn := ob.dyn.map (fun kv => (kv.1, kv.2.map (renWatcher no np))) }

/-- is the method caller re-created by `_m_caller(self, fn._watcher_name)`? -/
def Policy.redo (pol : Policy) (owner self : Nat) : Bool :=
  match pol with
  | .always => true
  | .own => owner == self
  | .unbound => false

/-- one iteration of the loop in `__setstate__`; `pid` is the next free caller id
    -- src: parameterized.py Parameterized.__setstate__ (`for watcher in watchers:`) -/
def rebindWatcher (pol : Policy) (cls : Option ClassDef) (self : Nat) (wt : Watcher) (pid : Nat) : Except Err (Watcher × Nat) :=
  match wt.fn.kind with
  | .mcaller =>
    if pol.redo wt.fn.owner self then
      -- `_m_caller(self, fn._watcher_name)`: `getattr(self, method_name)`, what/changed/callback reset
      match cls with
      | Option.none => .error .unsupported
      | some c =>
        if c.hasAttr wt.fn.method then
          .ok ({ wt with inst := self, fn := { kind := .mcaller, owner := self, method := wt.fn.method, changed := Option.none, pid := pid } }, pid + 1)
        else .error .attributeError
    else .ok ({ wt with inst := self }, pid)
  | .partialFn =>
    -- `get_method_owner(partial)` is None (not a method): the copied callable is kept
    .ok ({ wt with inst := self }, pid)
  | .bound =>
    -- `elif get_method_owner(fn) is watcher.inst: getattr(self, fn.__name__)`
    if wt.fn.owner = wt.inst then .ok ({ wt with inst := self, fn := { wt.fn with owner := self } }, pid)
    else .ok ({ wt with inst := self }, pid)

def rebindList (pol : Policy) (cls : Option ClassDef) (self : Nat) : List Watcher → Nat → Except Err (List Watcher × Nat)
  | [], pid => .ok ([], pid)
  | wt :: rest, pid =>
    match rebindWatcher pol cls self wt pid with
    | .error e => .error e
    | .ok (wt', pid1) =>
      match rebindList pol cls self rest pid1 with
      | .error e => .error e
      | .ok (rest', pid2) => .ok (wt' :: rest', pid2)

def rebindTable (pol : Policy) (cls : Option ClassDef) (self : Nat) :
    List (String × List Watcher) → Nat → Except Err (List (String × List Watcher) × Nat)
  | [], pid => .ok ([], pid)
  | (p, ws) :: rest, pid =>
    match rebindList pol cls self ws pid with
    | .error e => .error e
    | .ok (ws', pid1) =>
      match rebindTable pol cls self rest pid1 with
      | .error e => .error e
      | .ok (rest', pid2) => .ok ((p, ws') :: rest', pid2)

/-- `__setstate__` of the copy `self` (state already copied); only the `watchers` table is rewritten -/
def setstate (pol : Policy) (classes : List ClassDef) (self : Nat) (ob : Obj) (pid : Nat) : Except Err (Obj × Nat) :=
  match rebindTable pol classes[ob.cls]? self ob.watchers pid with
  | .error e => .error e
  | .ok (t, pid') => .ok ({ ob with watchers := t }, pid')

/-- run `__setstate__` on the copies (index `no + i`) of the objects; a failure on a copy of an
object that is *reachable from the root* is the failure of the whole copy, the unreachable ones
(which do not exist in CPython) are left as they are -/
def setstateAll (pol : Policy) (classes : List ClassDef) (reachable : List Nat) (no : Nat) :
    List Obj → Nat → Nat → Except Err (List Obj × Nat)
  | [], _, pid => .ok ([], pid)
  | ob :: rest, i, pid =>
    if i ∈ reachable then
      match setstate pol classes (no + i) ob pid with
      | .error e => .error e
      | .ok (ob', pid1) =>
        match setstateAll pol classes reachable no rest (i + 1) pid1 with
        | .error e => .error e
        | .ok (rest', pid2) => .ok (ob' :: rest', pid2)
    else
      match setstateAll pol classes reachable no rest (i + 1) pid with
      | .error e => .error e
      | .ok (rest', pid2) => .ok (ob :: rest', pid2)

/-- `copy.deepcopy(root)` / `pickle.loads(pickle.dumps(root))`: the world with the copy added and the
id of the copy of `root`; on failure nothing observable has changed -/
def copyGraph (pol : Policy) (w : World) (root : Nat) : Except Err (World × Nat) :=
  match w.objs[root]? with
  | Option.none => .error .unsupported
  | some _ =>
    let no := w.objs.length
    let nc := w.cells.length
    let np := w.nextPid
    match setstateAll pol w.classes (reach w root) no (w.objs.map (renObj no nc np)) 0 (np + np) with
    | .error e => .error e
    | .ok (copies, pid) =>
      .ok ({ w with objs := w.objs ++ copies, cells := w.cells ++ w.cells, nextPid := pid }, no + root)

end ParamVerif.Copy
