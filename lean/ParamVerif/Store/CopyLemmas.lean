/-
C17 — definitions used in the statements of Props/C17.lean (closed sets of objects) and helper lemmas:
every primitive of the model keeps a closed set closed and touches nothing outside it.
-/
import ParamVerif.Store.CopySpec

namespace ParamVerif.Copy

/-! ## Definitions used in the statements -/

def Val.inSets (S C : Nat → Prop) : Val → Prop
  | .obj o => S o
  | .cell c => C c
  | _ => True

def Watcher.inSet (S : Nat → Prop) (wt : Watcher) : Prop :=
  S wt.inst ∧ S wt.fn.owner ∧ ∀ cb : Nat × Option String, wt.fn.callback = some cb → S cb.1

/-- every object / list the record refers to (values, ordinary attributes, watcher tables) is in `S` / `C` -/
structure Obj.refsIn (S C : Nat → Prop) (ob : Obj) : Prop where
  values : ∀ kv ∈ ob.values, kv.2.inSets S C
  attrs : ∀ kv ∈ ob.attrs, kv.2.inSets S C
  watchers : ∀ kv ∈ ob.watchers, ∀ wt ∈ kv.2, wt.inSet S
  dyn : ∀ kv ∈ ob.dyn, ∀ wt ∈ kv.2, wt.inSet S
  /-- the `_objects` / `names` containers of its per-instance Selector Parameter copies -/
  pcopies : ∀ kv ∈ ob.pcopies, (∀ s : Nat × Nat, kv.2.slots = some s → C s.1 ∧ C s.2) ∧
    (∀ wt ∈ kv.2.swatchers, wt.inSet S)

/-- the objects in `S` refer only to objects in `S` and lists in `C` -/
def Closed (w : World) (S C : Nat → Prop) : Prop :=
  ∀ (i : Nat) (ob : Obj), S i → w.objs[i]? = some ob → ob.refsIn S C

/-- what a step `w → w'` on behalf of the objects `S` (lists `C`) may do: nothing outside `S`/`C`
changes, and every method it invokes belongs to an object of `S` -/
structure Local (w w' : World) (S C : Nat → Prop) : Prop where
  objsFrame : ∀ i : Nat, ¬ S i → w'.objs[i]? = w.objs[i]?
  cellsFrame : ∀ c : Nat, ¬ C c → w'.cells[c]? = w.cells[c]?
  classes : w'.classes = w.classes
  logPrefix : ∃ added, w'.log = w.log ++ added ∧ ∀ e ∈ added, S e.1
  objsLen : w.objs.length ≤ w'.objs.length
  cellsLen : w.cells.length ≤ w'.cells.length

theorem Local.refl (w : World) (S C : Nat → Prop) : Local w w S C :=
  ⟨fun _ _ => rfl, fun _ _ => rfl, rfl, ⟨[], by simp, by simp⟩, Nat.le_refl _, Nat.le_refl _⟩

theorem Local.trans {w w1 w2 : World} {S C : Nat → Prop} (a : Local w w1 S C) (b : Local w1 w2 S C) :
    Local w w2 S C := by
  refine ⟨fun i h => by rw [b.objsFrame i h, a.objsFrame i h], fun c h => by rw [b.cellsFrame c h, a.cellsFrame c h],
    by rw [b.classes, a.classes], ?_, Nat.le_trans a.objsLen b.objsLen, Nat.le_trans a.cellsLen b.cellsLen⟩
  obtain ⟨l1, h1, h1'⟩ := a.logPrefix
  obtain ⟨l2, h2, h2'⟩ := b.logPrefix
  refine ⟨l1 ++ l2, by rw [h2, h1, List.append_assoc], ?_⟩
  intro e he
  rcases List.mem_append.1 he with h | h
  · exact h1' e h
  · exact h2' e h

/-! ## Association lists -/

theorem mem_insert {α : Type} {l : List (String × α)} {k : String} {v : α} {y : String × α}
    (h : y ∈ insert l k v) : y = (k, v) ∨ y ∈ l := by
  induction l with
  | nil => simp [insert] at h; exact Or.inl h
  | cons kv l ih =>
    obtain ⟨k', v'⟩ := kv
    simp only [insert] at h
    split at h
    · rename_i e
      simp only [List.mem_cons] at h ⊢
      rcases h with h | h
      · left; rw [h, e]
      · right; right; exact h
    · simp only [List.mem_cons] at h ⊢
      rcases h with h | h
      · right; left; exact h
      · rcases ih h with h | h
        · left; exact h
        · right; right; exact h

theorem lookup_mem {α : Type} {l : List (String × α)} {k : String} {v : α}
    (h : lookup l k = some v) : (k, v) ∈ l := by
  induction l with
  | nil => simp [lookup] at h
  | cons kv l ih =>
    obtain ⟨k', v'⟩ := kv
    simp only [lookup] at h
    split at h
    · rename_i e; simp at h; subst h; subst e; simp
    · exact List.mem_cons_of_mem _ (ih h)

theorem mem_erase {α : Type} {l : List (String × α)} {k : String} {y : String × α}
    (h : y ∈ erase l k) : y ∈ l := by
  unfold erase at h; exact (List.mem_filter.1 h).1

theorem removeFirst_subset : ∀ {l l' : List Watcher} {wt : Watcher}, removeFirst l wt = some l' → ∀ x ∈ l', x ∈ l
  | [], _, _, h => by simp [removeFirst] at h
  | y :: r, l', wt, h => by
    simp only [removeFirst] at h
    split at h
    · simp at h; subst h; intro x hx; exact List.mem_cons_of_mem _ hx
    · cases hr : removeFirst r wt with
      | none => simp [hr] at h
      | some r' =>
        simp [hr] at h; subst h
        intro x hx
        simp only [List.mem_cons] at hx ⊢
        rcases hx with hx | hx
        · exact Or.inl hx
        · exact Or.inr (removeFirst_subset hr x hx)

theorem getElem?_set_cases {α : Type} {l : List α} {i j : Nat} {a b : α}
    (h : (l.set i a)[j]? = some b) : (j = i ∧ b = a) ∨ (j ≠ i ∧ l[j]? = some b) := by
  by_cases hij : i = j
  · subst hij
    by_cases hl : i < l.length
    · simp [List.getElem?_set_self hl] at h; exact Or.inl ⟨rfl, h.symm⟩
    · simp at hl
      rw [List.getElem?_eq_none (by simp; exact hl)] at h; simp at h
  · rw [List.getElem?_set_ne hij] at h
    exact Or.inr ⟨fun e => hij e.symm, h⟩

/-! ## Primitives -/

/-- rewriting the record of an object of `S` by a function that keeps its references inside `S`/`C` -/
theorem setObj_spec {w : World} {S C : Nat → Prop} {o : Nat} {f : Obj → Obj} (hc : Closed w S C) (ho : S o)
    (hf : ∀ ob, w.objs[o]? = some ob → ob.refsIn S C → (f ob).refsIn S C) :
    Closed (w.setObj o f) S C ∧ Local w (w.setObj o f) S C ∧ (w.setObj o f).cells = w.cells ∧
    (w.setObj o f).nextPid = w.nextPid ∧ (w.setObj o f).objs.length = w.objs.length := by
  unfold World.setObj
  split
  · rename_i ob hob
    refine ⟨?_, ⟨?_, fun _ _ => rfl, rfl, ⟨[], by simp, by simp⟩, by simp, Nat.le_refl _⟩, rfl, rfl, by simp⟩
    · intro i ob' hi hob'
      rcases getElem?_set_cases hob' with ⟨rfl, rfl⟩ | ⟨_, h⟩
      · exact hf ob hob (hc i ob hi hob)
      · exact hc i ob' hi h
    · intro i hi
      show (w.objs.set o (f ob))[i]? = _
      rw [List.getElem?_set_ne (fun (e : o = i) => hi (by rw [← e]; exact ho))]
  · exact ⟨hc, Local.refl _ _ _, rfl, rfl, rfl⟩

/-- a step that keeps `S`/`C` closed and is local to it -/
structure Good (w w' : World) (S C : Nat → Prop) : Prop where
  closed : Closed w' S C
  loc : Local w w' S C

theorem Good.refl {w : World} {S C : Nat → Prop} (hc : Closed w S C) : Good w w S C := ⟨hc, Local.refl _ _ _⟩

theorem Good.trans {w w1 w2 : World} {S C : Nat → Prop} (a : Good w w1 S C) (b : Good w1 w2 S C) : Good w w2 S C :=
  ⟨b.closed, a.loc.trans b.loc⟩

/-- every list created from now on may be referenced by the objects of `S` (they own the future) -/
def Fresh (w : World) (C : Nat → Prop) : Prop := ∀ n : Nat, w.cells.length ≤ n → C n

theorem Good.fresh {w w' : World} {S C : Nat → Prop} (g : Good w w' S C) (hf : Fresh w C) : Fresh w' C :=
  fun n hn => hf n (Nat.le_trans g.loc.cellsLen hn)

theorem setObj_good {w : World} {S C : Nat → Prop} {o : Nat} {f : Obj → Obj} (hc : Closed w S C) (ho : S o)
    (hf : ∀ ob, w.objs[o]? = some ob → ob.refsIn S C → (f ob).refsIn S C) : Good w (w.setObj o f) S C :=
  ⟨(setObj_spec hc ho hf).1, (setObj_spec hc ho hf).2.1⟩

theorem appendCells_good {w : World} {S C : Nat → Prop} (extra : List (List Int)) (hc : Closed w S C)
    (hf : Fresh w C) : Good w { w with cells := w.cells ++ extra } S C := by
  refine ⟨hc, ⟨fun _ _ => rfl, ?_, rfl, ⟨[], by simp, by simp⟩, Nat.le_refl _, by simp⟩⟩
  intro c hcc
  show (w.cells ++ extra)[c]? = w.cells[c]?
  rcases Nat.lt_or_ge c w.cells.length with h1 | h1
  · exact List.getElem?_append_left h1
  · exact absurd (hf c h1) hcc

theorem touchParam_good {w : World} {S C : Nat → Prop} {o : Nat} {p : String} (hc : Closed w S C) (ho : S o)
    (hf : Fresh w C) : Good w (w.touchParam o p) S C := by
  unfold World.touchParam
  split
  · exact Good.refl hc
  · split
    · exact Good.refl hc
    · split
      · exact Good.refl hc
      · rename_i d _
        split
        · refine setObj_good hc ho (fun ob _ h => ⟨h.values, h.attrs, h.watchers, h.dyn, ?_⟩)
          intro kv hkv
          rcases mem_insert hkv with rfl | hm
          · exact ⟨by simp, by simp⟩
          · exact h.pcopies kv hm
        · rename_i co cn _
          have g1 := appendCells_good (S := S) [deref w.cells co, deref w.cells cn] hc hf
          refine g1.trans (setObj_good g1.closed ho (fun ob _ h => ⟨h.values, h.attrs, h.watchers, h.dyn, ?_⟩))
          intro kv hkv
          rcases mem_insert hkv with rfl | hm
          · refine ⟨?_, by simp⟩
            intro s hs
            simp at hs; subst hs
            exact ⟨hf _ (Nat.le_refl _), hf _ (Nat.le_succ _)⟩
          · exact h.pcopies kv hm

theorem addWatcher_good {w : World} {S C : Nat → Prop} {wt : Watcher} (hc : Closed w S C) (hw : wt.inSet S) :
    Good w (w.addWatcher wt) S C := by
  unfold World.addWatcher
  generalize wt.names = names
  induction names generalizing w with
  | nil => exact Good.refl hc
  | cons n ns ih =>
    simp only [List.foldl_cons]
    have g1 : Good w (w.setObj wt.inst fun ob =>
        { ob with watchers := insert ob.watchers n ((lookup ob.watchers n).getD [] ++ [wt]) }) S C := by
      refine setObj_good hc hw.1 ?_
      intro ob _ h
      refine ⟨h.values, h.attrs, ?_, h.dyn, h.pcopies⟩
      intro kv hkv x hx
      rcases mem_insert hkv with rfl | hm
      · simp only [List.mem_append, List.mem_singleton] at hx
        rcases hx with hx | rfl
        · cases hl : lookup ob.watchers n with
          | none => simp [hl] at hx
          | some l => simp [hl] at hx; exact h.watchers _ (lookup_mem hl) x hx
        · exact hw
      · exact h.watchers kv hm x hx
    exact g1.trans (ih g1.closed)

theorem unwatch_good {w : World} {S C : Nat → Prop} {wt : Watcher} (hc : Closed w S C) (hw : S wt.inst) :
    Good w (w.unwatch wt) S C := by
  unfold World.unwatch
  generalize wt.names = names
  induction names generalizing w with
  | nil => simp only [World.unwatch.go]; exact Good.refl hc
  | cons n ns ih =>
    simp only [World.unwatch.go]
    split
    · exact Good.refl hc
    · rename_i l hl
      split
      · exact Good.refl hc
      · rename_i l' hl'
        have g1 : Good w (w.setObj wt.inst fun ob => { ob with watchers := insert ob.watchers n l' }) S C := by
          refine setObj_good hc hw ?_
          intro ob hob h
          refine ⟨h.values, h.attrs, ?_, h.dyn, h.pcopies⟩
          intro kv hkv x hx
          rcases mem_insert hkv with rfl | hm
          · simp only [hob, Option.bind_some] at hl
            exact h.watchers _ (lookup_mem hl) x (removeFirst_subset hl' x hx)
          · exact h.watchers kv hm x hx
        exact g1.trans (ih g1.closed)

theorem nextPid_good {w : World} {S C : Nat → Prop} (hc : Closed w S C) (n : Nat) :
    Good w { w with nextPid := n } S C :=
  ⟨hc, ⟨fun _ _ => rfl, fun _ _ => rfl, rfl, ⟨[], by simp, by simp⟩, Nat.le_refl _, Nat.le_refl _⟩⟩

/-- a value read from an object of a closed set is in the set -/
theorem getVal_inSets {w : World} {S C : Nat → Prop} {o : Nat} {p : String} {v : Val}
    (hc : Closed w S C) (ho : S o) (h : w.getVal o p = some v) : v.inSets S C := by
  unfold World.getVal at h
  split at h
  · simp at h
  · rename_i ob hob
    split at h
    · rename_i v' hv'
      simp at h; subst h
      exact (hc o ob ho hob).values _ (lookup_mem hv')
    · split at h
      · simp at h
      · rename_i c _
        cases hf : c.params.find? (·.name = p) with
        | none => simp [hf] at h
        | some d =>
          simp only [hf, Option.bind_some] at h
          cases hd : d.default with
          | none => simp [hd, DVal.toVal] at h; subst h; trivial
          | int n => simp [hd, DVal.toVal] at h; subst h; trivial
          | list l => simp [hd, DVal.toVal] at h

theorem mem_dedupN {x : Nat} : ∀ {l : List Nat}, x ∈ dedupN l → x ∈ l
  | [], h => by simp [dedupN] at h
  | y :: r, h => by
    simp only [dedupN, List.mem_cons, List.mem_filter] at h ⊢
    rcases h with h | ⟨h, _⟩
    · exact Or.inl h
    · exact Or.inr (mem_dedupN h)

theorem pathContribs_inSet {w : World} {S C : Nat → Prop} (hc : Closed w S C) :
    ∀ (ps : List String) (d cur : Nat), S cur → ∀ c ∈ w.pathContribs d cur ps, S c.inst
  | [], d, cur, _, c, h => by simp [World.pathContribs] at h
  | [x], d, cur, hcur, c, h => by
    simp [World.pathContribs] at h; subst h; exact hcur
  | a :: b :: rest, 0, cur, hcur, c, h => by
    simp only [World.pathContribs] at h
    split at h
    · rename_i s hs
      have hss : S s := getVal_inSets hc hcur hs
      simp only [List.mem_cons] at h
      rcases h with rfl | h
      · exact hcur
      · exact pathContribs_inSet hc (b :: rest) 1 s hss c h
    · simp at h
  | a :: b :: rest, d + 1, cur, hcur, c, h => by
    simp only [World.pathContribs, List.mem_cons] at h
    rcases h with rfl | h
    · exact hcur
    · split at h
      · rename_i s hs
        exact pathContribs_inSet hc (b :: rest) (d + 2) s (getVal_inSets hc hcur hs) c h
      · simp at h

theorem dynContribs_inSet {w : World} {S C : Nat → Prop} {o : Nat} (hc : Closed w S C) (ho : S o) :
    ∀ (deps : List Dep), ∀ c ∈ w.dynContribs o deps, S c.inst
  | [], c, h => by simp [World.dynContribs] at h
  | .own _ :: rest, c, h => by
    simp only [World.dynContribs] at h
    exact dynContribs_inSet hc ho rest c h
  | .path ps :: rest, c, h => by
    simp only [World.dynContribs, List.mem_append] at h
    rcases h with h | h
    · exact pathContribs_inSet hc ps 0 o ho c h
    · exact dynContribs_inSet hc ho rest c h

theorem touchAll_good {S C : Nat → Prop} : ∀ (l : List (Nat × String)) (w : World), Closed w S C → Fresh w C →
    (∀ e ∈ l, S e.1) → Good w (w.touchAll l) S C
  | [], w, hc, _, _ => by simp only [World.touchAll]; exact Good.refl hc
  | (o, p) :: rest, w, hc, hf, h => by
    simp only [World.touchAll]
    have g1 := touchParam_good (p := p) hc (h (o, p) (by simp)) hf
    exact g1.trans (touchAll_good rest _ g1.closed (g1.fresh hf) (fun e he => h e (by simp [he])))

theorem installGroups_good {S C : Nat → Prop} {o : Nat} {m : String} {attr : Option String} {cs : List Contribution}
    (ho : S o) :
    ∀ (gs : List Nat) (w w' : World) (ws : List Watcher), Closed w S C → (∀ g ∈ gs, S g) →
    World.installGroups w o m attr cs gs = (w', ws) → Good w w' S C ∧ ∀ wt ∈ ws, wt.inSet S
  | [], w, w', ws, hc, _, h => by
    simp [World.installGroups] at h; obtain ⟨rfl, rfl⟩ := h
    exact ⟨Good.refl hc, by simp⟩
  | g :: gs, w, w', ws, hc, hg, h => by
    simp only [World.installGroups, mkCaller] at h
    generalize hr : World.installGroups _ o m attr cs gs = r at h
    obtain ⟨w2, rest⟩ := r
    simp at h; obtain ⟨rfl, rfl⟩ := h
    have hgs : S g := hg g (by simp)
    have g1 := nextPid_good hc (w.nextPid + 1)
    have hin : Watcher.inSet S ⟨g, ⟨.mcaller, o, m, some (groupChanged cs g), w.nextPid,
        if groupCallback cs g then some (o, attr) else Option.none⟩, groupNames cs g, -1, 0⟩ := by
      refine ⟨hgs, ho, ?_⟩
      intro cb hcb
      simp only at hcb
      split at hcb
      · simp at hcb; rw [← hcb]; exact ho
      · simp at hcb
    have g2 := addWatcher_good g1.closed hin
    obtain ⟨g3, hws⟩ := installGroups_good ho gs _ _ _ g2.closed (fun x hx => hg x (by simp [hx])) hr
    refine ⟨(g1.trans g2).trans g3, ?_⟩
    intro wt hwt
    simp only [List.mem_cons] at hwt
    rcases hwt with rfl | hwt
    · exact hin
    · exact hws wt hwt

theorem installDyn_good {w w' : World} {S C : Nat → Prop} {o : Nat} {attr : Option String} {md : MethodDef} {dynw : List Watcher}
    (hc : Closed w S C) (ho : S o) (hf : Fresh w C) (h : w.installDyn o attr md = (w', dynw)) :
    Good w w' S C ∧ ∀ wt ∈ dynw, wt.inSet S := by
  unfold World.installDyn at h
  have hcs := dynContribs_inSet hc ho md.deps
  have g1 := touchAll_good (S := S) (C := C) ((w.dynContribs o md.deps).map fun c => (c.inst, c.name)) w hc hf (by
    intro e he
    simp only [List.mem_map] at he
    obtain ⟨c, hcm, rfl⟩ := he
    exact hcs c hcm)
  obtain ⟨g2, hws⟩ := installGroups_good ho _ _ _ _ g1.closed (by
    intro g hg
    have := mem_dedupN hg
    simp only [List.mem_map] at this
    obtain ⟨c, hcm, rfl⟩ := this
    exact hcs c hcm) h
  exact ⟨g1.trans g2, hws⟩

theorem installConst_good {w : World} {S C : Nat → Prop} {o : Nat} {md : MethodDef}
    (hc : Closed w S C) (ho : S o) (hf : Fresh w C) : Good w (w.installConst o md) S C := by
  unfold World.installConst
  generalize dedupS (ownDeps md.deps) = ps
  simp only [mkCaller]
  split
  · exact Good.refl hc
  · have g1 := touchAll_good (S := S) (C := C) (ps.map fun p => (o, p)) w hc hf (by
      intro e he
      simp only [List.mem_map] at he
      obtain ⟨p, _, rfl⟩ := he
      exact ho)
    have g2 := nextPid_good g1.closed ((w.touchAll (ps.map fun p => (o, p))).nextPid + 1)
    have g3 : Good _ (World.addWatcher { (w.touchAll (ps.map fun p => (o, p))) with
          nextPid := (w.touchAll (ps.map fun p => (o, p))).nextPid + 1 }
        ⟨o, ⟨.mcaller, o, md.name, Option.none, (w.touchAll (ps.map fun p => (o, p))).nextPid, Option.none⟩, ps, -1, 0⟩) S C :=
      addWatcher_good g2.closed ⟨ho, ho, by simp⟩
    exact (g1.trans g2).trans g3

theorem setDyn_good {w : World} {S C : Nat → Prop} {o : Nat} {m : String} {dynw : List Watcher}
    (hc : Closed w S C) (ho : S o) (hd : ∀ wt ∈ dynw, wt.inSet S) :
    Good w (w.setObj o fun ob => { ob with dyn := insert ob.dyn m dynw }) S C := by
  refine setObj_good hc ho ?_
  intro ob _ h
  refine ⟨h.values, h.attrs, h.watchers, ?_, h.pcopies⟩
  intro kv hkv x hx
  rcases mem_insert hkv with rfl | hm
  · exact hd x hx
  · exact h.dyn kv hm x hx

theorem unwatchAll_good {S C : Nat → Prop} : ∀ (old : List Watcher) (w : World), Closed w S C →
    (∀ wt ∈ old, S wt.inst) → Good w (old.foldl (fun w wt => w.unwatch wt) w) S C
  | [], w, hc, _ => Good.refl hc
  | wt :: rest, w, hc, h => by
    simp only [List.foldl_cons]
    have g1 := unwatch_good (wt := wt) hc (h wt (by simp))
    exact g1.trans (unwatchAll_good rest _ g1.closed (fun x hx => h x (by simp [hx])))

theorem updateDeps_good {S C : Nat → Prop} {o : Nat} {attr : Option String} (ho : S o) :
    ∀ (mds : List MethodDef) (w : World), Closed w S C → Fresh w C → Good w (w.updateDeps o attr mds) S C
  | [], w, hc, _ => by simp only [World.updateDeps]; exact Good.refl hc
  | md :: rest, w, hc, hf => by
    simp only [World.updateDeps]
    split
    · -- the dynamic watchers recorded for this method
      have hold : ∀ wt ∈ ((w.objs[o]?).bind (fun ob => lookup ob.dyn md.name)).getD [], S wt.inst := by
        intro wt hwt
        cases hob : w.objs[o]? with
        | none => simp [hob] at hwt
        | some ob =>
          cases hl : lookup ob.dyn md.name with
          | none => simp [hob, hl] at hwt
          | some l =>
            simp [hob, hl] at hwt
            exact ((hc o ob ho hob).dyn _ (lookup_mem hl) wt hwt).1
      have g1 : Good w (w.setObj o fun ob => { ob with dyn := erase ob.dyn md.name }) S C :=
        setObj_good hc ho (fun ob _ h => ⟨h.values, h.attrs, h.watchers,
          fun kv hkv x hx => h.dyn kv (mem_erase hkv) x hx, h.pcopies⟩)
      have g2 := unwatchAll_good (((w.objs[o]?).bind (fun ob => lookup ob.dyn md.name)).getD []) _ g1.closed hold
      generalize hi : World.installDyn (List.foldl (fun w wt => w.unwatch wt)
        (w.setObj o fun ob => { ob with dyn := erase ob.dyn md.name })
        (((w.objs[o]?).bind (fun ob => lookup ob.dyn md.name)).getD [])) o attr md = r
      obtain ⟨w3, dynw⟩ := r
      obtain ⟨g3, hd⟩ := installDyn_good g2.closed ho ((g1.trans g2).fresh hf) hi
      simp only
      have g123 := (g1.trans g2).trans g3
      split
      · exact g123.trans (updateDeps_good ho rest _ g123.closed (g123.fresh hf))
      · have g4 := setDyn_good (m := md.name) g123.closed ho hd
        exact (g123.trans g4).trans (updateDeps_good ho rest _ g4.closed ((g123.trans g4).fresh hf))
    · exact updateDeps_good ho rest w hc hf

theorem initDeps_good {S C : Nat → Prop} {o : Nat} (ho : S o) :
    ∀ (mds : List MethodDef) (w : World), Closed w S C → Fresh w C → Good w (w.initDeps o mds) S C
  | [], w, hc, _ => by simp only [World.initDeps]; exact Good.refl hc
  | md :: rest, w, hc, hf => by
    simp only [World.initDeps]
    have g0 := installConst_good (md := md) hc ho hf
    generalize hi : (w.installConst o md).installDyn o Option.none md = r
    obtain ⟨w1, dynw⟩ := r
    obtain ⟨g1, hd⟩ := installDyn_good g0.closed ho (g0.fresh hf) hi
    simp only
    split
    · exact (g0.trans g1).trans (initDeps_good ho rest _ g1.closed ((g0.trans g1).fresh hf))
    · have g2 := setDyn_good (m := md.name) g1.closed ho hd
      exact ((g0.trans g1).trans g2).trans (initDeps_good ho rest _ g2.closed (((g0.trans g1).trans g2).fresh hf))

/-- an argument that stays inside `S`/`C`: no new list unless the next heap address is in `C` -/
def Arg.inSets (w : World) (S C : Nat → Prop) : Arg → Prop
  | .obj o => S o
  | .newList _ => C w.cells.length
  | _ => True

theorem evalArg_good {w w' : World} {S C : Nat → Prop} {a : Arg} {v : Val} (hc : Closed w S C)
    (ha : a.inSets w S C) (h : evalArg w a = (v, w')) : Good w w' S C ∧ v.inSets S C := by
  cases a with
  | none => simp [evalArg] at h; obtain ⟨rfl, rfl⟩ := h; exact ⟨Good.refl hc, trivial⟩
  | int n => simp [evalArg] at h; obtain ⟨rfl, rfl⟩ := h; exact ⟨Good.refl hc, trivial⟩
  | obj o => simp [evalArg] at h; obtain ⟨rfl, rfl⟩ := h; exact ⟨Good.refl hc, ha⟩
  | newList l =>
    simp [evalArg] at h; obtain ⟨rfl, rfl⟩ := h
    refine ⟨⟨hc, ⟨fun _ _ => rfl, ?_, rfl, ⟨[], by simp, by simp⟩, Nat.le_refl _, by simp⟩⟩, ha⟩
    intro c hcc
    have : c ≠ w.cells.length := fun e => hcc (e ▸ ha)
    show (w.cells ++ [l])[c]? = w.cells[c]?
    rcases Nat.lt_or_ge c w.cells.length with h1 | h1
    · exact List.getElem?_append_left h1
    · rw [List.getElem?_eq_none (by simp; omega), List.getElem?_eq_none h1]

theorem log_good {w : World} {S C : Nat → Prop} (hc : Closed w S C) (added : List (Nat × String))
    (h : ∀ e ∈ added, S e.1) : Good w { w with log := w.log ++ added } S C :=
  ⟨hc, ⟨fun _ _ => rfl, fun _ _ => rfl, rfl, ⟨added, rfl, h⟩, Nat.le_refl _, Nat.le_refl _⟩⟩

theorem runCallback_good {w : World} {S C : Nat → Prop} {cb : Option (Nat × Option String)}
    (hc : Closed w S C) (hf : Fresh w C) (h : ∀ c : Nat × Option String, cb = some c → S c.1) :
    Good w (w.runCallback cb) S C := by
  unfold World.runCallback
  split
  · exact Good.refl hc
  · rename_i obj attr
    split
    · exact updateDeps_good (h (obj, attr) rfl) _ w hc hf
    · exact Good.refl hc

theorem invoke_good {w w' : World} {S C : Nat → Prop} {wt : Watcher} {evs : List (String × Val × Val)}
    {inv : Option (Nat × String)} (hc : Closed w S C) (hf : Fresh w C) (hw : wt.inSet S)
    (h : invoke w wt evs = (w', inv)) : Good w w' S C ∧ ∀ e, inv = some e → S e.1 := by
  unfold invoke at h
  split at h
  · simp only at h
    have g := runCallback_good (cb := wt.fn.callback) hc hf hw.2.2
    simp at h; obtain ⟨rfl, rfl⟩ := h
    refine ⟨g, ?_⟩
    intro e he
    split at he
    · simp at he
    · simp at he; rw [← he]; exact hw.2.1
  · simp at h; obtain ⟨rfl, rfl⟩ := h
    exact ⟨Good.refl hc, fun e he => by simp at he; rw [← he]; exact hw.2.1⟩

theorem logOpt_good {w : World} {S C : Nat → Prop} (hc : Closed w S C) (inv : Option (Nat × String))
    (h : ∀ e, inv = some e → S e.1) : Good w (w.logInv inv) S C := by
  cases inv with
  | none => exact Good.refl hc
  | some e => exact log_good hc [e] (by intro x hx; simp at hx; rw [hx]; exact h e rfl)

theorem dispatch_good {S C : Nat → Prop} {p : String} {old new : Val} :
    ∀ (ws : List Watcher) (w : World), Closed w S C → Fresh w C → (∀ wt ∈ ws, wt.inSet S) →
    Good w (dispatch w p old new ws) S C
  | [], w, hc, _, _ => by simp only [dispatch]; exact Good.refl hc
  | wt :: rest, w, hc, hf, hws => by
    simp only [dispatch]
    split
    · exact dispatch_good rest w hc hf (fun x hx => hws x (by simp [hx]))
    · generalize hi : invoke w wt [(p, old, new)] = r
      obtain ⟨w1, inv⟩ := r
      obtain ⟨g1, hinv⟩ := invoke_good hc hf (hws wt (by simp)) hi
      simp only
      have g2 := logOpt_good g1.closed inv hinv
      exact (g1.trans g2).trans (dispatch_good rest _ g2.closed ((g1.trans g2).fresh hf) (fun x hx => hws x (by simp [hx])))

theorem flush_good {S C : Nat → Prop} {evs : List (String × Val × Val)} :
    ∀ (ws : List Watcher) (w : World), Closed w S C → Fresh w C → (∀ wt ∈ ws, wt.inSet S) →
    Good w (flush w evs ws) S C
  | [], w, hc, _, _ => by simp only [flush]; exact Good.refl hc
  | wt :: rest, w, hc, hf, hws => by
    simp only [flush]
    generalize hi : invoke w wt _ = r
    obtain ⟨w1, inv⟩ := r
    obtain ⟨g1, hinv⟩ := invoke_good hc hf (hws wt (by simp)) hi
    simp only
    have g2 := logOpt_good g1.closed inv hinv
    exact (g1.trans g2).trans (flush_good rest _ g2.closed ((g1.trans g2).fresh hf) (fun x hx => hws x (by simp [hx])))

theorem mem_insertByPrec {wt x : Watcher} : ∀ {l : List Watcher}, x ∈ insertByPrec wt l → x = wt ∨ x ∈ l
  | [], h => by simp [insertByPrec] at h; exact Or.inl h
  | y :: r, h => by
    simp only [insertByPrec] at h
    split at h
    · simp only [List.mem_cons] at h ⊢; exact h
    · simp only [List.mem_cons] at h ⊢
      rcases h with h | h
      · exact Or.inr (Or.inl h)
      · rcases mem_insertByPrec h with h | h
        · exact Or.inl h
        · exact Or.inr (Or.inr h)

theorem mem_sortByPrec {x : Watcher} : ∀ {l : List Watcher}, x ∈ sortByPrec l → x ∈ l
  | [], h => by simp [sortByPrec] at h
  | y :: r, h => by
    simp only [sortByPrec, List.foldr_cons] at h
    rcases mem_insertByPrec h with h | h
    · simp [h]
    · exact List.mem_cons_of_mem _ (mem_sortByPrec h)

theorem setCell_good {w : World} {S C : Nat → Prop} {c : Nat} (l : List Int) (hc : Closed w S C) (hcc : C c) :
    Good w { w with cells := w.cells.set c l } S C := by
  refine ⟨hc, ⟨fun _ _ => rfl, ?_, rfl, ⟨[], by simp, by simp⟩, Nat.le_refl _, by simp⟩⟩
  intro c' h
  show (w.cells.set c l)[c']? = _
  rw [List.getElem?_set_ne (fun (e : c = c') => h (by rw [← e]; exact hcc))]

theorem pcopy_slots_inC {w : World} {S C : Nat → Prop} {o : Nat} {p : String} {co cn : Nat}
    (hc : Closed w S C) (ho : S o)
    (h : (w.objs[o]?).bind (fun ob => (lookup ob.pcopies p).bind (·.slots)) = some (co, cn)) : C co ∧ C cn := by
  cases hob : w.objs[o]? with
  | none => simp [hob] at h
  | some ob =>
    simp only [hob, Option.bind_some] at h
    cases hl : lookup ob.pcopies p with
    | none => simp [hl] at h
    | some pc =>
      simp only [hl, Option.bind_some] at h
      exact ((hc o ob ho hob).pcopies _ (lookup_mem hl)).1 (co, cn) h

theorem ensureInObjects_good {w w' : World} {S C : Nat → Prop} {o : Nat} {p : String} {v : Val}
    (hc : Closed w S C) (ho : S o) (h : w.ensureInObjects o p v = some w') : Good w w' S C := by
  unfold World.ensureInObjects at h
  split at h
  · simp at h
  · split at h
    · simp at h; subst h; exact Good.refl hc
    · simp at h
    · split at h
      · rename_i n co cn hs
        split at h
        · simp at h; subst h; exact Good.refl hc
        · simp at h; subst h
          exact setCell_good _ hc (pcopy_slots_inC hc ho hs).1
      · simp at h

theorem watchersOf_inSet {w : World} {S C : Nat → Prop} {o : Nat} {p : String} (hc : Closed w S C) (ho : S o) :
    ∀ wt ∈ sortByPrec (((w.objs[o]?).bind (fun ob => lookup ob.watchers p)).getD []), wt.inSet S := by
  intro wt hwt
  have hwt' := mem_sortByPrec hwt
  cases hob : w.objs[o]? with
  | none => simp [hob] at hwt'
  | some ob =>
    cases hl : lookup ob.watchers p with
    | none => simp [hob, hl] at hwt'
    | some l =>
      simp [hob, hl] at hwt'
      exact (hc o ob ho hob).watchers _ (lookup_mem hl) wt hwt'

/-- `obj.p = v` on an object of a closed set with an argument from the set -/
theorem doSet_good {w w' : World} {S C : Nat → Prop} {o : Nat} {p : String} {a : Arg}
    (hc : Closed w S C) (ho : S o) (hf : Fresh w C) (ha : a.inSets w S C) (h : doSet w o p a = .ok w') :
    Good w w' S C := by
  unfold doSet at h
  split at h
  · simp at h
  · split at h
    · simp at h
    · rename_i c _
      split at h
      · generalize hev : evalArg w a = r at h
        obtain ⟨v, w1⟩ := r
        obtain ⟨g1, hv⟩ := evalArg_good hc ha hev
        simp only at h
        have g2 := touchParam_good (p := p) g1.closed ho (g1.fresh hf)
        split at h
        · rename_i old w2 _ hens
          have g2' := ensureInObjects_good g2.closed ho hens
          have g3 : Good w2 (w2.setObj o fun ob => { ob with values := insert ob.values p v }) S C :=
            setObj_good g2'.closed ho (fun ob _ hh => ⟨fun kv hkv => by
              rcases mem_insert hkv with rfl | hm
              · exact hv
              · exact hh.values kv hm, hh.attrs, hh.watchers, hh.dyn, hh.pcopies⟩)
          have g0123 := ((g1.trans g2).trans g2').trans g3
          have g4 := updateDeps_good (attr := some p) ho c.methods _ g3.closed (g0123.fresh hf)
          simp at h
          subst h
          exact (g0123.trans g4).trans (dispatch_good _ _ g4.closed ((g0123.trans g4).fresh hf)
            (watchersOf_inSet g4.closed ho))
        · simp at h
      · simp at h

theorem queue_grow {S : Nat → Prop} : ∀ (ws q : List Watcher), (∀ wt ∈ ws, wt.inSet S) → (∀ wt ∈ q, wt.inSet S) →
    ∀ wt ∈ ws.foldl (fun q wt => if wt ∈ q then q else q ++ [wt]) q, wt.inSet S
  | [], q, _, hq => by simpa using hq
  | x :: rest, q, hws, hq => by
    simp only [List.foldl_cons]
    refine queue_grow rest _ (fun wt hwt => hws wt (by simp [hwt])) ?_
    intro wt hwt
    split at hwt
    · exact hq wt hwt
    · simp only [List.mem_append, List.mem_singleton] at hwt
      rcases hwt with hwt | rfl
      · exact hq wt hwt
      · exact hws _ (by simp)

/-- one assignment inside a batch keeps the set closed; what it queues belongs to the set -/
theorem updateOne_good {w w' : World} {S C : Nat → Prop} {o : Nat} {c : ClassDef} {p : String} {a : Arg}
    {evs evs' : List (String × Val × Val)} {q q' : List Watcher}
    (hc : Closed w S C) (ho : S o) (hf : Fresh w C) (ha : a.inSets w S C) (hq : ∀ wt ∈ q, wt.inSet S)
    (h : updateOne w o c p a evs q = some (w', evs', q')) :
    Good w w' S C ∧ ∀ wt ∈ q', wt.inSet S := by
  unfold updateOne at h
  split at h
  · generalize hev : evalArg w a = r at h
    obtain ⟨v, w1⟩ := r
    obtain ⟨g1, hv⟩ := evalArg_good hc ha hev
    simp only at h
    have g2 := touchParam_good (p := p) g1.closed ho (g1.fresh hf)
    split at h
    · rename_i old w2 _ hens
      have g2' := ensureInObjects_good g2.closed ho hens
      have g3 : Good w2 (w2.setObj o fun ob => { ob with values := insert ob.values p v }) S C :=
        setObj_good g2'.closed ho (fun ob _ hh => ⟨fun kv hkv => by
          rcases mem_insert hkv with rfl | hm
          · exact hv
          · exact hh.values kv hm, hh.attrs, hh.watchers, hh.dyn, hh.pcopies⟩)
      have g0123 := ((g1.trans g2).trans g2').trans g3
      have g4 := updateDeps_good (attr := some p) ho c.methods _ g3.closed (g0123.fresh hf)
      have hws := watchersOf_inSet (p := p) g4.closed ho
      split at h
      · simp at h; obtain ⟨rfl, _, rfl⟩ := h
        exact ⟨g0123.trans g4, hq⟩
      · simp at h; obtain ⟨rfl, _, rfl⟩ := h
        refine ⟨g0123.trans g4, ?_⟩
        exact queue_grow _ _ hws hq
    · simp at h
  · simp at h

/-- the arguments of a batched update stay inside `S`/`C` (each evaluated when its turn comes) -/
def kvsIn (S C : Nat → Prop) : List (String × Arg) → Prop
  | [] => True
  | (_, a) :: rest => (match a with | .obj o => S o | _ => True) ∧ kvsIn S C rest

theorem updateLoop_good {S C : Nat → Prop} {o : Nat} {c : ClassDef} (ho : S o) :
    ∀ (kvs : List (String × Arg)) (w w' : World) (evs evs' : List (String × Val × Val)) (q q' : List Watcher),
    Closed w S C → Fresh w C → kvsIn S C kvs → (∀ wt ∈ q, wt.inSet S) →
    updateLoop w o c kvs evs q = some (w', evs', q') → Good w w' S C ∧ ∀ wt ∈ q', wt.inSet S
  | [], w, w', evs, evs', q, q', hc, _, _, hq, h => by
    simp [updateLoop] at h; obtain ⟨rfl, _, rfl⟩ := h; exact ⟨Good.refl hc, hq⟩
  | (p, a) :: rest, w, w', evs, evs', q, q', hc, hf, hk, hq, h => by
    simp only [updateLoop] at h
    split at h
    · rename_i w1 evs1 q1 h1
      have ha : a.inSets w S C := by
        cases a with
        | obj x => exact hk.1
        | newList l => exact hf _ (Nat.le_refl _)
        | none => trivial
        | int n => trivial
      obtain ⟨g1, hq1⟩ := updateOne_good hc ho hf ha hq h1
      obtain ⟨g2, hq2⟩ := updateLoop_good ho rest w1 w' evs1 evs' q1 q' g1.closed (g1.fresh hf) hk.2 hq1 h
      exact ⟨g1.trans g2, hq2⟩
    · simp at h

theorem doUpdate_good {w w' : World} {S C : Nat → Prop} {o : Nat} {kvs : List (String × Arg)}
    (hc : Closed w S C) (ho : S o) (hf : Fresh w C) (hk : kvsIn S C kvs) (h : doUpdate w o kvs = .ok w') :
    Good w w' S C := by
  unfold doUpdate at h
  split at h
  · simp at h
  · rename_i c _
    split at h
    · simp at h
    · rename_i w1 evs queued hl
      simp at h; subst h
      obtain ⟨g1, hq⟩ := updateLoop_good (c := c) ho kvs w w1 [] evs [] queued hc hf hk (by simp) hl
      exact g1.trans (flush_good _ _ g1.closed (g1.fresh hf) (fun wt hwt => hq wt (mem_sortByPrec hwt)))

theorem doSelAdd_good {w w' : World} {S C : Nat → Prop} {o : Nat} {p : String} {n : Int}
    (hc : Closed w S C) (ho : S o) (hf : Fresh w C) (h : doSelAdd w o p n = .ok w') : Good w w' S C := by
  unfold doSelAdd at h
  have g1 := touchParam_good (p := p) hc ho hf
  cases hl : ((w.touchParam o p).objs[o]?).bind (fun ob => lookup ob.pcopies p) with
  | none => simp [hl] at h
  | some pc =>
    simp only [hl] at h
    split at h
    · rename_i co cn d hs _
      have hcc : C co ∧ C cn := by
        refine pcopy_slots_inC (p := p) g1.closed ho ?_
        cases hob : (w.touchParam o p).objs[o]? with
        | none => simp [hob] at hl
        | some ob =>
          simp only [hob, Option.bind_some] at hl ⊢
          rw [hl]; exact hs
      split at h
      · split at h
        · simp at h; subst h; exact g1
        · simp at h; subst h
          have g2 := setCell_good (w := w.touchParam o p) (deref (w.touchParam o p).cells co ++ [n]) g1.closed hcc.1
          have g3 := setCell_good (w := { (w.touchParam o p) with cells := (w.touchParam o p).cells.set co (deref (w.touchParam o p).cells co ++ [n]) })
            (deref (w.touchParam o p).cells cn ++ [n]) g2.closed hcc.2
          exact (g1.trans g2).trans g3
      · simp at h
    · simp at h

theorem doMutate_good {w w' : World} {S C : Nat → Prop} {o : Nat} {p : String} {n : Int}
    (hc : Closed w S C) (ho : S o) (h : doMutate w o p n = .ok w') : Good w w' S C := by
  unfold doMutate at h
  split at h
  · rename_i c hg
    simp at h; subst h
    exact setCell_good _ hc (getVal_inSets hc ho hg)
  · simp at h

theorem doPEdit_good {w w' : World} {S C : Nat → Prop} {o : Nat} {p : String} {e : PEdit}
    (hc : Closed w S C) (ho : S o) (hf : Fresh w C) (h : doPEdit w o p e = .ok w') : Good w w' S C := by
  unfold doPEdit at h
  have g1 := touchParam_good (p := p) hc ho hf
  cases hl : ((w.touchParam o p).objs[o]?).bind (fun ob => lookup ob.pcopies p) with
  | none => simp [hl] at h
  | some pc =>
    simp only [hl] at h
    -- the copy `pc` is the one stored in the object: its references are inside `S`/`C`
    have hpcIn : (∀ s : Nat × Nat, pc.slots = some s → C s.1 ∧ C s.2) ∧ (∀ wt ∈ pc.swatchers, wt.inSet S) := by
      cases hob : (w.touchParam o p).objs[o]? with
      | none => simp [hob] at hl
      | some ob =>
        simp only [hob, Option.bind_some] at hl
        exact (g1.closed o ob ho hob).pcopies _ (lookup_mem hl)
    have hset : ∀ pc' : PCopy, pc'.slots = pc.slots → pc'.swatchers = pc.swatchers →
        Good (w.touchParam o p) ((w.touchParam o p).setObj o fun ob => { ob with pcopies := insert ob.pcopies p pc' }) S C := by
      intro pc' h1 h2
      refine setObj_good g1.closed ho (fun ob _ hh => ⟨hh.values, hh.attrs, hh.watchers, hh.dyn, ?_⟩)
      intro kv hkv
      rcases mem_insert hkv with rfl | hm
      · simp only [h1, h2]; exact hpcIn
      · exact hh.pcopies kv hm
    cases e with
    | bounds b =>
      simp only at h
      have g2 := hset { pc with bounds := b } rfl rfl
      split at h
      · simp at h; subst h; exact g1.trans g2
      · simp at h; subst h
        refine (g1.trans g2).trans (log_good g2.closed _ ?_)
        intro e he
        simp only [List.mem_map] at he
        obtain ⟨wt, hwt, rfl⟩ := he
        exact (hpcIn.2 wt hwt).2.1
    | constant b =>
      simp at h; subst h
      exact g1.trans (hset { pc with constant := b } rfl rfl)

theorem doSetAttr_good {w w' : World} {S C : Nat → Prop} {o : Nat} {name : String} {a : Arg}
    (hc : Closed w S C) (ho : S o) (ha : a.inSets w S C) (h : doSetAttr w o name a = .ok w') : Good w w' S C := by
  unfold doSetAttr at h
  split at h
  · simp at h
  · generalize hev : evalArg w a = r at h
    obtain ⟨v, w1⟩ := r
    obtain ⟨g1, hv⟩ := evalArg_good hc ha hev
    simp at h; subst h
    exact g1.trans (setObj_good g1.closed ho (fun ob _ hh => ⟨hh.values, fun kv hkv => by
      rcases mem_insert hkv with rfl | hm
      · exact hv
      · exact hh.attrs kv hm, hh.watchers, hh.dyn, hh.pcopies⟩))

theorem doMutAttr_good {w w' : World} {S C : Nat → Prop} {o : Nat} {name : String} {n : Int}
    (hc : Closed w S C) (ho : S o) (h : doMutAttr w o name n = .ok w') : Good w w' S C := by
  unfold doMutAttr at h
  split at h
  · rename_i c hg
    simp at h; subst h
    refine setCell_good _ hc ?_
    cases hob : w.objs[o]? with
    | none => simp [hob] at hg
    | some ob =>
      simp [hob] at hg
      exact (hc o ob ho hob).attrs _ (lookup_mem hg)
  · simp at h

theorem doWatch_good {w w' : World} {S C : Nat → Prop} {o t : Nat} {p : List String} {cb : String}
    (hc : Closed w S C) (ho : S o) (ht : S t) (h : doWatch w o p t cb = .ok w') : Good w w' S C := by
  unfold doWatch at h
  split at h
  · split at h
    · simp at h; subst h
      have g1 := nextPid_good hc (w.nextPid + 1)
      have g2 : Good _ (World.addWatcher { w with nextPid := w.nextPid + 1 }
          ⟨o, ⟨.bound, t, cb, Option.none, 0, Option.none⟩, p, 0, w.nextPid⟩) S C :=
        addWatcher_good g1.closed ⟨ho, ht, by simp⟩
      exact g1.trans g2
    · simp at h
  · simp at h

/-- which objects an operation involves besides creating new ones, and whether its arguments stay in `S`/`C` -/
def Op.inSets (w : World) (S C : Nat → Prop) : Op → Prop
  | .new _ _ => False
  | .set o _ a => S o ∧ a.inSets w S C
  | .mutate o _ _ => S o
  | .pedit o _ _ => S o
  | .setAttr o _ a => S o ∧ a.inSets w S C
  | .mutAttr o _ _ => S o
  | .watch o _ t _ => S o ∧ S t
  | .selAdd o _ _ => S o
  | .watchPartial o _ t _ => S o ∧ S t
  | .watchSlot o _ t _ => S o ∧ S t
  | .update o kvs => S o ∧ kvsIn S C kvs

theorem doWatchPartial_good {w w' : World} {S C : Nat → Prop} {o t : Nat} {p cb : String}
    (hc : Closed w S C) (ho : S o) (ht : S t) (h : doWatchPartial w o p t cb = .ok w') : Good w w' S C := by
  unfold doWatchPartial at h
  split at h
  · split at h
    · simp at h; subst h
      have g1 := nextPid_good hc (w.nextPid + 1)
      have g2 : Good _ (World.addWatcher { w with nextPid := w.nextPid + 1 }
          ⟨o, ⟨.partialFn, t, cb, Option.none, w.nextPid, Option.none⟩, [p], 0, 0⟩) S C :=
        addWatcher_good g1.closed ⟨ho, ht, by simp⟩
      exact g1.trans g2
    · simp at h
  · simp at h

theorem doWatchSlot_good {w w' : World} {S C : Nat → Prop} {o t : Nat} {p cb : String}
    (hc : Closed w S C) (ho : S o) (ht : S t) (hf : Fresh w C) (h : doWatchSlot w o p t cb = .ok w') :
    Good w w' S C := by
  unfold doWatchSlot at h
  have g1 := touchParam_good (p := p) hc ho hf
  simp only at h
  cases hl : ((w.touchParam o p).objs[o]?).bind (fun ob => lookup ob.pcopies p) with
  | none => simp [hl] at h
  | some pc =>
    cases htt : (w.touchParam o p).objs[t]? with
    | none => simp [hl, htt] at h
    | some tt =>
      simp only [hl, htt] at h
      split at h
      · simp at h; subst h
        have hpcIn : (∀ s : Nat × Nat, pc.slots = some s → C s.1 ∧ C s.2) ∧ (∀ wt ∈ pc.swatchers, wt.inSet S) := by
          cases hob : (w.touchParam o p).objs[o]? with
          | none => simp [hob] at hl
          | some ob =>
            simp only [hob, Option.bind_some] at hl
            exact (g1.closed o ob ho hob).pcopies _ (lookup_mem hl)
        have g1' := nextPid_good g1.closed ((w.touchParam o p).nextPid + 1)
        refine (g1.trans g1').trans (setObj_good g1'.closed ho (fun ob _ hh => ⟨hh.values, hh.attrs, hh.watchers, hh.dyn, ?_⟩))
        intro kv hkv
        rcases mem_insert hkv with rfl | hm
        · refine ⟨hpcIn.1, ?_⟩
          intro wt hwt
          simp only [List.mem_append, List.mem_singleton] at hwt
          rcases hwt with hwt | rfl
          · exact hpcIn.2 wt hwt
          · exact ⟨ho, ht, by simp⟩
        · exact hh.pcopies kv hm
      · simp at h

/-- every operation on objects of a closed set (other than constructing a new object) keeps the set
closed, changes nothing outside it and invokes only methods of its objects -/
theorem step_good {w w' : World} {S C : Nat → Prop} {op : Op} (hc : Closed w S C) (hf : Fresh w C)
    (hop : op.inSets w S C) (h : step w op = .ok w') : Good w w' S C := by
  cases op with
  | new cls kw => exact absurd hop (by simp [Op.inSets])
  | set o p a => exact doSet_good hc hop.1 hf hop.2 h
  | mutate o p n => exact doMutate_good hc hop h
  | pedit o p e => exact doPEdit_good hc hop hf h
  | setAttr o name a => exact doSetAttr_good hc hop.1 hop.2 h
  | mutAttr o name n => exact doMutAttr_good hc hop h
  | watch o p t cb => exact doWatch_good hc hop.1 hop.2 h
  | selAdd o p n => exact doSelAdd_good hc hop hf h
  | watchPartial o p t cb => exact doWatchPartial_good hc hop.1 hop.2 h
  | watchSlot o p t cb => exact doWatchSlot_good hc hop.1 hop.2 hf h
  | update o kvs => exact doUpdate_good hc hop.1 hf hop.2 h

/-! ## `__setstate__` and the graph copy -/

theorem rebindWatcher_spec {pol : Policy} {cls : Option ClassDef} {self : Nat} {wt wt' : Watcher} {pid pid' : Nat}
    (h : rebindWatcher pol cls self wt pid = .ok (wt', pid')) :
    wt'.inst = self ∧ ((wt'.fn.owner = self ∧ (wt'.fn.callback = Option.none ∨ wt'.fn.callback = wt.fn.callback)) ∨ wt'.fn = wt.fn) ∧
      wt'.names = wt.names ∧ wt'.precedence = wt.precedence := by
  unfold rebindWatcher at h
  cases hk : wt.fn.kind <;> simp only [hk] at h
  · by_cases hr : pol.redo wt.fn.owner self = true
    · simp only [hr, if_true] at h
      cases cls with
      | none => simp at h
      | some c =>
        by_cases ha : c.hasAttr wt.fn.method = true
        · simp [ha] at h; obtain ⟨rfl, _⟩ := h; exact ⟨rfl, Or.inl ⟨rfl, Or.inl rfl⟩, rfl, rfl⟩
        · simp [ha] at h
    · simp [hr] at h; obtain ⟨rfl, _⟩ := h; exact ⟨rfl, Or.inr rfl, rfl, rfl⟩
  · by_cases ho : wt.fn.owner = wt.inst
    · simp [ho] at h; obtain ⟨rfl, _⟩ := h; exact ⟨rfl, Or.inl ⟨rfl, Or.inr rfl⟩, rfl, rfl⟩
    · simp [ho] at h; obtain ⟨rfl, _⟩ := h; exact ⟨rfl, Or.inr rfl, rfl, rfl⟩
  · simp at h; obtain ⟨rfl, _⟩ := h; exact ⟨rfl, Or.inr rfl, rfl, rfl⟩

theorem rebindList_spec {pol : Policy} {cls : Option ClassDef} {self : Nat} :
    ∀ {l out : List Watcher} {pid pid' : Nat}, rebindList pol cls self l pid = .ok (out, pid') →
    ∀ wt' ∈ out, wt'.inst = self ∧ ((wt'.fn.owner = self ∧ (wt'.fn.callback = Option.none ∨ ∃ wt ∈ l, wt'.fn.callback = wt.fn.callback)) ∨
      ∃ wt ∈ l, wt'.fn = wt.fn)
  | [], out, pid, pid', h => by simp [rebindList] at h; obtain ⟨rfl, _⟩ := h; simp
  | wt :: rest, out, pid, pid', h => by
    simp only [rebindList] at h
    split at h
    · simp at h
    · rename_i wt1 pid1 h1
      split at h
      · simp at h
      · rename_i rest' pid2 h2
        simp at h; obtain ⟨rfl, _⟩ := h
        intro wt' hwt'
        simp only [List.mem_cons] at hwt'
        rcases hwt' with rfl | hm
        · obtain ⟨a, b, _⟩ := rebindWatcher_spec h1
          exact ⟨a, b.imp (fun ⟨h1, h2⟩ => ⟨h1, h2.imp id (fun e => ⟨wt, by simp, e⟩)⟩) (fun e => ⟨wt, by simp, e⟩)⟩
        · obtain ⟨a, b⟩ := rebindList_spec h2 wt' hm
          exact ⟨a, b.imp (fun ⟨h1, h2⟩ => ⟨h1, h2.imp id (fun ⟨x, hx, e⟩ => ⟨x, by simp [hx], e⟩)⟩)
            (fun ⟨x, hx, e⟩ => ⟨x, by simp [hx], e⟩)⟩

theorem rebindTable_spec {pol : Policy} {cls : Option ClassDef} {self : Nat} :
    ∀ {t out : List (String × List Watcher)} {pid pid' : Nat}, rebindTable pol cls self t pid = .ok (out, pid') →
    ∀ kv' ∈ out, ∀ wt' ∈ kv'.2, wt'.inst = self ∧
      ((wt'.fn.owner = self ∧ (wt'.fn.callback = Option.none ∨ ∃ kv ∈ t, ∃ wt ∈ kv.2, wt'.fn.callback = wt.fn.callback)) ∨
       ∃ kv ∈ t, ∃ wt ∈ kv.2, wt'.fn = wt.fn)
  | [], out, pid, pid', h => by simp [rebindTable] at h; obtain ⟨rfl, _⟩ := h; simp
  | (p, ws) :: rest, out, pid, pid', h => by
    simp only [rebindTable] at h
    split at h
    · simp at h
    · rename_i ws' pid1 h1
      split at h
      · simp at h
      · rename_i rest' pid2 h2
        simp at h; obtain ⟨rfl, _⟩ := h
        intro kv' hkv' wt' hwt'
        simp only [List.mem_cons] at hkv'
        rcases hkv' with rfl | hm
        · obtain ⟨a, b⟩ := rebindList_spec h1 wt' hwt'
          exact ⟨a, b.imp (fun ⟨h1, h2⟩ => ⟨h1, h2.imp id (fun ⟨x, hx, e⟩ => ⟨(p, ws), by simp, x, hx, e⟩)⟩)
            (fun ⟨x, hx, e⟩ => ⟨(p, ws), by simp, x, hx, e⟩)⟩
        · obtain ⟨a, b⟩ := rebindTable_spec h2 kv' hm wt' hwt'
          exact ⟨a, b.imp (fun ⟨h1, h2⟩ => ⟨h1, h2.imp id (fun ⟨kv, hkv, x, hx, e⟩ => ⟨kv, by simp [hkv], x, hx, e⟩)⟩)
            (fun ⟨kv, hkv, x, hx, e⟩ => ⟨kv, by simp [hkv], x, hx, e⟩)⟩

/-- what `__setstate__` may have done to the copied state `ob` of the object now at address `self` -/
def Rebound (self : Nat) (ob ob' : Obj) : Prop :=
  ob' = ob ∨ ∃ t, ob' = { ob with watchers := t } ∧
    ∀ kv' ∈ t, ∀ wt' ∈ kv'.2, wt'.inst = self ∧
      ((wt'.fn.owner = self ∧ (wt'.fn.callback = Option.none ∨ ∃ kv ∈ ob.watchers, ∃ wt ∈ kv.2, wt'.fn.callback = wt.fn.callback)) ∨
       ∃ kv ∈ ob.watchers, ∃ wt ∈ kv.2, wt'.fn = wt.fn)

theorem setstate_spec {pol : Policy} {classes : List ClassDef} {self : Nat} {ob ob' : Obj} {pid pid' : Nat}
    (h : setstate pol classes self ob pid = .ok (ob', pid')) : Rebound self ob ob' := by
  unfold setstate at h
  split at h
  · simp at h
  · rename_i t pid1 h1
    simp at h; obtain ⟨rfl, _⟩ := h
    exact Or.inr ⟨t, rfl, rebindTable_spec h1⟩

theorem setstateAll_spec {pol : Policy} {classes : List ClassDef} {R : List Nat} {no : Nat} :
    ∀ {l out : List Obj} {i pid pid' : Nat}, setstateAll pol classes R no l i pid = .ok (out, pid') →
    out.length = l.length ∧ ∀ (j : Nat) (ob' : Obj), out[j]? = some ob' → ∃ ob, l[j]? = some ob ∧ Rebound (no + (i + j)) ob ob'
  | [], out, i, pid, pid', h => by simp [setstateAll] at h; obtain ⟨rfl, _⟩ := h; simp
  | ob :: rest, out, i, pid, pid', h => by
    simp only [setstateAll] at h
    split at h
    · split at h
      · simp at h
      · rename_i ob1 pid1 h1
        split at h
        · simp at h
        · rename_i rest' pid2 h2
          simp at h; obtain ⟨rfl, _⟩ := h
          obtain ⟨hl, hp⟩ := setstateAll_spec h2
          refine ⟨by simp [hl], ?_⟩
          intro j ob' hj
          cases j with
          | zero => simp at hj; subst hj; exact ⟨ob, by simp, by simpa using setstate_spec h1⟩
          | succ j =>
            simp at hj
            obtain ⟨ob0, h0, hr⟩ := hp j ob' hj
            exact ⟨ob0, by simpa using h0, by have : i + 1 + j = i + (j + 1) := by omega
                                              rw [this] at hr; exact hr⟩
    · split at h
      · simp at h
      · rename_i rest' pid2 h2
        simp at h; obtain ⟨rfl, _⟩ := h
        obtain ⟨hl, hp⟩ := setstateAll_spec h2
        refine ⟨by simp [hl], ?_⟩
        intro j ob' hj
        cases j with
        | zero => simp at hj; subst hj; exact ⟨ob, by simp, Or.inl rfl⟩
        | succ j =>
          simp at hj
          obtain ⟨ob0, h0, hr⟩ := hp j ob' hj
          exact ⟨ob0, by simpa using h0, by have : i + 1 + j = i + (j + 1) := by omega
                                            rw [this] at hr; exact hr⟩

/-- the shape of a successful copy -/
theorem copyGraph_spec {pol : Policy} {w w' : World} {root r' : Nat} (h : copyGraph pol w root = .ok (w', r')) :
    r' = w.objs.length + root ∧ w'.classes = w.classes ∧ w'.cells = w.cells ++ w.cells ∧ w'.log = w.log ∧
    ∃ copies, w'.objs = w.objs ++ copies ∧ copies.length = w.objs.length ∧
      ∀ (i : Nat) (ob' : Obj), copies[i]? = some ob' →
        ∃ ob, w.objs[i]? = some ob ∧ Rebound (w.objs.length + i) (renObj w.objs.length w.cells.length w.nextPid ob) ob' := by
  unfold copyGraph at h
  split at h
  · simp at h
  · simp only at h
    split at h
    · simp at h
    · rename_i copies pid hs
      simp at h; obtain ⟨rfl, rfl⟩ := h
      obtain ⟨hl, hp⟩ := setstateAll_spec hs
      refine ⟨rfl, rfl, rfl, rfl, copies, rfl, by simpa using hl, ?_⟩
      intro i ob' hi
      obtain ⟨ob0, h0, hr⟩ := hp i ob' hi
      simp only [List.getElem?_map] at h0
      cases hob : w.objs[i]? with
      | none => simp [hob] at h0
      | some ob =>
        simp [hob] at h0; subst h0
        exact ⟨ob, rfl, by simpa using hr⟩


/-- every method caller that `__setstate__` would re-create on `self` names an attribute of `self`'s class -/
def Resolvable (pol : Policy) (c : ClassDef) (self : Nat) (ob : Obj) : Prop :=
  ∀ kv ∈ ob.watchers, ∀ wt ∈ kv.2, wt.fn.kind = .mcaller → pol.redo wt.fn.owner self = true → c.hasAttr wt.fn.method = true

theorem rebindWatcher_ok {pol : Policy} {cls : ClassDef} {self : Nat} {wt : Watcher} (pid : Nat)
    (h : wt.fn.kind = .mcaller → pol.redo wt.fn.owner self = true → cls.hasAttr wt.fn.method = true) :
    ∃ r, rebindWatcher pol cls self wt pid = .ok r := by
  unfold rebindWatcher
  cases hk : wt.fn.kind <;> simp only
  · by_cases hr : pol.redo wt.fn.owner self = true
    · simp [hr, h hk hr]
    · simp [hr]
  · split <;> exact ⟨_, rfl⟩
  · exact ⟨_, rfl⟩

theorem rebindList_ok {pol : Policy} {cls : ClassDef} {self : Nat} : ∀ (l : List Watcher) (pid : Nat),
    (∀ wt ∈ l, wt.fn.kind = .mcaller → pol.redo wt.fn.owner self = true → cls.hasAttr wt.fn.method = true) →
    ∃ r, rebindList pol cls self l pid = .ok r
  | [], pid, _ => ⟨_, rfl⟩
  | wt :: rest, pid, h => by
    obtain ⟨⟨wt1, pid1⟩, h1⟩ := rebindWatcher_ok (pol := pol) (cls := cls) (self := self) pid (h wt (by simp))
    obtain ⟨⟨r2, pid2⟩, h2⟩ := rebindList_ok rest pid1 (fun x hx => h x (by simp [hx]))
    simp only [rebindList, h1, h2]; exact ⟨_, rfl⟩

theorem rebindTable_ok {pol : Policy} {cls : ClassDef} {self : Nat} : ∀ (t : List (String × List Watcher)) (pid : Nat),
    (∀ kv ∈ t, ∀ wt ∈ kv.2, wt.fn.kind = .mcaller → pol.redo wt.fn.owner self = true → cls.hasAttr wt.fn.method = true) →
    ∃ r, rebindTable pol cls self t pid = .ok r
  | [], pid, _ => ⟨_, rfl⟩
  | (p, ws) :: rest, pid, h => by
    obtain ⟨⟨ws1, pid1⟩, h1⟩ := rebindList_ok (pol := pol) (cls := cls) (self := self) ws pid (h (p, ws) (by simp))
    obtain ⟨⟨r2, pid2⟩, h2⟩ := rebindTable_ok rest pid1 (fun x hx => h x (by simp [hx]))
    simp only [rebindTable, h1, h2]; exact ⟨_, rfl⟩

theorem setstate_ok {pol : Policy} {classes : List ClassDef} {self : Nat} {ob : Obj} {c : ClassDef} (pid : Nat)
    (hc : classes[ob.cls]? = some c) (h : Resolvable pol c self ob) :
    ∃ r, setstate pol classes self ob pid = .ok r := by
  obtain ⟨⟨t, pid1⟩, h1⟩ := rebindTable_ok (pol := pol) (cls := c) (self := self) ob.watchers pid h
  simp only [setstate, hc, h1]; exact ⟨_, rfl⟩

theorem setstateAll_ok {pol : Policy} {classes : List ClassDef} {R : List Nat} {no : Nat} :
    ∀ (l : List Obj) (i pid : Nat),
    (∀ (j : Nat) (ob : Obj), l[j]? = some ob → (i + j) ∈ R →
      ∃ c, classes[ob.cls]? = some c ∧ Resolvable pol c (no + (i + j)) ob) →
    ∃ r, setstateAll pol classes R no l i pid = .ok r
  | [], i, pid, _ => ⟨_, rfl⟩
  | ob :: rest, i, pid, h => by
    have hrest : ∀ pid', ∃ r, setstateAll pol classes R no rest (i + 1) pid' = .ok r := fun pid' =>
      setstateAll_ok rest (i + 1) pid' (fun j ob' hj hR => by
        have e : i + 1 + j = i + (j + 1) := by omega
        rw [e] at hR ⊢
        exact h (j + 1) ob' (by simpa using hj) hR)
    simp only [setstateAll]
    by_cases hi : i ∈ R
    · obtain ⟨c, hc, hres⟩ := h 0 ob (by simp) (by simpa using hi)
      obtain ⟨⟨ob1, pid1⟩, h1⟩ := setstate_ok (pol := pol) (self := no + i) pid hc (by simpa using hres)
      obtain ⟨⟨r2, pid2⟩, h2⟩ := hrest pid1
      simp only [hi, if_true, h1, h2]; exact ⟨_, rfl⟩
    · obtain ⟨⟨r2, pid2⟩, h2⟩ := hrest pid
      simp only [hi, if_false, h2]; exact ⟨_, rfl⟩

theorem renObj_watchers {no nc np : Nat} {ob : Obj} {kv : String × List Watcher} {wt : Watcher}
    (hkv : kv ∈ (renObj no nc np ob).watchers) (hwt : wt ∈ kv.2) :
    ∃ kv0 ∈ ob.watchers, ∃ wt0 ∈ kv0.2, wt = renWatcher no np wt0 := by
  simp only [renObj, List.mem_map] at hkv
  obtain ⟨kv0, hkv0, rfl⟩ := hkv
  simp only [List.mem_map] at hwt
  obtain ⟨wt0, hwt0, rfl⟩ := hwt
  exact ⟨kv0, hkv0, wt0, hwt0, rfl⟩

/-- the copy succeeds when `__setstate__` can resolve every method caller it re-creates, on every
object reachable from the root -/
theorem copyGraph_ok {pol : Policy} {w : World} {root : Nat} (hroot : root < w.objs.length)
    (h : ∀ i ∈ reach w root, ∀ ob, w.objs[i]? = some ob → ∃ c, w.classes[ob.cls]? = some c ∧
      ∀ kv ∈ ob.watchers, ∀ wt ∈ kv.2, wt.fn.kind = .mcaller →
        pol.redo (w.objs.length + wt.fn.owner) (w.objs.length + i) = true → c.hasAttr wt.fn.method = true) :
    ∃ r, copyGraph pol w root = .ok r := by
  unfold copyGraph
  have hr : ∃ ob, w.objs[root]? = some ob := ⟨w.objs[root], by simp [hroot]⟩
  obtain ⟨ob, hob⟩ := hr
  simp only [hob]
  obtain ⟨⟨copies, pid⟩, hs⟩ := setstateAll_ok (pol := pol) (classes := w.classes) (R := reach w root) (no := w.objs.length)
    (w.objs.map (renObj w.objs.length w.cells.length w.nextPid)) 0 (w.nextPid + w.nextPid) (by
      intro j ob' hj hR
      simp only [List.getElem?_map] at hj
      cases hoj : w.objs[j]? with
      | none => simp [hoj] at hj
      | some ob0 =>
        simp [hoj] at hj; subst hj
        obtain ⟨c, hc, hres⟩ := h j (by simpa using hR) ob0 hoj
        refine ⟨c, by simpa [renObj] using hc, ?_⟩
        intro kv hkv wt hwt hk hredo
        obtain ⟨kv0, hkv0, wt0, hwt0, rfl⟩ := renObj_watchers hkv hwt
        have hk0 : wt0.fn.kind = .mcaller := by simpa [renWatcher, renCaller] using hk
        have := hres kv0 hkv0 wt0 hwt0 hk0 (by simpa [renWatcher, renCaller] using hredo)
        simpa [renWatcher, renCaller] using this)
  simp only [hs]; exact ⟨_, rfl⟩

/-! ### the current `__setstate__` (`.unbound`) never fails -/

theorem rebindWatcher_unbound (cls : Option ClassDef) (self : Nat) (wt : Watcher) (pid : Nat) :
    ∃ r, rebindWatcher .unbound cls self wt pid = .ok r := by
  unfold rebindWatcher
  cases hk : wt.fn.kind <;> simp only [Policy.redo]
  · exact ⟨_, rfl⟩
  · split <;> exact ⟨_, rfl⟩
  · exact ⟨_, rfl⟩

theorem rebindList_unbound (cls : Option ClassDef) (self : Nat) : ∀ (l : List Watcher) (pid : Nat),
    ∃ r, rebindList .unbound cls self l pid = .ok r
  | [], pid => ⟨_, rfl⟩
  | wt :: rest, pid => by
    obtain ⟨⟨wt1, pid1⟩, h1⟩ := rebindWatcher_unbound cls self wt pid
    obtain ⟨⟨r2, pid2⟩, h2⟩ := rebindList_unbound cls self rest pid1
    simp only [rebindList, h1, h2]; exact ⟨_, rfl⟩

theorem rebindTable_unbound (cls : Option ClassDef) (self : Nat) : ∀ (t : List (String × List Watcher)) (pid : Nat),
    ∃ r, rebindTable .unbound cls self t pid = .ok r
  | [], pid => ⟨_, rfl⟩
  | (p, ws) :: rest, pid => by
    obtain ⟨⟨ws1, pid1⟩, h1⟩ := rebindList_unbound cls self ws pid
    obtain ⟨⟨r2, pid2⟩, h2⟩ := rebindTable_unbound cls self rest pid1
    simp only [rebindTable, h1, h2]; exact ⟨_, rfl⟩

theorem setstate_unbound (classes : List ClassDef) (self : Nat) (ob : Obj) (pid : Nat) :
    ∃ r, setstate .unbound classes self ob pid = .ok r := by
  obtain ⟨⟨t, pid1⟩, h1⟩ := rebindTable_unbound classes[ob.cls]? self ob.watchers pid
  simp only [setstate, h1]; exact ⟨_, rfl⟩

theorem setstateAll_unbound (classes : List ClassDef) (R : List Nat) (no : Nat) : ∀ (l : List Obj) (i pid : Nat),
    ∃ r, setstateAll .unbound classes R no l i pid = .ok r
  | [], i, pid => ⟨_, rfl⟩
  | ob :: rest, i, pid => by
    simp only [setstateAll]
    by_cases hi : i ∈ R
    · obtain ⟨⟨ob1, pid1⟩, h1⟩ := setstate_unbound classes (no + i) ob pid
      obtain ⟨⟨r2, pid2⟩, h2⟩ := setstateAll_unbound classes R no rest (i + 1) pid1
      simp only [hi, if_true, h1, h2]; exact ⟨_, rfl⟩
    · obtain ⟨⟨r2, pid2⟩, h2⟩ := setstateAll_unbound classes R no rest (i + 1) pid
      simp only [hi, if_false, h2]; exact ⟨_, rfl⟩

/-- with the current `__setstate__` every existing object can be copied -/
theorem copyGraph_unbound_ok (w : World) (root : Nat) (hroot : root < w.objs.length) :
    ∃ r, copyGraph .unbound w root = .ok r := by
  unfold copyGraph
  have hr : ∃ ob, w.objs[root]? = some ob := ⟨w.objs[root], by simp [hroot]⟩
  obtain ⟨ob, hob⟩ := hr
  simp only [hob]
  obtain ⟨⟨copies, pid⟩, hs⟩ := setstateAll_unbound w.classes (reach w root) w.objs.length
    (w.objs.map (renObj w.objs.length w.cells.length w.nextPid)) 0 (w.nextPid + w.nextPid)
  simp only [hs]; exact ⟨_, rfl⟩

/-- every watcher in the table of object `i` names `i` as its instance -/
def OwnWatchers (w : World) : Prop :=
  ∀ (i : Nat) (ob : Obj), w.objs[i]? = some ob → ∀ kv ∈ ob.watchers, ∀ wt ∈ kv.2, wt.inst = i

theorem ownWatchersB_sound {w : World} (h : ownWatchersB w = true) : OwnWatchers w := by
  intro i ob hob kv hkv wt hwt
  have hi : i < w.objs.length := by
    rcases Nat.lt_or_ge i w.objs.length with h1 | h1
    · exact h1
    · rw [List.getElem?_eq_none h1] at hob; simp at hob
  have := (List.all_eq_true.1 h) i (List.mem_range.2 hi)
  simp only [hob, List.all_eq_true] at this
  simpa using this kv hkv wt hwt

theorem rebindWatcher_unbound_id (cls : Option ClassDef) {self : Nat} {wt : Watcher} (pid : Nat)
    (h : wt.inst = self) : rebindWatcher .unbound cls self wt pid = .ok (wt, pid) := by
  obtain ⟨inst, fn, names, prec⟩ := wt
  obtain ⟨kind, owner, method, changed, fpid⟩ := fn
  simp only at h; subst h
  unfold rebindWatcher
  cases kind <;> simp only [Policy.redo]
  · rfl
  · split
    · rename_i ho; cases ho; rfl
    · rfl

theorem rebindList_unbound_id (cls : Option ClassDef) {self : Nat} : ∀ (l : List Watcher) (pid : Nat),
    (∀ wt ∈ l, wt.inst = self) → rebindList .unbound cls self l pid = .ok (l, pid)
  | [], pid, _ => rfl
  | wt :: rest, pid, h => by
    simp only [rebindList, rebindWatcher_unbound_id cls pid (h wt (by simp)),
      rebindList_unbound_id cls rest pid (fun x hx => h x (by simp [hx]))]

theorem rebindTable_unbound_id (cls : Option ClassDef) {self : Nat} : ∀ (t : List (String × List Watcher)) (pid : Nat),
    (∀ kv ∈ t, ∀ wt ∈ kv.2, wt.inst = self) → rebindTable .unbound cls self t pid = .ok (t, pid)
  | [], pid, _ => rfl
  | (p, ws) :: rest, pid, h => by
    simp only [rebindTable, rebindList_unbound_id cls ws pid (h (p, ws) (by simp)),
      rebindTable_unbound_id cls rest pid (fun x hx => h x (by simp [hx]))]

theorem setstateAll_unbound_id (classes : List ClassDef) (R : List Nat) (no : Nat) : ∀ (l : List Obj) (i pid : Nat),
    (∀ (j : Nat) (ob : Obj), l[j]? = some ob → ∀ kv ∈ ob.watchers, ∀ wt ∈ kv.2, wt.inst = no + (i + j)) →
    setstateAll .unbound classes R no l i pid = .ok (l, pid)
  | [], i, pid, _ => rfl
  | ob :: rest, i, pid, h => by
    have hrest := setstateAll_unbound_id classes R no rest (i + 1) pid (fun j ob' hj kv hkv wt hwt => by
      have e : i + 1 + j = i + (j + 1) := by omega
      rw [e]; exact h (j + 1) ob' (by simpa using hj) kv hkv wt hwt)
    have h0 := rebindTable_unbound_id classes[ob.cls]? (self := no + i) ob.watchers pid
      (fun kv hkv wt hwt => by simpa using h 0 ob (by simp) kv hkv wt hwt)
    simp only [setstateAll, setstate, h0, hrest]
    split <;> rfl

/-- **the copy in closed form** (current `__setstate__`): the world after `copy.deepcopy(root)` is the old
world plus the image of every object and list under the renaming — `__setstate__` changes nothing, so
also the watcher tables, the `changed=` filters and the identity of the callers recorded in
`dynamic_watchers` are carried over exactly. -/
theorem copyGraph_unbound_eq {w : World} {root : Nat} (hroot : root < w.objs.length) (hown : OwnWatchers w) :
    copyGraph .unbound w root =
      .ok ({ w with objs := w.objs ++ w.objs.map (renObj w.objs.length w.cells.length w.nextPid),
                    cells := w.cells ++ w.cells, nextPid := w.nextPid + w.nextPid }, w.objs.length + root) := by
  unfold copyGraph
  have hr : ∃ ob, w.objs[root]? = some ob := ⟨w.objs[root], by simp [hroot]⟩
  obtain ⟨ob, hob⟩ := hr
  simp only [hob]
  rw [setstateAll_unbound_id w.classes (reach w root) w.objs.length _ 0 (w.nextPid + w.nextPid) (by
    intro j ob' hj kv hkv wt hwt
    simp only [List.getElem?_map] at hj
    cases hoj : w.objs[j]? with
    | none => simp [hoj] at hj
    | some ob0 =>
      simp [hoj] at hj; subst hj
      obtain ⟨kv0, hkv0, wt0, hwt0, rfl⟩ := renObj_watchers hkv hwt
      simp [renWatcher, hown j ob0 hoj kv0 hkv0 wt0 hwt0])]

/-! ### the two halves of the world after a copy -/

theorem renWatcher_inSet (no np : Nat) (wt : Watcher) : (renWatcher no np wt).inSet (fun o => no ≤ o) := by
  refine ⟨by simp [renWatcher], by simp [renWatcher, renCaller], ?_⟩
  intro cb hcb
  simp only [renWatcher, renCaller] at hcb
  cases h : wt.fn.callback with
  | none => simp [h] at hcb
  | some c => simp [h] at hcb; rw [← hcb]; simp

theorem renObj_refsIn (no nc np : Nat) (ob : Obj) :
    (renObj no nc np ob).refsIn (fun o => no ≤ o) (fun c => nc ≤ c) := by
  refine ⟨?_, ?_, ?_, ?_, ?_⟩
  rotate_right
  · intro kv hkv
    simp only [renObj, List.mem_map] at hkv
    obtain ⟨kv0, _, rfl⟩ := hkv
    refine ⟨?_, ?_⟩
    · intro s hs
      cases h0 : kv0.2.slots with
      | none => simp [renPCopy, h0] at hs
      | some s0 => simp [renPCopy, h0] at hs; subst hs; simp
    · intro wt hwt
      simp only [renPCopy, List.mem_map] at hwt
      obtain ⟨wt0, _, rfl⟩ := hwt
      exact renWatcher_inSet no np wt0
  · intro kv hkv
    simp only [renObj, List.mem_map] at hkv
    obtain ⟨kv0, _, rfl⟩ := hkv
    cases kv0.2 <;> simp [renVal, Val.inSets]
  · intro kv hkv
    simp only [renObj, List.mem_map] at hkv
    obtain ⟨kv0, _, rfl⟩ := hkv
    cases kv0.2 <;> simp [renVal, Val.inSets]
  · intro kv hkv wt hwt
    obtain ⟨_, _, wt0, _, rfl⟩ := renObj_watchers hkv hwt
    exact renWatcher_inSet no np wt0
  · intro kv hkv wt hwt
    simp only [renObj, List.mem_map] at hkv
    obtain ⟨kv0, _, rfl⟩ := hkv
    simp only [List.mem_map] at hwt
    obtain ⟨wt0, _, rfl⟩ := hwt
    exact renWatcher_inSet no np wt0

theorem Rebound.refsIn {no nc np self : Nat} {ob ob' : Obj} (hs : no ≤ self)
    (h : Rebound self (renObj no nc np ob) ob') : ob'.refsIn (fun o => no ≤ o) (fun c => nc ≤ c) := by
  have h0 := renObj_refsIn no nc np ob
  rcases h with rfl | ⟨t, rfl, ht⟩
  · exact h0
  · refine ⟨h0.values, h0.attrs, ?_, h0.dyn, h0.pcopies⟩
    intro kv hkv wt hwt
    obtain ⟨hi, ho⟩ := ht kv hkv wt hwt
    refine ⟨by rw [hi]; exact hs, ?_⟩
    rcases ho with ⟨ho, hcb⟩ | ⟨kv0, hkv0, wt0, hwt0, e⟩
    · refine ⟨by rw [ho]; exact hs, ?_⟩
      rcases hcb with hcb | ⟨kv0, hkv0, wt0, hwt0, e⟩
      · intro cb h; rw [hcb] at h; simp at h
      · rw [e]; exact (h0.watchers kv0 hkv0 wt0 hwt0).2.2
    · rw [e]; exact (h0.watchers kv0 hkv0 wt0 hwt0).2

/-- after a copy the new objects refer only to new objects and new lists … -/
theorem copy_closed_high {pol : Policy} {w w' : World} {root r' : Nat} (h : copyGraph pol w root = .ok (w', r')) :
    Closed w' (fun o => w.objs.length ≤ o) (fun c => w.cells.length ≤ c) := by
  obtain ⟨_, _, _, _, copies, ho, hl, hp⟩ := copyGraph_spec h
  intro i ob' hi hob'
  rw [ho] at hob'
  have : (w.objs ++ copies)[i]? = copies[i - w.objs.length]? := List.getElem?_append_right hi
  rw [this] at hob'
  obtain ⟨ob, _, hr⟩ := hp _ ob' hob'
  exact hr.refsIn (by omega)

/-- … and the old objects are untouched (so they still refer only to old objects and old lists) -/
theorem copy_closed_low {pol : Policy} {w w' : World} {root r' : Nat} (h : copyGraph pol w root = .ok (w', r'))
    (hw : Closed w (fun o => o < w.objs.length) (fun c => c < w.cells.length)) :
    Closed w' (fun o => o < w.objs.length) (fun c => c < w.cells.length) := by
  obtain ⟨_, _, _, _, copies, ho, _, _⟩ := copyGraph_spec h
  intro i ob' hi hob'
  rw [ho, List.getElem?_append_left hi] at hob'
  exact hw i ob' hi hob'


/-! ### well-formedness, decidable (evaluated by the driver on every world it copies) -/

theorem wfB_sound {w : World} (h : wfB w = true) :
    Closed w (fun o => o < w.objs.length) (fun c => c < w.cells.length) := by
  intro i ob _ hob
  have hm : ob ∈ w.objs := List.mem_of_getElem? hob
  have h1 := (List.all_eq_true.1 h) ob hm
  simp only [objOKB, Bool.and_eq_true, List.all_eq_true] at h1
  obtain ⟨⟨⟨⟨hv, ha⟩, hw⟩, hd⟩, hp⟩ := h1
  have hval : ∀ v : Val, valOKB w.objs.length w.cells.length v = true →
      v.inSets (fun o => o < w.objs.length) (fun c => c < w.cells.length) := by
    intro v hv
    cases v <;> simp_all [valOKB, Val.inSets]
  have hwt : ∀ wt : Watcher, watcherOKB w.objs.length wt = true → wt.inSet (fun o => o < w.objs.length) := by
    intro wt h
    simp only [watcherOKB, Bool.and_eq_true, decide_eq_true_eq] at h
    refine ⟨h.1.1, h.1.2, ?_⟩
    intro cb hcb
    have h2 := h.2
    simp only [hcb, decide_eq_true_eq] at h2
    exact h2
  refine ⟨fun kv hkv => hval _ (hv kv hkv), fun kv hkv => hval _ (ha kv hkv),
         fun kv hkv wt hx => hwt wt (hw kv hkv wt hx), fun kv hkv wt hx => hwt wt (hd kv hkv wt hx), ?_⟩
  intro kv hkv
  have h2 := hp kv hkv
  refine ⟨?_, fun wt hx => hwt wt (h2.2 wt hx)⟩
  intro s hs
  have h1 := h2.1
  simp only [hs, Bool.and_eq_true, decide_eq_true_eq] at h1
  exact h1

end ParamVerif.Copy
