/-
C17 — definitions used in the statements of Props/C17.lean (closed sets of objects) and helper lemmas:
every primitive of the model keeps a closed set closed and touches nothing outside it.
-/
import ParamVerif.Store.Copy

namespace ParamVerif.Copy

/-! ## Definitions used in the statements -/

def Val.inSets (S C : Nat → Prop) : Val → Prop
  | .obj o => S o
  | .cell c => C c
  | _ => True

def Watcher.inSet (S : Nat → Prop) (wt : Watcher) : Prop := S wt.inst ∧ S wt.fn.owner

/-- every object / list the record refers to (values, ordinary attributes, watcher tables) is in `S` / `C` -/
structure Obj.refsIn (S C : Nat → Prop) (ob : Obj) : Prop where
  values : ∀ kv ∈ ob.values, kv.2.inSets S C
  attrs : ∀ kv ∈ ob.attrs, kv.2.inSets S C
  watchers : ∀ kv ∈ ob.watchers, ∀ wt ∈ kv.2, wt.inSet S
  dyn : ∀ kv ∈ ob.dyn, ∀ wt ∈ kv.2, wt.inSet S

/-- the objects in `S` refer only to objects in `S` and lists in `C` -/
def Closed (w : World) (S C : Nat → Prop) : Prop :=
  ∀ (i : Nat) (ob : Obj), S i → w.objs[i]? = some ob → ob.refsIn S C

/-- what a step `w → w'` on behalf of the objects `S` (lists `C`) may do: nothing outside `S`/`C`
changes, and every method it invokes belongs to an object of `S` -/
structure Local (w w' : World) (S C : Nat → Prop) : Prop where
  objsFrame : ∀ i : Nat, ¬ S i → w'.objs[i]? = w.objs[i]?
  cellsFrame : ∀ c : Nat, ¬ C c → w'.cells[c]? = w.cells[c]?
  classes : w'.classes = w.classes
  logPrefix : ∃ added, w'.log = w.log ++ added ∧ ∀ e ∈ added, S e.1
  objsLen : w.objs.length ≤ w'.objs.length
  cellsLen : w.cells.length ≤ w'.cells.length

theorem Local.refl (w : World) (S C : Nat → Prop) : Local w w S C :=
  ⟨fun _ _ => rfl, fun _ _ => rfl, rfl, ⟨[], by simp, by simp⟩, Nat.le_refl _, Nat.le_refl _⟩

theorem Local.trans {w w1 w2 : World} {S C : Nat → Prop} (a : Local w w1 S C) (b : Local w1 w2 S C) :
    Local w w2 S C := by
  refine ⟨fun i h => by rw [b.objsFrame i h, a.objsFrame i h], fun c h => by rw [b.cellsFrame c h, a.cellsFrame c h],
    by rw [b.classes, a.classes], ?_, Nat.le_trans a.objsLen b.objsLen, Nat.le_trans a.cellsLen b.cellsLen⟩
  obtain ⟨l1, h1, h1'⟩ := a.logPrefix
  obtain ⟨l2, h2, h2'⟩ := b.logPrefix
  refine ⟨l1 ++ l2, by rw [h2, h1, List.append_assoc], ?_⟩
  intro e he
  rcases List.mem_append.1 he with h | h
  · exact h1' e h
  · exact h2' e h

/-! ## Association lists -/

theorem mem_insert {α : Type} {l : List (String × α)} {k : String} {v : α} {y : String × α}
    (h : y ∈ insert l k v) : y = (k, v) ∨ y ∈ l := by
  induction l with
  | nil => simp [insert] at h; exact Or.inl h
  | cons kv l ih =>
    obtain ⟨k', v'⟩ := kv
    simp only [insert] at h
    split at h
    · rename_i e
      simp only [List.mem_cons] at h ⊢
      rcases h with h | h
      · left; rw [h, e]
      · right; right; exact h
    · simp only [List.mem_cons] at h ⊢
      rcases h with h | h
      · right; left; exact h
      · rcases ih h with h | h
        · left; exact h
        · right; right; exact h

theorem lookup_mem {α : Type} {l : List (String × α)} {k : String} {v : α}
    (h : lookup l k = some v) : (k, v) ∈ l := by
  induction l with
  | nil => simp [lookup] at h
  | cons kv l ih =>
    obtain ⟨k', v'⟩ := kv
    simp only [lookup] at h
    split at h
    · rename_i e; simp at h; subst h; subst e; simp
    · exact List.mem_cons_of_mem _ (ih h)

theorem mem_erase {α : Type} {l : List (String × α)} {k : String} {y : String × α}
    (h : y ∈ erase l k) : y ∈ l := by
  unfold erase at h; exact (List.mem_filter.1 h).1

theorem removeFirst_subset : ∀ {l l' : List Watcher} {wt : Watcher}, removeFirst l wt = some l' → ∀ x ∈ l', x ∈ l
  | [], _, _, h => by simp [removeFirst] at h
  | y :: r, l', wt, h => by
    simp only [removeFirst] at h
    split at h
    · simp at h; subst h; intro x hx; exact List.mem_cons_of_mem _ hx
    · cases hr : removeFirst r wt with
      | none => simp [hr] at h
      | some r' =>
        simp [hr] at h; subst h
        intro x hx
        simp only [List.mem_cons] at hx ⊢
        rcases hx with hx | hx
        · exact Or.inl hx
        · exact Or.inr (removeFirst_subset hr x hx)

theorem getElem?_set_cases {α : Type} {l : List α} {i j : Nat} {a b : α}
    (h : (l.set i a)[j]? = some b) : (j = i ∧ b = a) ∨ (j ≠ i ∧ l[j]? = some b) := by
  by_cases hij : i = j
  · subst hij
    by_cases hl : i < l.length
    · simp [List.getElem?_set_self hl] at h; exact Or.inl ⟨rfl, h.symm⟩
    · simp at hl
      rw [List.getElem?_eq_none (by simp; exact hl)] at h; simp at h
  · rw [List.getElem?_set_ne hij] at h
    exact Or.inr ⟨fun e => hij e.symm, h⟩

/-! ## Primitives -/

/-- rewriting the record of an object of `S` by a function that keeps its references inside `S`/`C` -/
theorem setObj_spec {w : World} {S C : Nat → Prop} {o : Nat} {f : Obj → Obj} (hc : Closed w S C) (ho : S o)
    (hf : ∀ ob, w.objs[o]? = some ob → ob.refsIn S C → (f ob).refsIn S C) :
    Closed (w.setObj o f) S C ∧ Local w (w.setObj o f) S C ∧ (w.setObj o f).cells = w.cells ∧
    (w.setObj o f).nextPid = w.nextPid ∧ (w.setObj o f).objs.length = w.objs.length := by
  unfold World.setObj
  split
  · rename_i ob hob
    refine ⟨?_, ⟨?_, fun _ _ => rfl, rfl, ⟨[], by simp, by simp⟩, by simp, Nat.le_refl _⟩, rfl, rfl, by simp⟩
    · intro i ob' hi hob'
      rcases getElem?_set_cases hob' with ⟨rfl, rfl⟩ | ⟨_, h⟩
      · exact hf ob hob (hc i ob hi hob)
      · exact hc i ob' hi h
    · intro i hi
      show (w.objs.set o (f ob))[i]? = _
      rw [List.getElem?_set_ne (fun (e : o = i) => hi (by rw [← e]; exact ho))]
  · exact ⟨hc, Local.refl _ _ _, rfl, rfl, rfl⟩

/-- a step that keeps `S`/`C` closed and is local to it -/
structure Good (w w' : World) (S C : Nat → Prop) : Prop where
  closed : Closed w' S C
  loc : Local w w' S C

theorem Good.refl {w : World} {S C : Nat → Prop} (hc : Closed w S C) : Good w w S C := ⟨hc, Local.refl _ _ _⟩

theorem Good.trans {w w1 w2 : World} {S C : Nat → Prop} (a : Good w w1 S C) (b : Good w1 w2 S C) : Good w w2 S C :=
  ⟨b.closed, a.loc.trans b.loc⟩

theorem setObj_good {w : World} {S C : Nat → Prop} {o : Nat} {f : Obj → Obj} (hc : Closed w S C) (ho : S o)
    (hf : ∀ ob, w.objs[o]? = some ob → ob.refsIn S C → (f ob).refsIn S C) : Good w (w.setObj o f) S C :=
  ⟨(setObj_spec hc ho hf).1, (setObj_spec hc ho hf).2.1⟩

theorem touchParam_good {w : World} {S C : Nat → Prop} {o : Nat} {p : String} (hc : Closed w S C) (ho : S o) :
    Good w (w.touchParam o p) S C := by
  unfold World.touchParam
  split
  · exact Good.refl hc
  · split
    · exact Good.refl hc
    · split
      · exact Good.refl hc
      · exact setObj_good hc ho (fun ob _ h => ⟨h.values, h.attrs, h.watchers, h.dyn⟩)

theorem addWatcher_good {w : World} {S C : Nat → Prop} {wt : Watcher} (hc : Closed w S C) (hw : wt.inSet S) :
    Good w (w.addWatcher wt) S C := by
  unfold World.addWatcher
  generalize wt.names = names
  induction names generalizing w with
  | nil => exact Good.refl hc
  | cons n ns ih =>
    simp only [List.foldl_cons]
    have g1 : Good w (w.setObj wt.inst fun ob =>
        { ob with watchers := insert ob.watchers n ((lookup ob.watchers n).getD [] ++ [wt]) }) S C := by
      refine setObj_good hc hw.1 ?_
      intro ob _ h
      refine ⟨h.values, h.attrs, ?_, h.dyn⟩
      intro kv hkv x hx
      rcases mem_insert hkv with rfl | hm
      · simp only [List.mem_append, List.mem_singleton] at hx
        rcases hx with hx | rfl
        · cases hl : lookup ob.watchers n with
          | none => simp [hl] at hx
          | some l => simp [hl] at hx; exact h.watchers _ (lookup_mem hl) x hx
        · exact hw
      · exact h.watchers kv hm x hx
    exact g1.trans (ih g1.closed)

theorem unwatch_good {w : World} {S C : Nat → Prop} {wt : Watcher} (hc : Closed w S C) (hw : S wt.inst) :
    Good w (w.unwatch wt) S C := by
  unfold World.unwatch
  generalize wt.names = names
  induction names generalizing w with
  | nil => simp only [World.unwatch.go]; exact Good.refl hc
  | cons n ns ih =>
    simp only [World.unwatch.go]
    split
    · exact Good.refl hc
    · rename_i l hl
      split
      · exact Good.refl hc
      · rename_i l' hl'
        have g1 : Good w (w.setObj wt.inst fun ob => { ob with watchers := insert ob.watchers n l' }) S C := by
          refine setObj_good hc hw ?_
          intro ob hob h
          refine ⟨h.values, h.attrs, ?_, h.dyn⟩
          intro kv hkv x hx
          rcases mem_insert hkv with rfl | hm
          · simp only [hob, Option.bind_some] at hl
            exact h.watchers _ (lookup_mem hl) x (removeFirst_subset hl' x hx)
          · exact h.watchers kv hm x hx
        exact g1.trans (ih g1.closed)

theorem nextPid_good {w : World} {S C : Nat → Prop} (hc : Closed w S C) (n : Nat) :
    Good w { w with nextPid := n } S C :=
  ⟨hc, ⟨fun _ _ => rfl, fun _ _ => rfl, rfl, ⟨[], by simp, by simp⟩, Nat.le_refl _, Nat.le_refl _⟩⟩

/-- a value read from an object of a closed set is in the set -/
theorem getVal_inSets {w : World} {S C : Nat → Prop} {o : Nat} {p : String} {v : Val}
    (hc : Closed w S C) (ho : S o) (h : w.getVal o p = some v) : v.inSets S C := by
  unfold World.getVal at h
  split at h
  · simp at h
  · rename_i ob hob
    split at h
    · rename_i v' hv'
      simp at h; subst h
      exact (hc o ob ho hob).values _ (lookup_mem hv')
    · split at h
      · simp at h
      · rename_i c _
        cases hf : c.params.find? (·.name = p) with
        | none => simp [hf] at h
        | some d =>
          simp only [hf, Option.bind_some] at h
          cases hd : d.default with
          | none => simp [hd, DVal.toVal] at h; subst h; trivial
          | int n => simp [hd, DVal.toVal] at h; subst h; trivial
          | list l => simp [hd, DVal.toVal] at h

theorem installDep_good {w w' : World} {S C : Nat → Prop} {o : Nat} {md : MethodDef} {dynw : List Watcher}
    (hc : Closed w S C) (ho : S o) (h : w.installDep o md = (w', dynw)) :
    Good w w' S C ∧ ∀ wt ∈ dynw, wt.inSet S := by
  unfold World.installDep at h
  split at h
  · rename_i p _
    simp only [mkCaller] at h
    simp at h
    obtain ⟨rfl, rfl⟩ := h
    have g1 := touchParam_good (p := p) hc ho
    have g2 := nextPid_good g1.closed ((w.touchParam o p).nextPid + 1)
    have g3 := addWatcher_good (wt := { inst := o, fn := { kind := .mcaller, owner := o, method := md.name, changed := Option.none, pid := (w.touchParam o p).nextPid }, names := [p], precedence := -1 }) g2.closed ⟨ho, ho⟩
    exact ⟨(g1.trans g2).trans g3, by simp⟩
  · rename_i a x _
    split at h
    · rename_i s hs
      have hss : S s := getVal_inSets hc ho hs
      simp only [mkCaller] at h
      simp at h
      obtain ⟨rfl, rfl⟩ := h
      have g1 := touchParam_good (p := a) hc ho
      have g2 := touchParam_good (p := x) g1.closed hss
      have g3 := nextPid_good g2.closed (((w.touchParam o a).touchParam s x).nextPid + 1)
      have g4 := addWatcher_good (wt := { inst := o, fn := { kind := .mcaller, owner := o, method := md.name, changed := some [x], pid := ((w.touchParam o a).touchParam s x).nextPid }, names := [a], precedence := -1 }) g3.closed ⟨ho, ho⟩
      refine ⟨?_, ?_⟩
      · refine (((g1.trans g2).trans g3).trans g4).trans ?_
        have g5 := nextPid_good g4.closed ((World.addWatcher { ((w.touchParam o a).touchParam s x) with nextPid := ((w.touchParam o a).touchParam s x).nextPid + 1 } { inst := o, fn := { kind := .mcaller, owner := o, method := md.name, changed := some [x], pid := ((w.touchParam o a).touchParam s x).nextPid }, names := [a], precedence := -1 }).nextPid + 1)
        exact g5.trans (addWatcher_good g5.closed ⟨hss, ho⟩)
      · intro wt hwt
        simp only [List.mem_cons, List.not_mem_nil, or_false] at hwt
        rcases hwt with rfl | rfl
        · exact ⟨ho, ho⟩
        · exact ⟨hss, ho⟩
    · simp at h; obtain ⟨rfl, rfl⟩ := h
      exact ⟨Good.refl hc, by simp⟩

theorem setDyn_good {w : World} {S C : Nat → Prop} {o : Nat} {m : String} {dynw : List Watcher}
    (hc : Closed w S C) (ho : S o) (hd : ∀ wt ∈ dynw, wt.inSet S) :
    Good w (w.setObj o fun ob => { ob with dyn := insert ob.dyn m dynw }) S C := by
  refine setObj_good hc ho ?_
  intro ob _ h
  refine ⟨h.values, h.attrs, h.watchers, ?_⟩
  intro kv hkv x hx
  rcases mem_insert hkv with rfl | hm
  · exact hd x hx
  · exact h.dyn kv hm x hx

theorem unwatchAll_good {S C : Nat → Prop} : ∀ (old : List Watcher) (w : World), Closed w S C →
    (∀ wt ∈ old, S wt.inst) → Good w (old.foldl (fun w wt => w.unwatch wt) w) S C
  | [], w, hc, _ => Good.refl hc
  | wt :: rest, w, hc, h => by
    simp only [List.foldl_cons]
    have g1 := unwatch_good (wt := wt) hc (h wt (by simp))
    exact g1.trans (unwatchAll_good rest _ g1.closed (fun x hx => h x (by simp [hx])))

theorem updateDeps_good {S C : Nat → Prop} {o : Nat} {attr : String} (ho : S o) :
    ∀ (mds : List MethodDef) (w : World), Closed w S C → Good w (w.updateDeps o attr mds) S C
  | [], w, hc => by simp only [World.updateDeps]; exact Good.refl hc
  | md :: rest, w, hc => by
    simp only [World.updateDeps]
    split
    · rename_i a x hdep
      split
      · -- the dynamic watchers recorded for this method
        have hold : ∀ wt ∈ ((w.objs[o]?).bind (fun ob => lookup ob.dyn md.name)).getD [], S wt.inst := by
          intro wt hwt
          cases hob : w.objs[o]? with
          | none => simp [hob] at hwt
          | some ob =>
            cases hl : lookup ob.dyn md.name with
            | none => simp [hob, hl] at hwt
            | some l =>
              simp [hob, hl] at hwt
              exact ((hc o ob ho hob).dyn _ (lookup_mem hl) wt hwt).1
        have g1 : Good w (w.setObj o fun ob => { ob with dyn := erase ob.dyn md.name }) S C :=
          setObj_good hc ho (fun ob _ h => ⟨h.values, h.attrs, h.watchers,
            fun kv hkv x hx => h.dyn kv (mem_erase hkv) x hx⟩)
        have g2 := unwatchAll_good (((w.objs[o]?).bind (fun ob => lookup ob.dyn md.name)).getD []) _ g1.closed hold
        generalize hi : World.installDep (List.foldl (fun w wt => w.unwatch wt)
          (w.setObj o fun ob => { ob with dyn := erase ob.dyn md.name })
          (((w.objs[o]?).bind (fun ob => lookup ob.dyn md.name)).getD [])) o md = r
        obtain ⟨w3, dynw⟩ := r
        obtain ⟨g3, hd⟩ := installDep_good g2.closed ho hi
        simp only
        have g123 := (g1.trans g2).trans g3
        split
        · exact g123.trans (updateDeps_good ho rest _ g123.closed)
        · have g4 := setDyn_good (m := md.name) g123.closed ho hd
          exact (g123.trans g4).trans (updateDeps_good ho rest _ g4.closed)
      · exact updateDeps_good ho rest w hc
    · exact updateDeps_good ho rest w hc

theorem initDeps_good {S C : Nat → Prop} {o : Nat} (ho : S o) :
    ∀ (mds : List MethodDef) (w : World), Closed w S C → Good w (w.initDeps o mds) S C
  | [], w, hc => by simp only [World.initDeps]; exact Good.refl hc
  | md :: rest, w, hc => by
    simp only [World.initDeps]
    generalize hi : w.installDep o md = r
    obtain ⟨w1, dynw⟩ := r
    obtain ⟨g1, hd⟩ := installDep_good hc ho hi
    simp only
    split
    · exact g1.trans (initDeps_good ho rest _ g1.closed)
    · have g2 := setDyn_good (m := md.name) g1.closed ho hd
      exact (g1.trans g2).trans (initDeps_good ho rest _ g2.closed)

/-- an argument that stays inside `S`/`C`: no new list unless the next heap address is in `C` -/
def Arg.inSets (w : World) (S C : Nat → Prop) : Arg → Prop
  | .obj o => S o
  | .newList _ => C w.cells.length
  | _ => True

theorem evalArg_good {w w' : World} {S C : Nat → Prop} {a : Arg} {v : Val} (hc : Closed w S C)
    (ha : a.inSets w S C) (h : evalArg w a = (v, w')) : Good w w' S C ∧ v.inSets S C := by
  cases a with
  | none => simp [evalArg] at h; obtain ⟨rfl, rfl⟩ := h; exact ⟨Good.refl hc, trivial⟩
  | int n => simp [evalArg] at h; obtain ⟨rfl, rfl⟩ := h; exact ⟨Good.refl hc, trivial⟩
  | obj o => simp [evalArg] at h; obtain ⟨rfl, rfl⟩ := h; exact ⟨Good.refl hc, ha⟩
  | newList l =>
    simp [evalArg] at h; obtain ⟨rfl, rfl⟩ := h
    refine ⟨⟨hc, ⟨fun _ _ => rfl, ?_, rfl, ⟨[], by simp, by simp⟩, Nat.le_refl _, by simp⟩⟩, ha⟩
    intro c hcc
    have : c ≠ w.cells.length := fun e => hcc (e ▸ ha)
    show (w.cells ++ [l])[c]? = w.cells[c]?
    rcases Nat.lt_or_ge c w.cells.length with h1 | h1
    · exact List.getElem?_append_left h1
    · rw [List.getElem?_eq_none (by simp; omega), List.getElem?_eq_none h1]

theorem log_good {w : World} {S C : Nat → Prop} (hc : Closed w S C) (added : List (Nat × String))
    (h : ∀ e ∈ added, S e.1) : Good w { w with log := w.log ++ added } S C :=
  ⟨hc, ⟨fun _ _ => rfl, fun _ _ => rfl, rfl, ⟨added, rfl, h⟩, Nat.le_refl _, Nat.le_refl _⟩⟩

theorem callWatcher_owner {w : World} {wt : Watcher} {old new : Val} {e : Nat × String}
    (h : callWatcher w wt old new = some e) : e.1 = wt.fn.owner := by
  unfold callWatcher at h
  split at h
  · simp at h
  · split at h
    · split at h
      · simp at h
      · simp at h; rw [← h]
    · simp at h; rw [← h]

theorem mem_insertByPrec {wt x : Watcher} : ∀ {l : List Watcher}, x ∈ insertByPrec wt l → x = wt ∨ x ∈ l
  | [], h => by simp [insertByPrec] at h; exact Or.inl h
  | y :: r, h => by
    simp only [insertByPrec] at h
    split at h
    · simp only [List.mem_cons] at h ⊢; exact h
    · simp only [List.mem_cons] at h ⊢
      rcases h with h | h
      · exact Or.inr (Or.inl h)
      · rcases mem_insertByPrec h with h | h
        · exact Or.inl h
        · exact Or.inr (Or.inr h)

theorem mem_sortByPrec {x : Watcher} : ∀ {l : List Watcher}, x ∈ sortByPrec l → x ∈ l
  | [], h => by simp [sortByPrec] at h
  | y :: r, h => by
    simp only [sortByPrec, List.foldr_cons] at h
    rcases mem_insertByPrec h with h | h
    · simp [h]
    · exact List.mem_cons_of_mem _ (mem_sortByPrec h)

/-- `obj.p = v` on an object of a closed set with an argument from the set -/
theorem doSet_good {w w' : World} {S C : Nat → Prop} {o : Nat} {p : String} {a : Arg}
    (hc : Closed w S C) (ho : S o) (ha : a.inSets w S C) (h : doSet w o p a = .ok w') : Good w w' S C := by
  unfold doSet at h
  split at h
  · simp at h
  · split at h
    · simp at h
    · rename_i c _
      split at h
      · generalize hev : evalArg w a = r at h
        obtain ⟨v, w1⟩ := r
        obtain ⟨g1, hv⟩ := evalArg_good hc ha hev
        simp only at h
        have g2 := touchParam_good (p := p) g1.closed ho
        split at h
        · simp at h
        · have g3 : Good (w1.touchParam o p) ((w1.touchParam o p).setObj o fun ob => { ob with values := insert ob.values p v }) S C :=
            setObj_good g2.closed ho (fun ob _ hh => ⟨fun kv hkv => by
              rcases mem_insert hkv with rfl | hm
              · exact hv
              · exact hh.values kv hm, hh.attrs, hh.watchers, hh.dyn⟩)
          have g4 := updateDeps_good (attr := p) ho c.methods _ g3.closed
          simp at h
          subst h
          refine (((g1.trans g2).trans g3).trans g4).trans (log_good g4.closed _ ?_)
          intro e he
          simp only [List.mem_filterMap] at he
          obtain ⟨wt, hwt, hcall⟩ := he
          rw [callWatcher_owner hcall]
          have hwt' := mem_sortByPrec hwt
          generalize hw4 : (((w1.touchParam o p).setObj o fun ob => { ob with values := insert ob.values p v }).updateDeps o p c.methods) = w4 at hwt' g4
          cases hob : w4.objs[o]? with
          | none => simp [hob] at hwt'
          | some ob =>
            cases hl : lookup ob.watchers p with
            | none => simp [hob, hl] at hwt'
            | some l =>
              simp [hob, hl] at hwt'
              exact ((g4.closed o ob ho hob).watchers _ (lookup_mem hl) wt hwt').2
      · simp at h

theorem setCell_good {w : World} {S C : Nat → Prop} {c : Nat} (l : List Int) (hc : Closed w S C) (hcc : C c) :
    Good w { w with cells := w.cells.set c l } S C := by
  refine ⟨hc, ⟨fun _ _ => rfl, ?_, rfl, ⟨[], by simp, by simp⟩, Nat.le_refl _, by simp⟩⟩
  intro c' h
  show (w.cells.set c l)[c']? = _
  rw [List.getElem?_set_ne (fun (e : c = c') => h (by rw [← e]; exact hcc))]

theorem doMutate_good {w w' : World} {S C : Nat → Prop} {o : Nat} {p : String} {n : Int}
    (hc : Closed w S C) (ho : S o) (h : doMutate w o p n = .ok w') : Good w w' S C := by
  unfold doMutate at h
  split at h
  · rename_i c hg
    simp at h; subst h
    exact setCell_good _ hc (getVal_inSets hc ho hg)
  · simp at h

theorem doPEdit_good {w w' : World} {S C : Nat → Prop} {o : Nat} {p : String} {e : PEdit}
    (hc : Closed w S C) (ho : S o) (h : doPEdit w o p e = .ok w') : Good w w' S C := by
  unfold doPEdit at h
  have g1 := touchParam_good (p := p) hc ho
  cases hl : ((w.touchParam o p).objs[o]?).bind (fun ob => lookup ob.pcopies p) with
  | none => simp [hl] at h
  | some pc =>
    simp only [hl] at h
    simp at h; subst h
    exact g1.trans (setObj_good g1.closed ho (fun ob _ hh => ⟨hh.values, hh.attrs, hh.watchers, hh.dyn⟩))

theorem doSetAttr_good {w w' : World} {S C : Nat → Prop} {o : Nat} {name : String} {a : Arg}
    (hc : Closed w S C) (ho : S o) (ha : a.inSets w S C) (h : doSetAttr w o name a = .ok w') : Good w w' S C := by
  unfold doSetAttr at h
  split at h
  · simp at h
  · generalize hev : evalArg w a = r at h
    obtain ⟨v, w1⟩ := r
    obtain ⟨g1, hv⟩ := evalArg_good hc ha hev
    simp at h; subst h
    exact g1.trans (setObj_good g1.closed ho (fun ob _ hh => ⟨hh.values, fun kv hkv => by
      rcases mem_insert hkv with rfl | hm
      · exact hv
      · exact hh.attrs kv hm, hh.watchers, hh.dyn⟩))

theorem doMutAttr_good {w w' : World} {S C : Nat → Prop} {o : Nat} {name : String} {n : Int}
    (hc : Closed w S C) (ho : S o) (h : doMutAttr w o name n = .ok w') : Good w w' S C := by
  unfold doMutAttr at h
  split at h
  · rename_i c hg
    simp at h; subst h
    refine setCell_good _ hc ?_
    cases hob : w.objs[o]? with
    | none => simp [hob] at hg
    | some ob =>
      simp [hob] at hg
      exact (hc o ob ho hob).attrs _ (lookup_mem hg)
  · simp at h

theorem doWatch_good {w w' : World} {S C : Nat → Prop} {o t : Nat} {p cb : String}
    (hc : Closed w S C) (ho : S o) (ht : S t) (h : doWatch w o p t cb = .ok w') : Good w w' S C := by
  unfold doWatch at h
  split at h
  · split at h
    · simp at h; subst h
      exact addWatcher_good hc ⟨ho, ht⟩
    · simp at h
  · simp at h

/-- which objects an operation involves besides creating new ones, and whether its arguments stay in `S`/`C` -/
def Op.inSets (w : World) (S C : Nat → Prop) : Op → Prop
  | .new _ _ => False
  | .set o _ a => S o ∧ a.inSets w S C
  | .mutate o _ _ => S o
  | .pedit o _ _ => S o
  | .setAttr o _ a => S o ∧ a.inSets w S C
  | .mutAttr o _ _ => S o
  | .watch o _ t _ => S o ∧ S t

/-- every operation on objects of a closed set (other than constructing a new object) keeps the set
closed, changes nothing outside it and invokes only methods of its objects -/
theorem step_good {w w' : World} {S C : Nat → Prop} {op : Op} (hc : Closed w S C) (hop : op.inSets w S C)
    (h : step w op = .ok w') : Good w w' S C := by
  cases op with
  | new cls kw => exact absurd hop (by simp [Op.inSets])
  | set o p a => exact doSet_good hc hop.1 hop.2 h
  | mutate o p n => exact doMutate_good hc hop h
  | pedit o p e => exact doPEdit_good hc hop h
  | setAttr o name a => exact doSetAttr_good hc hop.1 hop.2 h
  | mutAttr o name n => exact doMutAttr_good hc hop h
  | watch o p t cb => exact doWatch_good hc hop.1 hop.2 h

end ParamVerif.Copy
