/-
Insertion-ordered Python `dict` as an association list, shared by the
Store models (C13 Namespace, C14 Const).  No imports: loaded by the drivers.
-/
namespace ParamVerif.Store

variable {κ : Type} [DecidableEq κ] {α : Type}

/-- `d.get(k)` -/
def aget : List (κ × α) → κ → Option α
  | [], _ => none
  | (k', v) :: d, k => if k' = k then some v else aget d k

/-- `d[k] = v`: replace in place when the key exists, else append. -/
def aset : List (κ × α) → κ → α → List (κ × α)
  | [], k, v => [(k, v)]
  | (k', v') :: d, k, v => if k' = k then (k', v) :: d else (k', v') :: aset d k v

/-- `list(d)` -/
def akeys (d : List (κ × α)) : List κ := d.map (·.1)

/-- `for k, v in src.items(): acc[k] = v`  (`acc.update(src)`) -/
def amerge (acc src : List (κ × α)) : List (κ × α) :=
  src.foldl (fun a kv => aset a kv.1 kv.2) acc

theorem aget_aset_self (d : List (κ × α)) (k : κ) (v : α) : aget (aset d k v) k = some v := by
  induction d with
  | nil => simp [aset, aget]
  | cons kv d ih =>
    obtain ⟨k', v'⟩ := kv
    simp only [aset]
    split
    · rename_i h; simp [aget, h]
    · rename_i h; simp [aget, h, ih]

theorem aget_aset_ne (d : List (κ × α)) {k k' : κ} (v : α) (h : k ≠ k') :
    aget (aset d k v) k' = aget d k' := by
  induction d with
  | nil => simp [aset, aget, h]
  | cons kv d ih =>
    obtain ⟨k0, v0⟩ := kv
    simp only [aset]
    split
    · rename_i e; subst e; simp [aget, h]
    · simp only [aget, ih]

theorem aget_aset (d : List (κ × α)) (k k' : κ) (v : α) :
    aget (aset d k v) k' = if k = k' then some v else aget d k' := by
  split
  · rename_i h; subst h; exact aget_aset_self d k v
  · rename_i h; exact aget_aset_ne d v h

theorem aget_isSome_iff_mem_keys (d : List (κ × α)) (k : κ) : (aget d k).isSome ↔ k ∈ akeys d := by
  induction d with
  | nil => simp [aget, akeys]
  | cons kv d ih =>
    obtain ⟨k0, v0⟩ := kv
    simp only [aget, akeys, List.map_cons, List.mem_cons]
    split
    · rename_i e; subst e; simp
    · rename_i e
      rw [ih]
      constructor
      · intro h; exact Or.inr h
      · intro h; rcases h with h | h
        · exact absurd h.symm e
        · exact h

theorem aget_none_iff_not_mem_keys (d : List (κ × α)) (k : κ) : aget d k = none ↔ k ∉ akeys d := by
  rw [← aget_isSome_iff_mem_keys]; cases aget d k <;> simp

theorem akeys_aset_of_mem (d : List (κ × α)) {k : κ} (v : α) (h : k ∈ akeys d) :
    akeys (aset d k v) = akeys d := by
  induction d with
  | nil => simp [akeys] at h
  | cons kv d ih =>
    obtain ⟨k0, v0⟩ := kv
    simp only [aset]
    split
    · simp [akeys]
    · rename_i e
      simp only [akeys, List.map_cons, List.mem_cons] at h ⊢
      rcases h with h | h
      · exact absurd h.symm e
      · have := ih h
        simp only [akeys] at this
        rw [this]

theorem akeys_aset_of_not_mem (d : List (κ × α)) {k : κ} (v : α) (h : k ∉ akeys d) :
    akeys (aset d k v) = akeys d ++ [k] := by
  induction d with
  | nil => simp [akeys, aset]
  | cons kv d ih =>
    obtain ⟨k0, v0⟩ := kv
    simp only [akeys, List.map_cons, List.mem_cons, not_or] at h
    simp only [aset]
    split
    · rename_i e; exact absurd e.symm h.1
    · have := ih h.2
      simp only [akeys] at this
      simp [akeys, this]

/-- a Python dict never holds a key twice -/
theorem akeys_aset_nodup (d : List (κ × α)) (k : κ) (v : α) (h : (akeys d).Nodup) :
    (akeys (aset d k v)).Nodup := by
  by_cases hk : k ∈ akeys d
  · rw [akeys_aset_of_mem d v hk]; exact h
  · rw [akeys_aset_of_not_mem d v hk]
    rw [List.nodup_append]
    refine ⟨h, by simp, ?_⟩
    intro a ha b hb e
    simp at hb; subst hb; subst e; exact hk ha

theorem amerge_nodup (acc src : List (κ × α)) (h : (akeys acc).Nodup) : (akeys (amerge acc src)).Nodup := by
  unfold amerge
  induction src generalizing acc with
  | nil => simpa using h
  | cons kv src ih =>
    simp only [List.foldl_cons]
    exact ih _ (akeys_aset_nodup acc kv.1 kv.2 h)

/-- `acc.update(src)` then `get`: the entry of `src` wins (`src` is a dict: unique keys) -/
theorem aget_amerge (acc src : List (κ × α)) (k : κ) (h : (akeys src).Nodup) :
    aget (amerge acc src) k = (aget src k).or (aget acc k) := by
  unfold amerge
  induction src generalizing acc with
  | nil => simp [aget]
  | cons kv src ih =>
    obtain ⟨k0, v0⟩ := kv
    simp only [akeys, List.map_cons, List.nodup_cons] at h
    simp only [List.foldl_cons]
    rw [ih _ h.2]
    simp only [aget]
    cases hv : aget src k with
    | some v =>
      have hk : k ∈ akeys src := (aget_isSome_iff_mem_keys src k).1 (by simp [hv])
      have hne : k0 ≠ k := by intro e; subst e; exact h.1 hk
      simp [hne]
    | none =>
      rw [aget_aset]
      split <;> simp

end ParamVerif.Store
