/-
Helper lemmas for C11 (Props/C11.lean): the search loops of
`__param_inheritance` against their declarative reading.
-/
import ParamVerif.Store.InheritSpec

namespace ParamVerif.Inherit

/-! ### the per-slot search -/

def firstSome (l : List (Option Val)) : Option Val := (l.filterMap id).head?

/-- there is a value in the list that is not identical (`is`) to the first one -/
def distinct2 (l : List (Option Val)) : Bool :=
  match l.filterMap id with
  | [] => false
  | o :: rest => rest.any fun v => !v.is o

theorem searchSlot_fst_some (nv tc : Bool) (l : List (Option Val)) (o : Val) (ov : Bool) :
    (searchSlot nv tc l (some o) ov).1 = some o := by
  induction l generalizing ov with
  | nil => rfl
  | cons x rest ih =>
    cases x with
    | none => simpa [searchSlot] using ih ov
    | some v =>
      simp only [searchSlot]
      split
      · exact ih ov
      · rfl

theorem searchSlot_fst_none (nv tc : Bool) (l : List (Option Val)) (ov : Bool) :
    (searchSlot nv tc l none ov).1 = firstSome l := by
  induction l generalizing ov with
  | nil => rfl
  | cons x rest ih =>
    cases x with
    | none => simpa [searchSlot, firstSome] using ih ov
    | some v =>
      simp only [searchSlot, firstSome, List.filterMap_cons, id, List.head?_cons]
      split
      · rfl
      · exact searchSlot_fst_some nv tc rest v ov

theorem searchSlot_snd_some (nv : Bool) (l : List (Option Val)) (o : Val) :
    (searchSlot nv false l (some o) false).2 = (!nv && (l.filterMap id).any fun v => !v.is o) := by
  induction l with
  | nil => simp [searchSlot]
  | cons x rest ih =>
    cases x with
    | none => simpa [searchSlot] using ih
    | some v =>
      simp only [searchSlot, List.filterMap_cons, id, List.any_cons]
      by_cases h : v.is o = true
      · simp [h, ih]
      · simp [h]

theorem searchSlot_snd_true (nv tc : Bool) (l : List (Option Val)) (old : Option Val) :
    (searchSlot nv tc l old true).2 = true := by
  induction l generalizing old with
  | nil => rfl
  | cons x rest ih =>
    cases x with
    | none => simpa [searchSlot] using ih old
    | some v =>
      cases old with
      | none => simp [searchSlot]
      | some o =>
        simp only [searchSlot]
        split
        · exact ih _
        · cases nv <;> rfl

/-- without a type change, one slot's search turns `slot_overridden` on exactly
when the slot is validated and offers two non-identical values -/
theorem searchSlot_snd (nv : Bool) (l : List (Option Val)) (ov : Bool) :
    (searchSlot nv false l none ov).2 = (ov || (!nv && distinct2 l)) := by
  cases ov with
  | true => simp [searchSlot_snd_true]
  | false =>
    induction l with
    | nil => simp [searchSlot, distinct2]
    | cons x rest ih =>
      cases x with
      | none => simpa [searchSlot, distinct2] using ih
      | some v =>
        simp only [searchSlot, distinct2, List.filterMap_cons, id, Bool.false_or]
        simpa using searchSlot_snd_some nv rest v

/-- what the class itself and the rest of the MRO offer for a slot -/
def offers (own : Slots) (supers : List (Option Param)) (s : Slot) : List (Option Val) :=
  own s :: supers.map (slotAt s)

theorem searchAll_fst (tc : Bool) (own : Slots) (supers : List (Option Param)) :
    ∀ (slots : List Slot) (ov : Bool) (acc : Slots) (s : Slot),
      (searchAll tc own supers slots ov acc).1 s =
        if s ∈ slots then firstSome (offers own supers s) else acc s
  | [], _, _, _ => by simp [searchAll]
  | t :: rest, ov, acc, s => by
    simp only [searchAll]
    rw [searchAll_fst tc own supers rest]
    by_cases h1 : s ∈ rest
    · simp [h1]
    · by_cases h2 : s = t
      · subst h2
        simp [h1, Slots.set, searchSlot_fst_none, offers]
      · simp [h1, h2, Slots.set]

def anyOverridden (own : Slots) (supers : List (Option Param)) (slots : List Slot) : Bool :=
  slots.any fun s => !nonValidated s && distinct2 (offers own supers s)

theorem searchAll_snd (own : Slots) (supers : List (Option Param)) :
    ∀ (slots : List Slot) (ov : Bool) (acc : Slots),
      (searchAll false own supers slots ov acc).2 = (ov || anyOverridden own supers slots)
  | [], _, _ => by simp [searchAll, anyOverridden]
  | t :: rest, ov, acc => by
    simp only [searchAll]
    rw [searchAll_snd own supers rest, searchSlot_snd]
    simp [anyOverridden, offers, Bool.or_assoc]

theorem firstSome_offers (own : Slots) (supers : List (Option Param)) (s : Slot) :
    firstSome (offers own supers s) = (match own s with | some v => some v | none => nearest supers s) := by
  unfold firstSome offers nearest
  cases h : own s with
  | none => simp [List.filterMap_map]
  | some v => simp


/-! ### from the search to the slots of the merged Parameter -/

theorem mem_slotOrder (s : Slot) : s ∈ slotOrder := by cases s <;> simp [slotOrder]

theorem mem_slotsOf {T : PType} {s : Slot} : s ∈ slotsOf T ↔ hasSlot T s = true := by
  simp [slotsOf, mem_slotOrder]

theorem mergeSearch_fst (own : Param) (supers : List (Option Param)) (s : Slot) :
    (mergeSearch own supers).1 s =
      if hasSlot own.ptype s then firstSome (offers own.slots supers s) else none := by
  unfold mergeSearch
  rw [searchAll_fst]
  simp [mem_slotsOf]

theorem mergeSearch_snd (own : Param) (supers : List (Option Param))
    (h : typeChange own.ptype supers = false) :
    (mergeSearch own supers).2 = anyOverridden own.slots supers (slotsOf own.ptype) := by
  unfold mergeSearch
  rw [h, searchAll_snd]
  simp

theorem cfgOf_copyMutable (op name : Nat) (f : Slots) : cfgOf (copyMutable op name f) = cfgOf f := by
  funext s
  simp only [cfgOf, copyMutable]
  cases f s with
  | none => rfl
  | some v => simp only []; split <;> rfl

theorem cfgOf_set (f : Slots) (s : Slot) (v : Option Val) (t : Slot) :
    cfgOf (f.set s v) t = if t = s then v.map (·.v) else cfgOf f t := by
  simp only [cfgOf, Slots.set]
  split <;> rfl

theorem ownSpecified_of_ne_names (own : Param) {s : Slot} (_h : s ≠ .names) :
    ownSpecified own s = own.slots s := rfl

/-- the static part of the merge is the declarative "own, else nearest, else the type's default" -/
theorem staticFill_found_cfg' (own : Param) (supers : List (Option Param)) {s : Slot}
    (hs : hasSlot own.ptype s = true) :
    cfgOf (staticFill own.ptype (mergeSearch own supers).1) s = specStatic own supers s := by
  simp only [cfgOf, staticFill, mergeSearch_fst, hs, if_true, firstSome_offers, specStatic, chosen, ownSpecified]
  cases h1 : own.slots s with
  | some v => simp
  | none =>
    simp only []
    cases h2 : nearest supers s with
    | some v => simp
    | none =>
      simp only []
      cases h3 : typeDefault own.ptype s with
      | static v => simp
      | computed => simp
      | missing => simp

theorem staticFill_found_cfg (own : Param) (supers : List (Option Param)) {s : Slot}
    (hs : hasSlot own.ptype s = true) (_hn : s ≠ .names) :
    cfgOf (staticFill own.ptype (mergeSearch own supers).1) s = specStatic own supers s :=
  staticFill_found_cfg' own supers hs

/-! ### the steps after the search: `_slot_defaults` callables, `_update_state` -/


theorem prepare_plain {T : PType} (h1 : T ≠ .tuple) (h2 : T ≠ .selector) (op name : Nat) (found : Slots) :
    prepare T op name found =
      if missingKey T found then .error (.keyError, found)
      else .ok (copyMutable op name (staticFill T found)) := by
  cases T <;> simp_all [prepare, runCallables, updateState]

/-- `_compute_length_of_default` -/
def lenOfDefault (c : Cfg) : Option PyV :=
  ((c .default).bind PyV.len).map fun (n : Nat) => PyV.atom (.int (Int.ofNat n))

theorem runCallables_tuple_cfg {st op name : Nat} {f g : Slots}
    (h : runCallables .tuple st op name f = .ok g) (s : Slot) :
    cfgOf g s = if s = .length then (cfgOf f .length).or (lenOfDefault (cfgOf f)) else cfgOf f s := by
  simp only [runCallables] at h
  cases hl : f .length with
  | some v =>
    simp only [hl] at h
    cases h
    by_cases hs : s = .length
    · subst hs; simp [cfgOf, hl]
    · simp [hs]
  | none =>
    simp only [hl] at h
    cases hd : (f .default).bind (·.v.len) with
    | none => simp [hd] at h
    | some n =>
      simp only [hd] at h
      cases h
      rw [cfgOf_set]
      by_cases hs : s = .length
      · subst hs
        simp only [if_true, cfgOf, hl, Option.map, lenOfDefault]
        cases hf : f .default with
        | none => simp [hf] at hd
        | some d =>
          simp only [hf, Option.bind] at hd
          simp [hd, atomV]
      · simp [hs]

theorem runCallables_tuple_err {st op name : Nat} {f : Slots} {e : ErrKind}
    (h : runCallables .tuple st op name f = .error e) :
    cfgOf f .length = none ∧ lenOfDefault (cfgOf f) = none := by
  simp only [runCallables] at h
  cases hl : f .length with
  | some v => simp [hl] at h
  | none =>
    simp only [hl] at h
    cases hd : (f .default).bind (·.v.len) with
    | some n => simp [hd] at h
    | none =>
      refine ⟨by simp [cfgOf, hl], ?_⟩
      simp only [lenOfDefault, cfgOf]
      cases hf : f .default with
      | none => rfl
      | some d => simp only [hf, Option.bind] at hd; simp [hd]



def selBase (c : Cfg) : PyV := (c .objects).getD (.list [])
def selCos (c : Cfg) : Option PyV :=
  (c .checkOnSet).or ((selBase c).len.map fun n => PyV.atom (.bool (n != 0)))

theorem selectorNamesDefault_cfg (st op name : Nat) (f : Slots) (s : Slot) :
    cfgOf (selectorNamesDefault st op name f) s =
      if s = .names then some ((cfgOf f .names).getD (.dict [])) else cfgOf f s := by
  unfold selectorNamesDefault
  cases hn : f .names with
  | some v =>
    by_cases hs : s = .names
    · subst hs; simp [cfgOf, hn]
    · simp [hs]
  | none =>
    rw [cfgOf_set]
    by_cases hs : s = .names
    · subst hs; simp [cfgOf, hn]
    · simp [hs]

theorem runCallables_selector_cfg {st op name : Nat} {f g : Slots}
    (h : runCallables .selector st op name f = .ok g) (s : Slot) :
    cfgOf g s = if s = .objects then some (selBase (cfgOf f))
                else if s = .checkOnSet then selCos (cfgOf f)
                else if s = .names then some ((cfgOf f .names).getD (.dict [])) else cfgOf f s := by
  simp only [runCallables] at h
  -- the objects step
  generalize hf1 : selectorObjectsDefault st op name f = f1 at h
  have h1 : ∀ t, cfgOf f1 t = if t = .objects then some (selBase (cfgOf f)) else cfgOf f t := by
    intro t
    subst hf1
    unfold selectorObjectsDefault
    cases ho : f .objects with
    | some v =>
      by_cases ht : t = .objects
      · subst ht; simp [cfgOf, selBase, ho]
      · simp [ht]
    | none =>
      simp only [cfgOf_set]
      by_cases ht : t = .objects
      · subst ht; simp [cfgOf, selBase, ho]
      · simp [ht]
  have hb : selBase (cfgOf f1) = selBase (cfgOf f) := by
    simp [selBase, h1 .objects]
  cases hc : f1 .checkOnSet with
  | some v =>
    simp only [hc] at h
    cases h
    rw [selectorNamesDefault_cfg]
    by_cases hsn : s = .names
    · subst hsn
      have := h1 .names
      simp only [reduceCtorEq, if_false] at this
      simp [this]
    simp only [hsn, if_false]
    rw [h1 s]
    by_cases hs : s = .objects
    · simp [hs]
    · by_cases hs2 : s = .checkOnSet
      · subst hs2
        have := h1 .checkOnSet
        simp at this
        have hv : cfgOf f .checkOnSet = some v.v := by rw [← this]; simp [cfgOf, hc]
        simp [selCos, hv]
      · simp [hs, hs2]
  | none =>
    simp only [hc] at h
    cases hn : (f1 .objects).bind (·.v.len) with
    | none => simp [hn] at h
    | some n =>
      simp only [hn] at h
      cases h
      rw [selectorNamesDefault_cfg]
      by_cases hsn : s = .names
      · subst hsn
        rw [cfgOf_set]
        have := h1 .names
        simp only [reduceCtorEq, if_false] at this
        simp [this]
      simp only [hsn, if_false]
      rw [cfgOf_set, h1 s]
      by_cases hs2 : s = .checkOnSet
      · subst hs2
        have hcf : cfgOf f .checkOnSet = none := by
          have := h1 .checkOnSet
          simp at this
          rw [← this]; simp [cfgOf, hc]
        have ho := h1 .objects
        simp only [if_true] at ho
        simp only [cfgOf] at ho
        cases hfo : f1 .objects with
        | none => simp [hfo] at hn
        | some ov =>
          simp only [hfo, Option.map] at ho
          simp only [hfo, Option.bind] at hn
          injection ho with ho
          simp [selCos, hcf, ← ho, hn, boolV, atomV]
      · simp [hs2]



theorem Atom.pyEq_refl (a : Atom) : a.pyEq a = true := by
  unfold Atom.pyEq
  cases h : a.num2 <;> simp

theorem adopt_idem (objs val : PyV) : adopt (adopt objs val) val = adopt objs val := by
  unfold adopt
  cases objs <;> cases val <;> try rfl
  rename_i l a
  cases h : (l.any fun x => a.pyEq x) with
  | true => simp only [h, if_true]
  | false =>
    simp only [h, Bool.false_eq_true, if_false]
    have : ((l ++ [a]).any fun x => a.pyEq x) = true := by simp [Atom.pyEq_refl]
    simp only [this, if_true]

theorem ensureInObjects_cfg {f g : Slots} {val : PyV} (h : ensureInObjects f val = .ok g) (s : Slot) :
    cfgOf g s = if s = .objects then (cfgOf f .objects).map (adopt · val) else cfgOf f s := by
  unfold ensureInObjects at h
  split at h
  · rename_i i l ho
    split at h
    · rename_i a
      cases h
      cases hm : (l.any fun x => a.pyEq x) with
      | true =>
        simp only [if_true]
        by_cases hs : s = .objects
        · subst hs; simp only [cfgOf, ho, adopt, hm, if_true, Option.map]
        · simp [hs]
      | false =>
        simp only [Bool.false_eq_true, if_false]
        rw [cfgOf_set]
        by_cases hs : s = .objects
        · subst hs; simp only [cfgOf, ho, adopt, hm, if_true, Option.map, Bool.false_eq_true, if_false]
        · simp [hs]
    · simp at h
  · simp at h

/-- `ensureInObjects` succeeds only on a list of objects and an atomic value -/
theorem ensureInObjects_shape {f g : Slots} {val : PyV} (h : ensureInObjects f val = .ok g) :
    (∃ l, cfgOf f .objects = some (.list l)) ∧ ∃ a, val = .atom a := by
  unfold ensureInObjects at h
  split at h
  · rename_i i l ho
    split at h
    · exact ⟨⟨l, by simp [cfgOf, ho]⟩, _, rfl⟩
    · simp at h
  · simp at h

theorem updateState_plain {T : PType} (h : T ≠ .selector) (f : Slots) : updateState T f = .ok f := by
  cases T <;> simp_all [updateState]

theorem updateState_selector_cfg {f g : Slots} (h : updateState .selector f = .ok g) (s : Slot) :
    ∃ cos d, cfgOf f .checkOnSet = some cos ∧ cfgOf f .default = some d ∧
      cfgOf g s = if s = .objects ∧ cos = .atom (.bool false) ∧ d.isNone = false
                  then (cfgOf f .objects).map (adopt · d) else cfgOf f s := by
  simp only [updateState] at h
  split at h
  · rename_i cos d hc hd
    refine ⟨cos.v, d.v, by simp [cfgOf, hc], by simp [cfgOf, hd], ?_⟩
    split at h
    · rename_i hcond
      simp only [Bool.and_eq_true, beq_iff_eq, Bool.not_eq_true'] at hcond
      rw [ensureInObjects_cfg h]
      by_cases hs : s = .objects
      · simp [hs, hcond.1, hcond.2]
      · simp [hs]
    · rename_i hcond
      cases h
      simp only [Bool.and_eq_true, beq_iff_eq, Bool.not_eq_true'] at hcond
      by_cases hs : s = .objects
      · subst hs
        by_cases h1 : cos.v = .atom (.bool false)
        · have : ¬ d.v.isNone = false := fun h2 => hcond ⟨h1, h2⟩
          simp [this]
        · simp [h1]
      · simp [hs]
  · simp at h



/-! ### the shape of `inherit` once the merge reaches the re-validation decision -/


/-- the merge got as far as the re-validation decision (it did not stop at a
missing `_slot_defaults` entry, a raising callable or an unmodelled input) -/
def Outcome.reached : Outcome → Bool
  | .ok => true
  | .invalid _ => true
  | _ => false

theorem prepare_error_not_reached {T : PType} {op name : Nat} {found f : Slots} {o : Outcome}
    (h : prepare T op name found = .error (o, f)) : o.reached = false := by
  simp only [prepare] at h
  split at h
  · cases h; rfl
  · split at h
    · cases h; rfl
    · split at h
      · cases h; rfl
      · cases h

/-- the re-validation condition of `__param_inheritance` -/
def revalCond (own : Param) (supers : List (Option Param)) (d : PyV) : Bool :=
  typeChange own.ptype supers || ((mergeSearch own supers).2 && !d.isNone)

theorem inherit_reached {rx : String → String → Bool} {op name : Nat} {own : Param} {supers : List (Option Param)}
    (hr : (inherit rx op name own supers).outcome.reached = true) :
    ∃ f4 d, prepare own.ptype op name (mergeSearch own supers).1 = .ok f4 ∧ f4 .default = some d ∧
      (inherit rx op name own supers).revalidated = revalCond own supers d.v ∧
      (inherit rx op name own supers).param.slots =
        (if revalCond own supers d.v then (revalidate rx own.ptype f4 d.v).1 else f4) ∧
      (inherit rx op name own supers).outcome =
        (if revalCond own supers d.v then (revalidate rx own.ptype f4 d.v).2 else .ok) := by
  unfold inherit at hr ⊢
  simp only [] at hr ⊢
  split at hr
  · rename_i o f hp
    rw [prepare_error_not_reached hp] at hr
    cases hr
  · rename_i f4 hp
    split at hr
    · cases hr
    · rename_i d hd
      refine ⟨f4, d, hp, hd, ?_⟩
      simp only [revalCond]
      split <;> simp_all



theorem expected_plain {own : Param} (supers : List (Option Param)) (s : Slot)
    (h1 : own.ptype ≠ .tuple) (h2 : own.ptype ≠ .selector) :
    expected own supers s = specStatic own supers s := by
  unfold expected
  split <;> simp_all

theorem revalidate_fst_plain (rx : String → String → Bool) {T : PType} (h : T ≠ .selector) (f : Slots) (d : PyV) :
    (revalidate rx T f d).1 = f := by
  unfold revalidate
  have : (T == PType.selector) = false := by cases T <;> simp_all
  simp only [this, Bool.false_and, Bool.false_eq_true, if_false]
  split <;> rfl

theorem prepare_tuple_cfg {op name : Nat} {found f4 : Slots} (h : prepare .tuple op name found = .ok f4) (s : Slot) :
    cfgOf f4 s =
      if s = .length then
        (cfgOf (staticFill .tuple found) .length).or (lenOfDefault (cfgOf (staticFill .tuple found)))
      else cfgOf (staticFill .tuple found) s := by
  simp only [prepare] at h
  split at h
  · cases h
  · split at h
    · cases h
    · rename_i f3 hf3
      rw [updateState_plain (by decide)] at h
      cases h
      rw [runCallables_tuple_cfg hf3 s, cfgOf_copyMutable]

theorem prepare_selector_cfg {op name : Nat} {found f4 : Slots} {c0 : Cfg}
    (hc0 : c0 = cfgOf (staticFill .selector found)) (h : prepare .selector op name found = .ok f4) :
    ∃ cos d, selCos c0 = some cos ∧ c0 .default = some d ∧ ∀ s,
      cfgOf f4 s =
        if s = .objects then
          (if cos = .atom (.bool false) ∧ d.isNone = false then some (adopt (selBase c0) d) else some (selBase c0))
        else if s = .checkOnSet then some cos
        else if s = .names then some ((c0 .names).getD (.dict [])) else c0 s := by
  subst hc0
  simp only [prepare] at h
  split at h
  · cases h
  · split at h
    · cases h
    · rename_i f3 hf3
      split at h
      · cases h
      · rename_i f4' hf4
        cases h
        have h3 := fun s => runCallables_selector_cfg hf3 s
        simp only [cfgOf_copyMutable] at h3
        obtain ⟨cos, d, hc, hd, _⟩ := updateState_selector_cfg hf4 .default
        have hc' : selCos (cfgOf (staticFill .selector found)) = some cos := by rw [← hc, h3]; simp
        have hd' : cfgOf (staticFill .selector found) .default = some d := by rw [← hd, h3]; simp
        refine ⟨cos, d, hc', hd', ?_⟩
        intro s
        obtain ⟨cos2, d2, hc2, hd2, hs⟩ := updateState_selector_cfg hf4 s
        rw [hc] at hc2; rw [hd] at hd2
        cases hc2; cases hd2
        rw [hs]
        by_cases h1 : s = .objects
        · subst h1
          simp only [true_and, if_true, h3]
          split <;> simp
        · simp only [h1, false_and, if_false, h3]
          by_cases h2 : s = .checkOnSet
          · subst h2; simp [hc']
          · simp [h2]




theorem cfgOf_some {f : Slots} {s : Slot} {v : PyV} (h : cfgOf f s = some v) : ∃ w, f s = some w ∧ w.v = v := by
  simp only [cfgOf] at h
  cases hf : f s with
  | none => simp [hf] at h
  | some w => simp [hf] at h; exact ⟨w, rfl, h⟩

theorem revalidate_selector_true (rx : String → String → Bool) {f : Slots} {cos : PyV} (d : PyV)
    (hc : cfgOf f .checkOnSet = some cos) (ht : cos.truthy = true) :
    (revalidate rx .selector f d).1 = f := by
  obtain ⟨w, hw, hv⟩ := cfgOf_some hc
  unfold revalidate
  simp only [cosFalsy, hw, hv, ht]
  simp only [Bool.not_true, Bool.and_false, Bool.false_eq_true, if_false]
  split <;> rfl

theorem revalidate_selector_false_ok (rx : String → String → Bool) {f f5 : Slots} {cos d : PyV}
    (hc : cfgOf f .checkOnSet = some cos) (ht : cos.truthy = false) (he : ensureInObjects f d = .ok f5) :
    revalidate rx .selector f d = (f5, .ok) := by
  obtain ⟨w, hw, hv⟩ := cfgOf_some hc
  unfold revalidate
  simp [cosFalsy, hw, hv, ht, he]

theorem revalidate_selector_false_err (rx : String → String → Bool) {f : Slots} {cos d : PyV} {e : ErrKind}
    (hc : cfgOf f .checkOnSet = some cos) (ht : cos.truthy = false) (he : ensureInObjects f d = .error e) :
    revalidate rx .selector f d = (f, .unsupported) := by
  obtain ⟨w, hw, hv⟩ := cfgOf_some hc
  unfold revalidate
  simp [cosFalsy, hw, hv, ht, he]



/-! ### every slot of the merged Parameter is what the declarative resolver says -/


theorem specDefault_len (own : Param) (supers : List (Option Param)) :
    lenOfDefault (fun s => specStatic own supers s) =
      (specDefault own supers).len.map fun (n : Nat) => PyV.atom (.int (Int.ofNat n)) := by
  unfold lenOfDefault specDefault
  simp only []
  cases h : specStatic own supers .default with
  | none => simp [PyV.len]
  | some v => simp

theorem hasSlot_names {T : PType} (h : hasSlot T .names = true) : T = .selector := by
  cases T <;> simp_all [hasSlot]

theorem inherit_ptype (rx : String → String → Bool) (op name : Nat) (own : Param) (supers : List (Option Param)) :
    (inherit rx op name own supers).param.ptype = own.ptype := by
  unfold inherit; simp only []; split
  · rfl
  · split
    · rfl
    · split <;> rfl

/-- every slot but `names` of the merged Parameter holds what the declarative
resolver says, for the plain types -/
theorem held_eq_expected_plain (rx : String → String → Bool) (op name : Nat) (own : Param)
    (supers : List (Option Param))
    (hr : (inherit rx op name own supers).outcome.reached = true)
    (h1 : own.ptype ≠ .tuple) (h2 : own.ptype ≠ .selector)
    {s : Slot} (hs : hasSlot own.ptype s = true) :
    (inherit rx op name own supers).param.cfg s = expected own supers s := by
  obtain ⟨f4, d, hp, hd, _, hslots, _⟩ := inherit_reached hr
  have hn : s ≠ .names := by
    intro h; subst h
    exact h2 (hasSlot_names hs)
  rw [prepare_plain h1 h2] at hp
  split at hp
  · cases hp
  · cases hp
    have : (inherit rx op name own supers).param.cfg s = cfgOf (inherit rx op name own supers).param.slots s := rfl
    rw [this, hslots, revalidate_fst_plain rx h2, expected_plain supers s h1 h2]
    simp only [ite_self, cfgOf_copyMutable]
    exact staticFill_found_cfg own supers hs hn



theorem expected_tuple {own : Param} (supers : List (Option Param)) (s : Slot) (hT : own.ptype = .tuple) :
    expected own supers s =
      if s = .length then (specStatic own supers .length).or
          ((specDefault own supers).len.map fun (n : Nat) => PyV.atom (.int (Int.ofNat n)))
      else specStatic own supers s := by
  unfold expected
  rw [hT]
  cases s <;> simp
  cases specStatic own supers .length <;> rfl

theorem held_eq_expected_tuple (rx : String → String → Bool) (op name : Nat) (own : Param)
    (supers : List (Option Param))
    (hr : (inherit rx op name own supers).outcome.reached = true)
    (hT : own.ptype = .tuple)
    {s : Slot} (hs : hasSlot own.ptype s = true) :
    (inherit rx op name own supers).param.cfg s = expected own supers s := by
  obtain ⟨f4, d, hp, hd, _, hslots, _⟩ := inherit_reached hr
  have hsel : own.ptype ≠ .selector := by rw [hT]; decide
  have hn : ∀ t, hasSlot own.ptype t = true → t ≠ .names := by
    intro t ht h; subst h
    exact hsel (hasSlot_names ht)
  have hc0 : ∀ t, hasSlot own.ptype t = true →
      cfgOf (staticFill .tuple (mergeSearch own supers).1) t = specStatic own supers t := by
    intro t ht
    rw [← hT]; exact staticFill_found_cfg own supers ht (hn t ht)
  have : (inherit rx op name own supers).param.cfg s = cfgOf (inherit rx op name own supers).param.slots s := rfl
  rw [this, hslots, revalidate_fst_plain rx hsel, expected_tuple supers s hT]
  simp only [ite_self]
  rw [hT] at hp
  rw [prepare_tuple_cfg hp s]
  by_cases h : s = .length
  · subst h
    simp only [if_true]
    rw [hc0 .length hs, ← specDefault_len]
    unfold lenOfDefault
    rw [hc0 .default (by rw [hT]; rfl)]
  · simp only [h, if_false]
    exact hc0 s hs



theorem specCheckOnSet_eq (own : Param) (supers : List (Option Param)) :
    specCheckOnSet own supers =
      (specStatic own supers .checkOnSet).or
        ((specBaseObjects own supers).len.map fun n => PyV.atom (.bool (n != 0))) := by
  unfold specCheckOnSet
  cases specStatic own supers .checkOnSet <;> rfl

theorem expected_selector_objects {own : Param} (supers : List (Option Param)) (hT : own.ptype = .selector)
    {cos : PyV} (hc : specCheckOnSet own supers = some cos) :
    expected own supers .objects =
      if !cos.truthy && (!(specDefault own supers).isNone || specTypeChanged own supers)
      then some (adopt (specBaseObjects own supers) (specDefault own supers))
      else some (specBaseObjects own supers) := by
  unfold expected
  rw [hT]
  simp only [hc]

theorem expected_selector_cos {own : Param} (supers : List (Option Param)) (hT : own.ptype = .selector) :
    expected own supers .checkOnSet = specCheckOnSet own supers := by
  unfold expected
  rw [hT]

theorem expected_selector_other {own : Param} (supers : List (Option Param)) (hT : own.ptype = .selector)
    {s : Slot} (h1 : s ≠ .objects) (h2 : s ≠ .checkOnSet) (h3 : s ≠ .names) :
    expected own supers s = specStatic own supers s := by
  unfold expected
  rw [hT]
  cases s <;> simp_all



theorem held_eq_expected_selector (rx : String → String → Bool) (op name : Nat) (own : Param)
    (supers : List (Option Param))
    (hr : (inherit rx op name own supers).outcome.reached = true)
    (hT : own.ptype = .selector)
    (hcos : ∃ b, specCheckOnSet own supers = some (.atom (.bool b)))
    {s : Slot} (hs : hasSlot own.ptype s = true) (hn : s ≠ .names) :
    (inherit rx op name own supers).param.cfg s = expected own supers s := by
  obtain ⟨f4, d, hp, hd, _, hslots, hout⟩ := inherit_reached hr
  rw [hT] at hp hslots hout
  obtain ⟨cos, dd, hc0, hd0, hall⟩ := prepare_selector_cfg rfl hp
  -- the static part is the declarative resolver
  have hst : ∀ t, hasSlot own.ptype t = true → t ≠ .names →
      cfgOf (staticFill .selector (mergeSearch own supers).1) t = specStatic own supers t := by
    intro t ht hn; rw [← hT]; exact staticFill_found_cfg own supers ht hn
  have hbase : selBase (cfgOf (staticFill .selector (mergeSearch own supers).1)) = specBaseObjects own supers := by
    unfold selBase specBaseObjects
    rw [hst .objects (by rw [hT]; rfl) (by decide)]
  have hcs : specCheckOnSet own supers = some cos := by
    rw [specCheckOnSet_eq, ← hc0]
    unfold selCos
    rw [hbase, hst .checkOnSet (by rw [hT]; rfl) (by decide)]
  have hdd : specDefault own supers = dd := by
    unfold specDefault
    rw [← hst .default (by rw [hT]; rfl) (by decide), hd0]; rfl
  have hdv : d.v = dd := by
    have := hall .default
    have h2 : cfgOf f4 .default = some d.v := by simp [cfgOf, hd]
    rw [h2] at this
    simp only [reduceCtorEq, if_false] at this
    rw [hd0] at this
    exact Option.some.inj this
  obtain ⟨b, hb⟩ := hcos
  rw [hcs] at hb
  cases hb
  have hcf4 : cfgOf f4 .checkOnSet = some (.atom (.bool b)) := by rw [hall]; simp
  have hobj4 : cfgOf f4 .objects =
      if b = false ∧ dd.isNone = false then some (adopt (specBaseObjects own supers) dd)
      else some (specBaseObjects own supers) := by
    rw [hall]; simp [hbase]
  have hcfg : (inherit rx op name own supers).param.cfg s = cfgOf (inherit rx op name own supers).param.slots s := rfl
  rw [hcfg, hslots]
  -- the slots other than `objects` are never touched again
  have hrest : ∀ g : Slots, (∀ t, t ≠ .objects → cfgOf g t = cfgOf f4 t) → s ≠ .objects →
      cfgOf g s = expected own supers s := by
    intro g hg hso
    rw [hg s hso, hall s]
    by_cases hsc : s = .checkOnSet
    · subst hsc; simp [expected_selector_cos supers hT, hcs]
    · simp only [hso, hsc, hn, if_false]
      rw [expected_selector_other supers hT hso hsc hn]
      exact hst s hs hn
  cases b with
  | true =>
    rw [revalidate_selector_true rx d.v hcf4 rfl]
    simp only [ite_self]
    by_cases hso : s = .objects
    · subst hso
      rw [hobj4, expected_selector_objects supers hT hcs]
      simp [PyV.truthy]
    · exact hrest f4 (fun _ _ => rfl) hso
  | false =>
    by_cases hrc : revalCond own supers d.v = true
    · simp only [hrc, if_true] at hout ⊢
      cases he : ensureInObjects f4 d.v with
      | error e =>
        rw [revalidate_selector_false_err rx hcf4 rfl he] at hout
        rw [hout] at hr
        cases hr
      | ok f5 =>
        rw [revalidate_selector_false_ok rx hcf4 rfl he]
        have h5 := fun t => ensureInObjects_cfg he t
        by_cases hso : s = .objects
        · subst hso
          rw [h5, hobj4, expected_selector_objects supers hT hcs, hdd, hdv]
          simp only [if_true, PyV.truthy, Bool.not_false, Bool.true_and, true_and]
          cases hnone : dd.isNone with
          | false => simp [adopt_idem]
          | true =>
            have htc : specTypeChanged own supers = true := by
              simp only [revalCond, hdv, hnone, Bool.not_true, Bool.and_false, Bool.or_false] at hrc
              exact hrc
            simp [htc]
        · exact hrest f5 (fun t ht => by rw [h5]; simp [ht]) hso
    · simp only [hrc, Bool.false_eq_true, if_false]
      by_cases hso : s = .objects
      · subst hso
        rw [hobj4, expected_selector_objects supers hT hcs, hdd]
        have htc : specTypeChanged own supers = false := by
          simp only [revalCond, Bool.or_eq_true, not_or, Bool.not_eq_true] at hrc
          exact hrc.1
        simp [PyV.truthy, htc]
      · exact hrest f4 (fun _ _ => rfl) hso



/-! ### validation: the slots it reads, monotone along `issubclass` -/


/-- the slots `<Type>._validate` reads (besides the value itself) -/
def relevant : PType → Slot → Bool
  | .number, .allowNone | .number, .step | .number, .bounds | .number, .inclusiveBounds => true
  | .integer, .allowNone | .integer, .step | .integer, .bounds | .integer, .inclusiveBounds => true
  | .string, .allowNone | .string, .regex => true
  | .tuple, .allowNone | .tuple, .length => true
  | .list, .allowNone | .list, .bounds | .list, .itemType => true
  | .selector, .checkOnSet | .selector, .allowNone | .selector, .objects => true
  | _, _ => false

theorem relevant_hasSlot {T : PType} {s : Slot} (h : relevant T s = true) : hasSlot T s = true := by
  cases T <;> cases s <;> simp_all [relevant, hasSlot]

theorem relevant_validated {T : PType} {s : Slot} (h : relevant T s = true) : nonValidated s = false := by
  cases T <;> cases s <;> simp_all [relevant, nonValidated]

theorem validate_congr (rx : String → String → Bool) (T : PType) {c c' : Cfg} (v : PyV)
    (h : ∀ s, relevant T s = true → c s = c' s) : validate rx T c v = validate rx T c' v := by
  cases T
  · rfl
  · simp only [validate, validateNumber, h .allowNone rfl, h .step rfl, h .bounds rfl, h .inclusiveBounds rfl]
  · simp only [validate, validateNumber, h .allowNone rfl, h .step rfl, h .bounds rfl, h .inclusiveBounds rfl]
  · simp only [validate, validateString, Cfg.get, h .allowNone rfl, h .regex rfl]
  · simp only [validate, validateTuple, Cfg.get, h .allowNone rfl, h .length rfl]
  · simp only [validate, validateList, Cfg.get, h .allowNone rfl, h .bounds rfl, h .itemType rfl]
  · simp only [validate, validateSelector, h .allowNone rfl, h .checkOnSet rfl, h .objects rfl]

theorem sub_hasSlot {T' T : PType} {s : Slot} (h : T'.sub T = true) (hs : hasSlot T s = true) :
    hasSlot T' s = true := by
  cases T' <;> cases T <;> simp_all [PType.sub] <;> cases s <;> simp_all [hasSlot]



theorem isInt_isNumber {v : PyV} (h : v.isInt = true) : v.isNumber = true := by
  cases v with
  | atom a => cases a <;> simp_all [PyV.isInt, PyV.isNumber, Atom.num2]
  | _ => simp [PyV.isInt] at h

theorem numValueOk_mono {a : Bool} {v : PyV} (h : numValueOk true a v = true) : numValueOk false a v = true := by
  simp only [numValueOk, if_true, Bool.or_eq_true, Bool.and_eq_true, Bool.false_eq_true, if_false] at h ⊢
  exact h.elim Or.inl (fun x => Or.inr (isInt_isNumber x))

theorem numStepOk_mono {v : PyV} (h : numStepOk true v = true) : numStepOk false v = true := by
  simp only [numStepOk, if_true, Bool.or_eq_true, Bool.false_eq_true, if_false] at h ⊢
  exact h.elim Or.inl (fun x => Or.inr (isInt_isNumber x))

theorem validateNumber_mono {c : Cfg} {v : PyV} (h : validateNumber true c v = .ok ()) :
    validateNumber false c v = .ok () := by
  unfold validateNumber at h ⊢
  split at h
  · rename_i an step bounds incl h1 h2 h3 h4
    split at h
    · cases h
    · rename_i hv
      split at h
      · cases h
      · rename_i hst
        have e1 := numValueOk_mono (a := an.truthy) (v := v) (by simpa using hv)
        have e2 := numStepOk_mono (v := step) (by simpa using hst)
        simp [e1, e2, h]
  · cases h

/-- a default a more specific Parameter type accepts is accepted by the more general one -/
theorem validate_mono (rx : String → String → Bool) {T' T : PType} (hsub : T'.sub T = true) {c : Cfg} {v : PyV}
    (h : validate rx T' c v = .ok ()) : validate rx T c v = .ok () := by
  cases T' <;> cases T <;> simp_all [PType.sub, validate]
  exact validateNumber_mono h



/-! ### identity, overriding, and the nearest declaring class -/


theorem Val.is_refl (a : Val) : a.is a = true := by simp [Val.is]

theorem Val.is_v {a b : Val} (h : a.is b = true) : a.v = b.v := by
  simp only [Val.is, Bool.and_eq_true, beq_iff_eq] at h
  exact h.1

theorem mem_filterMap_id {l : List (Option Val)} {v : Val} : v ∈ l.filterMap id ↔ some v ∈ l := by
  simp [List.mem_filterMap]

theorem distinct2_false {l : List (Option Val)} (h : distinct2 l = false) {o v : Val}
    (ho : firstSome l = some o) (hv : some v ∈ l) : v.is o = true := by
  unfold distinct2 at h
  unfold firstSome at ho
  have hv' := mem_filterMap_id.2 hv
  cases hl : l.filterMap id with
  | nil => simp [hl] at ho
  | cons o' rest =>
    simp only [hl, List.head?_cons, Option.some.injEq] at ho h hv'
    subst ho
    rcases List.mem_cons.1 hv' with e | e
    · subst e; exact Val.is_refl _
    · have := List.any_eq_false.1 h v e
      simpa using this

theorem distinct2_true_iff {l : List (Option Val)} :
    distinct2 l = true ↔ ∃ o v, firstSome l = some o ∧ some v ∈ l ∧ v.is o = false := by
  constructor
  · intro h
    unfold distinct2 at h
    cases hl : l.filterMap id with
    | nil => simp [hl] at h
    | cons o rest =>
      simp only [hl, List.any_eq_true, Bool.not_eq_true'] at h
      obtain ⟨v, hv, hne⟩ := h
      refine ⟨o, v, by simp [firstSome, hl], mem_filterMap_id.1 (by rw [hl]; exact List.mem_cons_of_mem _ hv), hne⟩
  · rintro ⟨o, v, ho, hv, hne⟩
    cases hd : distinct2 l with
    | true => rfl
    | false => rw [distinct2_false hd ho hv] at hne; cases hne

/-- the Parameter of the nearest class of the MRO that declares it -/
def firstDecl (supers : List (Option Param)) : Option Param := (supers.filterMap id).head?

theorem nearest_of_firstDecl {supers : List (Option Param)} {h' : Param} {s : Slot} {v : Val}
    (hf : firstDecl supers = some h') (hv : slotAt s (some h') = some v) : nearest supers s = some v := by
  induction supers with
  | nil => simp [firstDecl] at hf
  | cons x rest ih =>
    cases x with
    | none =>
      have : nearest (none :: rest) s = nearest rest s := by simp only [nearest, List.filterMap_cons, slotAt]
      rw [this]
      exact ih (by simpa [firstDecl] using hf)
    | some p =>
      simp only [firstDecl, List.filterMap_cons, id, List.head?_cons, Option.some.injEq] at hf
      subst hf
      simp [nearest, hv]

theorem firstDecl_mem {supers : List (Option Param)} {h' : Param} (hf : firstDecl supers = some h') :
    some h' ∈ supers := by
  unfold firstDecl at hf
  have : h' ∈ supers.filterMap id := by
    cases hl : supers.filterMap id with
    | nil => simp [hl] at hf
    | cons a r => simp [hl] at hf; simp [hf]
  simpa [List.mem_filterMap] using this

theorem nearest_none_of_firstDecl_none {supers : List (Option Param)} (hf : firstDecl supers = none) (s : Slot) :
    nearest supers s = none := by
  induction supers with
  | nil => rfl
  | cons x rest ih =>
    cases x with
    | none =>
      have : nearest (none :: rest) s = nearest rest s := by simp only [nearest, List.filterMap_cons, slotAt]
      rw [this]; exact ih (by simpa [firstDecl] using hf)
    | some p => simp [firstDecl] at hf

/-- if a slot is not overridden, the value found has the value the nearest declaring class holds -/
theorem no_override_slot {own : Slots} {supers : List (Option Param)} {h' : Param} {s : Slot} {v' : Val}
    (hf : firstDecl supers = some h') (hv : slotAt s (some h') = some v')
    (hd : distinct2 (offers own supers s) = false) :
    ∃ o, firstSome (offers own supers s) = some o ∧ o.v = v'.v := by
  have hmem : some v' ∈ offers own supers s := by
    unfold offers
    refine List.mem_cons_of_mem _ ?_
    rw [← hv]
    exact List.mem_map_of_mem (firstDecl_mem hf)
  rw [firstSome_offers]
  cases ho : own s with
  | some o =>
    refine ⟨o, rfl, ?_⟩
    have hfs : firstSome (offers own supers s) = some o := by rw [firstSome_offers, ho]
    exact (Val.is_v (distinct2_false hd hfs hmem)).symm
  | none =>
    exact ⟨v', nearest_of_firstDecl hf hv, rfl⟩



/-! ### a merge that is not re-validated is valid anyway -/


/-- every slot of the Parameter's type holds a value (true of every Parameter a class owns) -/
def Filled (p : Param) : Prop := ∀ s, hasSlot p.ptype s = true → (p.slots s).isSome = true

/-- a Parameter as a class may hold it: all slots filled and a non-None default
that satisfies its own constraints and type -/
def Good (rx : String → String → Bool) (p : Param) : Prop := Filled p ∧ defaultOk rx p = true

/-- what a declaration offers on its own -/
def ownFound (own : Param) : Slots := fun s => if hasSlot own.ptype s then own.slots s else none

/-- The declaration's own constructor accepted its own default: declared alone,
in a class without ancestors, its non-None default validates (constructor-time
validation, C01's subject; `construct_ownValid` ties it to the modelled constructors). -/
def OwnValid (rx : String → String → Bool) (own : Param) : Prop :=
  ∀ op name f4 d, prepare own.ptype op name (ownFound own) = .ok f4 → f4 .default = some d →
    d.v.isNone = false → validate rx own.ptype (cfgOf f4) d.v = .ok ()

theorem mergeSearch_no_decl {own : Param} {supers : List (Option Param)} (h : firstDecl supers = none) :
    (mergeSearch own supers).1 = ownFound own := by
  funext s
  rw [mergeSearch_fst, firstSome_offers, nearest_none_of_firstDecl_none h]
  unfold ownFound
  cases own.slots s <;> rfl

theorem Sat_some {rx : String → String → Bool} {T : PType} {c : Cfg} {d : PyV} (hd : c .default = some d)
    (h : Sat rx T c = true) : validate rx T c d = .ok () := by
  unfold Sat at h
  rw [hd] at h
  simp only [] at h
  split at h
  · rename_i heq; exact heq
  · cases h

theorem anyOverridden_false {own : Slots} {supers : List (Option Param)} {slots : List Slot}
    (h : anyOverridden own supers slots = false) {s : Slot} (hs : s ∈ slots) (hv : nonValidated s = false) :
    distinct2 (offers own supers s) = false := by
  have := List.any_eq_false.1 h s hs
  simpa [hv] using this

/-- Without a type change and without an overridden slot, every validated slot of the
merge has the value the nearest declaring class holds. -/
theorem no_override_static {own : Param} {supers : List (Option Param)} {h' : Param}
    (hf : firstDecl supers = some h') (hfill : Filled h') (hsub : h'.ptype.sub own.ptype = true)
    (hov : anyOverridden own.slots supers (slotsOf own.ptype) = false)
    {s : Slot} (hs : hasSlot own.ptype s = true) (hv : nonValidated s = false) :
    cfgOf (staticFill own.ptype (mergeSearch own supers).1) s = h'.cfg s ∧ (h'.cfg s).isSome = true := by
  have hs' := sub_hasSlot hsub hs
  have hsome := hfill s hs'
  cases hv' : h'.slots s with
  | none => simp [hv'] at hsome
  | some v' =>
    have hat : slotAt s (some h') = some v' := by simp [slotAt, hs', hv']
    obtain ⟨o, ho, hov'⟩ := no_override_slot hf hat (anyOverridden_false hov (mem_slotsOf.2 hs) hv)
    simp [cfgOf, staticFill, mergeSearch_fst, hs, ho, Param.cfg, hv', hov']



theorem typeChange_false_sub {T : PType} {supers : List (Option Param)} (h : typeChange T supers = false)
    {h' : Param} (hm : some h' ∈ supers) : h'.ptype.sub T = true := by
  have := List.any_eq_false.1 h (some h') hm
  simpa using this

/-- if, on every validated slot, the static part of the merge has the value a valid Parameter `h'`
of a subtype holds, then the merged non-None default validates -/
theorem sat_of_static_agrees (rx : String → String → Bool) (op name : Nat) (own : Param)
    (supers : List (Option Param)) (h' : Param) (hok : defaultOk rx h' = true)
    (hsub : h'.ptype.sub own.ptype = true)
    (hst : ∀ s, hasSlot own.ptype s = true → nonValidated s = false →
      cfgOf (staticFill own.ptype (mergeSearch own supers).1) s = h'.cfg s ∧ (h'.cfg s).isSome = true)
    {f4 : Slots} {d : Val} (hp : prepare own.ptype op name (mergeSearch own supers).1 = .ok f4)
    (hd : f4 .default = some d) (hnn : d.v.isNone = false) :
    validate rx own.ptype (cfgOf f4) d.v = .ok () := by
  have hdv : cfgOf f4 .default = some d.v := by simp [cfgOf, hd]
  -- it suffices that f4 agrees with h' on the slots validation reads and on the default
  have finish : (∀ s, relevant own.ptype s = true → cfgOf f4 s = h'.cfg s) ∧ h'.cfg .default = some d.v →
      validate rx own.ptype (cfgOf f4) d.v = .ok () := by
    rintro ⟨hrel, hdef⟩
    rw [validate_congr rx own.ptype d.v hrel]
    apply validate_mono rx hsub
    unfold defaultOk at hok
    rw [hdef] at hok
    simp only [hnn, Bool.false_or] at hok
    exact Sat_some hdef hok
  by_cases h1 : own.ptype = .tuple
  · rw [h1] at hp
    have hc := prepare_tuple_cfg hp
    rw [← h1] at hc
    apply finish
    constructor
    · intro s hs
      rw [hc s]
      have ⟨e1, e2⟩ := hst s (relevant_hasSlot hs) (relevant_validated hs)
      by_cases hl : s = .length
      · subst hl
        simp only [if_true]
        rw [e1]
        cases hh : h'.cfg .length with
        | none => simp [hh] at e2
        | some v => rfl
      · simp only [hl, if_false]; exact e1
    · have ⟨e1, _⟩ := hst .default rfl rfl
      rw [← e1, ← hdv, hc .default]
      simp
  · by_cases h2 : own.ptype = .selector
    · rw [h2] at hp
      obtain ⟨cos, dd, hc0, hd0, hall⟩ := prepare_selector_cfg rfl hp
      rw [← h2] at hc0 hd0 hall
      have ⟨ed, _⟩ := hst .default rfl rfl
      have hdd : dd = d.v := by
        have := hall .default
        rw [hdv] at this
        simp only [reduceCtorEq, if_false] at this
        rw [hd0] at this
        exact (Option.some.inj this).symm
      have ⟨ec, ec2⟩ := hst .checkOnSet (by rw [h2]; rfl) rfl
      have ⟨eo, eo2⟩ := hst .objects (by rw [h2]; rfl) rfl
      have hcos : h'.cfg .checkOnSet = some cos := by
        rw [← ec]
        unfold selCos at hc0
        cases hh : cfgOf (staticFill own.ptype (mergeSearch own supers).1) .checkOnSet with
        | none => rw [ec] at hh; simp [hh] at ec2
        | some v => rw [hh] at hc0; simpa using hc0
      -- a Selector that does not check membership accepts everything
      by_cases hct : cos.truthy = true
      · apply finish
        refine ⟨?_, by rw [← ed, hd0, hdd]⟩
        intro s hs
        rw [hall s]
        have ⟨e1, _⟩ := hst s (relevant_hasSlot hs) (relevant_validated hs)
        by_cases hso : s = .objects
        · subst hso
          have hne : ¬ (cos = .atom (.bool false) ∧ dd.isNone = false) := by
            rintro ⟨hc, _⟩; rw [hc] at hct; cases hct
          simp only [if_true, hne, if_false]
          unfold selBase
          rw [eo]
          cases hh : h'.cfg .objects with
          | none => simp [hh] at eo2
          | some v => rfl
        · by_cases hsc : s = .checkOnSet
          · subst hsc; simp [hcos]
          · have hsn : s ≠ .names := by intro e; subst e; rw [h2] at hs; cases hs
            simp only [hso, hsc, hsn, if_false]; exact e1
      · have hct' : cos.truthy = false := by simpa using hct
        have ⟨ea, ea2⟩ := hst .allowNone rfl rfl
        have h4c : cfgOf f4 .checkOnSet = some cos := by rw [hall]; simp
        have h4a : (cfgOf f4 .allowNone).isSome = true := by
          rw [hall]; simp only [reduceCtorEq, if_false]; rw [ea]; exact ea2
        have h4o : (cfgOf f4 .objects).isSome = true := by
          rw [hall]; simp only [if_true]; split <;> rfl
        rw [h2]
        simp only [validate, validateSelector, h4c]
        cases ha : cfgOf f4 .allowNone with
        | none => simp [ha] at h4a
        | some an =>
          cases ho : cfgOf f4 .objects with
          | none => simp [ho] at h4o
          | some objs => simp [hct']
    · rw [prepare_plain h1 h2] at hp
      split at hp
      · cases hp
      · cases hp
        apply finish
        simp only [cfgOf_copyMutable] at hdv ⊢
        constructor
        · intro s hs
          exact (hst s (relevant_hasSlot hs) (relevant_validated hs)).1
        · have ⟨e1, _⟩ := hst .default rfl rfl
          rw [← e1, hdv]




/-- Core of the property's last sentence: a merge that is *not* re-validated and has a
non-None default still satisfies its constraints, because then it holds, slot by
slot, what a valid Parameter already held. -/
theorem not_revalidated_sat (rx : String → String → Bool) (op name : Nat) (own : Param)
    (supers : List (Option Param))
    (hown : OwnValid rx own) (hsup : ∀ h, some h ∈ supers → Good rx h)
    (htc : typeChange own.ptype supers = false) (hov : (mergeSearch own supers).2 = false)
    {f4 : Slots} {d : Val} (hp : prepare own.ptype op name (mergeSearch own supers).1 = .ok f4)
    (hd : f4 .default = some d) (hnn : d.v.isNone = false) :
    validate rx own.ptype (cfgOf f4) d.v = .ok () := by
  cases hf : firstDecl supers with
  | none =>
    rw [mergeSearch_no_decl hf] at hp
    exact hown op name f4 d hp hd hnn
  | some h' =>
    have hmem := firstDecl_mem hf
    obtain ⟨hfill, hok⟩ := hsup h' hmem
    have hsub := typeChange_false_sub htc hmem
    rw [mergeSearch_snd own supers htc] at hov
    exact sat_of_static_agrees rx op name own supers h' hok hsub
      (fun s hs hv => no_override_static (s := s) hf hfill hsub hov hs hv) hp hd hnn

/-! ### what a successful merge leaves behind -/


theorem isSome_cfgOf (f : Slots) (s : Slot) : (cfgOf f s).isSome = (f s).isSome := by
  simp [cfgOf]

theorem typeDefault_static_plain {T : PType} (h1 : T ≠ .tuple) (h2 : T ≠ .selector) {s : Slot}
    (hs : hasSlot T s = true) : ∃ v, typeDefault T s = .static v := by
  cases T <;> cases s <;> simp_all [hasSlot, typeDefault]

theorem staticFill_some_of_static {T : PType} {s : Slot} {v : Val} (hs : hasSlot T s = true)
    (hd : typeDefault T s = .static v) (f : Slots) : (staticFill T f s).isSome = true := by
  simp only [staticFill, hs, hd, if_true]
  cases f s <;> rfl

theorem prepare_filled {T : PType} {op name : Nat} {found f4 : Slots} (h : prepare T op name found = .ok f4)
    {s : Slot} (hs : hasSlot T s = true) : (f4 s).isSome = true := by
  rw [← isSome_cfgOf]
  by_cases h1 : T = .tuple
  · subst h1
    rw [prepare_tuple_cfg h s]
    by_cases hl : s = .length
    · subst hl
      -- the callable succeeded
      simp only [prepare] at h
      split at h
      · cases h
      · split at h
        · rename_i e he
          cases h
        · rename_i f3 hf3
          rw [updateState_plain (by decide)] at h
          cases h
          simp only [if_true]
          have := runCallables_tuple_cfg hf3 .length
          simp only [if_true, cfgOf_copyMutable] at this
          rw [← this]
          simp only [runCallables] at hf3
          rw [isSome_cfgOf]
          split at hf3
          · rename_i v hv
            cases hf3
            simp [hv]
          · split at hf3
            · cases hf3; simp [Slots.set]
            · cases hf3
    · simp only [hl, if_false]
      rw [isSome_cfgOf]
      have : ∃ v, typeDefault .tuple s = .static v := by
        cases s <;> simp_all [hasSlot, typeDefault]
      obtain ⟨v, hv⟩ := this
      exact staticFill_some_of_static hs hv _
  · by_cases h2 : T = .selector
    · subst h2
      obtain ⟨cos, dd, _, _, hall⟩ := prepare_selector_cfg rfl h
      rw [hall s]
      by_cases hso : s = .objects
      · simp only [hso, if_true]; split <;> rfl
      · by_cases hsc : s = .checkOnSet
        · simp [hsc]
        · simp only [hso, hsc, if_false]
          by_cases hsn : s = .names
          · simp [hsn]
          · simp only [hsn, if_false]
            rw [isSome_cfgOf]
            have : ∃ v, typeDefault .selector s = .static v := by
              cases s <;> simp_all [hasSlot, typeDefault]
            obtain ⟨v, hv⟩ := this
            exact staticFill_some_of_static hs hv _
    · rw [prepare_plain h1 h2] at h
      split at h
      · cases h
      · cases h
        rw [cfgOf_copyMutable, isSome_cfgOf]
        obtain ⟨v, hv⟩ := typeDefault_static_plain h1 h2 hs
        exact staticFill_some_of_static hs hv _

/-- re-validation touches no slot but a Selector's objects -/
theorem revalidate_cfg_other (rx : String → String → Bool) (T : PType) (f : Slots) (d : PyV) {s : Slot}
    (hs : s ≠ .objects) : cfgOf (revalidate rx T f d).1 s = cfgOf f s := by
  unfold revalidate
  split
  · cases he : ensureInObjects f d with
    | ok f5 => simp only []; rw [ensureInObjects_cfg he]; simp [hs]
    | error e => rfl
  · split <;> rfl

theorem revalidate_isSome (rx : String → String → Bool) (T : PType) (f : Slots) (d : PyV) (s : Slot) :
    ((revalidate rx T f d).1 s).isSome = (f s).isSome := by
  rw [← isSome_cfgOf, ← isSome_cfgOf]
  by_cases hs : s = .objects
  · subst hs
    unfold revalidate
    split
    · cases he : ensureInObjects f d with
      | ok f5 => simp only []; rw [ensureInObjects_cfg he]; simp
      | error e => rfl
    · split <;> rfl
  · rw [revalidate_cfg_other rx T f d hs]

/-- a successful re-validation means the (possibly extended) configuration validates -/
theorem revalidate_ok_validate (rx : String → String → Bool) (T : PType) (f : Slots) (d : PyV)
    (hfill : ∀ s, hasSlot T s = true → (f s).isSome = true)
    (h : (revalidate rx T f d).2 = .ok) : validate rx T (cfgOf (revalidate rx T f d).1) d = .ok () := by
  unfold revalidate at h ⊢
  split at h
  · rename_i hcond
    simp only [Bool.and_eq_true, beq_iff_eq] at hcond
    obtain ⟨hT, hc⟩ := hcond
    subst hT
    cases he : ensureInObjects f d with
    | error e => simp [he] at h
    | ok f5 =>
      simp only [beq_self_eq_true, Bool.true_and, hc, if_true]
      have h5 := fun t => ensureInObjects_cfg he t
      have hc5 := h5 .checkOnSet
      simp only [reduceCtorEq, if_false] at hc5
      have ha5 := h5 .allowNone
      simp only [reduceCtorEq, if_false] at ha5
      have ho5 := h5 .objects
      simp only [if_true] at ho5
      have s1 := hfill .checkOnSet rfl
      have s2 := hfill .allowNone rfl
      have s3 := hfill .objects rfl
      unfold cosFalsy at hc
      cases hcf : f .checkOnSet with
      | none => simp [hcf] at s1
      | some c =>
        simp only [hcf] at hc
        cases haf : f .allowNone with
        | none => simp [haf] at s2
        | some a =>
          cases hof : f .objects with
          | none => simp [hof] at s3
          | some o =>
            simp only [validate, validateSelector, hc5, ha5, ho5]
            simp only [cfgOf, hcf, haf, hof, Option.map, hc, if_true]
  · rename_i hcond
    simp only [hcond, Bool.false_eq_true, if_false]
    split at h
    · rename_i u hv
      simp only [hv]
    · cases h
    · cases h




theorem Sat_of_validate {rx : String → String → Bool} {T : PType} {c : Cfg} {d : PyV} (hd : c .default = some d)
    (h : validate rx T c d = .ok ()) : Sat rx T c = true := by
  unfold Sat
  rw [hd]
  simp only [h]

theorem reached_of_ok {o : Outcome} (h : o = .ok) : o.reached = true := by subst h; rfl

/-- A successful merge below valid Parameters leaves a valid Parameter. -/
theorem inherit_ok_good (rx : String → String → Bool) (op name : Nat) (own : Param) (supers : List (Option Param))
    (hown : OwnValid rx own) (hsup : ∀ h, some h ∈ supers → Good rx h)
    (hok : (inherit rx op name own supers).outcome = .ok) :
    Good rx (inherit rx op name own supers).param := by
  obtain ⟨f4, d, hp, hd, _, hslots, hout⟩ := inherit_reached (reached_of_ok hok)
  have hfill4 : ∀ s, hasSlot own.ptype s = true → (f4 s).isSome = true := fun s hs => prepare_filled hp hs
  have hpt := inherit_ptype rx op name own supers
  constructor
  · intro s hs
    rw [hpt] at hs
    rw [hslots]
    split
    · rw [revalidate_isSome]; exact hfill4 s hs
    · exact hfill4 s hs
  · have hdef : (inherit rx op name own supers).param.cfg .default = some d.v := by
      show cfgOf (inherit rx op name own supers).param.slots .default = some d.v
      rw [hslots]
      split
      · rw [revalidate_cfg_other rx _ _ _ (by decide)]; simp [cfgOf, hd]
      · simp [cfgOf, hd]
    unfold defaultOk
    rw [hdef]
    simp only []
    cases hnn : d.v.isNone with
    | true => rfl
    | false =>
      simp only [Bool.false_or]
      apply Sat_of_validate hdef
      rw [hpt]
      show validate rx own.ptype (cfgOf (inherit rx op name own supers).param.slots) d.v = .ok ()
      rw [hslots]
      by_cases hrc : revalCond own supers d.v = true
      · simp only [hrc, if_true] at hout ⊢
        rw [hok] at hout
        exact revalidate_ok_validate rx own.ptype f4 d.v hfill4 hout.symm
      · simp only [hrc, Bool.false_eq_true, if_false]
        simp only [revalCond, Bool.or_eq_true, Bool.and_eq_true, not_or, not_and, Bool.not_eq_true, hnn,
          Bool.not_false] at hrc
        have hov : (mergeSearch own supers).2 = false := by
          cases h : (mergeSearch own supers).2 with
          | false => rfl
          | true => exact absurd trivial (hrc.2 h)
        exact not_revalidated_sat rx op name own supers hown hsup hrc.1 hov hp hd hnn



/-! ### constructors: a declaration whose constructor succeeded is valid on its own -/


theorem validateUnbound_ok {rx : String → String → Bool} {op name : Nat} {p : Param}
    (h : validateUnbound rx op name p = .ok ()) :
    ∃ view d, unboundView p.ptype op name p.slots = .ok view ∧ view .default = some d ∧
      validate rx p.ptype (cfgOf view) d.v = .ok () := by
  unfold validateUnbound at h
  cases hv : unboundView p.ptype op name p.slots with
  | error e => simp [hv, bind, Except.bind] at h
  | ok view =>
    simp only [hv, bind, Except.bind] at h
    cases hd : view .default with
    | none => simp [hd] at h
    | some d => exact ⟨view, d, rfl, hd, by simpa [hd] using h⟩

theorem staticFill_ownFound (own : Param) {s : Slot} (hs : hasSlot own.ptype s = true) :
    staticFill own.ptype (ownFound own) s = staticFill own.ptype own.slots s := by
  simp [staticFill, ownFound, hs]

/-- for the types without `_update_state`, the unbound view of a declaration and the merge of that
declaration alone show the same configuration -/
theorem view_prepare_cfg {own : Param} (hT : own.ptype ≠ .selector) {op name op' name' : Nat} {view f4 : Slots}
    (hv : unboundView own.ptype op name own.slots = .ok view)
    (hp : prepare own.ptype op' name' (ownFound own) = .ok f4) {s : Slot} (hs : hasSlot own.ptype s = true) :
    cfgOf f4 s = cfgOf view s := by
  unfold unboundView at hv
  by_cases h1 : own.ptype = .tuple
  · rw [h1] at hp hv
    rw [prepare_tuple_cfg hp s, runCallables_tuple_cfg hv s]
    have e : ∀ t, hasSlot own.ptype t = true →
        cfgOf (staticFill .tuple (ownFound own)) t = cfgOf (staticFill .tuple own.slots) t := by
      intro t ht
      have := staticFill_ownFound own ht
      rw [h1] at this
      simp [cfgOf, this]
    rw [e .length (by rw [h1]; rfl), e s hs]
    unfold lenOfDefault
    rw [e .default (by rw [h1]; rfl)]
  · rw [prepare_plain h1 hT] at hp
    split at hp
    · cases hp
    · cases hp
      have : runCallables own.ptype 0 op name (staticFill own.ptype own.slots) = .ok (staticFill own.ptype own.slots) := by
        revert h1 hT
        cases own.ptype <;> simp [runCallables]
      rw [this] at hv
      cases hv
      rw [cfgOf_copyMutable]
      simp [cfgOf, staticFill_ownFound own hs]

theorem ownValid_of_view {rx : String → String → Bool} {own : Param} (hT : own.ptype ≠ .selector) {op name : Nat}
    {view : Slots} {d : Val}
    (hv : unboundView own.ptype op name own.slots = .ok view) (hd : view .default = some d)
    (hval : validate rx own.ptype (cfgOf view) d.v = .ok ()) : OwnValid rx own := by
  intro op' name' f4 d' hp hd' _
  have hcfg := fun s hs => view_prepare_cfg (s := s) hT hv hp hs
  have hdd : d'.v = d.v := by
    have := hcfg .default rfl
    simp only [cfgOf, hd', hd, Option.map] at this
    exact Option.some.inj this
  rw [hdd, validate_congr rx own.ptype d.v (fun s hs => hcfg s (relevant_hasSlot hs))]
  exact hval



theorem ownValid_parameter (rx : String → String → Bool) {own : Param} (h : own.ptype = .parameter) :
    OwnValid rx own := by
  intro op name f4 d _ _ _
  rw [h]; rfl

theorem checked_ok {rx : String → String → Bool} {op name : Nat} {p own : Param}
    (h : checked rx op name p = .ok own) : own = p ∧ validateUnbound rx op name p = .ok () := by
  unfold checked at h
  split at h
  · cases h; rename_i u hu; cases u; exact ⟨rfl, hu⟩
  · cases h

theorem ownValid_of_checked {rx : String → String → Bool} {op name : Nat} {p own : Param}
    (hT : p.ptype ≠ .selector) (h : checked rx op name p = .ok own) : OwnValid rx own := by
  obtain ⟨rfl, hv⟩ := checked_ok h
  obtain ⟨view, dv, h1, h2, h3⟩ := validateUnbound_ok hv
  exact ownValid_of_view hT h1 h2 h3

theorem construct_ownValid_nonselector (rx : String → String → Bool) (op name : Nat) (d : Decl) (own : Param)
    (hT : d.ptype ≠ .selector) (h : construct rx op name d = .ok own) : OwnValid rx own := by
  unfold construct at h
  split at h
  · cases h
    exact ownValid_parameter rx rfl
  · exact ownValid_of_checked (by simpa [baseInit] using hT) h
  · exact ownValid_of_checked (by simpa [baseInit] using hT) h
  · exact ownValid_of_checked (by simp [baseInit]) h
  · cases hc : tupleNoLength d.args with
    | true => simp [hc] at h
    | false =>
      simp only [hc, Bool.false_eq_true, if_false] at h
      cases hl : tupleLength d.args with
      | error e => simp [hl] at h
      | ok len =>
        simp only [hl] at h
        exact ownValid_of_checked (by simp [baseInit]) h
  · exact ownValid_of_checked (by simp [baseInit]) h
  · rename_i hpt
    exact absurd hpt hT



/-! ### histories: the invariant of the property's last sentence -/


theorem constructAll_mem (rx : String → String → Bool) (op : Nat) :
    ∀ (decls : List (Nat × Decl)) (i : Nat) (acc raws : List (Nat × Param)),
      constructAll rx op decls i acc = .ok raws →
      ∀ n p, (n, p) ∈ raws → (n, p) ∈ acc ∨ ∃ d, (n, d) ∈ decls ∧ construct rx op n d = .ok p
  | [], _, acc, raws, h, n, p, hm => by
    simp only [constructAll] at h
    cases h
    exact Or.inl (by simpa using hm)
  | (m, d) :: rest, i, acc, raws, h, n, p, hm => by
    simp only [constructAll] at h
    cases hc : construct rx op m d with
    | error e => simp [hc] at h
    | ok q =>
      simp only [hc] at h
      rcases constructAll_mem rx op rest (i + 1) ((m, q) :: acc) raws h n p hm with h1 | ⟨d', hd, hcd⟩
      · rcases List.mem_cons.1 h1 with e | e
        · cases e
          exact Or.inr ⟨d, by simp, hc⟩
        · exact Or.inl e
      · exact Or.inr ⟨d', List.mem_cons_of_mem _ hd, hcd⟩

theorem mergeAll_mem (rx : String → String → Bool) (op : Nat) (w : World) (tail : List Nat) :
    ∀ (raws : List (Nat × Param)) (i : Nat) (acc merged : List (Nat × MergeRes)),
      mergeAll rx op w tail raws i acc = (merged, none) →
      ∀ n r, (n, r) ∈ merged → (n, r) ∈ acc ∨
        ∃ p, (n, p) ∈ raws ∧ r = inherit rx op n p (w.supers tail n) ∧ r.outcome = .ok
  | [], _, acc, merged, h, n, r, hm => by
    simp only [mergeAll, Prod.mk.injEq, and_true] at h
    subst h
    exact Or.inl (by simpa using hm)
  | (m, p) :: rest, i, acc, merged, h, n, r, hm => by
    simp only [mergeAll] at h
    split at h
    · rename_i hok
      rcases mergeAll_mem rx op w tail rest (i + 1) _ merged h n r hm with h1 | ⟨p', hp, hr, ho⟩
      · rcases List.mem_cons.1 h1 with e | e
        · cases e
          exact Or.inr ⟨p, by simp, rfl, by simpa using hok⟩
        · exact Or.inl e
      · exact Or.inr ⟨p', List.mem_cons_of_mem _ hp, hr, ho⟩
    · simp at h

theorem lookupParam_mem {l : List (Nat × MergeRes)} {n : Nat} {p : Param} (h : lookupParam l n = some p) :
    ∃ r, (n, r) ∈ l ∧ r.param = p := by
  induction l with
  | nil => simp [lookupParam] at h
  | cons x rest ih =>
    obtain ⟨m, r⟩ := x
    simp only [lookupParam] at h
    split at h
    · rename_i hm; subst hm; cases h; exact ⟨r, by simp, rfl⟩
    · obtain ⟨r', hr, hp⟩ := ih h
      exact ⟨r', List.mem_cons_of_mem _ hr, hp⟩



/-- every Parameter owned by a class has all its slots filled and a default that is
None or satisfies its own constraints and type -/
def World.Inv (rx : String → String → Bool) (w : World) : Prop :=
  ∀ c n p, w.params c n = some p → Good rx p

theorem supers_good {rx : String → String → Bool} {w : World} (hinv : w.Inv rx) (tail : List Nat) (n : Nat)
    {h : Param} (hm : some h ∈ w.supers tail n) : Good rx h := by
  unfold World.supers at hm
  obtain ⟨c, _, hc⟩ := List.mem_map.1 hm
  exact hinv c n h hc

theorem step_preserves_inv (rx : String → String → Bool)
    (hctor : ∀ op name d own, construct rx op name d = .ok own → OwnValid rx own)
    (i : Nat) (w : World) (op : Op) (hinv : w.Inv rx) :
    (step rx i w op).1.Inv rx := by
  cases op with
  | declare cls mro decls =>
    unfold step
    cases mro with
    | nil => exact hinv
    | cons c tail =>
      simp only []
      split
      · exact hinv
      · cases hca : constructAll rx i decls 0 [] with
        | error e => obtain ⟨a, b, c'⟩ := e; exact hinv
        | ok raws =>
          simp only []
          cases hma : mergeAll rx i w tail raws 0 [] with
          | mk merged fail =>
            cases fail with
            | some f => obtain ⟨a, b⟩ := f; exact hinv
            | none =>
              intro c' n p hp
              simp only [] at hp
              split at hp
              · obtain ⟨r, hr, hrp⟩ := lookupParam_mem hp
                rcases mergeAll_mem rx i w tail raws 0 [] merged hma n r hr with h1 | ⟨q, hq, hrq, hok⟩
                · cases h1
                · rcases constructAll_mem rx i decls 0 [] raws hca n q hq with h2 | ⟨d, _, hcd⟩
                  · cases h2
                  · subst hrp
                    rw [hrq]
                    rw [hrq] at hok
                    exact inherit_ok_good rx i n q _ (hctor i n d q hcd) (fun h hm => supers_good hinv tail n hm) hok
              · exact hinv c' n p hp
  | addParam cls name decl =>
    simp only [step]
    cases hm : w.mro cls with
    | none => exact hinv
    | some m =>
      simp only []
      cases hc : construct rx i name decl with
      | error e => exact hinv
      | ok raw =>
        simp only []
        cases ho : (inherit rx i name raw (w.supers m.tail name)).outcome == Outcome.ok with
        | false => simp only [Bool.false_eq_true, if_false]; exact hinv
        | true =>
          simp only [if_true]
          intro c' n p hp
          simp only [] at hp
          split at hp
          · cases hp
            exact inherit_ok_good rx i name raw _ (hctor i name decl raw hc)
              (fun h hm => supers_good hinv _ name hm) (by simpa using ho)
          · exact hinv c' n p hp

theorem run_preserves_inv (rx : String → String → Bool)
    (hctor : ∀ op name d own, construct rx op name d = .ok own → OwnValid rx own) :
    ∀ (ops : List Op) (i : Nat) (w : World) (acc : List StepObs), w.Inv rx →
      (run rx ops i w acc).1.Inv rx
  | [], _, _, _, hinv => hinv
  | op :: rest, i, w, acc, hinv => by
    simp only [run]
    exact run_preserves_inv rx hctor rest (i + 1) _ _ (step_preserves_inv rx hctor i w op hinv)

/-- an operation that raised (class creation or `add_parameter`) or was skipped changes nothing -/
theorem step_not_ok_unchanged (rx : String → String → Bool) (i : Nat) (w : World) (op : Op)
    (h : (step rx i w op).2.outcome ≠ .ok) : (step rx i w op).1 = w := by
  cases op with
  | declare cls mro decls =>
    unfold step at h ⊢
    cases mro with
    | nil => rfl
    | cons c tail =>
      simp only [] at h ⊢
      split
      · rfl
      · rename_i hcond
        simp only [hcond] at h
        cases hca : constructAll rx i decls 0 [] with
        | error e => obtain ⟨a, b, c'⟩ := e; rfl
        | ok raws =>
          simp only [hca] at h ⊢
          cases hma : mergeAll rx i w tail raws 0 [] with
          | mk merged fail =>
            cases fail with
            | some f => obtain ⟨a, b⟩ := f; rfl
            | none => simp [hma] at h
  | addParam cls name decl =>
    simp only [step] at h ⊢
    cases hm : w.mro cls with
    | none => rfl
    | some m =>
      simp only [hm] at h ⊢
      cases hc : construct rx i name decl with
      | error e => rfl
      | ok raw =>
        simp only [hc] at h ⊢
        cases ho : (inherit rx i name raw (w.supers m.tail name)).outcome == Outcome.ok with
        | false => simp only [Bool.false_eq_true, if_false]
        | true => simp [ho] at h

/-! ### the Selector constructor -/


/-- validation of a Selector on a configuration given by its three relevant slots -/
theorem validateSelector_eq {c c' : Cfg} (v : PyV) (h1 : c .checkOnSet = c' .checkOnSet)
    (h2 : c .allowNone = c' .allowNone) (h3 : c .objects = c' .objects) :
    validateSelector c v = validateSelector c' v := by
  simp only [validateSelector, h1, h2, h3]

theorem validateSelector_falsy {c : Cfg} {cos an objs : PyV} (v : PyV) (h1 : c .checkOnSet = some cos)
    (h2 : c .allowNone = some an) (h3 : c .objects = some objs) (hf : cos.truthy = false) :
    validateSelector c v = .ok () := by
  simp [validateSelector, h1, h2, h3, hf]

theorem selectorRaw_ptype (op name : Nat) (a : Slots) (inst : Option Bool) (ad : Option Val) :
    (selectorRaw op name a inst ad).ptype = .selector := rfl

theorem selectorRaw_allowNone (op name : Nat) (a : Slots) (inst : Option Bool) (ad : Option Val) :
    ((selectorRaw op name a inst ad).slots .allowNone).isSome = true := by
  simp only [selectorRaw, Slots.set, if_true]
  cases a .allowNone <;> rfl



/-- facts shared by both cases: what the merge of a Selector declaration alone shows -/
theorem selector_alone {own : Param} (hT : own.ptype = .selector) {op' name' : Nat} {f4 : Slots}
    (hp : prepare own.ptype op' name' (ownFound own) = .ok f4) :
    ∃ cos' dd', selCos (cfgOf (staticFill .selector own.slots)) = some cos' ∧
      cfgOf (staticFill .selector own.slots) .default = some dd' ∧
      cfgOf f4 .default = some dd' ∧ cfgOf f4 .checkOnSet = some cos' ∧
      cfgOf f4 .allowNone = cfgOf (staticFill .selector own.slots) .allowNone ∧
      cfgOf f4 .objects =
        (if cos' = .atom (.bool false) ∧ dd'.isNone = false
         then some (adopt (selBase (cfgOf (staticFill .selector own.slots))) dd')
         else some (selBase (cfgOf (staticFill .selector own.slots)))) := by
  rw [hT] at hp
  obtain ⟨cos', dd', hc, hd, hall⟩ := prepare_selector_cfg rfl hp
  have e : ∀ t, hasSlot .selector t = true →
      cfgOf (staticFill .selector (ownFound own)) t = cfgOf (staticFill .selector own.slots) t := by
    intro t ht
    have := staticFill_ownFound own (s := t) (by rw [hT]; exact ht)
    rw [hT] at this
    simp [cfgOf, this]
  have eb : selBase (cfgOf (staticFill .selector (ownFound own))) = selBase (cfgOf (staticFill .selector own.slots)) := by
    unfold selBase; rw [e .objects rfl]
  have ec : selCos (cfgOf (staticFill .selector (ownFound own))) = selCos (cfgOf (staticFill .selector own.slots)) := by
    unfold selCos; rw [e .checkOnSet rfl, eb]
  refine ⟨cos', dd', by rw [← ec]; exact hc, by rw [← e .default rfl]; exact hd, ?_, ?_, ?_, ?_⟩
  · rw [hall]; simp only [reduceCtorEq, if_false]; exact hd
  · rw [hall]; simp
  · rw [hall]; simp only [reduceCtorEq, if_false]; exact e .allowNone rfl
  · rw [hall]; simp only [if_true, eb]

theorem ownValid_selector_unchanged (rx : String → String → Bool) {own : Param} (hT : own.ptype = .selector)
    {op name : Nat} {view : Slots} {dv : Val}
    (hv : unboundView .selector op name own.slots = .ok view) (hdv : view .default = some dv)
    (han : (own.slots .allowNone).isSome = true)
    (hval : dv.v.isNone = false → validateSelector (cfgOf view) dv.v = .ok ()) : OwnValid rx own := by
  intro op' name' f4 d hp hd hnn
  obtain ⟨cos', dd', hc, hd0, h4d, h4c, h4a, h4o⟩ := selector_alone hT hp
  have hview := fun s => runCallables_selector_cfg (by simpa [unboundView] using hv) s
  have hdd : d.v = dd' := by
    have : cfgOf f4 .default = some d.v := by simp [cfgOf, hd]
    rw [this] at h4d; exact Option.some.inj h4d
  have hdvd : dv.v = dd' := by
    have h1 := hview .default
    simp only [reduceCtorEq, if_false] at h1
    have : cfgOf view .default = some dv.v := by simp [cfgOf, hdv]
    rw [this, hd0] at h1; exact Option.some.inj h1
  rw [hT]
  show validateSelector (cfgOf f4) d.v = .ok ()
  have hsa : (cfgOf (staticFill .selector own.slots) .allowNone).isSome = true := by
    rw [isSome_cfgOf]
    simp only [staticFill]
    cases h : own.slots .allowNone with
    | none => simp [h] at han
    | some v => rfl
  cases hct : cos'.truthy with
  | false =>
    cases ha : cfgOf (staticFill .selector own.slots) .allowNone with
    | none => simp [ha] at hsa
    | some an =>
      rw [ha] at h4a
      by_cases hcond : cos' = .atom (.bool false) ∧ dd'.isNone = false
      · rw [if_pos hcond] at h4o
        exact validateSelector_falsy _ h4c h4a h4o hct
      · rw [if_neg hcond] at h4o
        exact validateSelector_falsy _ h4c h4a h4o hct
  | true =>
    have hne : ¬ (cos' = .atom (.bool false) ∧ dd'.isNone = false) := by
      rintro ⟨h, _⟩; rw [h] at hct; cases hct
    rw [if_neg hne] at h4o
    rw [validateSelector_eq (c' := cfgOf view) d.v (by rw [h4c, hview]; simp [hc]) (by rw [h4a, hview]; simp)
      (by rw [h4o, hview]; simp)]
    rw [hdd, ← hdvd]
    apply hval
    rw [hdvd, ← hdd]; exact hnn



theorem staticFill_cfg_of_some {T : PType} {f : Slots} {s : Slot} {v : Val} (h : f s = some v) :
    cfgOf (staticFill T f) s = some v.v := by
  simp [cfgOf, staticFill, h]

theorem staticFill_cfg_congr {T : PType} {f g : Slots} {s : Slot} (h : cfgOf f s = cfgOf g s) :
    cfgOf (staticFill T f) s = cfgOf (staticFill T g) s := by
  simp only [cfgOf, staticFill] at h ⊢
  cases hf : f s <;> cases hg : g s <;> simp_all

/-- the constructor's `_update_state` appended the default to the declaration's own list -/
theorem ownValid_selector_adopted (rx : String → String → Bool) {own : Param} (hT : own.ptype = .selector)
    {op name : Nat} {sl view : Slots} {dv cos : Val}
    (hv : unboundView .selector op name sl = .ok view) (hdv : view .default = some dv)
    (hcv : view .checkOnSet = some cos) (hcf : cos.v = .atom (.bool false))
    (han : (sl .allowNone).isSome = true)
    (he : ensureInObjects sl dv.v = .ok own.slots) : OwnValid rx own := by
  intro op' name' f4 d hp hd hdn
  obtain ⟨cos', dd', hc, hd0, h4d, h4c, h4a, h4o⟩ := selector_alone hT hp
  have hview := fun s => runCallables_selector_cfg (by simpa [unboundView] using hv) s
  have hens := fun t => ensureInObjects_cfg he t
  obtain ⟨⟨l, hl⟩, a, ha⟩ := ensureInObjects_shape he
  -- the slots of the mutated declaration
  have e : ∀ t, t ≠ .objects →
      cfgOf (staticFill .selector own.slots) t = cfgOf (staticFill .selector sl) t := by
    intro t ht
    apply staticFill_cfg_congr
    rw [hens]; simp [ht]
  have eo : cfgOf (staticFill .selector own.slots) .objects = some (adopt (.list l) dv.v) := by
    have := hens .objects
    simp only [if_true, hl, Option.map] at this
    obtain ⟨w, hw, hwv⟩ := cfgOf_some this
    rw [staticFill_cfg_of_some hw, hwv]
  have eo0 : cfgOf (staticFill .selector sl) .objects = some (.list l) := by
    obtain ⟨w, hw, hwv⟩ := cfgOf_some hl
    rw [staticFill_cfg_of_some hw, hwv]
  have hdd : d.v = dd' := by
    have : cfgOf f4 .default = some d.v := by simp [cfgOf, hd]
    rw [this] at h4d; exact Option.some.inj h4d
  have hdvd : dv.v = dd' := by
    have h1 := hview .default
    simp only [reduceCtorEq, if_false] at h1
    have : cfgOf view .default = some dv.v := by simp [cfgOf, hdv]
    rw [this, ← e .default (by decide), hd0] at h1; exact Option.some.inj h1
  have hcosv : selCos (cfgOf (staticFill .selector sl)) = some (.atom (.bool false)) := by
    have h1 := hview .checkOnSet
    simp only [reduceCtorEq, if_false, if_true] at h1
    have : cfgOf view .checkOnSet = some cos.v := by simp [cfgOf, hcv]
    rw [this, hcf] at h1; exact h1.symm
  have hsa : ∃ an, cfgOf (staticFill .selector own.slots) .allowNone = some an := by
    rw [e .allowNone (by decide)]
    cases h : sl .allowNone with
    | none => simp [h] at han
    | some v => exact ⟨v.v, staticFill_cfg_of_some h⟩
  obtain ⟨an, han'⟩ := hsa
  rw [han'] at h4a
  rw [hT]
  show validateSelector (cfgOf f4) d.v = .ok ()
  have hbase : selBase (cfgOf (staticFill .selector own.slots)) = adopt (.list l) dv.v := by
    unfold selBase; rw [eo]; rfl
  cases hct : cos'.truthy with
  | false =>
    by_cases hcond : cos' = .atom (.bool false) ∧ dd'.isNone = false
    · rw [if_pos hcond] at h4o
      exact validateSelector_falsy _ h4c h4a h4o hct
    · rw [if_neg hcond] at h4o
      exact validateSelector_falsy _ h4c h4a h4o hct
  | true =>
    have hne : ¬ (cos' = .atom (.bool false) ∧ dd'.isNone = false) := by
      rintro ⟨h, _⟩; rw [h] at hct; cases hct
    rw [if_neg hne, hbase] at h4o
    -- check_on_set was not given (else it is False and we are in the other case): the list was empty
    unfold selCos at hc hcosv
    rw [e .checkOnSet (by decide)] at hc
    cases hcs : cfgOf (staticFill .selector sl) .checkOnSet with
    | some x =>
      rw [hcs] at hc hcosv
      have h1 : x = cos' := by simpa using hc
      have h2 : x = .atom (.bool false) := by simpa using hcosv
      rw [← h1, h2] at hct
      cases hct
    | none =>
      rw [hcs] at hcosv
      simp only [Option.none_or, selBase, eo0, Option.getD_some, PyV.len, Option.map_some, Option.some.injEq,
        PyV.atom.injEq, Atom.bool.injEq] at hcosv
      have hl0 : l = [] := by
        cases l with
        | nil => rfl
        | cons x r => simp at hcosv
      subst hl0
      have hadopt : adopt (.list []) dv.v = .list [a] := by rw [ha]; simp [adopt]
      rw [hadopt] at h4o
      have hda : d.v = .atom a := by rw [hdd, ← hdvd, ha]
      simp only [validateSelector, h4c, h4a, h4o, hct, hda]
      have : (PyV.atom a).isNone = false := by rw [← hda]; exact hdn
      simp [this, memObjs, Atom.pyEq_refl]



theorem constructSelector_ownValid (rx : String → String → Bool) {op name : Nat} {a : Slots} {inst : Option Bool}
    {own : Param} (h : constructSelector op name a inst = .ok own) : OwnValid rx own := by
  unfold constructSelector at h
  cases had : selectorAutodefault a with
  | error e => simp [had] at h
  | ok ad =>
    simp only [had] at h
    cases hv : unboundView .selector op name (selectorRaw op name a inst ad).slots with
    | error e => simp [hv] at h
    | ok view =>
      simp only [hv] at h
      cases hdv : view .default with
      | none => simp [hdv] at h
      | some dv =>
        cases hcv : view .checkOnSet with
        | none => simp [hdv, hcv] at h
        | some cos =>
          simp only [hdv, hcv] at h
          cases hval : (if dv.v.isNone = true then (Except.ok () : Except ErrKind Unit)
              else validateSelector (cfgOf view) dv.v) with
          | error e => simp [hval] at h
          | ok u =>
            simp only [hval] at h
            have hval' : dv.v.isNone = false → validateSelector (cfgOf view) dv.v = .ok () := by
              intro hn; simpa [hn] using hval
            split at h
            · rename_i hcond
              simp only [Bool.and_eq_true, beq_iff_eq, Bool.not_eq_true'] at hcond
              cases he : ensureInObjects (selectorRaw op name a inst ad).slots dv.v with
              | error e => simp [he] at h
              | ok s' =>
                simp only [he] at h
                cases h
                exact ownValid_selector_adopted rx (own := { selectorRaw op name a inst ad with slots := s' })
                  rfl hv hdv hcv hcond.1.1 (selectorRaw_allowNone op name a inst ad) he
            · cases h
              exact ownValid_selector_unchanged rx rfl hv hdv (selectorRaw_allowNone op name a inst ad) hval'

/-- A declaration whose constructor succeeded is valid on its own: this is all the
merge needs to know about constructor-time validation. -/
theorem construct_ownValid (rx : String → String → Bool) (op name : Nat) (d : Decl) (own : Param)
    (h : construct rx op name d = .ok own) : OwnValid rx own := by
  by_cases hT : d.ptype = .selector
  · unfold construct at h
    simp only [hT] at h
    exact constructSelector_ownValid rx h
  · exact construct_ownValid_nonselector rx op name d own hT h



/-! ### static slots, names, the re-validation condition, the outcome -/


/-- a slot the type fills by a callable or by `_update_state` -/
def Slot.computedFor (T : PType) (s : Slot) : Bool :=
  match T, s with
  | .tuple, .length => true
  | .selector, .objects => true
  | .selector, .checkOnSet => true
  | _, _ => false

/-- The static slots of the merged Parameter, whatever the type: own, else nearest, else type default. -/
theorem held_static_slot (rx : String → String → Bool) (op name : Nat) (own : Param)
    (supers : List (Option Param))
    (hr : (inherit rx op name own supers).outcome.reached = true)
    {s : Slot} (hs : hasSlot own.ptype s = true) (hn : s ≠ .names)
    (hc : Slot.computedFor own.ptype s = false) :
    (inherit rx op name own supers).param.cfg s = specStatic own supers s := by
  by_cases h1 : own.ptype = .tuple
  · rw [held_eq_expected_tuple rx op name own supers hr h1 hs, expected_tuple supers s h1]
    have : s ≠ .length := by
      intro h; subst h; rw [h1] at hc; cases hc
    simp [this]
  · by_cases h2 : own.ptype = .selector
    · obtain ⟨f4, d, hp, hd, _, hslots, _⟩ := inherit_reached hr
      rw [h2] at hp
      obtain ⟨cos, dd, _, _, hall⟩ := prepare_selector_cfg rfl hp
      have hso : s ≠ .objects := by intro h; subst h; rw [h2] at hc; cases hc
      have hsc : s ≠ .checkOnSet := by intro h; subst h; rw [h2] at hc; cases hc
      show cfgOf (inherit rx op name own supers).param.slots s = _
      rw [hslots]
      have : cfgOf f4 s = specStatic own supers s := by
        rw [hall s]; simp only [hso, hsc, hn, if_false]
        rw [← h2]; exact staticFill_found_cfg own supers hs hn
      split
      · rw [revalidate_cfg_other rx _ _ _ hso]; exact this
      · exact this
    · rw [held_eq_expected_plain rx op name own supers hr h1 h2 hs, expected_plain supers s h1 h2]

/-- `names` of a Selector is resolved like every other slot (own, else nearest holder), with `{}`
as the computed default -/
theorem held_names_eq_expected (rx : String → String → Bool) (op name : Nat) (own : Param)
    (supers : List (Option Param))
    (hr : (inherit rx op name own supers).outcome.reached = true)
    (hT : own.ptype = .selector) :
    (inherit rx op name own supers).param.cfg .names = expected own supers .names := by
  obtain ⟨f4, d, hp, hd, _, hslots, _⟩ := inherit_reached hr
  rw [hT] at hp
  obtain ⟨cos, dd, _, _, hall⟩ := prepare_selector_cfg rfl hp
  show cfgOf (inherit rx op name own supers).param.slots .names = _
  rw [hslots]
  have : cfgOf f4 .names = expected own supers .names := by
    rw [hall]; simp only [reduceCtorEq, if_false, if_true]
    unfold expected
    rw [hT]
    simp only []
    rw [← hT, staticFill_found_cfg' own supers (by rw [hT]; rfl)]
  split
  · rw [revalidate_cfg_other rx _ _ _ (by decide)]; exact this
  · exact this

/-- the re-validation condition, in terms of the declarations: the type changed, or some validated
slot offers two non-identical values along the MRO and the merged default is not None -/
theorem revalidated_eq (rx : String → String → Bool) (op name : Nat) (own : Param)
    (supers : List (Option Param))
    (hr : (inherit rx op name own supers).outcome.reached = true) :
    (inherit rx op name own supers).revalidated =
      (typeChange own.ptype supers ||
        (anyOverridden own.slots supers (slotsOf own.ptype) &&
          !(match (inherit rx op name own supers).param.cfg .default with | some d => d.isNone | none => true))) := by
  obtain ⟨f4, d, hp, hd, hrev, hslots, _⟩ := inherit_reached hr
  have hdef : (inherit rx op name own supers).param.cfg .default = some d.v := by
    show cfgOf (inherit rx op name own supers).param.slots .default = some d.v
    rw [hslots]
    split
    · rw [revalidate_cfg_other rx _ _ _ (by decide)]; simp [cfgOf, hd]
    · simp [cfgOf, hd]
  rw [hrev, hdef]
  unfold revalCond
  cases htc : typeChange own.ptype supers with
  | true => simp
  | false => rw [mergeSearch_snd own supers htc]



theorem revalidate_invalid_not_ok (rx : String → String → Bool) (T : PType) (f : Slots) (d : PyV) {e : ErrKind}
    (h : (revalidate rx T f d).2 = .invalid e) :
    validate rx T (cfgOf (revalidate rx T f d).1) d ≠ .ok () := by
  unfold revalidate at h ⊢
  split at h
  · cases he : ensureInObjects f d <;> simp [he] at h
  · rename_i hc
    simp only [hc, Bool.false_eq_true, if_false]
    split at h
    · cases h
    · cases h
    · rename_i e' hne hv
      simp only [hv]
      intro hcontra; cases hcontra

theorem Sat_iff_validate {rx : String → String → Bool} {T : PType} {c : Cfg} {d : PyV} (hd : c .default = some d) :
    Sat rx T c = true ↔ validate rx T c d = .ok () :=
  ⟨Sat_some hd, Sat_of_validate hd⟩

/-- the merged default, once the merge has reached the re-validation decision -/
theorem inherit_default (rx : String → String → Bool) (op name : Nat) (own : Param) (supers : List (Option Param))
    (hr : (inherit rx op name own supers).outcome.reached = true) :
    ∃ f4 d, prepare own.ptype op name (mergeSearch own supers).1 = .ok f4 ∧ f4 .default = some d ∧
      (inherit rx op name own supers).param.cfg .default = some d.v := by
  obtain ⟨f4, d, hp, hd, _, hslots, _⟩ := inherit_reached hr
  refine ⟨f4, d, hp, hd, ?_⟩
  show cfgOf (inherit rx op name own supers).param.slots .default = some d.v
  rw [hslots]
  split
  · rw [revalidate_cfg_other rx _ _ _ (by decide)]; simp [cfgOf, hd]
  · simp [cfgOf, hd]

/-- Mechanism: once the merge reaches the re-validation decision, creation succeeds exactly when
the merged default is not re-validated or satisfies the merged constraints. -/
theorem outcome_ok_iff (rx : String → String → Bool) (op name : Nat) (own : Param) (supers : List (Option Param))
    (hr : (inherit rx op name own supers).outcome.reached = true) :
    (inherit rx op name own supers).outcome = .ok ↔
      ((inherit rx op name own supers).revalidated = false ∨
        Sat rx own.ptype (inherit rx op name own supers).param.cfg = true) := by
  obtain ⟨f4, d, hp, hd, hrev, hslots, hout⟩ := inherit_reached hr
  obtain ⟨_, d', hp', hd', hdef⟩ := inherit_default rx op name own supers hr
  rw [hp] at hp'; cases hp'; rw [hd] at hd'; cases hd'
  have hfill4 : ∀ s, hasSlot own.ptype s = true → (f4 s).isSome = true := fun s hs => prepare_filled hp hs
  rw [Sat_iff_validate hdef, hrev]
  show _ ↔ (_ ∨ validate rx own.ptype (cfgOf (inherit rx op name own supers).param.slots) d.v = .ok ())
  rw [hslots, hout]
  cases hrc : revalCond own supers d.v with
  | false => simp
  | true =>
    simp only [if_true, Bool.true_eq_false, false_or]
    constructor
    · exact revalidate_ok_validate rx own.ptype f4 d.v hfill4
    · intro hv
      rw [hout, hrc] at hr
      simp only [if_true] at hr
      cases ho : (revalidate rx own.ptype f4 d.v).2 with
      | ok => rfl
      | invalid e => exact absurd hv (revalidate_invalid_not_ok rx own.ptype f4 d.v ho)
      | _ => rw [ho] at hr; cases hr




theorem staticDefaultV_allowNone {T : PType} (hT : T ≠ .selector) :
    staticDefaultV T .allowNone = some (boolV false) := by
  cases T <;> simp_all [staticDefaultV, typeDefault]

theorem baseInit_allowNone (T : PType) (dflt : Option Val) (args : Slots) (inst : Option Bool) (hT : T ≠ .selector) :
    ((baseInit T dflt args inst).slots .allowNone).map (·.v) =
      some (if seesNone T dflt then .atom (.bool true)
            else (match args .allowNone with | some v => v.v | none => .atom (.bool false))) := by
  simp only [baseInit, staticDefaultV_allowNone hT]
  cases seesNone T dflt with
  | true => rfl
  | false => cases args .allowNone <;> rfl


theorem revalidate_not_callableError (rx : String → String → Bool) (T : PType) (f : Slots) (d : PyV) :
    (revalidate rx T f d).2 ≠ .callableError := by
  unfold revalidate
  split
  · cases ensureInObjects f d <;> simp
  · split <;> simp


/-! ### the oracle's criterion -/

theorem held_eq_expected_all (rx : String → String → Bool) (op name : Nat) (own : Param)
    (supers : List (Option Param))
    (hr : (inherit rx op name own supers).outcome.reached = true)
    (hcos : own.ptype = .selector → ∃ b, specCheckOnSet own supers = some (.atom (.bool b)))
    {s : Slot} (hs : hasSlot own.ptype s = true) (hn : s ≠ .names) :
    (inherit rx op name own supers).param.cfg s = expected own supers s := by
  by_cases h1 : own.ptype = .tuple
  · exact held_eq_expected_tuple rx op name own supers hr h1 hs
  · by_cases h2 : own.ptype = .selector
    · exact held_eq_expected_selector rx op name own supers hr h2 (hcos h2) hs hn
    · exact held_eq_expected_plain rx op name own supers hr h1 h2 hs


/-- a merge that reached the re-validation decision has every slot computable -/
theorem computable_of_reached (rx : String → String → Bool) (op name : Nat) (own : Param)
    (supers : List (Option Param))
    (hr : (inherit rx op name own supers).outcome.reached = true)
    (hcos : own.ptype = .selector → ∃ b, specCheckOnSet own supers = some (.atom (.bool b))) :
    computable own supers = true := by
  unfold computable
  rw [List.all_eq_true]
  intro s hs
  have hs' := mem_slotsOf.1 hs
  by_cases hn : s = .names
  · subst hn
    have hT := hasSlot_names hs'
    unfold expected
    rw [hT]
    rfl
  · rw [← held_eq_expected_all rx op name own supers hr hcos hs' hn]
    obtain ⟨f4, d, hp, hd, _, hslots, _⟩ := inherit_reached hr
    show (cfgOf (inherit rx op name own supers).param.slots s).isSome = true
    rw [isSome_cfgOf, hslots]
    split
    · rw [revalidate_isSome]; exact prepare_filled hp hs'
    · exact prepare_filled hp hs'

theorem Sat_congr (rx : String → String → Bool) (T : PType) {c c' : Cfg} (hd : c .default = c' .default)
    (h : ∀ s, relevant T s = true → c s = c' s) : Sat rx T c = Sat rx T c' := by
  unfold Sat
  rw [hd]
  cases c' .default with
  | none => rfl
  | some d => simp only []; rw [validate_congr rx T d h]



theorem inherit_callableError (rx : String → String → Bool) (op name : Nat) (own : Param) (supers : List (Option Param))
    (h : (inherit rx op name own supers).outcome = .callableError) :
    ∃ e, runCallables own.ptype 1 op name (copyMutable op name (staticFill own.ptype (mergeSearch own supers).1)) = .error e := by
  unfold inherit at h
  simp only [] at h
  cases hp : prepare own.ptype op name (mergeSearch own supers).1 with
  | ok f4 =>
    simp only [hp] at h
    split at h
    · cases h
    · split at h
      · exact absurd h (revalidate_not_callableError rx _ _ _)
      · cases h
  | error e =>
    obtain ⟨o, f⟩ := e
    simp only [hp] at h
    subst h
    simp only [prepare] at hp
    split at hp
    · cases hp
    · cases hrc : runCallables own.ptype 1 op name (copyMutable op name (staticFill own.ptype (mergeSearch own supers).1)) with
      | error e => exact ⟨e, rfl⟩
      | ok f3 =>
        simp only [hrc] at hp
        split at hp <;> cases hp

theorem runCallables_selector_err {st op name : Nat} {f : Slots} {e : ErrKind}
    (h : runCallables .selector st op name f = .error e) : selCos (cfgOf f) = none := by
  simp only [runCallables] at h
  have h1 : ∀ t, cfgOf (selectorObjectsDefault st op name f) t =
      if t = .objects then some (selBase (cfgOf f)) else cfgOf f t := by
    intro t
    unfold selectorObjectsDefault
    cases ho : f .objects with
    | some v =>
      by_cases ht : t = .objects
      · subst ht; simp [cfgOf, selBase, ho]
      · simp [ht]
    | none =>
      simp only [cfgOf_set]
      by_cases ht : t = .objects
      · subst ht; simp [cfgOf, selBase, ho]
      · simp [ht]
  cases hc : (selectorObjectsDefault st op name f) .checkOnSet with
  | some v => simp [hc] at h
  | none =>
    simp only [hc] at h
    cases hn : ((selectorObjectsDefault st op name f) .objects).bind (·.v.len) with
    | some n => simp [hn] at h
    | none =>
      have hcf : cfgOf f .checkOnSet = none := by
        have := h1 .checkOnSet
        simp only [reduceCtorEq, if_false] at this
        rw [← this]; simp [cfgOf, hc]
      have ho := h1 .objects
      simp only [if_true, cfgOf] at ho
      unfold selCos
      rw [hcf]
      simp only [Option.none_or]
      cases hfo : (selectorObjectsDefault st op name f) .objects with
      | none => simp [hfo] at ho
      | some ov =>
        simp only [hfo, Option.map] at ho
        simp only [hfo, Option.bind] at hn
        injection ho with ho
        rw [← ho, hn]; rfl

/-- a raising callable means the declarative resolver cannot compute a slot either -/
theorem callableError_not_computable (rx : String → String → Bool) (op name : Nat) (own : Param)
    (supers : List (Option Param))
    (h : (inherit rx op name own supers).outcome = .callableError) : computable own supers = false := by
  obtain ⟨e, he⟩ := inherit_callableError rx op name own supers h
  have hst : ∀ t, hasSlot own.ptype t = true → t ≠ .names →
      cfgOf (staticFill own.ptype (mergeSearch own supers).1) t = specStatic own supers t :=
    fun t ht hn => staticFill_found_cfg own supers ht hn
  unfold computable
  rw [List.all_eq_false]
  by_cases h1 : own.ptype = .tuple
  · refine ⟨.length, mem_slotsOf.2 (by rw [h1]; rfl), ?_⟩
    rw [h1] at he
    have := runCallables_tuple_err he
    rw [cfgOf_copyMutable, ← h1, hst .length (by rw [h1]; rfl) (by decide)] at this
    rw [expected_tuple supers .length h1]
    simp only [if_true, this.1, Option.none_or]
    have h2 := this.2
    unfold lenOfDefault at h2
    rw [hst .default rfl (by decide)] at h2
    unfold specDefault
    cases hd : specStatic own supers .default with
    | none => simp [PyV.len]
    | some v => rw [hd] at h2; simpa using h2
  · by_cases h2 : own.ptype = .selector
    · refine ⟨.checkOnSet, mem_slotsOf.2 (by rw [h2]; rfl), ?_⟩
      rw [h2] at he
      have := runCallables_selector_err he
      rw [cfgOf_copyMutable] at this
      rw [expected_selector_cos supers h2, specCheckOnSet_eq]
      unfold selCos selBase at this
      rw [← h2, hst .checkOnSet (by rw [h2]; rfl) (by decide), hst .objects (by rw [h2]; rfl) (by decide)] at this
      unfold specBaseObjects
      simp [this]
    · exfalso
      have : runCallables own.ptype 1 op name (copyMutable op name (staticFill own.ptype (mergeSearch own supers).1)) =
          .ok (copyMutable op name (staticFill own.ptype (mergeSearch own supers).1)) := by
        revert h1 h2
        cases own.ptype <;> simp [runCallables]
      rw [this] at he
      cases he



/-! ### constructed Parameters: shape; KeyError is unreachable; where a class body stops -/


theorem missingKey_false (T : PType) (f : Slots) : missingKey T f = false := by
  cases T <;> simp [missingKey, slotsOf, slotOrder, hasSlot, typeDefault]

theorem prepare_keyError {T : PType} {op name : Nat} {found f : Slots}
    (h : prepare T op name found = .error (.keyError, f)) : missingKey T found = true := by
  simp only [prepare] at h
  split at h
  · assumption
  · split at h
    · cases h
    · split at h <;> cases h

/-- every modelled slot has a `_slot_defaults` entry: the KeyError branch is never taken -/
theorem inherit_not_keyError (rx : String → String → Bool) (op name : Nat) (own : Param) (supers : List (Option Param)) :
    (inherit rx op name own supers).outcome ≠ .keyError := by
  intro h
  have hmk := missingKey_false own.ptype (mergeSearch own supers).1
  unfold inherit at h
  simp only [] at h
  cases hp : prepare own.ptype op name (mergeSearch own supers).1 with
  | ok f4 =>
    simp only [hp] at h
    split at h
    · cases h
    · split at h
      · revert h
        unfold revalidate
        split
        · cases ensureInObjects f4 _ <;> simp
        · split <;> simp
      · cases h
  | error e =>
    obtain ⟨o, f⟩ := e
    simp only [hp] at h
    subst h
    rw [prepare_keyError hp] at hmk
    cases hmk

theorem ensureInObjects_other {f g : Slots} {val : PyV} (h : ensureInObjects f val = .ok g) {s : Slot}
    (hs : s ≠ .objects) : g s = f s := by
  unfold ensureInObjects at h
  split at h
  · split at h
    · cases h
      split
      · rfl
      · simp [Slots.set, hs]
    · cases h
  · cases h



/-- slots a constructor computes instead of (or in addition to) storing the keyword argument -/
def derivedSlot (T : PType) (s : Slot) : Bool :=
  match T, s with
  | _, .allowNone => true
  | _, .constant => true
  | .tuple, .length => true
  | .list, .itemType => true
  | .list, .itemClass => true
  | .selector, .default => true
  | .selector, .objects => true
  | .selector, .names => true
  | _, _ => false

theorem baseInit_slot (T : PType) (dflt : Option Val) (args : Slots) (inst : Option Bool) {s : Slot}
    (h1 : s ≠ .allowNone) (h2 : s ≠ .constant) (h3 : s ≠ .default) (hb : hasSlot .parameter s = true) :
    (baseInit T dflt args inst).slots s = args s := by
  cases s <;> simp_all [baseInit, hasSlot]

theorem baseInit_default (T : PType) (dflt : Option Val) (args : Slots) (inst : Option Bool) :
    (baseInit T dflt args inst).slots .default = dflt := rfl

theorem baseInit_ptype (T : PType) (dflt : Option Val) (args : Slots) (inst : Option Bool) :
    (baseInit T dflt args inst).ptype = T := rfl

/-- the shape of every successfully constructed Parameter: its type, and that every slot the
constructor does not derive holds exactly the keyword argument (`none` = `Undefined` = not given) -/
theorem construct_shape (rx : String → String → Bool) (op name : Nat) (d : Decl) (own : Param)
    (h : construct rx op name d = .ok own) :
    own.ptype = d.ptype ∧
    (∀ s, hasSlot d.ptype s = true → derivedSlot d.ptype s = false → own.slots s = d.args s) := by
  unfold construct at h
  split at h
  · rename_i hpt
    cases h
    refine ⟨hpt.symm, ?_⟩
    intro s hs hd
    rw [hpt] at hs hd
    cases s <;> simp_all [baseInit, hasSlot, derivedSlot]
  · rename_i hpt
    obtain ⟨rfl, _⟩ := checked_ok h
    refine ⟨rfl, ?_⟩
    intro s hs hd
    rw [hpt] at hs hd
    cases s <;> simp_all [baseInit, hasSlot, derivedSlot, Slots.set]
  · rename_i hpt
    obtain ⟨rfl, _⟩ := checked_ok h
    refine ⟨rfl, ?_⟩
    intro s hs hd
    rw [hpt] at hs hd
    cases s <;> simp_all [baseInit, hasSlot, derivedSlot, Slots.set]
  · rename_i hpt
    obtain ⟨rfl, _⟩ := checked_ok h
    refine ⟨hpt.symm, ?_⟩
    intro s hs hd
    rw [hpt] at hs hd
    cases s <;> simp_all [baseInit, hasSlot, derivedSlot, Slots.set]
  · rename_i hpt
    cases hc : tupleNoLength d.args with
    | true => simp [hc] at h
    | false =>
      simp only [hc, Bool.false_eq_true, if_false] at h
      cases hl : tupleLength d.args with
      | error e => simp [hl] at h
      | ok len =>
        simp only [hl] at h
        obtain ⟨rfl, _⟩ := checked_ok h
        refine ⟨hpt.symm, ?_⟩
        intro s hs hd
        rw [hpt] at hs hd
        cases s <;> simp_all [baseInit, hasSlot, derivedSlot, Slots.set]
  · rename_i hpt
    obtain ⟨rfl, _⟩ := checked_ok h
    refine ⟨hpt.symm, ?_⟩
    intro s hs hd
    rw [hpt] at hs hd
    cases s <;> simp_all [baseInit, hasSlot, derivedSlot, Slots.set]
  · rename_i hpt
    have hraw : ∀ ad, (∀ s, hasSlot .selector s = true → derivedSlot .selector s = false →
        (selectorRaw op name d.args d.instantiate ad).slots s = d.args s) := by
      intro ad s hs hd
      cases s <;> simp_all [selectorRaw, baseInit, hasSlot, derivedSlot, Slots.set]
    unfold constructSelector at h
    cases had : selectorAutodefault d.args with
    | error e => simp [had] at h
    | ok ad =>
      simp only [had] at h
      cases hv : unboundView .selector op name (selectorRaw op name d.args d.instantiate ad).slots with
      | error e => simp [hv] at h
      | ok view =>
        simp only [hv] at h
        cases hdv : view .default with
        | none => simp [hdv] at h
        | some dv =>
          cases hcv : view .checkOnSet with
          | none => simp [hdv, hcv] at h
          | some cos =>
            simp only [hdv, hcv] at h
            cases hval : (if dv.v.isNone = true then (Except.ok () : Except ErrKind Unit)
                else validateSelector (cfgOf view) dv.v) with
            | error e => simp [hval] at h
            | ok u =>
              simp only [hval] at h
              split at h
              · cases he : ensureInObjects (selectorRaw op name d.args d.instantiate ad).slots dv.v with
                | error e => simp [he] at h
                | ok s' =>
                  simp only [he] at h
                  cases h
                  refine ⟨hpt.symm, ?_⟩
                  intro s hs hd
                  rw [hpt] at hs hd
                  have hso : s ≠ .objects := by intro e; subst e; simp [derivedSlot] at hd
                  show s' s = _
                  rw [ensureInObjects_other he hso]
                  exact hraw ad s hs hd
              · cases h
                exact ⟨hpt.symm, fun s hs hd => by rw [hpt] at hs hd; exact hraw ad s hs hd⟩



/-- the outcome of merging one declaration of a class body in world `w` -/
def mergeOutcome (rx : String → String → Bool) (op : Nat) (w : World) (tail : List Nat) (x : Nat × Param) : Outcome :=
  (inherit rx op x.1 x.2 (w.supers tail x.1)).outcome

/-- `mergeAll` stops at the first declaration whose merge does not succeed -/
theorem mergeAll_fail_iff (rx : String → String → Bool) (op : Nat) (w : World) (tail : List Nat) :
    ∀ (raws : List (Nat × Param)) (k : Nat) (acc : List (Nat × MergeRes)) (i : Nat) (o : Outcome),
      (mergeAll rx op w tail raws k acc).2 = some (i, o) ↔
        ∃ j x, i = k + j ∧ raws[j]? = some x ∧ mergeOutcome rx op w tail x = o ∧ o ≠ .ok ∧
          ∀ j' x', j' < j → raws[j']? = some x' → mergeOutcome rx op w tail x' = .ok
  | [], k, acc, i, o => by simp [mergeAll]
  | (n, p) :: rest, k, acc, i, o => by
    simp only [mergeAll]
    split
    · rename_i hok
      have hok' : mergeOutcome rx op w tail (n, p) = .ok := by simpa [mergeOutcome] using hok
      rw [mergeAll_fail_iff rx op w tail rest (k + 1)]
      constructor
      · rintro ⟨j, x, hi, hx, ho, hne, hall⟩
        refine ⟨j + 1, x, by omega, by simpa using hx, ho, hne, ?_⟩
        intro j' x' hj hx'
        cases j' with
        | zero => simp at hx'; subst hx'; exact hok'
        | succ j'' => exact hall j'' x' (by omega) (by simpa using hx')
      · rintro ⟨j, x, hi, hx, ho, hne, hall⟩
        cases j with
        | zero =>
          simp at hx; subst hx
          rw [hok'] at ho; exact absurd ho.symm hne
        | succ j'' =>
          refine ⟨j'', x, by omega, by simpa using hx, ho, hne, ?_⟩
          intro j' x' hj hx'
          exact hall (j' + 1) x' (by omega) (by simpa using hx')
    · rename_i hnok
      have hnok' : mergeOutcome rx op w tail (n, p) ≠ .ok := by simpa [mergeOutcome] using hnok
      simp only [Option.some.injEq, Prod.mk.injEq]
      constructor
      · rintro ⟨rfl, rfl⟩
        exact ⟨0, (n, p), rfl, rfl, rfl, hnok', fun j' x' hj => by omega⟩
      · rintro ⟨j, x, hi, hx, ho, hne, hall⟩
        cases j with
        | zero =>
          simp at hx; subst hx
          exact ⟨by omega, ho⟩
        | succ j'' =>
          exact absurd (hall 0 (n, p) (by omega) rfl) hnok'



theorem mergeAll_none_all_ok (rx : String → String → Bool) (op : Nat) (w : World) (tail : List Nat) :
    ∀ (raws : List (Nat × Param)) (k : Nat) (acc : List (Nat × MergeRes)),
      (mergeAll rx op w tail raws k acc).2 = none → ∀ x ∈ raws, mergeOutcome rx op w tail x = .ok
  | [], _, _, _, x, hx => by cases hx
  | (n, p) :: rest, k, acc, h, x, hx => by
    simp only [mergeAll] at h
    split at h
    · rename_i hok
      rcases List.mem_cons.1 hx with e | e
      · subst e; simpa [mergeOutcome] using hok
      · exact mergeAll_none_all_ok rx op w tail rest _ _ h x e
    · cases h




/-- a Selector declaration specifies `names` exactly when it specifies `objects` -/
theorem construct_names_iff_objects (rx : String → String → Bool) (op name : Nat) (d : Decl) (own : Param)
    (hT : d.ptype = .selector) (h : construct rx op name d = .ok own) :
    (own.slots .names).isSome = (d.args .objects).isSome ∧ (own.slots .objects).isSome = (d.args .objects).isSome := by
  have hraw : ∀ ad, ((selectorRaw op name d.args d.instantiate ad).slots .names).isSome = (d.args .objects).isSome ∧
      ((selectorRaw op name d.args d.instantiate ad).slots .objects).isSome = (d.args .objects).isSome := by
    intro ad
    simp only [selectorRaw, Slots.set, reduceCtorEq, if_false, if_true]
    constructor <;> (split <;> simp_all)
  unfold construct at h
  simp only [hT] at h
  unfold constructSelector at h
  cases had : selectorAutodefault d.args with
  | error e => simp [had] at h
  | ok ad =>
    simp only [had] at h
    cases hv : unboundView .selector op name (selectorRaw op name d.args d.instantiate ad).slots with
    | error e => simp [hv] at h
    | ok view =>
      simp only [hv] at h
      cases hdv : view .default with
      | none => simp [hdv] at h
      | some dv =>
        cases hcv : view .checkOnSet with
        | none => simp [hdv, hcv] at h
        | some cos =>
          simp only [hdv, hcv] at h
          cases hval : (if dv.v.isNone = true then (Except.ok () : Except ErrKind Unit)
              else validateSelector (cfgOf view) dv.v) with
          | error e => simp [hval] at h
          | ok u =>
            simp only [hval] at h
            split at h
            · cases he : ensureInObjects (selectorRaw op name d.args d.instantiate ad).slots dv.v with
              | error e => simp [he] at h
              | ok s' =>
                simp only [he] at h
                cases h
                refine ⟨?_, ?_⟩
                · show (s' .names).isSome = _
                  rw [ensureInObjects_other he (by decide)]; exact (hraw ad).1
                · show (s' .objects).isSome = _
                  rw [← isSome_cfgOf, ensureInObjects_cfg he]
                  simp only [if_true, Option.isSome_map, isSome_cfgOf]; exact (hraw ad).2
            · cases h
              exact hraw ad


theorem revalidate_of_validate_ok (rx : String → String → Bool) (T : PType) (f : Slots) (d : PyV)
    (h : validate rx T (cfgOf f) d = .ok ()) :
    (revalidate rx T f d).2 = .ok ∨ (revalidate rx T f d).2 = .unsupported := by
  unfold revalidate
  split
  · cases ensureInObjects f d <;> simp
  · simp [h]


end ParamVerif.Inherit
