/-
C14 specification side, executable: the conclusions of the theorems in Props/C14.lean as a
decidable check on *observations* (of the implementation or of the model) taken after every
top-level step of a history.  Used by the driver as the oracle.  Parameter objects and value
objects appear as canonical creation indices.
-/
import ParamVerif.Store.Const

namespace ParamVerif.Store.Const

mutual
/-- no explicit `….constant = b` edit anywhere in the statement -/
def Op.noFlag : Op → Bool
  | .flag .. => false
  | .clsFlag .. => false
  | .block _ body => noFlagL body
  | _ => true
def noFlagL : List Op → Bool
  | [] => true
  | op :: ops => op.noFlag && noFlagL ops
end

/-- the library's own renaming of a constructed object -/
def Op.renames : Op → Option IId
  | .setName i _ => some i
  | .genName i => some i
  | _ => none

def Op.isBlock : Op → Bool
  | .block .. => true
  | .failingEntry .. => true
  | _ => false

structure PObs where
  constant : Bool
  readonly : Bool
  default : Obj
  deriving Repr, DecidableEq

structure InstRow where
  held : Option Obj        -- `getattr(obj, n)` (identity)
  stored : Option Obj      -- `obj._param__private.values.get(n)`
  copy : Option PId        -- `obj._param__private.params.get(n)`
  deriving Repr, DecidableEq

structure InstObs where
  cls : CId
  rows : List InstRow      -- one per name
  deriving Repr, DecidableEq

structure Obs where
  res : String
  /-- flags and default of every Parameter object created so far (class level and instance level) -/
  params : List PObs
  /-- per class, per name: the Parameter `inspect.getattr_static(C, n)` -/
  cls : List (List (Option PId))
  insts : List InstObs
  deriving Repr, DecidableEq

def Obs.flags (o : Obs) (p : Option PId) : Option (Bool × Bool) :=
  p.bind fun p => (o.params[p]?).map fun q => (q.constant, q.readonly)

def Obs.clsPid (o : Obs) (c : CId) (k : Nat) : Option PId :=
  match o.cls[c]? with
  | some row => (match row[k]? with | some p => p | none => none)
  | none => none

def Obs.clsFlags (o : Obs) (c : CId) (k : Nat) : Option (Bool × Bool) := o.flags (o.clsPid c k)

def Obs.clsAttr (o : Obs) (c : CId) (k : Nat) : Option Obj :=
  (o.clsPid c k).bind fun p => (o.params[p]?).map (·.default)

def Obs.row (o : Obs) (j : IId) (k : Nat) : Option (InstObs × InstRow) :=
  match o.insts[j]? with
  | some x => (x.rows[k]?).map fun r => (x, r)
  | none => none

/-- flags of the Parameter governing `(instance j, name k)`: the per-instance copy, else the class's -/
def Obs.govFlags (o : Obs) (j : IId) (k : Nat) : Option (Bool × Bool) :=
  match o.row j k with
  | some (x, r) => o.flags (match r.copy with | some ip => some ip | none => o.clsPid x.cls k)
  | none => none

def Obs.held (o : Obs) (j : IId) (k : Nat) : Option Obj := (o.row j k).bind (·.2.held)

def isConst (f : Option (Bool × Bool)) : Bool := match f with | some (c, _) => c | none => false
def isRO (f : Option (Bool × Bool)) : Bool := match f with | some (_, r) => r | none => false

def firstSome {α : Type} (f : α → Option String) : List α → Option String
  | [] => none
  | a :: l => match f a with | some w => some w | none => firstSome f l

def idxOf (names : List Name) (n : Name) : Option Nat :=
  match names.findIdx? (· == n) with | some k => some k | none => none

/-- all (instance, name-index) pairs of an observation -/
def instPairs (o : Obs) (names : List Name) : List (IId × Nat) :=
  (List.range o.insts.length).flatMap fun j => (List.range names.length).map fun k => (j, k)
def clsPairs (o : Obs) (names : List Name) : List (CId × Nat) :=
  (List.range o.cls.length).flatMap fun c => (List.range names.length).map fun k => (c, k)

/-- nothing an instance or a class holds changed -/
def allHeldSame (names : List Name) (b a : Obs) : Option String :=
  match firstSome (fun (jk : IId × Nat) =>
      if a.held jk.1 jk.2 != b.held jk.1 jk.2 then
        some s!"instance {jk.1} '{names.getD jk.2 "?"}' holds object {a.held jk.1 jk.2} instead of {b.held jk.1 jk.2}"
      else none) (instPairs b names) with
  | some w => some w
  | none => firstSome (fun (ck : CId × Nat) =>
      if a.clsAttr ck.1 ck.2 != b.clsAttr ck.1 ck.2 then
        some s!"class {ck.1} '{names.getD ck.2 "?"}' holds object {a.clsAttr ck.1 ck.2} instead of {b.clsAttr ck.1 ck.2}"
      else none) (clsPairs b names)

/-- the exception a forbidden key of `update` must produce: the first key that is unknown
(ValueError) or protected (TypeError) decides -/
def expectUpdate (names : List Name) (bad : List Obj) (b : Obs) (j : IId) : List (Name × Obj) → Option String
  | [] => none
  | (n, v) :: kvs =>
    match idxOf names n with
    | none => none      -- a name outside the observed universe: no expectation
    | some k =>
      if (b.insts[j]?).isNone then none else
      match b.govFlags j k with
      | none => some "ValueError"
      | some (c, r) =>
        if n == "name" && bad.contains v then some "ValueError"     -- validation comes before the guard
        else if r || (c && some v != b.held j k) then some "TypeError"
        else expectUpdate names bad b j kvs   -- the keys of a dict are distinct: later keys see their own state unchanged

/-- the exception a constructor call must end with: the first keyword that is unknown (TypeError),
invalid (ValueError) or read-only (TypeError) decides -/
def expectKw (names : List Name) (bad : List Obj) (b : Obs) (c : CId) : List (Name × Obj) → Option String
  | [] => none
  | (n, v) :: kw =>
    match idxOf names n with
    | none => none
    | some k =>
      match b.clsFlags c k with
      | none => some "TypeError"
      | some (_, r) =>
        if n == "name" && bad.contains v then some "ValueError"
        else if r then some "TypeError"
        else expectKw names bad b c kw

/-- checks of one top-level step; `b` = observation before, `a` = after -/
def stepOk (names : List Name) (bad : List Obj) (op : Op) (b a : Obs) : Option String :=
  -- readonly: nothing protected by it ever changes, whatever the step
  match firstSome (fun (ck : CId × Nat) =>
      if isRO (b.clsFlags ck.1 ck.2) && (a.clsAttr ck.1 ck.2 != b.clsAttr ck.1 ck.2 || !isRO (a.clsFlags ck.1 ck.2)) then
        some s!"readonly: class {ck.1} '{names.getD ck.2 "?"}' was read-only and now holds {a.clsAttr ck.1 ck.2} (before {b.clsAttr ck.1 ck.2})"
      else none) (clsPairs b names) with
  | some w => some w
  | none =>
  match firstSome (fun (jk : IId × Nat) =>
      if isRO (b.govFlags jk.1 jk.2) && (a.held jk.1 jk.2 != b.held jk.1 jk.2 || !isRO (a.govFlags jk.1 jk.2)) then
        some s!"readonly: instance {jk.1} '{names.getD jk.2 "?"}' was read-only and now holds {a.held jk.1 jk.2} (before {b.held jk.1 jk.2})"
      else none) (instPairs b names) with
  | some w => some w
  | none =>
  if op.isBlock then
    -- edit_constant restores every flag (blocks whose body edits no flag explicitly)
    if !op.noFlag then none else
    match firstSome (fun (p : Nat) =>
        if a.flags (some p) != b.flags (some p) then
          some s!"restore: Parameter object #{p} has (constant, readonly) = {a.flags (some p)} after the block, {b.flags (some p)} before"
        else none) (List.range b.params.length) with
    | some w => some w
    | none =>
    match firstSome (fun (ck : CId × Nat) =>
        if a.clsFlags ck.1 ck.2 != b.clsFlags ck.1 ck.2 then
          some s!"restore-governing: class {ck.1} '{names.getD ck.2 "?"}' is governed by flags {a.clsFlags ck.1 ck.2} after the block, {b.clsFlags ck.1 ck.2} before"
        else none) (clsPairs b names) with
    | some w => some w
    | none =>
      firstSome (fun (jk : IId × Nat) =>
        if a.govFlags jk.1 jk.2 != b.govFlags jk.1 jk.2 then
          some s!"restore-governing: instance {jk.1} '{names.getD jk.2 "?"}' is governed by flags {a.govFlags jk.1 jk.2} after the block, {b.govFlags jk.1 jk.2} before"
        else none) (instPairs b names)
  else
    -- outside edit_constant the object held by a constant parameter never changes
    match firstSome (fun (jk : IId × Nat) =>
        if isConst (b.govFlags jk.1 jk.2) && a.held jk.1 jk.2 != b.held jk.1 jk.2 &&
            !(op.renames == some jk.1 && names.getD jk.2 "?" == "name") then
          some s!"constant: instance {jk.1} '{names.getD jk.2 "?"}' is constant and now holds {a.held jk.1 jk.2} (before {b.held jk.1 jk.2}) outside edit_constant"
        else none) (instPairs b names) with
    | some w => some w
    | none =>
    -- protection survives every step that edits no flag
    match (if !op.noFlag then none else
        match firstSome (fun (ck : CId × Nat) =>
          if a.clsFlags ck.1 ck.2 != b.clsFlags ck.1 ck.2 then
            some s!"survive: class {ck.1} '{names.getD ck.2 "?"}' is governed by flags {a.clsFlags ck.1 ck.2}, before the step {b.clsFlags ck.1 ck.2}"
          else none) (clsPairs b names) with
        | some w => some w
        | none => firstSome (fun (jk : IId × Nat) =>
          if a.govFlags jk.1 jk.2 != b.govFlags jk.1 jk.2 then
            some s!"survive: instance {jk.1} '{names.getD jk.2 "?"}' is governed by flags {a.govFlags jk.1 jk.2}, before the step {b.govFlags jk.1 jk.2}"
          else none) (instPairs b names)) with
    | some w => some w
    | none =>
    -- forbidden attempts raise TypeError and change nothing
    match op with
    | .instSet j n v =>
      (match idxOf names n with
       | none => none
       | some k =>
         let f := b.govFlags j k
         if n == "name" && bad.contains v && f.isSome then
           if a.res != "ValueError" then some s!"forbidden: invalid value for '{n}' of instance {j} ended with {a.res}, not ValueError"
           else (allHeldSame names b a).map (fun w => s!"forbidden: rejected assignment changed a value: {w}")
         else if isRO f || (isConst f && some v != b.held j k) then
           if a.res != "TypeError" then some s!"forbidden: assignment to protected '{n}' of instance {j} ended with {a.res}, not TypeError"
           else (allHeldSame names b a).map (fun w => s!"forbidden: rejected assignment changed a value: {w}")
         else none)
    | .instSetAsync j n v =>
      -- an asynchronous reference is just another assignment
      (match idxOf names n with
       | none => none
       | some k =>
         let f := b.govFlags j k
         if a.res != "skip" && (isRO f || (isConst f && some v != b.held j k)) then
           if a.res != "TypeError" then some s!"forbidden: async reference assigned to protected '{n}' of instance {j} ended with {a.res}, not TypeError"
           else (allHeldSame names b a).map (fun w => s!"forbidden: rejected assignment changed a value: {w}")
         else none)
    | .update j kvs =>
      (match expectUpdate names bad b j kvs with
       | some e => if a.res != e then some s!"forbidden: update of instance {j} ended with {a.res}, expected {e}" else none
       | none => none)
    | .clsSet c n _ =>
      (match idxOf names n with
       | none => none
       | some k =>
         if isRO (b.clsFlags c k) then
           if a.res != "TypeError" then some s!"forbidden: class-level assignment to read-only '{n}' of class {c} ended with {a.res}, not TypeError"
           else (allHeldSame names b a).map (fun w => s!"forbidden: rejected assignment changed a value: {w}")
         else none)
    | .newInst c kw =>
      -- an unknown, invalid or read-only keyword is refused; a new instance's `name` is constant
      (match expectKw names bad b c kw with
       | some e =>
         if a.res != e || a.insts.length != b.insts.length then
           some s!"forbidden: constructor of class {c} ended with {a.res} ({a.insts.length - b.insts.length} new instances), expected {e}"
         else none
       | none =>
         if a.res == "ok" then
           (match idxOf names "name" with
            | none => none
            | some k =>
              if isConst (b.clsFlags c k) && !isConst (a.govFlags b.insts.length k) then
                some s!"name: the new instance {b.insts.length} has a non-constant `name`"
              else none)
         else none)
    | .setName j v =>
      -- a rejected renaming changes nothing (and leaves the object locked: the next steps show it)
      if bad.contains v && (b.insts[j]?).isSome then
        if a.res != "ValueError" then some s!"forbidden: _set_name with an invalid value on instance {j} ended with {a.res}, not ValueError"
        else (allHeldSame names b a).map (fun w => s!"forbidden: rejected renaming changed a value: {w}")
      else none
    | _ => none

/-- walk a history of observations; returns (steps checked, first violation) -/
def specHistory (names : List Name) (bad : List Obj) : Obs → List (Op × Obs) → Nat → Nat × Option String
  | _, [], k => (k, none)
  | b, (op, a) :: rest, k =>
    match stepOk names bad op b a with
    | some w => (k + 1, some s!"step {k}: {w}")
    | none => specHistory names bad a rest (k + 1)

/-! ### The same observation computed from a model state -/

def obsOf (s : St) (names : List Name) (res : String) : Obs :=
  { res := res,
    params := s.heap.map fun q => { constant := q.constant, readonly := q.readonly, default := q.default },
    cls := (List.range s.classes.length).map fun c => names.map fun n => (descriptor s c n).map (·.1),
    insts := (List.range s.insts.length).map fun i =>
      match s.insts[i]? with
      | some x => { cls := x.cls, rows := names.map fun n =>
          { held := held s i n, stored := aget x.values n, copy := aget x.iparams n } }
      | none => { cls := 0, rows := [] } }

end ParamVerif.Store.Const
