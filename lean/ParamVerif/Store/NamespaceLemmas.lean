/-
Helper lemmas for C13 (Props/C13.lean): the uncached namespace walk computes Python's
attribute lookup, and which state changes can affect it.
-/
import ParamVerif.Store.Namespace

namespace ParamVerif.Store.Namespace
open ParamVerif.Store

/-- every class `__dict__` is a dict (unique keys); every cache is empty or up to date -/
structure Inv (s : St) : Prop where
  dicts : ∀ (c : CId) (k : Cls), s.classes[c]? = some k → (akeys k.dict).Nodup
  coh : ∀ (c : CId) (k : Cls), s.classes[c]? = some k → k.cache = [] ∨ k.cache = computeParams s c

theorem clsDict_nodup {s : St} (h : Inv s) (c : CId) : (akeys (clsDict s c)).Nodup := by
  unfold clsDict
  split
  · rename_i k hk; exact h.dicts c k hk
  · simp [akeys]

/-- walking `classlist(cls)` base-first and letting later classes override finds, for each name,
the Parameter of the *first* class along the MRO that defines it -/
theorem walk_get (s : St) (hd : ∀ c, (akeys (clsDict s c)).Nodup) (l : List CId) (n : Name) :
    aget (l.reverse.foldl (fun acc k => amerge acc (clsDict s k)) []) n = (findIn s l n).map (·.1) := by
  induction l with
  | nil => simp [findIn, aget]
  | cons k ks ih =>
    simp only [List.reverse_cons, List.foldl_append, List.foldl_cons, List.foldl_nil]
    rw [aget_amerge _ _ _ (hd k), ih]
    simp only [findIn]
    cases aget (clsDict s k) n <;> simp

theorem computeParams_get {s : St} (h : Inv s) (c : CId) (n : Name) :
    aget (computeParams s c) n = (descriptor s c n).map (·.1) :=
  walk_get s (clsDict_nodup h) _ n

theorem walk_nodup (s : St) (l : List CId) (acc : List (Name × PId)) (h : (akeys acc).Nodup) :
    (akeys (l.foldl (fun acc k => amerge acc (clsDict s k)) acc)).Nodup := by
  induction l generalizing acc with
  | nil => simpa using h
  | cons k ks ih => simp only [List.foldl_cons]; exact ih _ (amerge_nodup _ _ h)

theorem computeParams_nodup (s : St) (c : CId) : (akeys (computeParams s c)).Nodup :=
  walk_nodup s _ [] (by simp [akeys])

/-- the walk reads only the MRO of the class and the `__dict__`s of the classes on it -/
theorem computeParams_congr {s s' : St} {c : CId} (hm : mroOf s' c = mroOf s c)
    (hd : ∀ k ∈ mroOf s c, clsDict s' k = clsDict s k) : computeParams s' c = computeParams s c := by
  unfold computeParams
  rw [hm]
  have : ∀ (l : List CId) (acc : List (Name × PId)), (∀ k ∈ l, clsDict s' k = clsDict s k) →
      l.foldl (fun acc k => amerge acc (clsDict s' k)) acc = l.foldl (fun acc k => amerge acc (clsDict s k)) acc := by
    intro l
    induction l with
    | nil => intro acc _; rfl
    | cons k ks ih =>
      intro acc hk
      simp only [List.foldl_cons]
      rw [hk k (by simp), ih _ (fun k' hk' => hk k' (by simp [hk']))]
  exact this _ _ (fun k hk => hd k (by simpa using hk))

theorem computeParams_of_classes {s s' : St} (h : s'.classes = s.classes) (c : CId) :
    computeParams s' c = computeParams s c := by
  apply computeParams_congr
  · unfold mroOf; rw [h]
  · intro k _; unfold clsDict; rw [h]

theorem inv_of_classes {s s' : St} (h : s'.classes = s.classes) (hi : Inv s) : Inv s' := by
  constructor
  · intro c k hk; rw [h] at hk; exact hi.dicts c k hk
  · intro c k hk; rw [h] at hk; rw [computeParams_of_classes h]; exact hi.coh c k hk

/-- the dict a namespace read returns is the fresh walk -/
theorem nsView_eq {s : St} (h : Inv s) (c : CId) : nsView s c = computeParams s c := by
  unfold nsView nsRead
  split
  · rename_i hn
    unfold computeParams mroOf
    simp [hn]
  · rename_i k hk
    split
    · rename_i hne
      rcases h.coh c k hk with h' | h'
      · exact absurd h' hne
      · exact h'
    · rfl

/-! ### Which state changes preserve the invariant -/

/-- a namespace read fills the cache of that class with the fresh walk -/
theorem inv_nsRead {s : St} (h : Inv s) (c : CId) : Inv (nsRead s c).1 := by
  unfold nsRead
  split
  · exact h
  · rename_i k hk
    split
    · exact h
    · -- only the `cache` field of class `c` changes
      have hlt : c < s.classes.length := by
        rcases Nat.lt_or_ge c s.classes.length with h' | h'
        · exact h'
        · rw [List.getElem?_eq_none_iff.2 h'] at hk; cases hk
      have shape : ∀ c', mroOf { s with classes := s.classes.set c { k with cache := computeParams s c } } c' = mroOf s c' ∧
          clsDict { s with classes := s.classes.set c { k with cache := computeParams s c } } c' = clsDict s c' := by
        intro c'
        unfold mroOf clsDict
        simp only [List.getElem?_set]
        by_cases e : c = c'
        · subst e; simp only [↓reduceIte, hlt, hk]; trivial
        · simp [e]
      have hcp : ∀ c', computeParams { s with classes := s.classes.set c { k with cache := computeParams s c } } c'
          = computeParams s c' :=
        fun c' => computeParams_congr (shape c').1 (fun k' _ => (shape k').2)
      constructor
      · intro c' k' hk'
        simp only [List.getElem?_set] at hk'
        by_cases e : c = c'
        · subst e; simp [hlt] at hk'; subst hk'; exact h.dicts c k hk
        · simp [e] at hk'; exact h.dicts c' k' hk'
      · intro c' k' hk'
        rw [hcp]
        simp only [List.getElem?_set] at hk'
        by_cases e : c = c'
        · subst e; simp [hlt] at hk'; subst hk'; exact Or.inr rfl
        · simp [e] at hk'; exact h.coh c' k' hk'

theorem mroOf_clear_setDict (s : St) (c : CId) (n : Name) (p : PId) (c' : CId) :
    mroOf (clearDesc (setDict s c n p) c) c' = mroOf s c' := by
  unfold clearDesc setDict mroOf
  cases hc : s.classes[c]? with
  | none =>
    simp only [List.getElem?_map]
    cases s.classes[c']? with
    | none => rfl
    | some k' => simp only [Option.map_some]; split <;> rfl
  | some k =>
    simp only [List.getElem?_map, List.getElem?_set]
    have hlt : c < s.classes.length := by
      rcases Nat.lt_or_ge c s.classes.length with h' | h'
      · exact h'
      · rw [List.getElem?_eq_none_iff.2 h'] at hc; cases hc
    by_cases e : c = c'
    · subst e; simp only [hlt, if_true, Option.map_some, hc]; split <;> rfl
    · simp only [e, if_false]
      cases s.classes[c']? with
      | none => rfl
      | some k' => simp only [Option.map_some]; split <;> rfl

theorem clsDict_clear_setDict_ne (s : St) (c : CId) (n : Name) (p : PId) {c' : CId} (e : c' ≠ c) :
    clsDict (clearDesc (setDict s c n p) c) c' = clsDict s c' := by
  unfold clearDesc setDict clsDict
  cases hc : s.classes[c]? with
  | none =>
    simp only [List.getElem?_map]
    cases s.classes[c']? with
    | none => rfl
    | some k' => simp only [Option.map_some]; split <;> rfl
  | some k =>
    simp only [List.getElem?_map, List.getElem?_set, Ne.symm e, if_false]
    cases s.classes[c']? with
    | none => rfl
    | some k' => simp only [Option.map_some]; split <;> rfl

/-- installing a Parameter in `c.__dict__` and clearing the caches of `c` and its descendants
keeps every remaining cache up to date: a class that does not have `c` on its MRO cannot see
`c.__dict__` -/
theorem inv_clear_setDict {s : St} (h : Inv s) (c : CId) (n : Name) (p : PId) :
    Inv (clearDesc (setDict s c n p) c) := by
  -- the class table after the two updates, entry by entry
  have entry : ∀ (c' : CId) (k' : Cls), (clearDesc (setDict s c n p) c).classes[c']? = some k' →
      ∃ k0 : Cls, s.classes[c']? = some k0 ∧ k'.mro = k0.mro ∧
        (k'.dict = k0.dict ∨ k'.dict = aset k0.dict n p) ∧
        ((c ∈ k0.mro ∧ k'.cache = []) ∨ (c ∉ k0.mro ∧ k'.cache = k0.cache)) := by
    intro c' k' hk'
    unfold clearDesc setDict at hk'
    cases hc : s.classes[c]? with
    | none =>
      simp only [hc, List.getElem?_map] at hk'
      cases h0 : s.classes[c']? with
      | none => simp [h0] at hk'
      | some k0 =>
        simp only [h0, Option.map_some, Option.some.injEq] at hk'
        refine ⟨k0, rfl, ?_⟩
        subst hk'
        by_cases hm : c ∈ k0.mro <;> simp [hm]
    | some k =>
      have hlt : c < s.classes.length := by
        rcases Nat.lt_or_ge c s.classes.length with h' | h'
        · exact h'
        · rw [List.getElem?_eq_none_iff.2 h'] at hc; cases hc
      simp only [hc, List.getElem?_map, List.getElem?_set] at hk'
      by_cases e : c = c'
      · subst e
        simp only [hlt, if_true, Option.map_some, Option.some.injEq] at hk'
        refine ⟨k, hc, ?_⟩
        subst hk'
        by_cases hm : c ∈ k.mro <;> simp [hm]
      · simp only [e, if_false] at hk'
        cases h0 : s.classes[c']? with
        | none => simp [h0] at hk'
        | some k0 =>
          simp only [h0, Option.map_some, Option.some.injEq] at hk'
          refine ⟨k0, rfl, ?_⟩
          subst hk'
          by_cases hm : c ∈ k0.mro <;> simp [hm]
  constructor
  · intro c' k' hk'
    obtain ⟨k0, h0, _, hd, _⟩ := entry c' k' hk'
    rcases hd with hd | hd
    · rw [hd]; exact h.dicts c' k0 h0
    · rw [hd]; exact akeys_aset_nodup _ _ _ (h.dicts c' k0 h0)
  · intro c' k' hk'
    obtain ⟨k0, h0, _, _, hc⟩ := entry c' k' hk'
    rcases hc with ⟨_, hc⟩ | ⟨hm, hc⟩
    · exact Or.inl hc
    · rw [hc]
      have hmro : mroOf s c' = k0.mro := by unfold mroOf; rw [h0]
      have : computeParams (clearDesc (setDict s c n p) c) c' = computeParams s c' := by
        apply computeParams_congr (mroOf_clear_setDict s c n p c')
        intro k hk
        apply clsDict_clear_setDict_ne
        intro e; subst e; rw [hmro] at hk; exact hm hk
      rw [this]
      exact h.coh c' k0 h0

theorem clearDesc_shape (s : St) (c : CId) :
    (∀ c', mroOf (clearDesc s c) c' = mroOf s c') ∧ (∀ k, clsDict (clearDesc s c) k = clsDict s k) := by
  constructor
  · intro c'
    unfold clearDesc mroOf
    simp only [List.getElem?_map]
    cases s.classes[c']? with
    | none => rfl
    | some k => simp only [Option.map_some]; split <;> rfl
  · intro c'
    unfold clearDesc clsDict
    simp only [List.getElem?_map]
    cases s.classes[c']? with
    | none => rfl
    | some k => simp only [Option.map_some]; split <;> rfl

/-- clearing caches never hurts: an empty cache is refilled by the next read -/
theorem inv_clearDesc {s : St} (h : Inv s) (c : CId) : Inv (clearDesc s c) := by
  obtain ⟨e1, e2⟩ := clearDesc_shape s c
  have hcp : ∀ c', computeParams (clearDesc s c) c' = computeParams s c' :=
    fun c' => computeParams_congr (e1 c') (fun k _ => e2 k)
  have entry : ∀ (c' : CId) (k' : Cls), (clearDesc s c).classes[c']? = some k' →
      ∃ k0 : Cls, s.classes[c']? = some k0 ∧ k'.dict = k0.dict ∧ (k'.cache = [] ∨ k'.cache = k0.cache) := by
    intro c' k' hk'
    unfold clearDesc at hk'
    simp only [List.getElem?_map] at hk'
    cases h0 : s.classes[c']? with
    | none => simp [h0] at hk'
    | some k0 =>
      simp only [h0, Option.map_some, Option.some.injEq] at hk'
      refine ⟨k0, rfl, ?_⟩
      subst hk'
      by_cases hm : c ∈ k0.mro <;> simp [hm]
  constructor
  · intro c' k' hk'
    obtain ⟨k0, h0, hd, _⟩ := entry c' k' hk'
    rw [hd]; exact h.dicts c' k0 h0
  · intro c' k' hk'
    obtain ⟨k0, h0, _, hc⟩ := entry c' k' hk'
    rcases hc with hc | hc
    · exact Or.inl hc
    · rw [hc, hcp]; exact h.coh c' k0 h0

/-! ### Instances: every per-instance copy belongs to a name that is a Parameter of the class -/

/-- per-instance Parameter copies exist only under names attribute lookup resolves on the class -/
def InstOk (s : St) : Prop :=
  ∀ (i : IId) (x : Inst) (n : Name) (ip : PId), s.insts[i]? = some x → aget x.iparams n = some ip →
    (descriptor s x.cls n).isSome = true

theorem findIn_mono {s s' : St} (hd : ∀ k n, (aget (clsDict s k) n).isSome = true → (aget (clsDict s' k) n).isSome = true)
    (l : List CId) (n : Name) (h : (findIn s l n).isSome = true) : (findIn s' l n).isSome = true := by
  induction l with
  | nil => simp [findIn] at h
  | cons k l ih =>
    simp only [findIn] at h ⊢
    cases ha : aget (clsDict s k) n with
    | some p =>
      have := hd k n (by rw [ha]; rfl)
      cases ha' : aget (clsDict s' k) n with
      | none => rw [ha'] at this; cases this
      | some p' => rfl
    | none =>
      rw [ha] at h
      cases aget (clsDict s' k) n with
      | some p' => rfl
      | none => exact ih h

/-- attribute lookup keeps resolving when class dictionaries only gain entries -/
theorem descriptor_mono {s s' : St} (hm : ∀ c, mroOf s' c = mroOf s c)
    (hd : ∀ k n, (aget (clsDict s k) n).isSome = true → (aget (clsDict s' k) n).isSome = true)
    (c : CId) (n : Name) (h : (descriptor s c n).isSome = true) : (descriptor s' c n).isSome = true := by
  unfold descriptor at h ⊢; rw [hm]; exact findIn_mono hd _ n h

theorem shape_of_classes {s s' : St} (h : s'.classes = s.classes) :
    (∀ c, mroOf s' c = mroOf s c) ∧ (∀ k, clsDict s' k = clsDict s k) :=
  ⟨fun c => by unfold mroOf; rw [h], fun k => by unfold clsDict; rw [h]⟩

theorem nsRead_shape (s : St) (c : CId) :
    (∀ c', mroOf (nsRead s c).1 c' = mroOf s c') ∧ (∀ k, clsDict (nsRead s c).1 k = clsDict s k) ∧
      (nsRead s c).1.insts = s.insts ∧ (nsRead s c).1.heap = s.heap := by
  unfold nsRead
  split
  · exact ⟨fun _ => rfl, fun _ => rfl, rfl, rfl⟩
  · rename_i k hk
    split
    · exact ⟨fun _ => rfl, fun _ => rfl, rfl, rfl⟩
    · have hlt : c < s.classes.length := by
        rcases Nat.lt_or_ge c s.classes.length with h' | h'
        · exact h'
        · rw [List.getElem?_eq_none_iff.2 h'] at hk; cases hk
      refine ⟨?_, ?_, rfl, rfl⟩
      · intro c'
        unfold mroOf
        simp only [List.getElem?_set]
        by_cases e : c = c'
        · subst e; simp only [↓reduceIte, hlt, hk]
        · simp [e]
      · intro c'
        unfold clsDict
        simp only [List.getElem?_set]
        by_cases e : c = c'
        · subst e; simp only [↓reduceIte, hlt, hk]
        · simp [e]

theorem instOk_of {s s' : St} (hi : s'.insts = s.insts) (hm : ∀ c, mroOf s' c = mroOf s c)
    (hd : ∀ k n, (aget (clsDict s k) n).isSome = true → (aget (clsDict s' k) n).isSome = true)
    (h : InstOk s) : InstOk s' := by
  intro i x n ip hx ha
  rw [hi] at hx
  exact descriptor_mono hm hd x.cls n (h i x n ip hx ha)

theorem clsDict_clear_setDict_mono (s : St) (c : CId) (n : Name) (p : PId) (k : CId) (m : Name)
    (h : (aget (clsDict s k) m).isSome = true) : (aget (clsDict (clearDesc (setDict s c n p) c) k) m).isSome = true := by
  by_cases e : k = c
  · subst e
    unfold clearDesc setDict clsDict at *
    cases hc : s.classes[k]? with
    | none => rw [hc] at h; simp [aget] at h
    | some kk =>
      rw [hc] at h
      have hlt : k < s.classes.length := by
        rcases Nat.lt_or_ge k s.classes.length with h' | h'
        · exact h'
        · rw [List.getElem?_eq_none_iff.2 h'] at hc; cases hc
      simp only [List.getElem?_map, List.getElem?_set, hlt, if_true, Option.map_some]
      have key : (aget (aset kk.dict n p) m).isSome = true := by
        rw [aget_aset]; split
        · rfl
        · exact h
      split <;> exact key
  · rw [clsDict_clear_setDict_ne s c n p e]; exact h

theorem setDict_insts (s : St) (c : CId) (n : Name) (p : PId) : (setDict s c n p).insts = s.insts := by
  unfold setDict; split <;> rfl

theorem setDict_classes_heap (s : St) (h : List Param) (c : CId) (n : Name) (p : PId) :
    (setDict { s with heap := h } c n p).classes = (setDict s c n p).classes := by
  unfold setDict
  show (match s.classes[c]? with | none => _ | some k => _ : St).classes = _
  cases s.classes[c]? <;> rfl

/-- installing a Parameter on a class keeps every per-instance copy resolvable -/
theorem instOk_cow {s s' : St} (c : CId) (n : Name) (p : PId) (hi : s'.insts = s.insts)
    (hcl : s'.classes = (clearDesc (setDict s c n p) c).classes) (h : InstOk s) : InstOk s' := by
  obtain ⟨e1, e2⟩ := shape_of_classes hcl
  exact instOk_of hi (fun c' => (e1 c').trans (mroOf_clear_setDict s c n p c'))
    (fun k m hk => by rw [e2]; exact clsDict_clear_setDict_mono s c n p k m hk) h

theorem instOk_cow1 (s : St) (h1 h2 : List Param) (c : CId) (n : Name) (p : PId) (h : InstOk s) :
    InstOk { clearDesc (setDict { s with heap := h1 } c n p) c with heap := h2 } :=
  instOk_cow c n p (by show (setDict { s with heap := h1 } c n p).insts = s.insts; rw [setDict_insts])
    (by show (clearDesc (setDict { s with heap := h1 } c n p) c).classes = _
        unfold clearDesc; simp only [setDict_classes_heap]) h

theorem instOk_cow0 (s : St) (h1 : List Param) (c : CId) (n : Name) (p : PId) (h : InstOk s) :
    InstOk (clearDesc (setDict { s with heap := h1 } c n p) c) :=
  instOk_cow c n p (by show (setDict { s with heap := h1 } c n p).insts = s.insts; rw [setDict_insts])
    (by unfold clearDesc; simp only [setDict_classes_heap]) h

theorem instOk_cow2 (s : St) (h1 h2 : List Param) (c : CId) (n : Name) (p : PId) (h : InstOk s) :
    InstOk (clearDesc { setDict { s with heap := h1 } c n p with heap := h2 } c) :=
  instOk_cow c n p (by show (setDict { s with heap := h1 } c n p).insts = s.insts; rw [setDict_insts])
    (by unfold clearDesc; simp only [setDict_classes_heap]) h

/-- installing a Parameter without touching any cache (a rejected Parameter-valued class assignment) -/
theorem instOk_setDict (s : St) (h1 h2 : List Param) (c : CId) (n : Name) (p : PId) (h : InstOk s) :
    InstOk { setDict { s with heap := h1 } c n p with heap := h2 } := by
  have e : ({ setDict { s with heap := h1 } c n p with heap := h2 } : St).classes = (setDict s c n p).classes :=
    setDict_classes_heap s h1 c n p
  obtain ⟨e1, e2⟩ := shape_of_classes e
  obtain ⟨f1, f2⟩ := clearDesc_shape (setDict s c n p) c
  refine instOk_of (s := s)
    (by show (setDict { s with heap := h1 } c n p).insts = s.insts; rw [setDict_insts])
    (fun c' => by rw [e1, ← f1]; exact mroOf_clear_setDict s c n p c')
    (fun k m hk => by rw [e2, ← f2]; exact clsDict_clear_setDict_mono s c n p k m hk) h

theorem clsDict_clear_setDict_self (s : St) (c : CId) (n : Name) (p : PId) (k : Cls) (hk : s.classes[c]? = some k) :
    clsDict (clearDesc (setDict s c n p) c) c = aset k.dict n p := by
  have hlt : c < s.classes.length := by
    rcases Nat.lt_or_ge c s.classes.length with h' | h'
    · exact h'
    · rw [List.getElem?_eq_none_iff.2 h'] at hk; cases hk
  unfold clearDesc setDict clsDict
  simp only [hk, List.getElem?_map, List.getElem?_set, hlt, if_true, Option.map_some]
  split <;> rfl

theorem instantiated_classes {s s1 : St} {i : IId} {x : Inst} {n : Name} {p ip : PId}
    (h : instantiated s i x n p = .ok (s1, ip)) : s1.classes = s.classes := by
  unfold instantiated at h
  split at h
  · simp only [Except.ok.injEq, Prod.mk.injEq] at h; rw [← h.1]
  · split at h
    · cases h
    · simp only [Except.ok.injEq, Prod.mk.injEq] at h; rw [← h.1]; rfl

end ParamVerif.Store.Namespace
