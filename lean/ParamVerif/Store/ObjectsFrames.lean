/-
C12 — frame lemmas for the two directions the invariant file does not state by itself:

  * `ValsKept`: what one operation does to the values *stored* on existing instances — nothing, except
    `obj.x = v`, which touches name `x` of `obj` only (used for "keeps its own value / follows the class"
    along arbitrary interleavings);
  * `ClsTouch`: a class-addressed operation changes the contents of class-held containers only (used for
    "class-level writes do not reach the per-instance Parameter copies of existing instances").
-/
import ParamVerif.Store.ObjectsLemmas

namespace ParamVerif.Objects
open ParamVerif.Store

/-! ## Stored values -/

/-- the (instance, name) whose stored value an operation may assign: `obj.x = v` and nothing else -/
def assigns : Op → Option (InstId × Name)
  | .setVal (.inst i) x _ => some (i, x)
  | _ => none

/-- existing instances keep their class and every stored value (also "no stored value"), except name
`ex.2` of instance `ex.1` -/
def ValsKept (w w' : World) (ex : Option (InstId × Name)) : Prop :=
  ∀ (j : Nat) (J : Inst), w.insts[j]? = some J → ∃ J', w'.insts[j]? = some J' ∧ J'.cls = J.cls ∧
    ∀ y, ex ≠ some (j, y) → aget J'.values y = aget J.values y

theorem ValsKept.refl (w : World) (ex : Option (InstId × Name)) : ValsKept w w ex :=
  fun _ J h => ⟨J, h, rfl, fun _ _ => rfl⟩

theorem ValsKept.of_insts {w w' : World} (h : w'.insts = w.insts) (ex : Option (InstId × Name)) :
    ValsKept w w' ex := by
  intro j J hJ; exact ⟨J, by rw [h]; exact hJ, rfl, fun _ _ => rfl⟩

theorem ValsKept.trans {w w1 w2 : World} {ex : Option (InstId × Name)} (a : ValsKept w w1 ex)
    (b : ValsKept w1 w2 ex) : ValsKept w w2 ex := by
  intro j J hJ
  obtain ⟨J1, h1, c1, v1⟩ := a j J hJ
  obtain ⟨J2, h2, c2, v2⟩ := b j J1 h1
  exact ⟨J2, h2, c2.trans c1, fun y hy => (v2 y hy).trans (v1 y hy)⟩

theorem ValsKept.mono {w w' : World} {ex : Option (InstId × Name)} (a : ValsKept w w' none) : ValsKept w w' ex := by
  intro j J hJ
  obtain ⟨J', h, c, v⟩ := a j J hJ
  exact ⟨J', h, c, fun y _ => v y (by simp)⟩

/-- replacing record `i` by one of the same class whose values differ at most at `ex` -/
theorem valsKept_set {w w' : World} {i : InstId} {I I' : Inst} {ex : Option (InstId × Name)}
    (hI : w.insts[i]? = some I) (hw : w'.insts = w.insts.set i I') (hc : I'.cls = I.cls)
    (hv : ∀ y, ex ≠ some (i, y) → aget I'.values y = aget I.values y) : ValsKept w w' ex := by
  intro j J hJ
  by_cases hji : j = i
  · subst hji
    rw [hI] at hJ; cases hJ
    exact ⟨I', by rw [hw]; exact getElem?_set_self' hI, hc, hv⟩
  · refine ⟨J, ?_, rfl, fun _ _ => rfl⟩
    rw [hw, List.getElem?_set_ne (fun e => hji e.symm)]; exact hJ

theorem instParam_vals {w w1 : World} {i : InstId} {I : Inst} {x : Name} {P ip : PObj} {own : Bool}
    (hI : w.insts[i]? = some I) (h : instParam w i I x P = (w1, ip, own)) : ValsKept w w1 none := by
  unfold instParam at h
  split at h
  · simp at h; obtain ⟨rfl, _, _⟩ := h; exact ValsKept.refl _ _
  · split at h
    · generalize hcs : copySlots w.cells P.mslots = r at h
      obtain ⟨ms, cells'⟩ := r
      simp at h; obtain ⟨rfl, _, _⟩ := h
      exact valsKept_set hI rfl rfl (fun _ _ => rfl)
    · simp at h; obtain ⟨rfl, _, _⟩ := h; exact ValsKept.refl _ _

theorem locate_inst_vals {w w1 : World} {i : InstId} {x : Name} {loc : Loc} {p : PObj}
    (h : locate w (.inst i) x = .ok (w1, loc, p)) : ValsKept w w1 none := by
  obtain ⟨I, k', P, hI, _, h | h⟩ := locate_inst_spec h
  · obtain ⟨_, _, e, I1, h1, _, hv, hc⟩ := h
    intro j J hJ
    by_cases hji : j = i
    · subst hji; rw [hI] at hJ; cases hJ; exact ⟨I1, h1, hc, fun y _ => by rw [hv]⟩
    · exact ⟨J, by rw [e.othersEq j hji]; exact hJ, rfl, fun _ _ => rfl⟩
  · rw [h.2.1]; exact ValsKept.refl _ _

theorem locate_vals {w w1 : World} {t : Target} {x : Name} {loc : Loc} {p : PObj}
    (h : locate w t x = .ok (w1, loc, p)) : ValsKept w w1 none := by
  cases t with
  | cls k => obtain ⟨_, _, _, rfl⟩ := locate_cls_spec h; exact ValsKept.refl _ _
  | inst i => exact locate_inst_vals h

theorem writeP_vals (w : World) (loc : Loc) (p : PObj) : ValsKept w (w.writeP loc p) none := by
  cases loc with
  | own k x => exact ValsKept.of_insts (setOwn_insts w k x p) _
  | copy i x =>
    simp only [World.writeP, World.setInst, World.inst?]
    split
    · rename_i I hI; exact valsKept_set hI rfl rfl (fun _ _ => rfl)
    · exact ValsKept.refl _ _

theorem doAccess_vals (w : World) (i : InstId) (x : Name) : ValsKept w (doAccess w i x).1 none := by
  unfold doAccess
  cases hl : locate w (.inst i) x with
  | error e => exact ValsKept.refl _ _
  | ok r => obtain ⟨w1, loc, p⟩ := r; exact locate_inst_vals hl

theorem doSlotSet_vals (w : World) (t : Target) (x : Name) (s : SlotSet) :
    ValsKept w (doSlotSet w t x s).1 none := by
  unfold doSlotSet
  cases hl : locate w t x with
  | error e => exact ValsKept.refl _ _
  | ok r =>
    obtain ⟨w1, loc, p⟩ := r
    have h1 := locate_vals hl
    simp only
    cases ha : applySlotSet w1.cells p s with
    | error e => exact h1
    | ok r2 =>
      obtain ⟨p', cells'⟩ := r2
      exact h1.trans ((ValsKept.of_insts (w := w1) (w' := { w1 with cells := cells' }) rfl none).trans
        (writeP_vals _ _ _))

theorem doSlotMut_vals (w : World) (t : Target) (x : Name) (m : SlotMut) :
    ValsKept w (doSlotMut w t x m).1 none := by
  unfold doSlotMut
  cases hl : locate w t x with
  | error e => exact ValsKept.refl _ _
  | ok r =>
    obtain ⟨w1, loc, p⟩ := r
    have h1 := locate_vals hl
    simp only
    cases ha : applySlotMut w1.cells p m with
    | error e => exact h1
    | ok cells' => exact h1.trans (ValsKept.of_insts (w := w1) (w' := { w1 with cells := cells' }) rfl none)

/-- `obj.x = v` changes the stored value of `x` on `obj` and no other stored value anywhere -/
theorem doSetInstCore_vals (w : World) (i : InstId) (x : Name) (lit : Lit) :
    ValsKept w (doSetInstCore w i x lit).1 (some (i, x)) := by
  unfold doSetInstCore
  simp only [World.inst?]
  split
  · exact ValsKept.refl _ _
  · rename_i I hI
    split
    · exact ValsKept.refl _ _
    · rename_i k' P hr
      generalize hev : evalLit w.cells lit = r
      obtain ⟨v, cells1⟩ := r
      simp only
      generalize hip : instParam { w with cells := cells1 } i I x P = r2
      obtain ⟨w1, ip, own⟩ := r2
      have h1 : ValsKept w w1 none :=
        (ValsKept.of_insts (w := w) (w' := { w with cells := cells1 }) rfl none).trans
          (instParam_vals (w := { w with cells := cells1 }) hI hip)
      simp only
      split
      · exact h1.mono
      · rename_i cells2 hv
        have h2 : ValsKept w { w1 with cells := cells2 } none :=
          h1.trans (ValsKept.of_insts (w := w1) (w' := { w1 with cells := cells2 }) rfl none)
        split
        · exact h2.mono
        split
        · split <;> exact h2.mono
        · refine h2.mono.trans ?_
          simp only [World.setInst, World.inst?]
          split
          · rename_i I1 hI1
            refine valsKept_set hI1 rfl rfl ?_
            intro y hy
            exact aget_aset_ne _ _ (fun e => hy (by rw [e]))
          · exact ValsKept.refl _ _

theorem doMkInst_vals (w : World) (k : ClsId) (kwargs : List (Name × Lit)) :
    ValsKept w (doMkInst w k kwargs).1 none := by
  obtain ⟨_, _, h3⟩ := doMkInst_effect w k kwargs
  intro j J hJ
  have hj : j < w.insts.length := by
    rcases Nat.lt_or_ge j w.insts.length with h | h
    · exact h
    · rw [List.getElem?_eq_none h] at hJ; simp at hJ
  exact ⟨J, by rw [h3 j hj]; exact hJ, rfl, fun _ _ => rfl⟩

/-- **one step**: every operation keeps the class and all stored values of every existing instance, except
that `obj.x = v` may change the stored value of `x` on `obj` -/
theorem step_vals (w : World) (op : Op) : ValsKept w (step w op).1 (assigns op) := by
  cases op with
  | mkClass mro decls => exact ValsKept.of_insts (doMkClass_effect w mro decls).instsEq _
  | mkInst k kw => exact doMkInst_vals w k kw
  | setVal t x v =>
    cases t with
    | inst i =>
      show ValsKept w (doSetInst w i x v).1 (some (i, x))
      unfold doSetInst
      split
      · exact ValsKept.refl _ _
      · exact doSetInstCore_vals w i x v
    | cls k => exact ValsKept.of_insts (doSetCls_effect w k x v).instsEq _
  | mutVal t x n => exact ValsKept.of_insts (doMutVal_frame w t x n).2.1 _
  | mutItem t x i n => exact ValsKept.of_insts (doMutItem_frame w t x i n).2.1 _
  | access i x => exact doAccess_vals w i x
  | slotSet t x s => exact doSlotSet_vals w t x s
  | slotMut t x m => exact doSlotMut_vals w t x m
  | sharedFail => exact ValsKept.refl _ _

/-- **any history** in which `obj.x` is never assigned keeps the stored value of `x` on `obj` (and `obj`'s class) -/
theorem run_vals (i : InstId) (x : Name) : ∀ (ops : List Op) (w : World),
    (∀ op ∈ ops, assigns op ≠ some (i, x)) → ∀ I, w.insts[i]? = some I →
    ∃ I', (run w ops).insts[i]? = some I' ∧ I'.cls = I.cls ∧ aget I'.values x = aget I.values x
  | [], w, _, I, hI => ⟨I, hI, rfl, rfl⟩
  | op :: ops, w, h, I, hI => by
    obtain ⟨I1, h1, c1, v1⟩ := step_vals w op i I hI
    obtain ⟨I2, h2, c2, v2⟩ := run_vals i x ops (step w op).1 (fun o ho => h o (by simp [ho])) I1 h1
    exact ⟨I2, h2, c2.trans c1, v2.trans (v1 x (h op (by simp)))⟩

/-! ## Class-addressed operations touch class-held containers only -/

/-- every existing container whose contents the step changed is referenced from a class `__dict__` -/
def ClsTouch (w w' : World) : Prop :=
  ∀ c : Nat, c < w.cells.length → deref w'.cells c ≠ deref w.cells c → heldByClass w c

theorem ClsTouch.of_append {w w' : World} {extra : List (List Int)} (h : w'.cells = w.cells ++ extra) :
    ClsTouch w w' := by
  intro c hc hne
  exact absurd (by rw [h]; exact deref_append_lt hc) hne

theorem doMkClass_touch (w : World) (mro : List ClsId) (decls : List Decl) :
    ClsTouch w (doMkClass w mro decls).1 := by
  unfold doMkClass
  generalize hd : declareAll w.classes.length w.cells decls = r
  obtain ⟨own, cells'⟩ := r
  obtain ⟨⟨extra, rfl⟩, _⟩ := declareAll_spec _ _ _ _ hd
  simp only [hd]
  exact ClsTouch.of_append (extra := extra) rfl

theorem slotSet_at_class_touch {w : World} {k' : ClsId} {x : Name} {P : PObj} {s : SlotSet} :
    ClsTouch w (match applySlotSet w.cells P s with
      | .error e => (w, some e)
      | .ok (p', cells') => (({ w with cells := cells' }).writeP (.own k' x) p', none)).1 := by
  cases ha : applySlotSet w.cells P s with
  | error e => exact ClsTouch.of_append (extra := []) (by simp)
  | ok r =>
    obtain ⟨p', cells'⟩ := r
    obtain ⟨⟨extra, rfl⟩, _, _⟩ := applySlotSet_spec ha
    exact ClsTouch.of_append (extra := extra) (by simp [World.writeP, setOwn_cells])

theorem slotMut_at_class_touch {w : World} {k0 k' : ClsId} {x : Name} {P : PObj} {m : SlotMut}
    (hr : w.resolve k0 x = some (k', P)) :
    ClsTouch w (match applySlotMut w.cells P m with
      | .error e => (w, some e)
      | .ok cells' => ({ w with cells := cells' }, none)).1 := by
  cases ha : applySlotMut w.cells P m with
  | error e => exact ClsTouch.of_append (extra := []) (by simp)
  | ok cells' =>
    obtain ⟨_, ht⟩ := applySlotMut_spec ha
    intro c _ hne
    exact resolve_held hr c (by
      have := ht c hne
      simp only [PObj.cells, List.mem_append]; exact Or.inr (by simpa [PObj.slotCells] using this))

theorem doSlotSet_cls_touch (w : World) (k : ClsId) (x : Name) (s : SlotSet) :
    ClsTouch w (doSlotSet w (.cls k) x s).1 := by
  unfold doSlotSet
  cases hl : locate w (.cls k) x with
  | error e => exact ClsTouch.of_append (extra := []) (by simp)
  | ok r =>
    obtain ⟨w1, loc, p⟩ := r
    obtain ⟨k', hr, rfl, rfl⟩ := locate_cls_spec hl
    exact slotSet_at_class_touch

theorem doSlotMut_cls_touch (w : World) (k : ClsId) (x : Name) (m : SlotMut) :
    ClsTouch w (doSlotMut w (.cls k) x m).1 := by
  unfold doSlotMut
  cases hl : locate w (.cls k) x with
  | error e => exact ClsTouch.of_append (extra := []) (by simp)
  | ok r =>
    obtain ⟨w1, loc, p⟩ := r
    obtain ⟨k', hr, rfl, rfl⟩ := locate_cls_spec hl
    exact slotMut_at_class_touch hr

theorem doMutVal_cls_touch (w : World) (k : ClsId) (x : Name) (n : Int) :
    ClsTouch w (doMutVal w (.cls k) x n).1 := by
  intro c _ hne
  apply Classical.byContradiction
  intro hnh
  apply hne
  apply (doMutVal_frame w (.cls k) x n).2.2.2 c
  intro hread
  apply hnh
  simp only [World.read, World.getCls] at hread
  cases hr : w.resolve k x with
  | none => simp [hr] at hread
  | some kP =>
    obtain ⟨k', P⟩ := kP
    simp [hr] at hread
    exact resolve_held hr c (by simp [PObj.cells, hread, Val.cells])

theorem doMutItem_cls_touch (w : World) (k : ClsId) (x : Name) (i : Nat) (n : Int) :
    ClsTouch w (doMutItem w (.cls k) x i n).1 := by
  intro c _ hne
  apply Classical.byContradiction
  intro hnh
  apply hne
  apply (doMutItem_frame w (.cls k) x i n).2.2.2 c
  intro cs hread hc
  apply hnh
  simp only [World.read, World.getCls] at hread
  cases hr : w.resolve k x with
  | none => simp [hr] at hread
  | some kP =>
    obtain ⟨k', P⟩ := kP
    simp [hr] at hread
    exact resolve_held hr c (by simp [PObj.cells, hread, Val.cells]; exact Or.inl (List.mem_of_getElem? hc))

/-- `K.x = v`: the only existing container whose contents may change is the `objects` list of the class
Parameter that serves the assignment (a `Selector` without `check_on_set` appends the value) -/
theorem doSetClsCore_touch (w : World) (k : ClsId) (x : Name) (lit : Lit) :
    ClsTouch w (doSetClsCore w k x lit).1 := by
  unfold doSetClsCore
  cases hr : w.resolve k x with
  | none => exact ClsTouch.of_append (extra := []) (by simp)
  | some kP =>
    obtain ⟨k', P⟩ := kP
    simp only
    generalize hev : evalLit w.cells lit = r
    obtain ⟨v, cells1⟩ := r
    obtain ⟨⟨extra, rfl⟩, _⟩ := evalLit_spec hev
    simp only
    generalize hp : (if k' = k then (P, w.cells ++ extra) else
        ((({ P with owner := Owner.cls k, mslots := (copySlots (w.cells ++ extra) P.mslots).1 } : PObj),
          (copySlots (w.cells ++ extra) P.mslots).2) : PObj × List (List Int))) = r
    obtain ⟨p, cells1'⟩ := r
    have hpp : (∃ e2, cells1' = w.cells ++ extra ++ e2) ∧
        (∀ c : Nat, c ∈ p.slotCells → c ∈ P.slotCells ∨ ((w.cells ++ extra).length ≤ c ∧ c < cells1'.length)) := by
      split at hp
      · simp at hp; obtain ⟨rfl, rfl⟩ := hp
        exact ⟨⟨[], by simp⟩, fun c hc => Or.inl hc⟩
      · generalize hcs : copySlots (w.cells ++ extra) P.mslots = r2 at hp
        obtain ⟨ms, c2⟩ := r2
        simp at hp; obtain ⟨rfl, rfl⟩ := hp
        obtain ⟨⟨e2, rfl⟩, hfresh⟩ := copySlots_spec _ _ _ _ hcs
        refine ⟨⟨e2, rfl⟩, ?_⟩
        intro c hc
        simp only [PObj.slotCells, List.mem_map] at hc
        obtain ⟨sc, hsc, rfl⟩ := hc
        exact Or.inr (hfresh sc.1 sc.2 hsc)
    obtain ⟨⟨e2, rfl⟩, hslots⟩ := hpp
    show ClsTouch w (match validate (({ w with cells := w.cells ++ extra ++ e2 }).setOwn k x p).cells p v with
      | .error e => (({ w with cells := w.cells ++ extra ++ e2 } : World), some e)
      | .ok cells2 =>
        if p.readonly then (({ w with cells := cells2 } : World), some Err.typeError)
        else (({ ({ w with cells := w.cells ++ extra ++ e2 }).setOwn k x p with cells := cells2 }).setOwn k x { p with default := v }, none)).1
    cases hval : validate (({ w with cells := w.cells ++ extra ++ e2 }).setOwn k x p).cells p v with
    | error e => exact ClsTouch.of_append (extra := extra ++ e2) (by simp)
    | ok cells2 =>
      obtain ⟨_, ht⟩ := validate_spec hval
      intro c hc hne
      have hne : deref cells2 c ≠ deref w.cells c := by
        by_cases hro : p.readonly = true
        · simpa [hro] using hne
        · simpa [hro, setOwn_cells] using hne
      simp only [setOwn_cells] at ht
      have hch : deref cells2 c ≠ deref (w.cells ++ extra ++ e2) c := by
        intro e; apply hne; rw [e, List.append_assoc]; exact deref_append_lt hc
      rcases hslots c (ht c hch) with h | h
      · exact resolve_held hr c (by
          simp only [PObj.cells, List.mem_append]; exact Or.inr (by simpa [PObj.slotCells] using h))
      · simp at h; omega

/-- operations addressed to a class: `class K(..)`, `K.x = v`, `K.x.append(v)`, `K.param.x.<attr> = v`, .. -/
def classOp : Op → Bool
  | .mkClass .. => true
  | .setVal (.cls _) .. => true
  | .mutVal (.cls _) .. => true
  | .mutItem (.cls _) .. => true
  | .slotSet (.cls _) .. => true
  | .slotMut (.cls _) .. => true
  | .sharedFail => true
  | _ => false

theorem step_cls_touch (w : World) (op : Op) (hc : classOp op = true) : ClsTouch w (step w op).1 := by
  cases op with
  | mkClass mro decls => exact doMkClass_touch w mro decls
  | mkInst _ _ => simp [classOp] at hc
  | access _ _ => simp [classOp] at hc
  | setVal t x v =>
    cases t with
    | inst i => simp [classOp] at hc
    | cls k =>
      show ClsTouch w (doSetCls w k x v).1
      unfold doSetCls
      split
      · exact ClsTouch.of_append (extra := []) (by simp)
      · exact doSetClsCore_touch w k x v
  | mutVal t x n =>
    cases t with
    | inst i => simp [classOp] at hc
    | cls k => exact doMutVal_cls_touch w k x n
  | mutItem t x i n =>
    cases t with
    | inst j => simp [classOp] at hc
    | cls k => exact doMutItem_cls_touch w k x i n
  | slotSet t x s =>
    cases t with
    | inst i => simp [classOp] at hc
    | cls k => exact doSlotSet_cls_touch w k x s
  | slotMut t x m =>
    cases t with
    | inst i => simp [classOp] at hc
    | cls k => exact doSlotMut_cls_touch w k x m
  | sharedFail => exact ClsTouch.of_append (extra := []) (by simp [step])

end ParamVerif.Objects
