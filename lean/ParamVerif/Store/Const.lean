/-
C14 model: constant / read-only parameters.

Anchored code (param/parameterized.py, working tree of /repo):
  the guard in `Parameter.__set__` (identity comparison, `initialized` flag), `instance_descriptor`,
  `_instantiated_parameter` / `_instantiate_param_obj`, `edit_constant` (as written, with its
  `try/finally`), `as_uninitialized`, `Parameter.__init__` (`readonly ⇒ constant`),
  `Parameterized.__init__` / `Parameters._setup_params` (constants referenced on the instance,
  keyword arguments), `Parameters._generate_name/_set_name`, the `name` String parameter,
  `Parameters.update/_update`, `ParameterizedMetaclass.__setattr__` (copy-on-write) and
  `get_param_descriptor`.

Values are opaque objects identified by creation index (`Obj`); the guard compares identities.
Parameter objects are identified by creation index (`PId`) and carry the two flags and the
default.  Classes are indices with their MRO as data (single inheritance in the histories of the
harness).  Every class `__dict__` holds its own copy of the `name` Parameter (the metaclass
assigns `cls.name = <class name>` at class creation, which copies the inherited Parameter).
The namespace cache is not modelled here: C13 shows that it coincides with attribute lookup
(`descriptor`) in every history without a failing `add_parameter`, and `add_parameter` is not part
of this property.

No imports other than Assoc: this file is loaded by the driver.
-/
import ParamVerif.Store.Assoc

namespace ParamVerif.Store.Const
open ParamVerif.Store

abbrev Name := String
abbrev Obj := Nat
abbrev PId := Nat
abbrev CId := Nat
abbrev IId := Nat

structure Param where
  constant : Bool
  readonly : Bool
  default : Obj
  /-- `allow_refs`: an async function assigned to the parameter is resolved and its result assigned -/
  allowRefs : Bool := false
  /-- a `param.String` (the `name` parameter): `_validate` rejects a value that is neither a `str` nor None -/
  strOnly : Bool := false
  deriving Repr, DecidableEq

structure Cls where
  /-- `inspect.getmro(cls)` restricted to the modelled classes, the class itself first -/
  mro : List CId
  /-- Parameter-valued entries of `cls.__dict__`, insertion order -/
  dict : List (Name × PId)
  /-- the string object `cls.__name__` that the metaclass stored as default of the class's `name` -/
  nameObj : Obj
  deriving Repr, DecidableEq

/-- an instance after `__init__` returned (`initialized = True`) -/
structure Inst where
  cls : CId
  /-- `_param__private.values` -/
  values : List (Name × Obj)
  /-- `_param__private.params`: per-instance Parameter copies -/
  iparams : List (Name × PId)
  deriving Repr, DecidableEq

structure St where
  heap : List Param
  classes : List Cls
  insts : List Inst
  /-- next fresh object (auto-generated instance names) -/
  nextObj : Obj
  /-- the value objects that are not strings (and not None) -/
  nonStr : List Obj := []
  /-- value objects that are references with nothing to deliver yet (a `param.depends` function that
  raises `param.Skip`): given to an `allow_refs` parameter they install a link and store nothing -/
  silent : List Obj := []
  deriving Repr, DecidableEq

inductive Res
  | ok
  /-- the name is not a Parameter there: plain Python attribute assignment, outside the model -/
  | skip
  | typeError | valueError | keyError
  /-- `raise RuntimeError` in the body of a block -/
  | runtimeError
  /-- dangling index: unreachable from well-formed states -/
  | stuck
  deriving Repr, DecidableEq

/-- does execution continue with the next statement -/
def Res.continues : Res → Bool
  | .ok | .skip => true
  | _ => false

inductive Op
  /-- `C(**kw)` -/
  | newInst (c : CId) (kw : List (Name × Obj))
  /-- `setattr(obj, n, v)` -/
  | instSet (i : IId) (n : Name) (v : Obj)
  /-- `setattr(obj, n, getattr(obj, n))`: re-assignment of the identical object -/
  | instSetSame (i : IId) (n : Name)
  /-- `obj.param.update(**kvs)` -/
  | update (i : IId) (kvs : List (Name × Obj))
  /-- `setattr(C, n, v)` with a non-Parameter value -/
  | clsSet (c : CId) (n : Name) (v : Obj)
  /-- `obj.param[n].constant = b` -/
  | flag (i : IId) (n : Name) (b : Bool)
  /-- `C.param[n].constant = b` -/
  | clsFlag (c : CId) (n : Name) (b : Bool)
  /-- `obj.param[n]` (creates the per-instance Parameter copy) -/
  | getParam (i : IId) (n : Name)
  /-- `async def f(): return v` then `setattr(obj, n, f)`, no event loop running (the reference is
  resolved synchronously inside the assignment); only for `allow_refs=True` parameters -/
  | instSetAsync (i : IId) (n : Name) (v : Obj)
  /-- `obj.param._set_name(v)` on the constructed object (`as_uninitialized`) -/
  | setName (i : IId) (v : Obj)
  /-- `obj.param._generate_name()` on the constructed object (`as_uninitialized`; what the deep copy
  of a Parameterized default of an `instantiate=True` parameter undergoes) -/
  | genName (i : IId)
  /-- `w = obj.param.watch(boom, n, what='constant'); with edit_constant(obj): pass; unwatch(w)` where
  `boom` raises: an `edit_constant` whose entry is interrupted by a raising watcher of the flag -/
  | failingEntry (i : IId) (n : Name)
  /-- `raise RuntimeError()` -/
  | raise
  /-- `with edit_constant(obj): body` -/
  | block (i : IId) (body : List Op)
  deriving Repr

/-! ### Attribute lookup -/

def clsDict (s : St) (c : CId) : List (Name × PId) :=
  match s.classes[c]? with | some k => k.dict | none => []

def mroOf (s : St) (c : CId) : List CId :=
  match s.classes[c]? with | some k => k.mro | none => []

def findIn (s : St) : List CId → Name → Option (PId × CId)
  | [], _ => none
  | k :: ks, n =>
    match aget (clsDict s k) n with
    | some p => some (p, k)
    | none => findIn s ks n

/-- src: ParameterizedMetaclass.get_param_descriptor = Python's own lookup of the class attribute
= the entry of `_cls_parameters` (C13) -/
def descriptor (s : St) (c : CId) (n : Name) : Option (PId × CId) := findIn s (mroOf s c) n

/-- the names `_cls_parameters` lists, in its order (base-first walk, first occurrence) -/
def nsNames (s : St) (c : CId) : List Name :=
  ((mroOf s c).reverse.flatMap fun k => akeys (clsDict s k)).eraseDups

/-! ### Parameter objects -/

def setConst (h : List Param) (p : PId) (b : Bool) : List Param :=
  match h[p]? with
  | some q => h.set p { q with constant := b }
  | none => h

def setInst (s : St) (i : IId) (x : Inst) : St := { s with insts := s.insts.set i x }

/-- src: _instantiated_parameter on an initialised instance (`per_instance=True`):
`copy.copy` of the Parameter it is handed, created once, keyed by the name -/
def instantiated (s : St) (i : IId) (x : Inst) (n : Name) (p : PId) : Except Res (St × Inst × PId) :=
  match aget x.iparams n with
  | some ip => .ok (s, x, ip)
  | none =>
    match s.heap[p]? with
    | none => .error .stuck
    | some q =>
      let ip := s.heap.length
      let x' := { x with iparams := aset x.iparams n ip }
      .ok (setInst { s with heap := s.heap ++ [q] } i x', x', ip)

/-- src: String._validate_value: only a string (or None, `allow_None`) is accepted -/
def rejects (s : St) (q : Param) (v : Obj) : Bool := q.strOnly && s.nonStr.contains v

/-- src: Parameter._held_value (e80cc81): what the attribute reads on the instance — its own value if it
has one, otherwise the default of the *class's* Parameter (`type(obj).param._cls_parameters.get(name, self)`),
not the per-instance copy's snapshot of it -/
def guardOld (s : St) (x : Inst) (n : Name) (q : Param) : Obj :=
  match aget x.values n with
  | some o => o
  | none =>
    match descriptor s x.cls n with
    | some (p, _) => (match s.heap[p]? with | some qc => qc.default | none => q.default)
    | none => q.default

/-- src: Parameter.__set__ on an *initialised* instance, from the guard on; `ip` is the Parameter
object the call was delegated to (`instance_descriptor`) -/
def guardedStore (s : St) (i : IId) (x : Inst) (n : Name) (ip : PId) (v : Obj) : St × Res :=
  match s.heap[ip]? with
  | none => (s, .stuck)
  | some q =>
    -- `self._validate(val)` comes before the guard
    if rejects s q v then (s, .valueError) else
    if q.constant || q.readonly then
      if q.readonly then (s, .typeError)
      else
        -- `if val is not _old: raise TypeError`
        if v = guardOld s x n q then (s, .ok) else (s, .typeError)
    else (setInst s i { x with values := aset x.values n v }, .ok)

/-- `setattr(obj, n, v)` after construction -/
def instSetCore (s : St) (i : IId) (n : Name) (v : Obj) : St × Res :=
  match s.insts[i]? with
  | none => (s, .stuck)
  | some x =>
    match descriptor s x.cls n with
    | none => (s, .skip)
    | some (p, _) =>
      match instantiated s i x n p with
      | .error e => (s, e)
      | .ok (s1, x1, ip) => guardedStore s1 i x1 n ip v

/-- `getattr(obj, n)`: `Parameter.__get__` of the class descriptor -/
def held (s : St) (i : IId) (n : Name) : Option Obj :=
  match s.insts[i]? with
  | none => none
  | some x =>
    match descriptor s x.cls n with
    | none => none
    | some (p, _) =>
      match aget x.values n with
      | some o => some o
      | none => (s.heap[p]?).map (·.default)

/-- `getattr(C, n)` -/
def clsAttr (s : St) (c : CId) (n : Name) : Option Obj :=
  match descriptor s c n with
  | none => none
  | some (p, _) => (s.heap[p]?).map (·.default)

/-- `obj.param[n]`: the namespace entry, instantiated -/
def getParamCore (s : St) (i : IId) (n : Name) : Except Res (St × PId) :=
  match s.insts[i]? with
  | none => .error .stuck
  | some x =>
    match descriptor s x.cls n with
    | none => .error .keyError
    | some (p, _) =>
      match instantiated s i x n p with
      | .error e => .error e
      | .ok (s1, _, ip) => .ok (s1, ip)

/-- src: Parameters._update, first loop: `k in self_ and hasattr(self_[k], ...)` instantiates the
Parameter of every key that is in the namespace -/
def touchKeys (s : St) (i : IId) : List (Name × Obj) → St
  | [] => s
  | (k, _) :: kvs =>
    match getParamCore s i k with
    | .ok (s1, _) => touchKeys s1 i kvs
    | .error _ => touchKeys s i kvs

/-- src: Parameters._update, second loop: unknown key → ValueError; `setattr` may raise; what was
applied stays applied -/
def applyKeys (s : St) (i : IId) : List (Name × Obj) → St × Res
  | [] => (s, .ok)
  | (k, v) :: kvs =>
    match s.insts[i]? with
    | none => (s, .stuck)
    | some x =>
      match descriptor s x.cls k with
      | none => (s, .valueError)
      | some _ =>
        match instSetCore s i k v with
        | (s1, .ok) => applyKeys s1 i kvs
        | (s1, r) => (s1, r)

/-- src: _setup_params, `params_to_ref`: every Parameter of the namespace that is `constant`
(and is not `name`) gets its default referenced in the instance's `values` -/
def refConstants (s : St) (c : CId) : List Name → List (Name × Obj) → List (Name × Obj)
  | [], vals => vals
  | n :: ns, vals =>
    match descriptor s c n with
    | some (p, _) =>
      match s.heap[p]? with
      | some q => if q.constant && n != "name" then refConstants s c ns (aset vals n q.default)
                  else refConstants s c ns vals
      | none => refConstants s c ns vals
    | none => refConstants s c ns vals

/-- src: _setup_params keyword loop on the uninitialised instance: unknown name → TypeError;
`Parameter.__set__` on the class Parameter: read-only → TypeError, otherwise stored -/
def applyKw (s : St) (c : CId) : List (Name × Obj) → List (Name × Obj) → Except Res (List (Name × Obj))
  | [], vals => .ok vals
  | (n, v) :: kw, vals =>
    match descriptor s c n with
    | none => .error .typeError
    | some (p, _) =>
      match s.heap[p]? with
      | none => .error .stuck
      | some q =>
        -- `pobj.allow_refs`: `_resolve_ref` finds a reference whose value is `Undefined` (Skip): no `setattr`
        if q.allowRefs && s.silent.contains v then applyKw s c kw vals
        else if rejects s q v then .error .valueError
        else if q.readonly then .error .typeError else applyKw s c kw (aset vals n v)

/-! ### `edit_constant` -/

/-- the Parameter object `(kls_params | inst_params)[n]`: the per-instance copy shadows -/
def pobjOf (s : St) (x : Inst) (n : Name) : Option PId :=
  match aget x.iparams n with
  | some ip => some ip
  | none => (descriptor s x.cls n).map (·.1)

/-- src: as_uninitialized around `self.name = v`: with `initialized` switched off no per-instance copy
is created and the guard stores into a constant; the flag is switched back afterwards.  (A read-only
`name`, or a value `String` rejects, makes the wrapped call raise; `as_uninitialized` restores the
flag in a `finally` since 0d30e59.) -/
def renameCore (s : St) (i : IId) (v : Obj) : St × Res :=
  match s.insts[i]? with
  | none => (s, .stuck)
  | some x =>
    match pobjOf s x "name" with
    | none => (s, .skip)
    | some gp =>
      match s.heap[gp]? with
      | none => (s, .stuck)
      | some q =>
        -- a rejected value: the wrapped call raises ValueError, `as_uninitialized` switches the flag
        -- back in its `finally`, the object is as it was (and still locked)
        if rejects s q v then (s, .valueError)
        else if q.readonly then (s, .typeError)
        else (setInst s i { x with values := aset x.values "name" v }, .ok)

/-- src: edit_constant, before `yield`: every Parameter object of the union whose `constant` is
true is set to false and remembered -/
def blockEntry (s : St) (x : Inst) : St × List (Name × PId) :=
  let ns := nsNames s x.cls
  let names := ns ++ (akeys x.iparams).filter (fun n => !ns.contains n)
  let union := names.filterMap fun n => (pobjOf s x n).map fun p => (n, p)
  let upd := union.filter fun np => match s.heap[np.2]? with | some q => q.constant | none => false
  ({ s with heap := upd.foldl (fun h np => setConst h np.2 false) s.heap }, upd)

def iparamsOf (s : St) (i : IId) : List (Name × PId) :=
  match s.insts[i]? with | some x => x.iparams | none => []

/-- src: edit_constant, one round of the `finally` loop: `pobj.constant = True`;
`inst_pobj = params.get(pname)`; `if inst_pobj is not None and inst_pobj is not pobj: inst_pobj.constant = True` -/
def exitStep (ipar : List (Name × PId)) (h : List Param) (np : Name × PId) : List Param :=
  let h1 := setConst h np.2 true
  match aget ipar np.1 with
  | some ip => if ip ≠ np.2 then setConst h1 ip true else h1
  | none => h1

/-- src: edit_constant, the `finally` clause -/
def blockExit (s : St) (i : IId) (upd : List (Name × PId)) : St :=
  { s with heap := upd.foldl (exitStep (iparamsOf s i)) s.heap }

/-! ### One statement -/

mutual
def step (s : St) : Op → St × Res
  | .newInst c kw =>
    -- src: Parameterized.__init__
    match s.classes[c]? with
    | none => (s, .stuck)
    | some k =>
      -- `if self.param.name.default == self.__class__.__name__: self.param._generate_name()`
      let auto := match descriptor s c "name" with
        | some (p, _) => (match s.heap[p]? with | some q => q.default == k.nameObj | none => false)
        | none => false
      let vals0 : List (Name × Obj) := if auto then [("name", s.nextObj)] else []
      let vals1 := refConstants s c (nsNames s c) vals0
      match applyKw s c kw vals1 with
      | .error e => (s, e)
      | .ok vals =>
        ({ s with insts := s.insts ++ [{ cls := c, values := vals, iparams := [] }],
                  -- the generated name is a new string object (unless a `name=` argument replaced it at once)
                  nextObj := if auto && kw.all (fun nv => nv.1 != "name") then s.nextObj + 1 else s.nextObj }, .ok)
  | .instSet i n v => instSetCore s i n v
  | .instSetSame i n =>
    match s.insts[i]? with
    | none => (s, .stuck)
    | some _ =>
      match held s i n with
      | none => (s, .skip)
      | some v => instSetCore s i n v
  | .instSetAsync i n v =>
    -- src: Parameter.__set__, `allow_refs` branch: `_resolve_ref` installs the link and runs
    -- `_async_ref` to completion, which writes the awaited result with `self_.update({name: result})`
    -- under `_syncing`: the ordinary guarded assignment of `v` (its TypeError propagates)
    match s.insts[i]? with
    | none => (s, .stuck)
    | some x =>
      match pobjOf s x n with
      | none => (s, .skip)
      | some gp =>
        match s.heap[gp]? with
        | none => (s, .stuck)
        | some q =>
          if q.allowRefs then instSetCore s i n v
          else (s, .skip)   -- a plain value: the function object itself, outside the value universe
  | .update i kvs =>
    match s.insts[i]? with
    | none => (s, .stuck)
    | some _ => applyKeys (touchKeys s i kvs) i kvs
  | .clsSet c n v =>
    -- src: ParameterizedMetaclass.__setattr__
    match descriptor s c n with
    | none => (s, .skip)
    | some (p, owner) =>
      match s.heap[p]?, s.classes[c]? with
      | some q, some k =>
        -- read-only: `__set__(None, value)` raises TypeError — on the class's own Parameter, or on the
        -- copy-on-write copy just installed, which is then deleted again (nothing was stored): either
        -- way nothing changes
        if rejects s q v then (s, .valueError)     -- `_validate` first; rolled back like the read-only case
        else if q.readonly then (s, .typeError)
        else
          -- `if owning_class != mcs`: copy.copy, `type.__setattr__`; then `default = val`
          let (s1, p1) := if owner = c then (s, p) else
            ({ s with heap := s.heap ++ [q],
                      classes := s.classes.set c { k with dict := aset k.dict n s.heap.length } }, s.heap.length)
          ({ s1 with heap := s1.heap.set p1 { q with default := v } }, .ok)
      | _, _ => (s, .stuck)
  | .flag i n b =>
    match getParamCore s i n with
    | .error e => (s, e)
    | .ok (s1, ip) => ({ s1 with heap := setConst s1.heap ip b }, .ok)
  | .clsFlag c n b =>
    match descriptor s c n with
    | none => (s, .keyError)
    | some (p, _) => ({ s with heap := setConst s.heap p b }, .ok)
  | .getParam i n =>
    match getParamCore s i n with
    | .error e => (s, e)
    | .ok (s1, _) => (s1, .ok)
  | .setName i v => renameCore s i v
  | .genName i =>
    -- `'%s%05d' % (cls.__name__, object_count)`: a new string object
    match renameCore s i s.nextObj with
    | (s1, .ok) => ({ s1 with nextObj := s.nextObj + 1 }, .ok)
    | r => r
  | .failingEntry i n =>
    -- `_register_watcher`: unknown name → ValueError; `self_[n].watchers`: the per-instance copy
    match s.insts[i]? with
    | none => (s, .stuck)
    | some x =>
      match descriptor s x.cls n with
      | none => (s, .valueError)
      | some _ =>
        match getParamCore s i n with
        | .error e => (s, e)
        | .ok (s1, ip) =>
          match s1.heap[ip]? with
          | none => (s1, .stuck)
          | some q =>
            -- entry loop inside the `try` (e2d814e): the watcher raises when the copy's flag is cleared,
            -- the `finally` clause puts every flag cleared so far back; a non-constant copy is never
            -- touched and the empty block runs
            if q.constant then (s1, .runtimeError) else (s1, .ok)
  | .raise => (s, .runtimeError)
  | .block i body =>
    -- src: edit_constant: flip, run the body, `finally` restore, re-raise
    match s.insts[i]? with
    | none => (s, .stuck)
    | some x =>
      let (s1, upd) := blockEntry s x
      let (s2, r) := runBody s1 body
      (blockExit s2 i upd, r)

/-- a statement list: stops at the first exception -/
def runBody (s : St) : List Op → St × Res
  | [] => (s, .ok)
  | op :: ops =>
    match step s op with
    | (s1, r) => if r.continues then runBody s1 ops else (s1, r)
end

/-- a top-level history: every step is wrapped in `try/except`, so execution goes on -/
def run (s : St) (ops : List Op) : St := ops.foldl (fun s op => (step s op).1) s

/-! ### Class creation -/

/-- one `class K(bases): n = param.Parameter(default=…, constant=…, readonly=…, allow_refs=…) …` statement.
Parameter objects are numbered per class: the declared ones in declaration order
(`Parameter.__init__`: `readonly ⇒ constant`), then the class's own copy of `name`, created by the
metaclass when it assigns `cls.name = <class name>` (a constant, not read-only `String`; its default
is the class-name object `npool + c`). -/
def declare (npool : Nat) (s : St) (d : List CId × List (Name × Bool × Bool × Obj × Bool)) : St :=
  let c := s.classes.length
  let (dict, heap) := d.2.foldl (fun (acc : List (Name × PId) × List Param) e =>
      (aset acc.1 e.1 acc.2.length,
       acc.2 ++ [{ constant := e.2.1 || e.2.2.1, readonly := e.2.2.1, default := e.2.2.2.1,
                   allowRefs := e.2.2.2.2 }])) ([], s.heap)
  { s with heap := heap ++ [{ constant := true, readonly := false, default := npool + c, strOnly := true }],
           classes := s.classes ++ [{ mro := d.1, dict := aset dict "name" heap.length, nameObj := npool + c }] }

/-- the state after all class statements of a history; value objects `0 … npool-1` are the pool,
`npool + c` the class names, the following ones generated instance names -/
def initState (npool : Nat) (decls : List (List CId × List (Name × Bool × Bool × Obj × Bool)))
    (nonStr : List Obj := []) (silent : List Obj := []) : St :=
  { decls.foldl (declare npool) { heap := [], classes := [], insts := [], nextObj := 0, nonStr := nonStr,
                                  silent := silent } with
    nextObj := npool + decls.length }

/-! ### Flags as seen from an instance / a class -/

/-- the Parameter object that governs `setattr(obj, n, ·)` -/
def governing (s : St) (i : IId) (n : Name) : Option PId :=
  match s.insts[i]? with
  | none => none
  | some x => pobjOf s x n

def flagsOf (s : St) (p : Option PId) : Option (Bool × Bool) :=
  p.bind fun p => (s.heap[p]?).map fun q => (q.constant, q.readonly)

/-- `(constant, readonly)` of the governing Parameter of `(obj, n)` -/
def govFlags (s : St) (i : IId) (n : Name) : Option (Bool × Bool) := flagsOf s (governing s i n)

/-- `(constant, readonly)` of the Parameter `getattr_static(C, n)` -/
def clsFlags (s : St) (c : CId) (n : Name) : Option (Bool × Bool) :=
  flagsOf s ((descriptor s c n).map (·.1))

def stored (s : St) (i : IId) (n : Name) : Option Obj :=
  match s.insts[i]? with
  | none => none
  | some x => aget x.values n

end ParamVerif.Store.Const
