/-
C11 specification side, executable and *declarative*: what a merged Parameter
must hold, written without the search loop of `__param_inheritance` (no
threaded flags, no early exits): per slot "own if specified, else what the
nearest class in the MRO holds, else the type's default".

Evaluated by the driver on the *observations* of the implementation (the oracle)
and on the model's own output; Props/C11.lean proves the model meets it.
-/
import ParamVerif.Store.Inherit

namespace ParamVerif.Inherit

/-- "the value held by the nearest class in its MRO that declares the same
Parameter with that attribute" (`supers` = what the rest of the MRO holds) -/
def nearest (supers : List (Option Param)) (s : Slot) : Option Val :=
  (supers.filterMap (slotAt s)).head?

/-- the value the class's own declaration specifies for a slot (`none`: left unspecified) -/
def ownSpecified (own : Param) (s : Slot) : Option Val := own.slots s

def chosen (own : Param) (supers : List (Option Param)) (s : Slot) : Option Val :=
  match ownSpecified own s with
  | some v => some v
  | none => nearest supers s

/-- own, else nearest, else the static type default; `none`: the type computes it -/
def specStatic (own : Param) (supers : List (Option Param)) (s : Slot) : Option PyV :=
  match chosen own supers s with
  | some v => some v.v
  | none =>
    match typeDefault own.ptype s with
    | .static v => some v.v
    | .computed => none
    | .missing => none

/-- "the Parameter type changed along the way" -/
def specTypeChanged (own : Param) (supers : List (Option Param)) : Bool := typeChange own.ptype supers

def specDefault (own : Param) (supers : List (Option Param)) : PyV :=
  (specStatic own supers .default).getD (.atom .pyNone)

/-- Selector: the objects before the default is (possibly) added -/
def specBaseObjects (own : Param) (supers : List (Option Param)) : PyV :=
  (specStatic own supers .objects).getD (.list [])

def specCheckOnSet (own : Param) (supers : List (Option Param)) : Option PyV :=
  match specStatic own supers .checkOnSet with
  | some v => some v
  | none => (specBaseObjects own supers).len.map fun n => .atom (.bool (n != 0))

/-- a Selector that does not check membership adopts a value that is not among its objects -/
def adopt (objs val : PyV) : PyV :=
  match objs, val with
  | .list l, .atom a => if l.any (a.pyEq ·) then objs else .list (l ++ [a])
  | _, _ => objs

/-- The value every slot of the merged Parameter must hold; `none`: undefined
(a computed default that cannot be computed, e.g. the length of `None`). -/
def expected (own : Param) (supers : List (Option Param)) (s : Slot) : Option PyV :=
  match own.ptype, s with
  | .tuple, .length =>
    match specStatic own supers .length with
    | some v => some v
    | none => (specDefault own supers).len.map fun (n : Nat) => PyV.atom (.int (Int.ofNat n))
  | .selector, .checkOnSet => specCheckOnSet own supers
  | .selector, .names => some ((specStatic own supers .names).getD (.dict []))
  | .selector, .objects =>
    let base := specBaseObjects own supers
    let d := specDefault own supers
    match specCheckOnSet own supers with
    | some cos =>
      if !cos.truthy && (!d.isNone || specTypeChanged own supers) then some (adopt base d) else some base
    | none => some base
  | _, s => specStatic own supers s

def computable (own : Param) (supers : List (Option Param)) : Bool :=
  (slotsOf own.ptype).all fun s => (expected own supers s).isSome

def expectedCfg (own : Param) (supers : List (Option Param)) : Cfg := fun s =>
  if hasSlot own.ptype s then expected own supers s else none

/-- the merged default satisfies the merged constraints and type -/
def Sat (rx : String → String → Bool) (T : PType) (c : Cfg) : Bool :=
  match c .default with
  | some d => (match validate rx T c d with | .ok _ => true | .error _ => false)
  | none => false

/-- "Class creation … fails exactly when the merged default violates the merged
constraints or type (a merged default of None is re-checked only if the
Parameter type changed along the way)" -/
def shouldFail (rx : String → String → Bool) (own : Param) (supers : List (Option Param)) : Bool :=
  !computable own supers ||
  ((specTypeChanged own supers || !(specDefault own supers).isNone) && !Sat rx own.ptype (expectedCfg own supers))

def specInstantiate (own : Param) (supers : List (Option Param)) : Bool :=
  own.instantiate || anyInstantiate supers

/-- the non-None-default invariant of the property's last sentence -/
def defaultOk (rx : String → String → Bool) (p : Param) : Bool :=
  match p.cfg .default with
  | some d => d.isNone || Sat rx p.ptype p.cfg
  | none => false

def slotName : Slot → String
  | .default => "default" | .doc => "doc" | .precedence => "precedence" | .constant => "constant"
  | .readonly => "readonly" | .allowNone => "allow_None" | .label => "label" | .bounds => "bounds"
  | .pickleDefault => "pickle_default_value" | .perInstance => "per_instance" | .allowRefs => "allow_refs"
  | .nestedRefs => "nested_refs"
  | .softbounds => "softbounds" | .inclusiveBounds => "inclusive_bounds" | .step => "step" | .regex => "regex"
  | .length => "length" | .itemType => "item_type" | .itemClass => "class_" | .objects => "objects"
  | .checkOnSet => "check_on_set" | .names => "names"

/-- one observed merge: the declaration's own (unbound) Parameter, what the rest of
the MRO held at that moment, the Parameter after the merge, whether it raised -/
structure MergeObs where
  own : Param
  supers : List (Option Param)
  held : Param
  failed : Bool

/-- the conclusions of the theorems about one merge, on an observation -/
def checkMerge (rx : String → String → Bool) (m : MergeObs) : Option String :=
  let T := m.own.ptype
  if m.held.ptype != T then some "merged Parameter changed its type" else
  -- `names` is specified exactly when `objects` is (`construct_names_iff_objects`)
  if T == .selector && (m.own.slots .names).isSome != (m.own.slots .objects).isSome then
    some "slot names: the declaration sets names although it leaves objects unspecified (or the reverse), so names cannot be inherited with objects"
  else
  let bad := if computable m.own m.supers then
      (slotsOf T).find? fun s => m.held.cfg s != expected m.own m.supers s
    else none
  match bad with
  | some s => some s!"slot {slotName s}: held {repr (m.held.cfg s)} but own/nearest/type-default gives {repr (expected m.own m.supers s)}"
  | none =>
    if m.held.instantiate != specInstantiate m.own m.supers then
      some "instantiate is not (own or any ancestor's)"
    else if computable m.own m.supers && m.held.cfg .allowNone != m.own.cfg .allowNone then
      some "allow_None differs from the class's own declaration"
    else if m.failed != shouldFail rx m.own m.supers then
      some (if m.failed then "creation failed although the merged default satisfies the merged constraints (or need not be re-checked)"
            else "creation succeeded although the merged default violates the merged constraints or type")
    else none

/-- what the harness saw for one operation -/
structure ObsStep where
  status : String                      -- "ok" | "skipped" | "ctor" | "merge"
  failIdx : Nat                        -- index of the failing declaration for "ctor"/"merge"
  installed : Bool                     -- addParam: the Parameter is in the class `__dict__` afterwards
  raws : List (Nat × Param)
  held : List (Nat × Param)

def lookupP (l : List (Nat × Param)) (n : Nat) : Option Param :=
  match l with
  | [] => none
  | (m, p) :: rest => if m = n then some p else lookupP rest n

/-- check the merges of one class body against the observed world -/
def checkMerges (rx : String → String → Bool) (w : World) (tail : List Nat) (failAt : Option Nat) :
    List (Nat × Param) → List (Nat × Param) → Nat → Option String
  | (n, raw) :: raws, (n', h) :: helds, i =>
    if n != n' then some "observation out of step" else
    match checkMerge rx ⟨raw, w.supers tail n, h, failAt == some i⟩ with
    | some why => some s!"parameter p{n}: {why}"
    | none => if failAt == some i then none else checkMerges rx w tail failAt raws helds (i + 1)
  | _, _, _ => none

/-- Walk an observed history.  Returns (number of merges checked, first reason). -/
def specHistory (rx : String → String → Bool) :
    World → List (Op × ObsStep) → Nat → Nat → Nat × Option String
  | _, [], _, n => (n, none)
  | w, (op, o) :: rest, k, n =>
    if o.status == "skipped" || o.status == "ctor" then specHistory rx w rest (k + 1) n else
    match op with
    | .declare cls mro _ =>
      let failAt := if o.status == "merge" then some o.failIdx else none
      match checkMerges rx w mro.tail failAt o.raws o.held 0 with
      | some why => (n + o.held.length, some s!"op {k} (class {cls}): {why}")
      | none =>
        if failAt.isSome then specHistory rx w rest (k + 1) (n + o.held.length) else
        match o.held.find? fun (_, p) => !defaultOk rx p with
        | some (nm, _) => (n + o.held.length, some s!"op {k}: class {cls} exists with a non-None default of p{nm} that violates its own constraints")
        | none =>
          let w' : World := { mro := fun c => if c = cls then some mro else w.mro c,
                              params := fun c nm => if c = cls then lookupP o.held nm else w.params c nm }
          specHistory rx w' rest (k + 1) (n + o.held.length)
    | .addParam cls name _ =>
      match w.mro cls with
      | none => (n, some s!"op {k}: add_parameter on a class that does not exist was not skipped")
      | some m =>
        let failAt := if o.status == "merge" then some 0 else none
        match checkMerges rx w m.tail failAt o.raws o.held 0 with
        | some why => (n + 1, some s!"op {k} (add_parameter on class {cls}): {why}")
        | none =>
          if failAt.isSome && o.installed then
            (n + 1, some s!"op {k}: add_parameter on class {cls} failed but left the Parameter p{name} installed")
          else
          let w' : World := if o.installed then
              { w with params := fun c nm => if c = cls ∧ nm = name then lookupP o.held name else w.params c nm }
            else w
          match (w'.params cls name).bind fun p => if defaultOk rx p then none else some p with
          | some _ => (n + 1, some s!"op {k}: after add_parameter class {cls} holds a non-None default of p{name} that violates its own constraints (failed={failAt.isSome})")
          | none => specHistory rx w' rest (k + 1) (n + 1)

/-- replay the observed history to get the observed world (used for the frame check) -/
def obsWorld : World → List (Op × ObsStep) → World
  | w, [] => w
  | w, (op, o) :: rest =>
    if o.status == "skipped" || o.status == "ctor" then obsWorld w rest else
    match op with
    | .declare cls mro _ =>
      if o.status == "merge" then obsWorld w rest else
      obsWorld { mro := fun c => if c = cls then some mro else w.mro c,
                 params := fun c nm => if c = cls then lookupP o.held nm else w.params c nm } rest
    | .addParam cls name _ =>
      if o.installed then
        obsWorld { w with params := fun c nm => if c = cls ∧ nm = name then lookupP o.held name else w.params c nm } rest
      else obsWorld w rest

end ParamVerif.Inherit
