/-
C12 specification side, executable: the ownership rules the property states, as decidable checks
on *observations* — what a reader of the public API sees of every class and every instance after
each step (of the implementation or of the model).  Used by the driver as the oracle.

An observation names every mutable container by an id (creation index) and shows its contents, so
that "the same object" and "an equal copy" can be told apart.
-/
import ParamVerif.Store.Objects

namespace ParamVerif.Objects
open ParamVerif.Store

/-- an observed value: int, or (container id, contents) -/
inductive OVal
  | none
  | int (n : Int)
  | cell (c : CellId) (l : List Int)
  /-- a tuple of lists: (container id, contents) per item -/
  | tup (items : List (CellId × List Int))
  deriving DecidableEq, Repr

/-- an observed Parameter object -/
structure OPObj where
  kind : Kind
  owner : Owner
  default : OVal
  instantiate : Bool
  constant : Bool
  perInstance : Bool
  checkOnSet : Bool
  allowRefs : Bool
  readonly : Bool := false
  precedence : Option Int
  boundsTup : Option (Int × Int)
  mslots : List (Slot × CellId × List Int)
  deriving DecidableEq, Repr

structure OInst where
  cls : ClsId
  values : List (Name × OVal)       -- `_param__private.values`
  params : List (Name × OPObj)      -- per-instance Parameter copies that exist
  get : List (Name × OVal)          -- `obj.x` for every parameter
  deriving DecidableEq, Repr

structure Snap where
  err : Option String
  /-- per class: `K.param[x]` for every parameter name -/
  classes : List (List (Name × OPObj))
  insts : List OInst
  deriving DecidableEq, Repr

/-! ### rendering a model world as an observation -/

def obsVal (cells : List (List Int)) : Val → OVal
  | .none => .none
  | .int n => .int n
  | .ref c => .cell c (deref cells c)
  | .tup cs => .tup (cs.map fun c => (c, deref cells c))

def slotRank : Slot → Nat
  | .bounds => 0 | .names => 1 | .objects => 2 | .tags => 3

def insertSlot (e : Slot × CellId × List Int) : List (Slot × CellId × List Int) → List (Slot × CellId × List Int)
  | [] => [e]
  | f :: r => if slotRank e.1 ≤ slotRank f.1 then e :: f :: r else f :: insertSlot e r

def obsP (cells : List (List Int)) (p : PObj) : OPObj :=
  { kind := p.kind, owner := p.owner, default := obsVal cells p.default, instantiate := p.instantiate,
    constant := p.constant, perInstance := p.perInstance, checkOnSet := p.checkOnSet, allowRefs := p.allowRefs, readonly := p.readonly,
    precedence := p.precedence, boundsTup := p.boundsTup,
    mslots := (p.mslots.map fun (s, c) => (s, c, deref cells c)).foldr insertSlot [] }

def insertName {α : Type} (e : Name × α) : List (Name × α) → List (Name × α)
  | [] => [e]
  | f :: r => if e.1 ≤ f.1 then e :: f :: r else f :: insertName e r

def sortByName {α : Type} (l : List (Name × α)) : List (Name × α) := l.foldr insertName []

def classView (w : World) (k : ClsId) : List (Name × OPObj) :=
  sortByName ((w.visible k).filterMap fun x => (w.resolve k x).map fun r => (x, obsP w.cells r.2))

def instView (w : World) (i : InstId) (I : Inst) : OInst :=
  { cls := I.cls,
    values := sortByName (I.values.map fun (x, v) => (x, obsVal w.cells v)),
    params := sortByName (I.params.map fun (x, p) => (x, obsP w.cells p)),
    get := sortByName ((w.visible I.cls).filterMap fun x => (w.getInst i x).map fun v => (x, obsVal w.cells v)) }

def snapOf (w : World) (err : Option String) : Snap :=
  { err := err,
    classes := (List.range w.classes.length).map (classView w),
    insts := (List.range w.insts.length).filterMap fun i => (w.inst? i).map (instView w i) }

/-! ### occurrences of containers -/

inductive Holder
  | cls (k : ClsId)
  | inst (i : InstId)
  deriving DecidableEq, Repr

/-- where a container is referenced from: a value, a Parameter slot, or a Parameter's `default` -/
inductive Site | value | slot | pdefault
  deriving DecidableEq, Repr

structure Occ where
  holder : Holder
  site : Site
  name : Name
  cell : CellId
  contents : List Int
  deriving DecidableEq, Repr

def OVal.occ (h : Holder) (s : Site) (x : Name) : OVal → List Occ
  | .none => []
  | .int _ => []
  | .cell c l => [⟨h, s, x, c, l⟩]
  | .tup items => items.map fun (c, l) => ⟨h, s, x, c, l⟩

def OPObj.occ (h : Holder) (x : Name) (p : OPObj) : List Occ :=
  p.default.occ h .pdefault x ++ p.mslots.map fun (_, c, l) => ⟨h, .slot, x, c, l⟩

def Snap.occs (s : Snap) : List Occ :=
  (s.classes.zipIdx.flatMap fun (ps, k) => ps.flatMap fun (x, p) => p.occ (.cls k) x) ++
  (s.insts.zipIdx.flatMap fun (I, i) =>
    (I.values.flatMap fun (x, v) => v.occ (.inst i) .value x) ++
    (I.params.flatMap fun (x, p) => p.occ (.inst i) x))

/-- container `c` is visible from somewhere other than instance `i` -/
def Snap.heldOutside (s : Snap) (i : InstId) (c : CellId) : Bool :=
  s.occs.any fun o => o.cell = c && o.holder != .inst i

def Snap.cellIds (s : Snap) : List CellId := s.occs.map (·.cell)

/-- contents erased: the reference structure only -/
def OVal.shape : OVal → OVal
  | .none => .none
  | .int n => .int n
  | .cell c _ => .cell c []
  | .tup items => .tup (items.map fun (c, _) => (c, []))
def OPObj.shape (p : OPObj) : OPObj :=
  { p with default := p.default.shape, mslots := p.mslots.map fun (s, c, _) => (s, c, []) }
def OInst.shape (I : OInst) : OInst :=
  { I with values := I.values.map (fun (x, v) => (x, v.shape)),
           params := I.params.map (fun (x, p) => (x, p.shape)),
           get := I.get.map (fun (x, v) => (x, v.shape)) }

def lookupN {α : Type} (l : List (Name × α)) (x : Name) : Option α := (l.find? (·.1 = x)).map (·.2)

/-! ### state rules -/

/-- rules every snapshot obeys:
  * an instance that has no value of its own for `x` reads the object that is the class default *now*;
    one that has reads its own;
  * the containers in the slots of a per-instance Parameter copy are referenced from nowhere else;
  * one id, one contents (sanity of the observation). -/
def stateOK (s : Snap) : Option String :=
  let occs := s.occs
  match occs.find? (fun o => occs.any fun o' => o'.cell = o.cell && o'.contents != o.contents) with
  | some o => some s!"container {o.cell} observed with two different contents"
  | none =>
  match (s.insts.zipIdx.flatMap fun (I, i) => I.get.filterMap fun (x, g) =>
      match lookupN I.values x with
      | some v => if v = g then none else some s!"instance {i} has its own value for p{x} but reads another"
      | none =>
        match (s.classes[I.cls]?).bind (lookupN · x) with
        | some P => if P.default = g then none
                    else some s!"instance {i} never set p{x} but does not read the current class default"
        | none => some s!"instance {i}: no class Parameter p{x}").head? with
  | some w => some w
  | none =>
  match occs.find? (fun o => o.site = .slot && (match o.holder with
      | .inst i => s.heldOutside i o.cell
      | .cls _ => false)) with
  | some o => some s!"container {o.cell} in a slot of a per-instance Parameter copy (p{o.name}) is also referenced elsewhere"
  | none => none

/-! ### step rules -/

def targetInst : Op → Option (InstId × Name)
  | .setVal (.inst i) x _ => some (i, x)
  | .access i x => some (i, x)
  | .slotSet (.inst i) x _ => some (i, x)
  | .slotMut (.inst i) x _ => some (i, x)
  | _ => none

/-- is the operation on instance `i`, parameter `x` served by a Parameter object of the instance's
    own (it has a copy, or the class Parameter allows one to be made)? -/
def usesOwnObs (prev : Snap) (i : InstId) (x : Name) : Bool :=
  match prev.insts[i]? with
  | none => false
  | some I =>
    (lookupN I.params x).isSome ||
    (match (prev.classes[I.cls]?).bind (lookupN · x) with
     | some P => P.perInstance
     | none => false)

def othersSame (prev cur : Snap) (i : InstId) : Option String :=
  if cur.classes != prev.classes then some "changed what a class sees"
  else if cur.insts.length != prev.insts.length then some "number of instances changed"
  else match (cur.insts.zip prev.insts).zipIdx.find? (fun ((a, b), j) => j != i && a != b) with
    | some (_, j) => some s!"changed what instance {j} sees"
    | none => none

/-- nothing that was private to an instance becomes visible elsewhere -/
def privateStaysPrivate (prev cur : Snap) : Option String :=
  match prev.occs.find? (fun o => match o.holder with
      | .inst i => !prev.heldOutside i o.cell && cur.heldOutside i o.cell
      | .cls _ => false) with
  | some o => some s!"container {o.cell}, private to an instance before the step, is referenced elsewhere after it"
  | none => none

/-- only the contents of container `c` may differ -/
def sameExceptCell (prev cur : Snap) (c : CellId) : Option String :=
  if cur.classes.map (·.map fun (x, p) => (x, p.shape)) != prev.classes.map (·.map fun (x, p) => (x, p.shape))
     || cur.insts.map (·.shape) != prev.insts.map (·.shape) then
    some "an in-place mutation changed which objects are referenced"
  else match cur.occs.find? (fun o => o.cell != c && !(prev.occs.any fun o' => o'.cell = o.cell && o'.contents = o.contents)) with
    | some o => some s!"an in-place mutation of container {c} changed container {o.cell}"
    | none => none

def litMatches (prev : Snap) (lit : Lit) (v : OVal) : Bool :=
  match lit, v with
  | .none, .none => true
  | .int n, .int m => n = m
  | .list l, .cell c l' => l = l' && !(prev.cellIds.contains c)
  | .tup ls, .tup items => items.map (·.2) = ls && items.all (fun it => !(prev.cellIds.contains it.1))
  | _, _ => false

/-- the rules for `K(**kwargs)` creating instance `j` -/
def creationOK (prev cur : Snap) (k : ClsId) (kwargs0 : List (Name × Lit)) : Option String :=
  -- a keyword whose reference has no value yet assigns nothing: the parameter is as if not given
  let kwargs := kwargs0.filter (fun kv => !kv.2.isPending)
  if cur.classes != prev.classes then some "creating an instance changed what a class sees"
  else if cur.insts.take prev.insts.length != prev.insts then some "creating an instance changed what another instance sees"
  else if cur.err.isSome then
    (if cur.insts.length != prev.insts.length then some "failed construction left an instance" else none)
  else match cur.insts[prev.insts.length]?, prev.classes[k]? with
    | some I, some ps =>
      if I.params != [] then some "new instance already has Parameter copies" else
      (ps.filterMap fun (x, P) =>
        match kwargs.reverse.find? (·.1 = x), lookupN I.values x with
        | some (_, lit), some v =>
          if litMatches prev lit v then none else some s!"p{x}: the instance does not hold the value it was given"
        | some _, none => some s!"p{x}: keyword value not stored"
        | none, own =>
          if P.instantiate then
            match P.default, own with
            | .none, some .none => none
            | .int n, some (.int m) => if n = m then none else some s!"p{x}: copied default differs"
            | .cell c l, some (.cell c' l') =>
              if l != l' then some s!"p{x}: copied default differs"
              else if c' = c || prev.cellIds.contains c' then
                some s!"p{x}: instantiate=True default was not copied for the new instance"
              else none
            | .tup its, some (.tup its') =>
              -- `copy.deepcopy` rebuilds a tuple whose items are mutable: every item is a new object
              if its.map (·.2) != its'.map (·.2) then some s!"p{x}: copied default differs"
              else if its'.any (fun it => prev.cellIds.contains it.1) then
                some s!"p{x}: an item of the instantiate=True tuple default was not copied for the new instance"
              else none
            | _, _ => some s!"p{x}: instantiate=True default missing on the new instance"
          else if P.constant then
            (if own = some P.default then none
             else some s!"p{x}: constant parameter does not reference the class default object of construction time")
          else if own.isSome then some s!"p{x}: instantiate=False default was stored on the instance (not shared by identity)"
          else none).head?
    | _, _ => some "new instance not observed"

/-- a class-level operation on `K.x` changes only what classes that resolve `x` to the *same* Parameter object
as `K` see (same `owner`): a subclass's Parameter has mutable attribute values of its own -/
def classOpLocal (prev cur : Snap) (k : ClsId) (x : Name) : Option String :=
  match ((cur.classes[k]?).bind (lookupN · x)).map (·.owner) with
  | Option.none => Option.none
  | some own =>
    match (cur.classes.zip prev.classes).zipIdx.find? (fun ((c, p), _) =>
        c.any fun (y, P) => (y != x || P.owner != own) && lookupN p y != some P) with
    | some (_, k2) => some s!"a class-level operation on class {k}, p{x} changed what class {k2} sees of another Parameter object"
    | Option.none => Option.none

/-- a per-instance Parameter copy that comes into being equals the class Parameter: same attribute values,
containers with equal contents (of its own) -/
def newCopiesEqualClass (prev cur : Snap) (edited : InstId → Name → Bool) : Option String :=
  (cur.insts.zipIdx.flatMap fun (I, i) =>
    I.params.filterMap fun (x, P) =>
      if edited i x then Option.none else
      match (prev.insts[i]?).bind (fun J => lookupN J.params x), (prev.classes[I.cls]?).bind (lookupN · x) with
      | Option.none, some Q =>
        if P.kind != Q.kind || P.instantiate != Q.instantiate || P.constant != Q.constant || P.perInstance != Q.perInstance
           || P.checkOnSet != Q.checkOnSet || P.allowRefs != Q.allowRefs || P.readonly != Q.readonly || P.precedence != Q.precedence
           || P.boundsTup != Q.boundsTup || P.default != Q.default
           || P.mslots.map (fun (s, _, _) => s) != Q.mslots.map (fun (s, _, _) => s) then
          some s!"instance {i}: the new per-instance Parameter p{x} differs from the class Parameter"
        else Option.none
      | _, _ => Option.none).head?

/-- … its containers hold what the class Parameter's held *before* the step (the step itself may then
change the copy, e.g. a Selector without check_on_set adding the assigned value) -/
def newCopySlotsFromClass (prev cur : Snap) (grew : Name → List Int → List Int → Bool) : Option String :=
  (cur.insts.zipIdx.flatMap fun (I, i) =>
    I.params.filterMap fun (x, P) =>
      match (prev.insts[i]?).bind (fun J => lookupN J.params x), (prev.classes[I.cls]?).bind (lookupN · x) with
      | Option.none, some Q =>
        if (P.mslots.zip Q.mslots).all (fun ((_, _, l), (_, _, l0)) => l = l0 || grew x l0 l) then Option.none
        else some s!"instance {i}: a container attribute of the new per-instance Parameter p{x} does not hold what the class Parameter's holds"
      | _, _ => Option.none).head?

/-- the rules one step obeys, given the snapshots before and after -/
def stepOK (prev cur : Snap) (op : Op) : Option String :=
  match privateStaysPrivate prev cur with
  | some w => some w
  | none =>
  -- (the copy an attribute assignment `obj.param.x.<attr> = v` creates is changed by that very step)
  match newCopiesEqualClass prev cur (fun i x => match op with
      | .slotSet (.inst j) y _ => i = j && x = y
      | _ => false) with
  | some w => some w
  | none =>
  -- only the step's own value may have been added to a container of the new copy (Selector without check_on_set)
  match newCopySlotsFromClass prev cur (fun x l0 l => match op with
      | .setVal (.inst _) y (.int n) => x = y && l = l0 ++ [n]
      | .slotMut (.inst _) y (.objectsAppend n) => x = y && l = l0 ++ [n]
      | .slotMut (.inst _) y (.namesInsert n) => x = y && l = l0 ++ [n]
      | .slotMut (.inst _) y (.boundsSetHi n) => x = y && l.length = l0.length && l.getLast? = some n
      | .slotSet (.inst _) y _ => x = y
      | _ => false) with
  | some w => some w
  | none =>
  match op with
  | .mkInst k kwargs => creationOK prev cur k kwargs
  | .mutVal t x n =>
    let g := match t with
      | .inst i => (prev.insts[i]?).bind (fun I => lookupN I.get x)
      | .cls k => ((prev.classes[k]?).bind (fun ps => lookupN ps x)).map (fun (P : OPObj) => P.default)
    match g with
    | some (.cell c l) =>
      (match sameExceptCell prev cur c with
       | some w => some w
       | none =>
         if cur.err.isNone && !(cur.occs.all fun o => o.cell != c || o.contents = l ++ [n]) then
           some "append did not append"
         else none)
    | _ => if cur.classes != prev.classes || cur.insts != prev.insts then some "failed mutation had an effect" else none
  | .mutItem t x i n =>
    let g := match t with
      | .inst j => (prev.insts[j]?).bind (fun I => lookupN I.get x)
      | .cls k => ((prev.classes[k]?).bind (fun ps => lookupN ps x)).map (fun (P : OPObj) => P.default)
    match g.bind (fun v => match v with | .tup items => items[i]? | _ => Option.none) with
    | some (c, l) =>
      (match sameExceptCell prev cur c with
       | some w => some w
       | none =>
         if cur.err.isNone && !(cur.occs.all fun o => o.cell != c || o.contents = l ++ [n]) then
           some "append to a tuple item did not append"
         else none)
    | Option.none => if cur.classes != prev.classes || cur.insts != prev.insts then some "failed mutation had an effect" else none
  | .mkClass _ _ =>
    if cur.insts != prev.insts then some "declaring a class changed an instance" else none
  | .sharedFail =>
    if cur.classes != prev.classes || cur.insts != prev.insts then some "a failed shared_parameters block had an effect" else none
  | .setVal (.cls k) x _ | .slotSet (.cls k) x _ | .slotMut (.cls k) x _ =>
    -- a class-level change never touches what an instance *owns*: its values (set_instance_keeps_own,
    -- constant_keeps_construction_object) and its Parameter copies
    if cur.insts.map (fun I => (I.values, I.params)) != prev.insts.map (fun I => (I.values, I.params)) then
      some "a class-level operation changed the own values or Parameter copies of an instance"
    else if (match op with | .setVal .. => true | _ => false) && cur.err.isSome &&
        cur.classes.map (·.map fun (y, p) => (y, p.shape)) != prev.classes.map (·.map fun (y, p) => (y, p.shape)) then
      -- whatever the exception: nothing was stored, a class that only inherits the Parameter goes on inheriting it
      some "a rejected class-level assignment changed which Parameter objects the classes see"
    else classOpLocal prev cur k x
  | _ =>
    match targetInst op with
    | some (i, x) =>
      if usesOwnObs prev i x then
        (match othersSame prev cur i with
         | some w => some s!"operation on instance {i} {w}"
         | none =>
           -- a constant (not read-only) parameter accepts the very object it holds — what the attribute read before the
           -- assignment (small ints: identical iff equal) —, whatever its own Parameter copy remembers as `default`
           if (match op, cur.err, (prev.insts[i]?).bind (fun I => lookupN I.params x), (prev.insts[i]?).bind (fun I => lookupN I.get x) with
               | .setVal _ _ (.int n), some "TypeError", some P, some (.int m) => P.constant && !P.readonly && n = m
               | _, _, _, _ => false) then
             some "a constant parameter refused the very object it holds (the value the attribute read)"
           else
           match op, cur.err, (cur.insts[i]?).bind (fun I => lookupN I.values x) with
           | .setVal _ _ lit, none, some v =>
             -- set_instance_keeps_own: the instance now holds what it was given
             (match (cur.insts[i]?).bind (fun I => lookupN I.params x) with
              | some P => if P.constant || litMatches prev lit v then none
                          else some "the instance does not hold the value it was given"
              | none => some "no per-instance Parameter after an assignment")
           | .setVal _ _ _, none, none =>
             (match (cur.insts[i]?).bind (fun I => lookupN I.params x) with
              | some P => if P.constant then none else some "assignment not stored"
              | none => some "assignment not stored")
           | _, _, _ => none)
      else none
    | none => none

/-- walk a history of snapshots -/
def specHistory : Snap → List (Op × Snap) → Nat → (Nat × Option String)
  | _, [], n => (n, none)
  | prev, (op, cur) :: rest, n =>
    match stepOK prev cur op with
    | some w => (n + 1, some s!"step {n}: {w}")
    | none =>
      match stateOK cur with
      | some w => (n + 1, some s!"after step {n}: {w}")
      | none => specHistory cur rest (n + 1)

end ParamVerif.Objects
