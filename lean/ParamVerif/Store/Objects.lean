/-
C12 — heap model of Parameterized classes, instances and their Parameter objects.

Modelled code (param/parameterized.py, as written):
  `Parameter.__get__`, `Parameter.__set__` (+ `instance_descriptor`), `_instantiated_parameter`,
  `_instantiate_param_obj`, `Parameters.__getitem__` (`obj.param.x`), `Parameters._setup_params`,
  `Parameters._instantiate_param` (deepcopy vs reference), `Parameterized.__init__`,
  `ParameterizedMetaclass.__setattr__` (copy-on-write through `_instantiate_param_obj`: the subclass's
  Parameter has mutable slot values of its own), `ParameterizedMetaclass.get_param_descriptor`;
  param/parameters.py: `Integer._validate_value/_validate_bounds`, `Selector._validate`,
  `Selector._ensure_value_is_in_objects`, `Selector.objects` setter, `ListProxy.append`.

The heap holds the *mutable containers*: list values and the list/dict valued slots of Parameter
objects (`_objects`, `names`, `bounds` given as a list).  A cell is a `List Int`; a `dict` cell
`{'k<v>': v}` is the list of its values.  Parameter objects are records stored where Python stores
them: in the `__dict__` of the class that owns them (`Cls.own`) or in the per-instance table
`obj._param__private.params` (`Inst.params`); no Parameter object is ever referenced from two such
places, so the record needs no identity of its own — its `owner` says where it lives.  What *is*
shared are the cells its slots point to, and that is what the property is about.

`getD []` on a cell id is only ever applied to ids the world itself handed out (`Inv.bounded` in
Props/C12.lean proves they are in range); it is not a default for a rejected input.

No Mathlib; imports only the shared association-list file: loaded by the driver.
-/
import ParamVerif.Store.Assoc

namespace ParamVerif.Objects
open ParamVerif.Store

abbrev CellId := Nat
abbrev ClsId := Nat
abbrev InstId := Nat
abbrev Name := Nat

/-- a Python value: `None`, a (small) int — immutable, identical iff equal — or a reference to a list cell -/
inductive Val
  | none
  | int (n : Int)
  | ref (c : CellId)
  /-- a tuple whose items are list objects (`([0, 0], [0, 0])`): immutable itself, its items are not.  Tuples are
  created by literals and by `copy.deepcopy` only, so the items of one tuple are distinct objects. -/
  | tup (cs : List CellId)
  deriving DecidableEq, Repr

def Val.cells : Val → List CellId
  | .none => []
  | .int _ => []
  | .ref c => [c]
  | .tup cs => cs

/-- Parameter types: `param.Parameter`, `param.Integer`, `param.Selector` -/
inductive Kind | plain | number | selector
  deriving DecidableEq, Repr

/-- slots whose value is a mutable container: `_objects` (list), `names` (dict), `bounds` (when a list) -/
inductive Slot | objects | names | bounds
  /-- a list-valued slot of a user-defined Parameter subclass whose `__getstate__` blanks it (as `Path` does
  with `search_paths`) -/
  | tags
  deriving DecidableEq, Repr

inductive Owner
  | cls (k : ClsId)
  | inst (i : InstId)
  deriving DecidableEq, Repr

/-- a Parameter object (the slots that matter here) -/
structure PObj where
  kind : Kind
  owner : Owner
  default : Val
  instantiate : Bool
  constant : Bool
  perInstance : Bool
  checkOnSet : Bool
  /-- `allow_refs=True`: a value may be a reference (a bound function, ..) that is resolved instead of stored -/
  allowRefs : Bool := false
  /-- `readonly=True`: every assignment — instance, class, constructor keyword — raises TypeError (after validation) -/
  readonly : Bool := false
  precedence : Option Int
  /-- `bounds` when it is a tuple (immutable); `none` also when `bounds` is a list (then in `mslots`) or `None` -/
  boundsTup : Option (Int × Int)
  /-- the container-valued slots, as references into the heap -/
  mslots : List (Slot × CellId)
  deriving DecidableEq, Repr

/-- every cell the Parameter object points to -/
def PObj.cells (p : PObj) : List CellId := p.default.cells ++ p.mslots.map (·.2)
/-- the cells of its mutable *slots* (everything but `default`) -/
def PObj.slotCells (p : PObj) : List CellId := p.mslots.map (·.2)

structure Cls where
  /-- linearisation, the class itself first (data supplied by the harness: `K.__mro__`) -/
  mro : List ClsId
  /-- Parameters in the class `__dict__` -/
  own : List (Name × PObj)
  deriving DecidableEq, Repr

structure Inst where
  cls : ClsId
  /-- `_param__private.values` -/
  values : List (Name × Val)
  /-- `_param__private.params`: the per-instance Parameter copies made so far -/
  params : List (Name × PObj)
  deriving DecidableEq, Repr

structure World where
  cells : List (List Int)
  classes : List Cls
  insts : List Inst
  deriving DecidableEq, Repr

def World.empty : World := { cells := [], classes := [], insts := [] }

inductive Err
  | valueError | typeError | attributeError
  /-- outside the modelled fragment (the generator never produces it; the driver reports it) -/
  | unsupported
  deriving DecidableEq, Repr

/-! ### heap -/

def deref (cells : List (List Int)) (c : CellId) : List Int := (cells[c]?).getD []

/-- a new list object -/
def alloc (cells : List (List Int)) (l : List Int) : CellId × List (List Int) :=
  (cells.length, cells ++ [l])

/-- a literal written in the program text: an int, or a list display (a new object every time) -/
inductive Lit
  | none
  | int (n : Int)
  | list (l : List Int)
  /-- a tuple display of list displays: `([..], [..])` -/
  | tup (ls : List (List Int))
  /-- a reference that has no value at this moment (`param.bind(f)` with `f` raising `param.Skip`, a pending
  async function): meaningful only as constructor keyword of an `allow_refs` parameter, where it assigns
  nothing; everywhere else outside the fragment -/
  | pending
  deriving DecidableEq, Repr

def evalLit (cells : List (List Int)) : Lit → Val × List (List Int)
  | .none => (.none, cells)
  | .int n => (.int n, cells)
  | .list l => (.ref cells.length, cells ++ [l])
  | .tup ls => (.tup ((List.range ls.length).map (cells.length + ·)), cells ++ ls)
  | .pending => (.none, cells)      -- never stored: every use is guarded by `Lit.isPending`

def Lit.isPending : Lit → Bool
  | .pending => true
  | _ => false

/-- `copy.deepcopy(v)` for an int, a list of ints, or a tuple of (distinct) lists of ints: the tuple is rebuilt
around copies of its items -/
def deepcopyVal (cells : List (List Int)) : Val → Val × List (List Int)
  | .none => (.none, cells)
  | .int n => (.int n, cells)
  | .ref c => (.ref cells.length, cells ++ [deref cells c])
  | .tup cs => (.tup ((List.range cs.length).map (cells.length + ·)), cells ++ cs.map (deref cells))

/-- `for s in slots: if _is_mutable_container(v) and s != "default": setattr(p, s, copy.copy(v))`
    -- src: parameterized.py _instantiate_param_obj -/
def copySlots (cells : List (List Int)) : List (Slot × CellId) → List (Slot × CellId) × List (List Int)
  | [] => ([], cells)
  | (s, c) :: rest =>
    let cells1 := cells ++ [deref cells c]
    let (rest', cells2) := copySlots cells1 rest
    ((s, cells.length) :: rest', cells2)

/-! ### class lookup -/

def World.cls? (w : World) (k : ClsId) : Option Cls := w.classes[k]?
def World.inst? (w : World) (i : InstId) : Option Inst := w.insts[i]?

/-- first class of the linearisation whose `__dict__` has a Parameter `x`
    -- src: parameterized.py ParameterizedMetaclass.get_param_descriptor / attribute lookup -/
def resolveIn (classes : List Cls) (x : Name) : List ClsId → Option (ClsId × PObj)
  | [] => none
  | k :: ks =>
    match (classes[k]?).bind (fun K => aget K.own x) with
    | some p => some (k, p)
    | none => resolveIn classes x ks

def World.resolve (w : World) (k : ClsId) (x : Name) : Option (ClsId × PObj) :=
  match w.cls? k with
  | some K => resolveIn w.classes x K.mro
  | none => none

def dedup : List Name → List Name
  | [] => []
  | x :: xs => if x ∈ xs then dedup xs else x :: dedup xs

/-- names of `_cls_parameters` -/
def World.visible (w : World) (k : ClsId) : List Name :=
  match w.cls? k with
  | some K => dedup (K.mro.flatMap fun k' => match w.cls? k' with
                                            | some K' => akeys K'.own
                                            | none => [])
  | none => []

/-! ### reading -/

/-- `Parameter.__get__` -- src: parameterized.py Parameter.__get__ -/
def World.getInst (w : World) (i : InstId) (x : Name) : Option Val :=
  match w.inst? i with
  | none => none
  | some I =>
    match aget I.values x with
    | some v => some v
    | none => (w.resolve I.cls x).map (·.2.default)

def World.getCls (w : World) (k : ClsId) (x : Name) : Option Val :=
  (w.resolve k x).map (·.2.default)

/-! ### validation -/

def boundsOf (cells : List (List Int)) (p : PObj) : Except Err (Option (Int × Int)) :=
  match aget p.mslots .bounds with
  | some c =>
    match deref cells c with
    | [lo, hi] => .ok (some (lo, hi))
    | _ => .error .unsupported
  | none => .ok p.boundsTup

/-- `self._validate(val)` on Parameter object `p`; a Selector without `check_on_set` *mutates*
    its `_objects` list -- src: parameters.py Selector._validate, _ensure_value_is_in_objects,
    Integer._validate_value, Number._validate_bounds -/
def validate (cells : List (List Int)) (p : PObj) (v : Val) : Except Err (List (List Int)) :=
  match p.kind with
  | .plain => .ok cells
  | .number =>
    match v with
    | .none => .error .valueError        -- `allow_None` is False for an Integer with an int default
    | .ref _ => .error .valueError
    | .tup _ => .error .valueError
    | .int n =>
      match boundsOf cells p with
      | .error e => .error e
      | .ok none => .ok cells
      | .ok (some (lo, hi)) => if n < lo ∨ hi < n then .error .valueError else .ok cells
  | .selector =>
    match v, aget p.mslots .objects with
    | .int n, some c =>
      if n ∈ deref cells c then .ok cells
      else if p.checkOnSet then .error .valueError
      else .ok (cells.set c (deref cells c ++ [n]))
    | _, _ => .error .unsupported

/-! ### operations -/

structure Decl where
  name : Name
  kind : Kind
  default : Lit
  instantiate : Bool
  constant : Bool
  perInstance : Bool
  checkOnSet : Bool
  /-- `bounds=(lo, hi)` -/
  boundsTup : Option (Int × Int)
  /-- `bounds=[lo, hi]` -/
  boundsList : Option (Int × Int)
  /-- `objects=[..]` (Selector) -/
  objects : Option (List Int)
  allowRefs : Bool := false
  /-- `tags=[..]` of the harness's `Tagged` Parameter subclass -/
  tags : Option (List Int) := none
  readonly : Bool := false
  deriving DecidableEq, Repr

inductive Target
  | cls (k : ClsId)
  | inst (i : InstId)
  deriving DecidableEq, Repr

/-- assignment to an attribute of a Parameter object -/
inductive SlotSet
  | boundsTup (b : Option (Int × Int))      -- `.bounds = (lo, hi)` / `.bounds = None`
  | boundsList (lo hi : Int)                -- `.bounds = [lo, hi]`
  | objects (l : List Int)                  -- `.objects = [..]`
  | constant (b : Bool)                     -- `.constant = b`
  | precedence (n : Int)                    -- `.precedence = n`
  deriving DecidableEq, Repr

/-- in-place mutation of a container-valued attribute of a Parameter object -/
inductive SlotMut
  | objectsAppend (v : Int)                 -- `.objects.append(v)`
  | namesInsert (v : Int)                   -- `.names['k<v>'] = v`
  | boundsSetHi (v : Int)                   -- `.bounds[1] = v`
  deriving DecidableEq, Repr

inductive Op
  | mkClass (mro : List ClsId) (decls : List Decl)      -- `class K(parent): x = param.X(..)`
  | mkInst (k : ClsId) (kwargs : List (Name × Lit))     -- `K(x=v, ..)`
  | setVal (t : Target) (x : Name) (v : Lit)            -- `obj.x = v` / `K.x = v`
  | mutVal (t : Target) (x : Name) (v : Int)            -- `obj.x.append(v)` / `K.x.append(v)`
  | mutItem (t : Target) (x : Name) (i : Nat) (v : Int) -- `obj.x[i].append(v)` / `K.x[i].append(v)` (tuple of lists)
  | access (i : InstId) (x : Name)                      -- `obj.param.x`
  | slotSet (t : Target) (x : Name) (s : SlotSet)       -- `obj.param.x.bounds = ..` / `K.param.x.bounds = ..`
  | slotMut (t : Target) (x : Name) (m : SlotMut)       -- `obj.param.x.objects.append(v)` ..
  /-- `with param.shared_parameters(): raise ..` — a sharing block left by an exception: `__exit__` resets
  the global sharing state, nothing of it survives -/
  | sharedFail
  deriving DecidableEq, Repr

/-- the container-valued slots a declaration fills, in the order the objects are created -/
def declSlots (d : Decl) : List (Slot × List Int) :=
  (match d.boundsList with | some (lo, hi) => [(Slot.bounds, [lo, hi])] | none => []) ++
  (match d.objects with | some l => [(Slot.objects, l), (Slot.names, [])] | none => []) ++
  (match d.tags with | some l => [(Slot.tags, l)] | none => [])

def allocSlots (cells : List (List Int)) : List (Slot × List Int) → List (Slot × CellId) × List (List Int)
  | [] => ([], cells)
  | (s, l) :: rest =>
    let (rest', cells2) := allocSlots (cells ++ [l]) rest
    ((s, cells.length) :: rest', cells2)

/-- the Parameter object a declaration builds -/
def declare (cells : List (List Int)) (k : ClsId) (d : Decl) : PObj × List (List Int) :=
  let (dv, cells1) := evalLit cells d.default
  let (ms, cells2) := allocSlots cells1 (declSlots d)
  -- `Parameter.__init__`: readonly => constant; `_set_instantiate`: a read-only Parameter is never instantiated
  ({ kind := d.kind, owner := .cls k, default := dv, instantiate := d.instantiate && !d.readonly,
     constant := d.constant || d.readonly,
     perInstance := d.perInstance, checkOnSet := d.checkOnSet, allowRefs := d.allowRefs, readonly := d.readonly, precedence := none,
     boundsTup := d.boundsTup, mslots := ms }, cells2)

def declareAll (k : ClsId) : List (List Int) → List Decl → List (Name × PObj) × List (List Int)
  | cells, [] => ([], cells)
  | cells, d :: ds =>
    let (p, cells1) := declare cells k d
    let (rest, cells2) := declareAll k cells1 ds
    ((d.name, p) :: rest, cells2)

def doMkClass (w : World) (mro : List ClsId) (decls : List Decl) : World × Option Err :=
  let k := w.classes.length
  let (own, cells') := declareAll k w.cells decls
  ({ w with cells := cells', classes := w.classes ++ [{ mro := k :: mro, own := own }] }, none)

/-- first loops of `_setup_params`: deep copies of `instantiate` defaults, references to `constant` ones
    -- src: parameterized.py Parameters._setup_params, _instantiate_param -/
def setupValues (w : World) (k : ClsId) :
    List Name → List (List Int) → List (Name × Val) → List (Name × Val) × List (List Int)
  | [], cells, vals => (vals, cells)
  | x :: xs, cells, vals =>
    match w.resolve k x with
    | none => setupValues w k xs cells vals
    | some (_, p) =>
      if p.instantiate then
        let (v, cells1) := deepcopyVal cells p.default
        setupValues w k xs cells1 (aset vals x v)
      else if p.constant then
        setupValues w k xs cells (aset vals x p.default)
      else setupValues w k xs cells vals

/-- keyword loop of `_setup_params`: `setattr(self, name, val)` on the *uninitialised* instance, i.e.
    `Parameter.__set__` of the **class** Parameter object (no per-instance copy exists yet)
    -- src: parameterized.py Parameters._setup_params, _instantiated_parameter, Parameter.__set__ -/
def setupKwargs (w : World) (k : ClsId) :
    List (Name × Lit) → List (List Int) → List (Name × Val) →
    (List (Name × Val) × List (List Int)) × Option Err
  | [], cells, vals => ((vals, cells), none)
  | (x, lit) :: rest, cells, vals =>
    let (v, cells1) := evalLit cells lit
    match w.resolve k x with
    | none => ((vals, cells1), some .typeError)          -- unexpected keyword argument
    | some (_, p) =>
      if lit.isPending then
        -- `_resolve_ref`: the reference is recorded, `resolved is Undefined/Skip` → no `setattr`
        if p.allowRefs then setupKwargs w k rest cells1 vals else ((vals, cells1), some .unsupported)
      else
      match validate cells1 p v with
      | .error e => ((vals, cells1), some e)
      | .ok cells2 =>
        if p.readonly then ((vals, cells2), some .typeError)        -- raised after `_validate` ran
        else setupKwargs w k rest cells2 (aset vals x v)

/-- the names a constructor call really assigns: keywords whose value is a reference without a value assign nothing -/
def assignedNames (kwargs : List (Name × Lit)) : List Name :=
  (kwargs.filter (fun kv => !kv.2.isPending)).map (·.1)

def doMkInst (w : World) (k : ClsId) (kwargs : List (Name × Lit)) : World × Option Err :=
  match w.cls? k with
  | none => (w, some .unsupported)
  | some _ =>
    let (vals0, cells0) := setupValues w k (w.visible k) w.cells []
    match setupKwargs w k kwargs cells0 vals0 with
    | ((_, cells1), some e) => ({ w with cells := cells1 }, some e)
    | ((vals1, cells1), none) =>
      ({ w with cells := cells1, insts := w.insts ++ [{ cls := k, values := vals1, params := [] }] }, none)

/-- `_instantiated_parameter(obj, P)` for an initialised instance: the per-instance copy, created on
    demand (`_instantiate_param_obj`: shallow copy, owner := obj, mutable slots except `default` copied);
    the class Parameter itself when it opted out.  Returns the world, the Parameter object and whether
    it is the instance's own.
    -- src: parameterized.py _instantiated_parameter, _instantiate_param_obj -/
def instParam (w : World) (i : InstId) (I : Inst) (x : Name) (P : PObj) : World × PObj × Bool :=
  match aget I.params x with
  | some ip => (w, ip, true)
  | none =>
    if P.perInstance then
      let (ms, cells') := copySlots w.cells P.mslots
      let ip := { P with owner := .inst i, mslots := ms }
      ({ w with cells := cells', insts := w.insts.set i { I with params := aset I.params x ip } }, ip, true)
    else (w, P, false)

def World.setInst (w : World) (i : InstId) (f : Inst → Inst) : World :=
  match w.inst? i with
  | some I => { w with insts := w.insts.set i (f I) }
  | none => w

def World.setOwn (w : World) (k : ClsId) (x : Name) (p : PObj) : World :=
  match w.cls? k with
  | some K => { w with classes := w.classes.set k { K with own := aset K.own x p } }
  | none => w

/-- `obj.x = v` on an initialised instance -- src: parameterized.py instance_descriptor, Parameter.__set__ -/
def doSetInstCore (w : World) (i : InstId) (x : Name) (lit : Lit) : World × Option Err :=
  match w.inst? i with
  | none => (w, some .unsupported)
  | some I =>
    match w.resolve I.cls x with
    | none => (w, some .unsupported)
    | some (_, P) =>
      let (v, cells1) := evalLit w.cells lit
      let (w1, ip, _) := instParam { w with cells := cells1 } i I x P
      match validate w1.cells ip v with
      | .error e => (w1, some e)
      | .ok cells2 =>
        let w2 := { w1 with cells := cells2 }
        if ip.readonly then (w2, some .typeError)
        else if ip.constant then
          -- initialised: only the identical object is accepted (and nothing is stored); "the object it holds" is what
          -- the attribute reads (`_held_value`): its own value, else the CLASS Parameter's current default — not the
          -- per-instance copy's `default`, which is a snapshot taken when the copy was made
          let old := (aget I.values x).getD P.default
          if v = old then (w2, none) else (w2, some .typeError)
        else (w2.setInst i fun I' => { I' with values := aset I'.values x v }, none)

/-- `K.x = v`: copy-on-write of an inherited Parameter — `_instantiate_param_obj(inherited, K)`: the copy
    gets mutable slot values of its own (`default` stays shared) — installed *before* the value is
    validated; when the value is rejected nothing was stored and the copy is removed again: the class
    goes on inheriting
    -- src: parameterized.py ParameterizedMetaclass.__setattr__, _instantiate_param_obj, Parameter.__set__ (obj is None) -/
def doSetClsCore (w : World) (k : ClsId) (x : Name) (lit : Lit) : World × Option Err :=
  match w.resolve k x with
  | none => (w, some .unsupported)
  | some (k', P) =>
    let (v, cells1) := evalLit w.cells lit
    let (p, cells1') : PObj × List (List Int) :=
      if k' = k then (P, cells1)
      else
        let (ms, c) := copySlots cells1 P.mslots
        ({ P with owner := .cls k, mslots := ms }, c)
    let w1 := ({ w with cells := cells1' }).setOwn k x p
    match validate w1.cells p v with
    | .error e => ({ w with cells := cells1' }, some e)
    | .ok cells2 =>
      -- a read-only Parameter rejects (TypeError) after validation: nothing was stored, the copy is removed
      if p.readonly then ({ w with cells := cells2 }, some .typeError)
      else (({ w1 with cells := cells2 }).setOwn k x { p with default := v }, none)

/-- a reference without a value is outside the fragment except as constructor keyword -/
def doSetInst (w : World) (i : InstId) (x : Name) (lit : Lit) : World × Option Err :=
  if lit.isPending then (w, some .unsupported) else doSetInstCore w i x lit

def doSetCls (w : World) (k : ClsId) (x : Name) (lit : Lit) : World × Option Err :=
  if lit.isPending then (w, some .unsupported) else doSetClsCore w k x lit

/-- `target.x` -/
def World.read (w : World) : Target → Name → Option Val
  | .inst i, x => w.getInst i x
  | .cls k, x => w.getCls k x

/-- `target.x.append(v)`: in-place mutation of the list the attribute evaluates to -/
def doMutVal (w : World) (t : Target) (x : Name) (n : Int) : World × Option Err :=
  match w.read t x with
  | none => (w, some .unsupported)
  | some .none => (w, some .attributeError)
  | some (.int _) => (w, some .attributeError)
  | some (.tup _) => (w, some .attributeError)      -- a tuple has no `append`
  | some (.ref c) => ({ w with cells := w.cells.set c (deref w.cells c ++ [n]) }, none)

/-- `target.x[i].append(v)`: in-place mutation of an item of the tuple the attribute evaluates to -/
def doMutItem (w : World) (t : Target) (x : Name) (i : Nat) (n : Int) : World × Option Err :=
  match w.read t x with
  | some (.tup cs) =>
    match cs[i]? with
    | some c => ({ w with cells := w.cells.set c (deref w.cells c ++ [n]) }, none)
    | none => (w, some .unsupported)
  | _ => (w, some .unsupported)

/-- where a Parameter object lives -/
inductive Loc
  | own (k : ClsId) (x : Name)
  | copy (i : InstId) (x : Name)
  deriving DecidableEq, Repr

def World.writeP (w : World) (l : Loc) (p : PObj) : World :=
  match l with
  | .own k x => w.setOwn k x p
  | .copy i x => w.setInst i fun I => { I with params := aset I.params x p }

/-- evaluate `target.param.x`: for an instance this creates the per-instance copy
    -- src: parameterized.py Parameters.__getitem__ -/
def locate (w : World) (t : Target) (x : Name) : Except Err (World × Loc × PObj) :=
  match t with
  | .cls k =>
    match w.resolve k x with
    | none => .error .unsupported
    | some (k', P) => .ok (w, .own k' x, P)
  | .inst i =>
    match w.inst? i with
    | none => .error .unsupported
    | some I =>
      match w.resolve I.cls x with
      | none => .error .unsupported
      | some (k', P) =>
        let (w1, ip, own) := instParam w i I x P
        .ok (w1, if own then .copy i x else .own k' x, ip)

def doAccess (w : World) (i : InstId) (x : Name) : World × Option Err :=
  match locate w (.inst i) x with
  | .error e => (w, some e)
  | .ok (w1, _, _) => (w1, none)

/-- the slot table without slot `s` -/
def dropSlot (s : Slot) (ms : List (Slot × CellId)) : List (Slot × CellId) :=
  ms.filter (fun sc => sc.1 ≠ s)

def hasBounds (p : PObj) : Bool := p.kind = .number
def hasObjects (p : PObj) : Bool := p.kind = .selector

/-- `P.<slot> = value` on Parameter object `p`: the new record and heap
    -- src: parameterized.py Parameter.__setattr__, parameters.py Selector.objects setter -/
def applySlotSet (cells : List (List Int)) (p : PObj) : SlotSet → Except Err (PObj × List (List Int))
  | .boundsTup b =>
    if hasBounds p then .ok ({ p with boundsTup := b, mslots := dropSlot .bounds p.mslots }, cells)
    else .error .attributeError
  | .boundsList lo hi =>
    if hasBounds p then
      .ok ({ p with boundsTup := none, mslots := dropSlot .bounds p.mslots ++ [(Slot.bounds, cells.length)] },
           cells ++ [[lo, hi]])
    else .error .attributeError
  | .objects l =>
    if hasObjects p then
      -- `self.names = {}` then `self._objects = objects`
      .ok ({ p with mslots := dropSlot .names (dropSlot .objects p.mslots)
                                ++ [(Slot.names, cells.length), (Slot.objects, cells.length + 1)] },
           cells ++ [[], l])
    else .error .attributeError
  | .constant b => .ok ({ p with constant := b }, cells)
  | .precedence n => .ok ({ p with precedence := some n }, cells)

/-- `target.param.x.<slot> = value` -/
def doSlotSet (w : World) (t : Target) (x : Name) (s : SlotSet) : World × Option Err :=
  match locate w t x with
  | .error e => (w, some e)
  | .ok (w1, loc, p) =>
    match applySlotSet w1.cells p s with
    | .error e => (w1, some e)
    | .ok (p', cells') => (({ w1 with cells := cells' }).writeP loc p', none)

/-- in-place mutation of a container slot of Parameter object `p`: the new heap -/
def applySlotMut (cells : List (List Int)) (p : PObj) : SlotMut → Except Err (List (List Int))
  | .objectsAppend n =>
    match hasObjects p, aget p.mslots .objects with
    | true, some c => .ok (cells.set c (deref cells c ++ [n]))
    | true, none => .error .unsupported
    | false, _ => .error .attributeError
  | .namesInsert n =>
    match hasObjects p, aget p.mslots .names with
    | true, some c =>
      if n ∈ deref cells c then .ok cells else .ok (cells.set c (deref cells c ++ [n]))
    | true, none => .error .unsupported
    | false, _ => .error .attributeError
  | .boundsSetHi n =>
    if hasBounds p then
      match aget p.mslots .bounds with
      | some c =>
        match deref cells c with
        | [lo, _] => .ok (cells.set c [lo, n])
        | _ => .error .unsupported
      | none => .error .typeError      -- tuple / None do not support item assignment
    else .error .attributeError

/-- `target.param.x.objects.append(v)`, `.names['k<v>'] = v`, `.bounds[1] = v` -/
def doSlotMut (w : World) (t : Target) (x : Name) (m : SlotMut) : World × Option Err :=
  match locate w t x with
  | .error e => (w, some e)
  | .ok (w1, _, p) =>
    match applySlotMut w1.cells p m with
    | .error e => (w1, some e)
    | .ok cells' => ({ w1 with cells := cells' }, none)

def step (w : World) : Op → World × Option Err
  | .mkClass mro decls => doMkClass w mro decls
  | .mkInst k kwargs => doMkInst w k kwargs
  | .setVal (.inst i) x v => doSetInst w i x v
  | .setVal (.cls k) x v => doSetCls w k x v
  | .mutVal t x n => doMutVal w t x n
  | .mutItem t x i n => doMutItem w t x i n
  | .access i x => doAccess w i x
  | .slotSet t x s => doSlotSet w t x s
  | .slotMut t x m => doSlotMut w t x m
  | .sharedFail => (w, none)

def run (w : World) (ops : List Op) : World := ops.foldl (fun w op => (step w op).1) w

end ParamVerif.Objects
