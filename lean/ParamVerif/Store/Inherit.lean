/-
C11 model — Parameter slots inherit along the MRO; merged defaults are re-validated.

Executable mirror of the anchored code *as written*:

  param/parameterized.py  ParameterizedMetaclass.__init__ / _initialize_parameter
                          ParameterizedMetaclass.__param_inheritance
                          Parameter.__init__, _set_allow_None, _set_instantiate,
                          Parameter.__getattribute__ (fallback to `_slot_defaults` on an unbound Parameter)
                          Parameters.add_parameter, classlist
  param/parameters.py     Number / Integer / String / Tuple / List / Selector : __init__, _validate*, _update_state,
                          `_slot_defaults` (static values and the callables `_compute_length_of_default`,
                          `_compute_selector_default`, `_compute_selector_checking_default`)

A hierarchy is a list of operations (`declare` a class, `addParam` to an existing
class).  The MRO of every class is *data* (CPython's `__mro__`, supplied by the
harness); nothing here re-implements C3.

Slot values carry an identity (`Ident`) next to their value because
`__param_inheritance` compares with `is`.  Not modelled (never specified by the
harness, hold one and the same atom along every MRO, so they can neither be
overridden nor influence validation): set_hook, compute_default_fn, is_instance;
the explicit_no_refs bookkeeping that goes with `allow_refs` (it only matters
when instances resolve references); `name`, `owner`, `watchers` (in
`_non_validated_slots` or deleted from the search).  Dynamic (callable) defaults,
numpy values and malformed bounds tuples are outside the model (`unsupported`).
-/

namespace ParamVerif.Inherit

/-! ## Values -/

/-- Python values that occur inside containers or as scalar slot values.
`float` carries twice its value (the harness only uses halves, so floats are exact). -/
inductive Atom where
  | pyNone
  | bool (b : Bool)
  | int (n : Int)
  | float (twice : Int)
  | str (s : String)
  | cls (tag : String)          -- a class object used as `item_type`: "int" | "float" | "str"
  deriving DecidableEq, Repr

inductive PyV where
  | atom (a : Atom)
  | tuple (l : List Atom)
  | list (l : List Atom)
  | dict (l : List (String × Atom))
  deriving DecidableEq, Repr

/-- identity of an object.  `obj n`: created by the user program (harness table);
`tdef n`: the object stored in a `_slot_defaults` dict; `fresh stage op name slot`:
created by the library itself while running operation `op` on parameter `name`
(stage 0: in the constructor, stage 1: during the merge — `copy.copy` of a
mutable container, or the result of a `_slot_defaults` callable). -/
inductive Ident where
  | atom
  | obj (n : Nat)
  | tdef (n : Nat)
  | fresh (stage op name : Nat) (slot : Nat)
  deriving DecidableEq, Repr

structure Val where
  id : Ident
  v : PyV
  deriving DecidableEq, Repr

/-- values for which CPython guarantees `a == b → a is b` in the harness
(None, bools, small ints, interned strings, classes, the empty tuple); floats are boxed -/
def PyV.isAtomic : PyV → Bool
  | .atom (.float _) => false
  | .atom _ => true
  | .tuple [] => true
  | _ => false

/-- Python `a is b`.  Equal identity implies equal value by definition (an
ill-formed case giving one identity to two values is read as two objects). -/
def Val.is (a b : Val) : Bool := a.v == b.v && (a.v.isAtomic || a.id == b.id)

def atomV (a : Atom) : Val := ⟨.atom, .atom a⟩
def noneV : Val := atomV .pyNone
def boolV (b : Bool) : Val := atomV (.bool b)

def PyV.isNone : PyV → Bool
  | .atom .pyNone => true
  | _ => false

/-- Python truthiness -/
def PyV.truthy : PyV → Bool
  | .atom .pyNone => false
  | .atom (.bool b) => b
  | .atom (.int n) => n != 0
  | .atom (.float t) => t != 0
  | .atom (.str s) => s != ""
  | .atom (.cls _) => true
  | .tuple l => !l.isEmpty
  | .list l => !l.isEmpty
  | .dict l => !l.isEmpty

/-- `x is True` -/
def PyV.isTrue : PyV → Bool
  | .atom (.bool true) => true
  | _ => false

/-- twice the numeric value of a Python number (`bool ⊂ int`) -/
def Atom.num2 : Atom → Option Int
  | .bool b => some (if b then 2 else 0)
  | .int n => some (2 * n)
  | .float t => some t
  | _ => none

/-- `_is_number(x)` on the covered values -/
def PyV.isNumber : PyV → Bool
  | .atom a => a.num2.isSome
  | _ => false

/-- `isinstance(x, int)` -/
def PyV.isInt : PyV → Bool
  | .atom (.int _) => true
  | .atom (.bool _) => true
  | _ => false

/-- Python `==` on atoms (numbers compare by value across bool/int/float) -/
def Atom.pyEq (a b : Atom) : Bool :=
  match a.num2, b.num2 with
  | some x, some y => x == y
  | none, none => a == b
  | _, _ => false

/-- `len(x)`; `none` = TypeError -/
def PyV.len : PyV → Option Nat
  | .atom (.str s) => some s.length
  | .atom _ => none
  | .tuple l => some l.length
  | .list l => some l.length
  | .dict l => some l.length

/-- `isinstance(v, item_type)` for the class tags used as `item_type` -/
def Atom.isInstance (v : Atom) (tag : String) : Bool :=
  match tag, v with
  | "int", .int _ => true
  | "int", .bool _ => true
  | "float", .float _ => true
  | "str", .str _ => true
  | _, _ => false

/-- `_is_mutable_container` -/
def PyV.isMutable : PyV → Bool
  | .list _ => true
  | .dict _ => true
  | _ => false

/-! ## Parameter types and slots -/

inductive PType where
  | parameter | number | integer | string | tuple | list | selector
  deriving DecidableEq, Repr

/-- `issubclass(a, b)` -/
def PType.sub : PType → PType → Bool
  | _, .parameter => true
  | .integer, .number => true
  | a, b => a == b

inductive Slot where
  | default | doc | precedence | constant | readonly | pickleDefault | allowNone | perInstance
  | allowRefs | nestedRefs | label
  | bounds | softbounds | inclusiveBounds | step
  | regex | length | itemType | itemClass | objects | checkOnSet | names
  deriving DecidableEq, Repr

/-- the modelled part of `_all_slots_`, in its order (`instantiate` is handled
apart, as in the code, which deletes it from the search) -/
def slotOrder : List Slot :=
  [.default, .doc, .precedence, .constant, .readonly, .pickleDefault, .allowNone, .perInstance,
   .allowRefs, .nestedRefs, .label,
   .bounds, .softbounds, .inclusiveBounds, .step, .regex, .length,
   .itemType, .itemClass, .objects, .checkOnSet, .names]

def Slot.idx : Slot → Nat
  | .default => 0 | .doc => 1 | .precedence => 2 | .constant => 3 | .readonly => 4 | .pickleDefault => 5
  | .allowNone => 6 | .perInstance => 7 | .allowRefs => 8 | .nestedRefs => 9 | .label => 10
  | .bounds => 11 | .softbounds => 12 | .inclusiveBounds => 13 | .step => 14 | .regex => 15
  | .length => 16 | .itemType => 17 | .itemClass => 18 | .objects => 19 | .checkOnSet => 20 | .names => 21

/-- `slot in type(param)._all_slots_` (= `hasattr(param, slot)` for a slot name) -/
def hasSlot : PType → Slot → Bool
  | _, .default | _, .doc | _, .precedence | _, .constant | _, .readonly | _, .allowNone | _, .label => true
  | _, .pickleDefault | _, .perInstance | _, .allowRefs | _, .nestedRefs => true
  | .number, .bounds | .number, .softbounds | .number, .inclusiveBounds | .number, .step => true
  | .integer, .bounds | .integer, .softbounds | .integer, .inclusiveBounds | .integer, .step => true
  | .string, .regex => true
  | .tuple, .length => true
  | .list, .bounds | .list, .itemType | .list, .itemClass => true
  | .selector, .objects | .selector, .checkOnSet | .selector, .names => true
  | _, _ => false

def slotsOf (T : PType) : List Slot := slotOrder.filter (hasSlot T)

/-- src: Parameter._non_validated_slots (the modelled ones) -/
def nonValidated : Slot → Bool
  | .label | .doc | .precedence | .constant | .pickleDefault => true
  | _ => false

inductive SlotDefault where
  | static (v : Val)
  | computed            -- a callable in `_slot_defaults`
  | missing             -- no entry: KeyError
  deriving DecidableEq, Repr

def tdFloat0 : Val := ⟨.tdef 0, .atom (.float 0)⟩                                  -- Number: 0.0
def tdIncl : Val := ⟨.tdef 1, .tuple [.bool true, .bool true]⟩                     -- Number: (True, True)
def tdTuple00 : Val := ⟨.tdef 2, .tuple [.int 0, .int 0]⟩                          -- Tuple: (0, 0)
def tdListEmpty : Val := ⟨.tdef 3, .list []⟩                                        -- List: [] (one shared object)
def tdListBounds : Val := ⟨.tdef 4, .tuple [.int 0, .pyNone]⟩                        -- List: (0, None)

/-- src: `_slot_defaults` of Parameter, Number, Integer, String, Tuple, List, _SignatureSelector -/
def typeDefault : PType → Slot → SlotDefault
  | .number, .default => .static tdFloat0
  | .integer, .default => .static (atomV (.int 0))
  | .string, .default => .static (atomV (.str ""))
  | .tuple, .default => .static tdTuple00
  | .list, .default => .static tdListEmpty
  | _, .default => .static noneV
  | _, .doc => .static noneV
  | _, .precedence => .static noneV
  | _, .constant => .static (boolV false)
  | _, .readonly => .static (boolV false)
  | .selector, .allowNone => .static noneV
  | _, .allowNone => .static (boolV false)
  | _, .label => .static noneV
  | _, .pickleDefault => .static (boolV true)
  | _, .perInstance => .static (boolV true)
  | _, .allowRefs => .static (boolV false)
  | _, .nestedRefs => .static (boolV false)
  | .list, .bounds => .static tdListBounds
  | _, .bounds => .static noneV
  | _, .softbounds => .static noneV
  | _, .inclusiveBounds => .static tdIncl
  | _, .step => .static noneV
  | _, .regex => .static noneV
  | _, .length => .computed
  | _, .itemType => .static noneV
  | _, .itemClass => .static noneV
  | _, .objects => .computed
  | _, .checkOnSet => .computed
  | _, .names => .computed

/-- `_slot_defaults['instantiate']` -/
def typeInstantiate : PType → Bool
  | .list => true
  | _ => false

abbrev Slots := Slot → Option Val

def Slots.set (f : Slots) (s : Slot) (v : Option Val) : Slots := fun t => if t = s then v else f t

/-- A Parameter object.  `slots s = none`: the slot holds `Undefined` (or the
type has no such slot). -/
structure Param where
  ptype : PType
  slots : Slots
  instantiate : Bool

abbrev Cfg := Slot → Option PyV
def Param.cfg (p : Param) : Cfg := fun s => (p.slots s).map (·.v)

inductive ErrKind where
  | valueError | typeError | keyError
  | unsupported            -- input outside the modelled fragment (never produced by the harness)
  deriving DecidableEq, Repr

/-! ## Validation of a default against a configuration -/

def Cfg.get (c : Cfg) (s : Slot) : Except ErrKind PyV :=
  match c s with
  | some v => .ok v
  | none => .error .unsupported

def boundOk (v : Int) (b : Atom) (inclusive upper : Bool) : Except ErrKind Bool :=
  match b with
  | .pyNone => .ok true
  | b =>
    match b.num2 with
    | none => .error .unsupported
    | some x =>
      .ok (if upper then (if inclusive then decide (v ≤ x) else decide (v < x))
           else (if inclusive then decide (v ≥ x) else decide (v > x)))

/-- src: Number._validate_bounds -/
def checkNumBounds (allowNone : Bool) (val bounds incl : PyV) : Except ErrKind Unit :=
  if bounds.isNone || (val.isNone && allowNone) then .ok () else
  match bounds, incl, val with
  | .tuple [lo, hi], .tuple [ilo, ihi], .atom a =>
    match a.num2 with
    | none => .error .unsupported
    | some v =>
      match boundOk v hi (PyV.atom ihi).isTrue true, boundOk v lo (PyV.atom ilo).isTrue false with
      | .ok okHi, .ok okLo => if okHi && okLo then .ok () else .error .valueError
      | .error e, _ => .error e
      | _, .error e => .error e
  | _, _, _ => .error .unsupported

/-- src: Number._validate_value / Integer._validate_value -/
def numValueOk (isInteger allowNone : Bool) (val : PyV) : Bool :=
  (allowNone && val.isNone) || (if isInteger then val.isInt else val.isNumber)

/-- src: Number._validate_step / Integer._validate_step -/
def numStepOk (isInteger : Bool) (step : PyV) : Bool :=
  step.isNone || (if isInteger then step.isInt else step.isNumber)

/-- src: Number._validate: value, then step, then bounds -/
def validateNumber (isInteger : Bool) (c : Cfg) (val : PyV) : Except ErrKind Unit :=
  match c .allowNone, c .step, c .bounds, c .inclusiveBounds with
  | some an, some step, some bounds, some incl =>
    if !numValueOk isInteger an.truthy val then .error .valueError
    else if !numStepOk isInteger step then .error .valueError
    else checkNumBounds an.truthy val bounds incl
  | _, _, _, _ => .error .unsupported

/-- src: String._validate ; `rx regex s` is the oracle bit `re.match(regex, s) is not None` -/
def validateString (rx : String → String → Bool) (c : Cfg) (val : PyV) : Except ErrKind Unit := do
  let allowNone := (← c.get .allowNone).truthy
  if allowNone && val.isNone then return ()
  match val with
  | .atom (.str s) =>
    match ← c.get .regex with
    | .atom .pyNone => return ()
    | .atom (.str r) => if rx r s then return () else throw .valueError
    | _ => throw .unsupported
  | _ => throw .valueError

/-- src: Tuple._validate -/
def validateTuple (c : Cfg) (val : PyV) : Except ErrKind Unit := do
  let allowNone := (← c.get .allowNone).truthy
  if val.isNone && allowNone then return ()
  match val with
  | .tuple l =>
    match ← c.get .length with
    | .atom a => if a.pyEq (.int l.length) then return () else throw .valueError
    | _ => throw .valueError        -- len(val) == <container> is False
  | _ => throw .valueError

/-- src: List._validate_bounds -/
def checkListBounds (n : Nat) (bounds : PyV) : Except ErrKind Unit :=
  match bounds with
  | .atom .pyNone => .ok ()
  | .tuple [lo, hi] => do
    let okLo ← boundOk (2 * n) lo true false
    let okHi ← boundOk (2 * n) hi true true
    if okLo && okHi then return () else throw .valueError
  | _ => .error .unsupported

/-- src: List._validate -/
def validateList (c : Cfg) (val : PyV) : Except ErrKind Unit := do
  let allowNone := (← c.get .allowNone).truthy
  if allowNone && val.isNone then return ()
  match val with
  | .list l =>
    checkListBounds l.length (← c.get .bounds)
    match ← c.get .itemType with
    | .atom .pyNone => return ()
    | .atom (.cls tag) => if l.all (·.isInstance tag) then return () else throw .typeError
    | _ => throw .unsupported
  | _ => throw .valueError

/-- `val in objects` -/
def memObjs (val : PyV) (objs : PyV) : Except ErrKind Bool :=
  match objs with
  | .list l =>
    match val with
    | .atom a => .ok (l.any (a.pyEq ·))
    | .tuple [] => .ok false
    | _ => .error .unsupported
  | _ => .error .unsupported

/-- src: Selector._validate (the checking branch; the `not check_on_set` branch
mutates and is `ensureInObjects`) -/
def validateSelector (c : Cfg) (val : PyV) : Except ErrKind Unit :=
  match c .checkOnSet, c .allowNone, c .objects with
  | some cos, some an, some objs =>
    if !cos.truthy then .ok ()
    else if an.truthy && val.isNone then .ok ()
    else
      match memObjs val objs with
      | .ok true => .ok ()
      | .ok false => .error .valueError
      | .error e => .error e
  | _, _, _ => .error .unsupported

/-- src: `<Type>._validate(val)` -/
def validate (rx : String → String → Bool) (T : PType) (c : Cfg) (val : PyV) : Except ErrKind Unit :=
  match T with
  | .parameter => .ok ()
  | .number => validateNumber false c val
  | .integer => validateNumber true c val
  | .string => validateString rx c val
  | .tuple => validateTuple c val
  | .list => validateList c val
  | .selector => validateSelector c val

/-! ## `_slot_defaults` fallback: static values and callables -/

/-- fill every `Undefined` slot that has a static `_slot_defaults` entry -/
def staticFill (T : PType) (f : Slots) : Slots := fun s =>
  match f s with
  | some v => some v
  | none =>
    if hasSlot T s then
      match typeDefault T s with
      | .static v => some v
      | _ => none
    else none

/-- a slot is still `Undefined` and `_slot_defaults` has no entry for it: KeyError -/
def missingKey (T : PType) (f : Slots) : Bool :=
  (slotsOf T).any fun s => (f s).isNone && typeDefault T s == .missing

/-- src: `_compute_selector_default`: a fresh `[]` for an `Undefined` `_objects` -/
def selectorObjectsDefault (stage op name : Nat) (f : Slots) : Slots :=
  match f .objects with
  | some _ => f
  | none => f.set .objects (some ⟨.fresh stage op name Slot.objects.idx, .list []⟩)

/-- src: `names=lambda p: {}` in `_SignatureSelector._slot_defaults`: a fresh `{}` for an `Undefined` `names` -/
def selectorNamesDefault (stage op name : Nat) (f : Slots) : Slots :=
  match f .names with
  | some _ => f
  | none => f.set .names (some ⟨.fresh stage op name Slot.names.idx, .dict []⟩)

/-- src: the callables of `_slot_defaults`, run in slot order on the partly filled Parameter:
`_compute_length_of_default`, `_compute_selector_default`, `_compute_selector_checking_default`, the `names` lambda.
`stage/op/name` name the objects they create. -/
def runCallables (T : PType) (stage op name : Nat) (f : Slots) : Except ErrKind Slots :=
  match T with
  | .tuple =>
    match f .length with
    | some _ => .ok f
    | none =>
      match (f .default).bind (·.v.len) with
      | some n => .ok (f.set .length (some (atomV (.int n))))
      | none => .error .typeError                         -- len(None), len(5)
  | .selector =>
    let f1 := selectorObjectsDefault stage op name f
    match f1 .checkOnSet with
    | some _ => .ok (selectorNamesDefault stage op name f1)
    | none =>
      match (f1 .objects).bind (·.v.len) with
      | some n => .ok (selectorNamesDefault stage op name (f1.set .checkOnSet (some (boolV (n != 0)))))
      | none => .error .typeError
  | _ => .ok f

/-- what `getattr` shows on an *unbound* Parameter (src: Parameter.__getattribute__) -/
def unboundView (T : PType) (op name : Nat) (f : Slots) : Except ErrKind Slots :=
  runCallables T 0 op name (staticFill T f)

def cfgOf (f : Slots) : Cfg := fun s => (f s).map (·.v)

/-- src: Selector._ensure_value_is_in_objects on a list-valued `_objects` slot -/
def ensureInObjects (f : Slots) (val : PyV) : Except ErrKind Slots :=
  match f .objects with
  | some ⟨i, .list l⟩ =>
    match val with
    | .atom a => .ok (if l.any (a.pyEq ·) then f else f.set .objects (some ⟨i, .list (l ++ [a])⟩))
    | _ => .error .unsupported
  | _ => .error .unsupported

/-- src: Selector._update_state (a no-op for every other covered type) -/
def updateState (T : PType) (f : Slots) : Except ErrKind Slots :=
  match T with
  | .selector =>
    match f .checkOnSet, f .default with
    | some cos, some d =>
      if cos.v == .atom (.bool false) && !d.v.isNone then ensureInObjects f d.v else .ok f
    | _, _ => .error .unsupported
  | _ => .ok f

/-! ## Constructors -/

/-- keyword arguments of a declaration `name = <Type>(…)`; `args s = none`: not given -/
structure Decl where
  ptype : PType
  args : Slots
  instantiate : Option Bool

def staticDefaultV (T : PType) (s : Slot) : Option Val :=
  match typeDefault T s with
  | .static v => some v
  | _ => none

/-- `self.default is None` on the unbound Parameter: the argument, else `_slot_defaults['default']` -/
def seesNone (T : PType) (dflt : Option Val) : Bool :=
  match dflt with
  | some v => v.v.isNone
  | none => (match staticDefaultV T .default with | some v => v.v.isNone | none => false)

/-- src: Parameter.__init__ with _set_instantiate and _set_allow_None -/
def baseInit (T : PType) (dflt : Option Val) (args : Slots) (inst : Option Bool) : Param :=
  let isTrue (o : Option Val) : Bool := match o with | some v => v.v.isTrue | none => false
  let constant := if isTrue (args .constant) || isTrue (args .readonly) then some (boolV true) else args .constant
  -- `self.readonly` on the unbound Parameter: the argument, else _slot_defaults['readonly'] = False
  let readonlyView := match args .readonly with | some v => v.v.truthy | none => false
  let instantiate := if readonlyView then false else match inst with | some b => b | none => typeInstantiate T
  let allowNone :=
    if seesNone T dflt then some (boolV true)
    else match args .allowNone with
      | some v => some v
      | none => staticDefaultV T .allowNone
  let slots : Slots := fun s =>
    match s with
    | .default => dflt
    | .doc => args .doc
    | .precedence => args .precedence
    | .constant => constant
    | .readonly => args .readonly
    | .allowNone => allowNone
    | .label => args .label
    | .pickleDefault => args .pickleDefault
    | .perInstance => args .perInstance
    | .allowRefs => args .allowRefs
    | .nestedRefs => args .nestedRefs
    | _ => none
  { ptype := T, slots := slots, instantiate := instantiate }

/-- `self._validate(self.default)` at the end of a constructor -/
def validateUnbound (rx : String → String → Bool) (op name : Nat) (p : Param) : Except ErrKind Unit := do
  let view ← unboundView p.ptype op name p.slots
  match view .default with
  | some d => validate rx p.ptype (cfgOf view) d.v
  | none => throw .unsupported

/-- the constructor's last statement `self._validate(self.default)`: the Parameter, or the error -/
def checked (rx : String → String → Bool) (op name : Nat) (p : Param) : Except ErrKind Param :=
  match validateUnbound rx op name p with
  | .ok _ => .ok p
  | .error e => .error e

/-- src: Selector.__init__: the first object, used as default when none is given -/
def selectorAutodefault (a : Slots) : Except ErrKind (Option Val) :=
  match a .objects with
  | some ⟨_, .list (x :: _)⟩ => .ok (some (atomV x))
  | some ⟨_, .dict ((_, x) :: _)⟩ => .ok (some (atomV x))
  | some ⟨_, .list []⟩ => .ok none
  | some ⟨_, .dict []⟩ => .ok none
  | none => .ok none
  | some _ => .error .unsupported

/-- src: Selector.__init__ up to (and including) `super().__init__` and the `allow_None` fix-up:
the `objects` setter splits a dict into `names` and `_objects`; without `objects`, `names` stays `Undefined` -/
def selectorRaw (op name : Nat) (a : Slots) (inst : Option Bool) (autodefault : Option Val) : Param :=
  let dflt := match a .default with | some v => some v | none => autodefault
  let objects : Option Val := match a .objects with
    | some ⟨_, .dict kvs⟩ => some ⟨.fresh 0 op name Slot.objects.idx, .list (kvs.map (·.2))⟩
    | o => o
  let names : Option Val := match a .objects with
    | some ⟨i, .dict kvs⟩ => some ⟨i, .dict kvs⟩
    | some _ => some ⟨.fresh 0 op name Slot.names.idx, .dict []⟩
    | none => none                                   -- `Undefined`: inherited together with `_objects`
  let b := baseInit .selector dflt a inst
  let allowNone := match a .allowNone with | some v => some v | none => staticDefaultV .selector .allowNone
  { b with slots := (((b.slots.set .objects objects).set .names names).set .checkOnSet (a .checkOnSet)).set .allowNone allowNone }

/-- src: Selector.__init__: `if self.default is not None: self._validate_value(self.default)`, then
`self._update_state()`, which may append the default to the user's own list -/
def constructSelector (op name : Nat) (a : Slots) (inst : Option Bool) : Except ErrKind Param :=
  match selectorAutodefault a with
  | .error e => .error e
  | .ok autodefault =>
    let p := selectorRaw op name a inst autodefault
    match unboundView .selector op name p.slots with
    | .error e => .error e
    | .ok view =>
      match view .default, view .checkOnSet with
      | some dv, some cos =>
        match (if dv.v.isNone then .ok () else validateSelector (cfgOf view) dv.v) with
        | .error e => .error e
        | .ok _ =>
          if cos.v == .atom (.bool false) && !dv.v.isNone && (p.slots .objects).isSome then
            match ensureInObjects p.slots dv.v with
            | .ok s' => .ok { p with slots := s' }
            | .error e => .error e
          else .ok p                                  -- (an `Undefined` `_objects`: appended to a temporary list)
      | _, _ => .error .unsupported

/-- src: Tuple.__init__: `length` is `len(default)` for a non-empty default, else the argument -/
def tupleLength (a : Slots) : Except ErrKind (Option Val) :=
  match a .default with
  | some dv =>
    if dv.v.truthy then
      match dv.v.len with
      | some n => .ok (some (atomV (.int n)))
      | none => .error .typeError
    else .ok (a .length)
  | none => .ok (a .length)

/-- src: Tuple.__init__: `length is Undefined and self.default is None` -/
def tupleNoLength (a : Slots) : Bool :=
  (a .length).isNone && seesNone .tuple (a .default)

/-- src: `<Type>.__init__` — the unbound Parameter a declaration creates, or the
error its constructor raises (before any class exists). -/
def construct (rx : String → String → Bool) (op name : Nat) (d : Decl) : Except ErrKind Param :=
  let a := d.args
  match d.ptype with
  | .parameter => .ok (baseInit .parameter (a .default) a d.instantiate)
  | .number | .integer =>
    let b := baseInit d.ptype (a .default) a d.instantiate
    checked rx op name { b with slots := (((b.slots.set .bounds (a .bounds)).set .inclusiveBounds (a .inclusiveBounds)).set
                 .softbounds (a .softbounds)).set .step (a .step) }
  | .string =>
    let b := baseInit .string (a .default) a d.instantiate
    checked rx op name { b with slots := b.slots.set .regex (a .regex) }
  | .tuple =>
    let b := baseInit .tuple (a .default) a d.instantiate
    if tupleNoLength a then .error .valueError else
    match tupleLength a with
    | .error e => .error e
    | .ok length => checked rx op name { b with slots := b.slots.set .length length }
  | .list =>
    -- item_type=None is the same as leaving it out (class_ is never given)
    let itemType := match a .itemType with
      | some v => if v.v.isNone then none else some v
      | none => none
    let itemClass := match itemType with | some v => some v | none => some noneV
    let b := baseInit .list (a .default) a d.instantiate
    checked rx op name { b with slots := ((b.slots.set .bounds (a .bounds)).set .itemType itemType).set .itemClass itemClass }
  | .selector => constructSelector op name a d.instantiate

/-! ## `__param_inheritance` -/

/-- the slot value a class in the MRO offers: `none` if the class does not define
the Parameter, its Parameter type lacks the slot, or the value is `Undefined` -/
def slotAt (s : Slot) (sp : Option Param) : Option Val :=
  match sp with
  | some h => if hasSlot h.ptype s then h.slots s else none
  | none => none

/-- The inner `for scls in supers` loop for one slot.  `old` is
`slot_values.get(slot, Undefined)`, `ov` is `slot_overridden`; the list holds what
each class of `classlist(cls)[::-1]` offers.  Returns the new `slot_values[slot]`
and `slot_overridden`. -/
def searchSlot (nonval tc : Bool) : List (Option Val) → Option Val → Bool → Option Val × Bool
  | [], old, ov => (old, ov)
  | none :: rest, old, ov => searchSlot nonval tc rest old ov            -- continue
  | some v :: rest, none, ov =>
    if ov || tc then (some v, ov)                                        -- break: re-validation already certain
    else searchSlot nonval tc rest (some v) ov
  | some v :: rest, some o, ov =>
    if v.is o then searchSlot nonval tc rest (some o) ov                 -- continue
    else (some o, if nonval then ov else true)                           -- break

/-- The outer `for slot in slots` loop: threads `slot_overridden` through the slots. -/
def searchAll (tc : Bool) (own : Slots) (supers : List (Option Param)) :
    List Slot → Bool → Slots → Slots × Bool
  | [], ov, acc => (acc, ov)
  | s :: rest, ov, acc =>
    let r := searchSlot (nonValidated s) tc (own s :: supers.map (slotAt s)) none ov
    searchAll tc own supers rest r.2 (acc.set s r.1)

/-- `type_change`: some class of the MRO declares the Parameter with a type that
is not a subclass of the new type -/
def typeChange (T : PType) (supers : List (Option Param)) : Bool :=
  supers.any fun sp => match sp with | some h => !h.ptype.sub T | none => false

def anyInstantiate (supers : List (Option Param)) : Bool :=
  supers.any fun sp => match sp with | some h => h.instantiate | none => false

/-- `copy.copy` of mutable containers in every slot but `default` -/
def copyMutable (op name : Nat) (f : Slots) : Slots := fun s =>
  match f s with
  | some v => if s != .default && v.v.isMutable then some ⟨.fresh 1 op name s.idx, v.v⟩ else some v
  | none => none

inductive Outcome where
  | ok
  | keyError                      -- a slot without `_slot_defaults` entry (raised as KeyError)
  | callableError                 -- a `_slot_defaults` callable raised (TypeError, not wrapped)
  | invalid (cause : ErrKind)     -- RuntimeError wrapping the validation error
  | unsupported
  deriving DecidableEq, Repr

structure MergeRes where
  param : Param                   -- the Parameter object as the code leaves it (also on failure)
  typeChange : Bool
  overridden : Bool
  revalidated : Bool
  outcome : Outcome

/-- `slot_values`/`slot_overridden` after the two nested search loops -/
def mergeSearch (own : Param) (supers : List (Option Param)) : Slots × Bool :=
  searchAll (typeChange own.ptype supers) own.slots supers (slotsOf own.ptype) false (fun _ => none)

/-- From the search result to the Parameter state just before re-validation:
`_slot_defaults` for what is still `Undefined` (KeyError if there is none), the
values set (mutable containers copied), the callables, `_update_state`.
On failure: the outcome and the slots as they are at that moment. -/
def prepare (T : PType) (op name : Nat) (found : Slots) : Except (Outcome × Slots) Slots :=
  if missingKey T found then .error (.keyError, found) else
  let filled := copyMutable op name (staticFill T found)
  match runCallables T 1 op name filled with
  | .error _ => .error (.callableError, filled)
  | .ok f3 =>
    match updateState T f3 with
    | .error _ => .error (.unsupported, f3)
    | .ok f4 => .ok f4

/-- `not self.check_on_set` on a bound Selector -/
def cosFalsy (f : Slots) : Bool :=
  match f .checkOnSet with
  | some c => !c.v.truthy
  | none => false

/-- `param._validate(param.default)` inside the try/except of `__param_inheritance` -/
def revalidate (rx : String → String → Bool) (T : PType) (f4 : Slots) (d : PyV) : Slots × Outcome :=
  -- Selector._validate with check_on_set falsy appends instead of checking
  if T == .selector && cosFalsy f4 then
    match ensureInObjects f4 d with
    | .ok f5 => (f5, .ok)
    | .error _ => (f4, .unsupported)
  else
    match validate rx T (cfgOf f4) d with
    | .ok _ => (f4, .ok)
    | .error .unsupported => (f4, .unsupported)
    | .error e => (f4, .invalid e)

/-- src: ParameterizedMetaclass.__param_inheritance.  `own` is the Parameter being
installed (already in the class `__dict__`, so it is the first element of the
search); `supers` is what the remaining classes of the MRO hold under the name. -/
def inherit (rx : String → String → Bool) (op name : Nat) (own : Param) (supers : List (Option Param)) : MergeRes :=
  let T := own.ptype
  let tc := typeChange T supers
  let inst := own.instantiate || anyInstantiate supers
  let sr := mergeSearch own supers
  let ov := sr.2
  let mk (f : Slots) (reval : Bool) (o : Outcome) : MergeRes :=
    { param := { ptype := T, slots := f, instantiate := inst }, typeChange := tc, overridden := ov,
      revalidated := reval, outcome := o }
  match prepare T op name sr.1 with
  | .error (o, f) => mk f false o
  | .ok f4 =>
    match f4 .default with
    | none => mk f4 false .unsupported
    | some d =>
      if tc || (ov && !d.v.isNone) then
        let r := revalidate rx T f4 d.v
        mk r.1 true r.2
      else mk f4 false .ok

/-! ## Classes -/

structure World where
  mro : Nat → Option (List Nat)             -- `none`: the class does not exist
  params : Nat → Nat → Option Param         -- the Parameter in the class's own `__dict__` under a name

def World.empty : World := { mro := fun _ => none, params := fun _ _ => none }

def World.supers (w : World) (tail : List Nat) (name : Nat) : List (Option Param) :=
  tail.map fun c => w.params c name

/-- `Cls.param[name]`: the Parameter of the first class in the MRO that has one -/
def World.resolve (w : World) (cls name : Nat) : Option Param :=
  match w.mro cls with
  | some m => (m.filterMap fun c => w.params c name).head?
  | none => none

inductive Op where
  | declare (cls : Nat) (mro : List Nat) (decls : List (Nat × Decl))
  | addParam (cls name : Nat) (decl : Decl)

inductive StepOutcome where
  | ok
  | skipped                                   -- a base class / the target class does not exist
  | ctorError (i : Nat) (e : ErrKind)         -- the i-th declaration's constructor raised
  | mergeError (i : Nat) (o : Outcome)        -- merging the i-th declaration raised
  deriving DecidableEq, Repr

structure StepObs where
  outcome : StepOutcome
  raws : List (Nat × Param)                   -- the constructed (unbound) Parameters, by name
  merged : List (Nat × MergeRes)              -- merge results so far (the last one is the failing one)

/-- all constructors run first (class body), in order -/
def constructAll (rx : String → String → Bool) (op : Nat) :
    List (Nat × Decl) → Nat → List (Nat × Param) → Except (Nat × ErrKind × List (Nat × Param)) (List (Nat × Param))
  | [], _, acc => .ok acc.reverse
  | (n, d) :: rest, i, acc =>
    match construct rx op n d with
    | .ok p => constructAll rx op rest (i + 1) ((n, p) :: acc)
    | .error e => .error (i, e, acc.reverse)

/-- src: ParameterizedMetaclass.__init__ — `_initialize_parameter` for each
Parameter of the class body, in order; the first failure aborts class creation -/
def mergeAll (rx : String → String → Bool) (op : Nat) (w : World) (tail : List Nat) :
    List (Nat × Param) → Nat → List (Nat × MergeRes) → (List (Nat × MergeRes)) × Option (Nat × Outcome)
  | [], _, acc => (acc.reverse, none)
  | (n, p) :: rest, i, acc =>
    let r := inherit rx op n p (w.supers tail n)
    if r.outcome == .ok then mergeAll rx op w tail rest (i + 1) ((n, r) :: acc)
    else (((n, r) :: acc).reverse, some (i, r.outcome))

def lookupParam (l : List (Nat × MergeRes)) (n : Nat) : Option Param :=
  match l with
  | [] => none
  | (m, r) :: rest => if m = n then some r.param else lookupParam rest n

def step (rx : String → String → Bool) (opIdx : Nat) (w : World) : Op → World × StepObs
  | .declare cls mro decls =>
    match mro with
    | [] => (w, ⟨.skipped, [], []⟩)
    | c :: tail =>
      if c != cls || (w.mro cls).isSome || tail.any (fun a => (w.mro a).isNone) || tail.contains cls then
        (w, ⟨.skipped, [], []⟩)
      else
        match constructAll rx opIdx decls 0 [] with
        | .error (i, e, raws) => (w, ⟨.ctorError i e, raws, []⟩)
        | .ok raws =>
          match mergeAll rx opIdx w tail raws 0 [] with
          | (merged, some (i, o)) => (w, ⟨.mergeError i o, raws, merged⟩)
          | (merged, none) =>
            ({ mro := fun k => if k = cls then some mro else w.mro k,
               params := fun k n => if k = cls then lookupParam merged n else w.params k n },
             ⟨.ok, raws, merged⟩)
  | .addParam cls name decl =>
    match w.mro cls with
    | none => (w, ⟨.skipped, [], []⟩)
    | some m =>
      match construct rx opIdx name decl with
      | .error e => (w, ⟨.ctorError 0 e, [], []⟩)
      | .ok raw =>
        -- src: Parameters.add_parameter — type.__setattr__ first, then _initialize_parameter inside
        -- try/except: when the merge raises, the previous class attribute is restored (or the
        -- attribute deleted) before re-raising, so the class is left as it was
        let r := inherit rx opIdx name raw (w.supers m.tail name)
        if r.outcome == .ok then
          ({ w with params := fun k n => if k = cls ∧ n = name then some r.param else w.params k n },
           ⟨.ok, [(name, raw)], [(name, r)]⟩)
        else (w, ⟨.mergeError 0 r.outcome, [(name, raw)], [(name, r)]⟩)

def run (rx : String → String → Bool) : List Op → Nat → World → List StepObs → World × List StepObs
  | [], _, w, acc => (w, acc.reverse)
  | op :: rest, i, w, acc =>
    let (w', o) := step rx i w op
    run rx rest (i + 1) w' (o :: acc)

end ParamVerif.Inherit
