/-
C13 model: the `.param` namespace cache and Python attribute lookup.

Anchored code (param/parameterized.py, working tree of /repo):
  `Parameters._cls_parameters`, `Parameters.__getitem__/__contains__/__iter__`,
  `Parameters.objects`, `Parameters.values`, `Parameters.add_parameter`,
  `ParameterizedMetaclass.__setattr__`, `get_param_descriptor`,
  `_initialize_parameter` / `__param_inheritance` (bounds slot + re-validation only),
  `_instantiated_parameter`, `_instantiate_param_obj`, `instance_descriptor`,
  `Parameterized.__init__` / `_setup_params` (keyword arguments), `descendents`, `classlist`.

Parameters are identified by creation index (`PId`) and carry an explicit `default` (a small
integer) and an optional inclusive upper bound: `param.Integer(default=d, bounds=(None, hi))`
(a `Dynamic` Parameter type) or, isomorphically, `param.String(default=str(d), regex='^[0-hi]$')`
(not `Dynamic`); the two differ only in `values()` / serialisation (`instValuesDyn`).  Classes are indices; the
MRO of each class is data supplied with the history (`inspect.getmro` restricted to the classes of
the history; `param.Parameterized` and its `name` parameter are outside the model).

Validators that read the namespace *during* an assignment (the harness's `Nosy` Parameter kind) have
no step of their own: a read only fills a cache with the fresh walk, which is unobservable while the
invariant of Props/C13 holds (`nsView_eq`); the one place where it was observable on the real code (a failing `add_parameter`) is repaired
(7bbc787: the caches are cleared on that path too).

No imports other than Assoc: this file is loaded by the driver.
-/
import ParamVerif.Store.Assoc

namespace ParamVerif.Store.Namespace
open ParamVerif.Store

abbrev Name := String
abbrev PId := Nat
abbrev CId := Nat
abbrev IId := Nat

/-- a bound Parameter object: the slots the property can see -/
structure Param where
  default : Int
  /-- `bounds = (None, hi)`; `none` = `bounds is None` -/
  hi : Option Int
  deriving Repr, DecidableEq

structure Cls where
  /-- `inspect.getmro(cls)`: the class itself first (indices of modelled classes) -/
  mro : List CId
  /-- Parameter-valued entries of `cls.__dict__`, insertion order -/
  dict : List (Name × PId)
  /-- `cls._param__private.params`; `[]` = not computed (the code tests `if pdict:`) -/
  cache : List (Name × PId)
  deriving Repr, DecidableEq

structure Inst where
  cls : CId
  /-- `_param__private.values` -/
  values : List (Name × Int)
  /-- `_param__private.params`: per-instance Parameter copies -/
  iparams : List (Name × PId)
  deriving Repr, DecidableEq

structure St where
  heap : List Param
  classes : List Cls
  insts : List Inst
  deriving Repr, DecidableEq

inductive Res
  | ok
  /-- the name is not a Parameter there: plain Python attribute assignment, outside the model -/
  | skip
  | valueError | typeError | keyError
  /-- `__param_inheritance` re-validation failed inside `add_parameter` (the class is left as it was) -/
  | runtimeError
  /-- dangling class / instance / Parameter index: unreachable from well-formed states -/
  | stuck
  deriving Repr, DecidableEq

inductive Op
  /-- `list(C.param)` / `n in C.param` / `C.param[n]`: any namespace read on the class -/
  | read (c : CId)
  /-- `setattr(C, n, v)` with a non-Parameter value -/
  | clsSet (c : CId) (n : Name) (v : Int)
  /-- `C.param.add_parameter(n, param.Integer(default=d[, bounds=(None, hi)]))` -/
  | addParam (c : CId) (n : Name) (d : Int) (hi : Option Int)
  /-- `C(**kw)` -/
  | newInst (c : CId) (kw : List (Name × Int))
  /-- `setattr(obj, n, v)` -/
  | instSet (i : IId) (n : Name) (v : Int)
  /-- `obj.param[n]` -/
  | instParam (i : IId) (n : Name)
  /-- `with edit_constant(obj): pass` — a reader of the class namespace (`objects(instance=False)`)
  that must not write to it -/
  | instBlock (i : IId)
  /-- `C.param.watch(cb, [n])` / `obj.param.watch(cb, [n])` (then `unwatch`): watcher registration, a
  consumer of the namespace with a code path of its own (`_register_watcher`) -/
  | watchCls (c : CId) (n : Name)
  | watchInst (i : IId) (n : Name)
  /-- `setattr(C, n, P(default=d[, bound hi]))`: class-level assignment of a *Parameter object* -/
  | clsSetParam (c : CId) (n : Name) (d : Int) (hi : Option Int)
  deriving Repr, DecidableEq

/-! ### Attribute lookup -/

def clsDict (s : St) (c : CId) : List (Name × PId) :=
  match s.classes[c]? with | some k => k.dict | none => []

def mroOf (s : St) (c : CId) : List CId :=
  match s.classes[c]? with | some k => k.mro | none => []

/-- first class of the list whose `__dict__` holds a Parameter under the name -/
def findIn (s : St) : List CId → Name → Option (PId × CId)
  | [], _ => none
  | k :: ks, n =>
    match aget (clsDict s k) n with
    | some p => some (p, k)
    | none => findIn s ks n

/-- src: ParameterizedMetaclass.get_param_descriptor — also what Python's own attribute
lookup (`inspect.getattr_static`, descriptor invocation on `setattr`) finds -/
def descriptor (s : St) (c : CId) (n : Name) : Option (PId × CId) := findIn s (mroOf s c) n

/-- src: Parameters._cls_parameters, the uncached walk:
`for class_ in classlist(cls): for name, val in class_.__dict__.items(): paramdict[name] = val` -/
def computeParams (s : St) (c : CId) : List (Name × PId) :=
  (mroOf s c).reverse.foldl (fun acc k => amerge acc (clsDict s k)) []

/-- src: Parameters._cls_parameters (returns the cached dict if it is non-empty) -/
def nsRead (s : St) (c : CId) : St × List (Name × PId) :=
  match s.classes[c]? with
  | none => (s, [])
  | some k =>
    if k.cache ≠ [] then (s, k.cache)
    else
      let pd := computeParams s c
      ({ s with classes := s.classes.set c { k with cache := pd } }, pd)

/-- src: `for kls in descendents(cls): kls._param__private.params.clear()` —
the descendants of `c` are the classes that have `c` in their MRO -/
def clearDesc (s : St) (c : CId) : St :=
  { s with classes := s.classes.map fun k => if c ∈ k.mro then { k with cache := [] } else k }

def setDict (s : St) (c : CId) (n : Name) (p : PId) : St :=
  match s.classes[c]? with
  | none => s
  | some k => { s with classes := s.classes.set c { k with dict := aset k.dict n p } }

/-- `Integer._validate` for an int value: only the inclusive upper bound can fail -/
def Param.accepts (p : Param) (v : Int) : Bool :=
  match p.hi with | none => true | some h => decide (v ≤ h)

/-- src: __param_inheritance, `bounds` slot of a Parameter constructed without bounds: the first
class along `classlist(mcs)[::-1]` whose `__dict__[name]` is another Parameter supplies it (a bound
Parameter's `bounds` is never `Undefined`); `none` found = `_slot_defaults['bounds']` = `None` -/
def inheritedHi (s : St) (self : PId) : List CId → Name → Option Int
  | [], _ => none
  | k :: ks, n =>
    match aget (clsDict s k) n with
    | some p => if p = self then inheritedHi s self ks n
                else match s.heap[p]? with
                  | some q => q.hi
                  | none => none
    | none => inheritedHi s self ks n

/-- the `bounds` the new Parameter ends up with: its own, else the inherited ones -/
def resolvedHi (s : St) (self : PId) (mro : List CId) (n : Name) : Option Int → Option Int
  | some h => some h
  | none => inheritedHi s self mro n

/-- src: Parameterized.__init__/_setup_params keyword loop on an uninitialised instance:
`get_param_descriptor(name)` (TypeError when missing) then `setattr` → `Parameter.__set__`
on the class Parameter (no per-instance copy before `initialized`) -/
def applyKw (s : St) (c : CId) : List (Name × Int) → List (Name × Int) → Except Res (List (Name × Int))
  | [], vals => .ok vals
  | (n, v) :: kw, vals =>
    match descriptor s c n with
    | none => .error .typeError
    | some (p, _) =>
      match s.heap[p]? with
      | none => .error .stuck
      | some q => if q.accepts v then applyKw s c kw (aset vals n v) else .error .valueError

def setInst (s : St) (i : IId) (x : Inst) : St := { s with insts := s.insts.set i x }

/-- src: _instantiated_parameter on an initialised instance (`per_instance=True`): the copy is
created once and keyed by the Parameter's name -/
def instantiated (s : St) (i : IId) (x : Inst) (n : Name) (p : PId) : Except Res (St × PId) :=
  match aget x.iparams n with
  | some ip => .ok (s, ip)
  | none =>
    match s.heap[p]? with
    | none => .error .stuck
    | some q =>
      let ip := s.heap.length
      .ok (setInst { s with heap := s.heap ++ [q] } i { x with iparams := aset x.iparams n ip }, ip)

/-- src: Parameters.add_parameter -/
def addParamCore (s : St) (c : CId) (n : Name) (d : Int) (hi : Option Int) : St × Res :=
  -- src: Parameters.add_parameter
  match s.classes[c]? with
  | none => (s, .stuck)
  | some k =>
    -- `param.Integer(default=d, bounds=(None, hi))` validates its own default
    if !({ default := d, hi := hi } : Param).accepts d then (s, .valueError) else
    let p := s.heap.length
    -- type.__setattr__(cls, name, obj) runs first (remembering what was there) ...
    let s1 := setDict { s with heap := s.heap ++ [{ default := d, hi := hi }] } c n p
    -- ... then _initialize_parameter: slot inheritance, slots stored, re-validation
    let q : Param := { default := d, hi := resolvedHi s1 p k.mro n hi }
    if q.accepts d then (clearDesc { s1 with heap := s1.heap.set p q } c, .ok)
    else
      -- the re-validation raised: the previous class attribute is put back (or the new one
      -- deleted), the caches of the class and its descendants are cleared (a validator may have
      -- read the namespace meanwhile) and the exception re-raised; the Parameter object exists
      -- but is not installed
      (clearDesc { s with heap := s.heap ++ [q] } c, .runtimeError)

/-- one operation, as written -/
def step (s : St) : Op → St × Res
  | .read c => ((nsRead s c).1, .ok)
  | .clsSet c n v =>
    -- src: ParameterizedMetaclass.__setattr__
    match descriptor s c n with
    | none => (s, .skip)
    | some (p, owner) =>
      match s.heap[p]? with
      | none => (s, .stuck)
      | some q =>
        if owner = c then
          -- `mcs.__dict__[name].__set__(None, value)`: `_validate`, then `self.default = val`
          if q.accepts v then ({ s with heap := s.heap.set p { q with default := v } }, .ok)
          else (s, .valueError)
        else if q.accepts v then
          -- `owning_class != mcs`: copy.copy, type.__setattr__, clear the caches of mcs and its
          -- descendants, then `parameter.__set__(None, value)` on the copy
          let p' := s.heap.length
          let s1 := clearDesc (setDict { s with heap := s.heap ++ [q] } c n p') c
          ({ s1 with heap := s1.heap.set p' { q with default := v } }, .ok)
        else
          -- the copy's `__set__` raised and nothing was stored: `type.__delattr__` removes the copy
          -- again (the class goes on inheriting) and the caches are cleared a second time; the
          -- discarded copy is unreachable
          (clearDesc s c, .valueError)
  | .addParam c n d hi => addParamCore s c n d hi
  | .newInst c kw =>
    match s.classes[c]? with
    | none => (s, .stuck)
    | some _ =>
      -- `self.param.name` / `objects = self_._cls_parameters` read the namespace of the class
      let s1 := (nsRead s c).1
      match applyKw s1 c kw [] with
      | .error e => (s1, e)
      | .ok vals => ({ s1 with insts := s1.insts ++ [{ cls := c, values := vals, iparams := [] }] }, .ok)
  | .instSet i n v =>
    match s.insts[i]? with
    | none => (s, .stuck)
    | some x =>
      -- Python finds the class descriptor along type(obj).__mro__; instance_descriptor delegates
      -- to the per-instance copy, creating it from that descriptor when absent
      match descriptor s x.cls n with
      | none => (s, .skip)
      | some (p, _) =>
        match instantiated s i x n p with
        | .error e => (s, e)
        | .ok (s1, ip) =>
          match s1.heap[ip]?, s1.insts[i]? with
          | some q, some x1 =>
            if q.accepts v then (setInst s1 i { x1 with values := aset x1.values n v }, .ok)
            else (s1, .valueError)
          | _, _ => (s1, .stuck)
  | .instBlock i =>
    -- src: edit_constant: `kls_params = parameterized.param.objects(instance=False)`; the flags it
    -- flips and restores are not part of this model
    match s.insts[i]? with
    | none => (s, .stuck)
    | some x => ((nsRead s x.cls).1, .ok)
  | .watchCls c n =>
    -- src: Parameters._register_watcher: `if parameter_name not in self_.cls.param: raise ValueError`
    let (s1, pd) := nsRead s c
    (s1, if (aget pd n).isSome then .ok else .valueError)
  | .watchInst i n =>
    -- the membership test is against the namespace of the class; a value watcher of an instance lives
    -- in `obj._param__private.watchers` (no per-instance Parameter copy)
    match s.insts[i]? with
    | none => (s, .stuck)
    | some x =>
      let (s1, pd) := nsRead s x.cls
      (s1, if (aget pd n).isSome then .ok else .valueError)
  | .clsSetParam c n d hi =>
    -- src: ParameterizedMetaclass.__setattr__, `else` branch (6653662): a Parameter value takes the
    -- `add_parameter` path — install, name and merge, roll back when the merge is rejected, clear the
    -- caches of the class and its descendants
    addParamCore s c n d hi
  | .instParam i n =>
    -- src: Parameters.__getitem__: `p = self_.objects(instance=False)[key]`; `_instantiated_parameter(inst, p)`
    match s.insts[i]? with
    | none => (s, .stuck)
    | some x =>
      let (s1, pd) := nsRead s x.cls
      match aget pd n with
      | none => (s1, .keyError)
      | some p =>
        match instantiated s1 i x n p with
        | .error e => (s1, e)
        | .ok (s2, _) => (s2, .ok)


def run (s : St) (ops : List Op) : St := ops.foldl (fun s op => (step s op).1) s

/-! ### What the public API shows (pure views; a namespace read that fills a cache is `Op.read`) -/

/-- the dict `_cls_parameters` returns in this state -/
def nsView (s : St) (c : CId) : List (Name × PId) := (nsRead s c).2

/-- `inspect.getattr_static(C, n)` when it is a Parameter -/
def staticAttr (s : St) (c : CId) (n : Name) : Option PId := (descriptor s c n).map (·.1)

def defaultOf (s : St) (p : PId) : Option Int := (s.heap[p]?).map (·.default)

/-- `getattr(C, n)` for a Parameter attribute: `Parameter.__get__(None, C)` = its `default` -/
def clsAttr (s : St) (c : CId) (n : Name) : Option Int := (staticAttr s c n).bind (defaultOf s)

/-- `C.param[n].default` -/
def nsDefault (s : St) (c : CId) (n : Name) : Option Int := (aget (nsView s c) n).bind (defaultOf s)

/-- `C.param.values()[n]` / serialisation: names from the namespace, values from `getattr` -/
def clsValues (s : St) (c : CId) (n : Name) : Option Int :=
  match aget (nsView s c) n with | some _ => clsAttr s c n | none => none

/-- `obj.param.objects('existing')[n]`: the per-instance copy if one exists, else the namespace entry -/
def instExisting (s : St) (i : IId) (n : Name) : Option PId :=
  match s.insts[i]? with
  | none => none
  | some x => (aget x.iparams n).or (aget (nsView s x.cls) n)

/-- the Parameter that governs attribute access on the instance: `instance_descriptor`
delegates to the per-instance copy, else the descriptor found along the MRO -/
def instGoverning (s : St) (i : IId) (n : Name) : Option PId :=
  match s.insts[i]? with
  | none => none
  | some x => (aget x.iparams n).or (staticAttr s x.cls n)

/-- `getattr(obj, n)`: `Parameter.__get__` of the class descriptor: stored value else its default -/
def instAttr (s : St) (i : IId) (n : Name) : Option Int :=
  match s.insts[i]? with
  | none => none
  | some x =>
    match staticAttr s x.cls n with
    | none => none
    | some p => (aget x.values n).or (defaultOf s p)

/-- `obj.param.values()[n]` / serialisation -/
def instValues (s : St) (i : IId) (n : Name) : Option Int :=
  match instExisting s i n with | some _ => instAttr s i n | none => none

/-- `obj.param.values()[n]` / serialisation when the Parameter *type* is `Dynamic` (Number, Integer):
src Parameters.get_value_generator, last branch — the stored value, else the `default` of
`objects(instance=False).get(name, param_obj)`: the namespace entry of the class, falling back to
the Parameter object `objects('existing')` returned -/
def instValuesDyn (s : St) (i : IId) (n : Name) : Option Int :=
  match s.insts[i]? with
  | none => none
  | some x =>
    match instExisting s i n with
    | some p =>
      (aget x.values n).or (defaultOf s (match aget (nsView s x.cls) n with | some pc => pc | none => p))
    | none => none

/-- class level, `Dynamic` type: the namespace entry's `default` -/
def clsValuesDyn (s : St) (c : CId) (n : Name) : Option Int := nsDefault s c n

end ParamVerif.Store.Namespace
