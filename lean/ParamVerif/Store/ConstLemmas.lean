/-
Helper lemmas for C14 (Props/C14.lean): what each statement of the model can change.
-/
import ParamVerif.Store.ConstSpec

namespace ParamVerif.Store.Const
open ParamVerif.Store

/-! ### `setConst` touches one flag of one Parameter object -/

theorem setConst_length (h : List Param) (p : PId) (b : Bool) : (setConst h p b).length = h.length := by
  unfold setConst; split <;> simp

theorem setConst_get (h : List Param) (p p' : PId) (b : Bool) :
    (setConst h p b)[p']? = if p' = p then (h[p]?).map (fun q => { q with constant := b }) else h[p']? := by
  unfold setConst
  cases hp : h[p]? with
  | none =>
    simp only
    split
    · rename_i e; subst e; simp [hp]
    · rfl
  | some q =>
    simp only [List.getElem?_set]
    have hlt : p < h.length := (List.getElem?_eq_some_iff.1 hp).1
    by_cases e : p' = p
    · subst e; simp [hlt]
    · have e' : ¬ p = p' := fun x => e x.symm
      simp [e, e']

/-- the part of a Parameter object that `edit_constant` and flag edits never touch -/
def rd (q : Param) : Bool × Obj := (q.readonly, q.default)

theorem setConst_rd (h : List Param) (p p' : PId) (b : Bool) :
    ((setConst h p b)[p']?).map rd = (h[p']?).map rd := by
  rw [setConst_get]
  split
  · rename_i e; subst e; cases h[p']? <;> simp [rd]
  · rfl

theorem setConst_cst (h : List Param) (p p' : PId) (b : Bool) :
    ((setConst h p b)[p']?).map (·.constant) =
      if p' = p then ((h[p']?).map (·.constant)).map (fun _ => b) else (h[p']?).map (·.constant) := by
  rw [setConst_get]
  split
  · rename_i e; subst e; cases h[p']? <;> simp
  · rfl

/-! ### The frame every statement respects -/

/-- heaps of the same length whose Parameter objects agree on `readonly` and `default` -/
def SameRD (h h' : List Param) : Prop :=
  h'.length = h.length ∧ ∀ p : PId, (h'[p]?).map rd = (h[p]?).map rd

theorem SameRD.refl (h : List Param) : SameRD h h := ⟨rfl, fun _ => rfl⟩
theorem SameRD.trans {a b c : List Param} (h1 : SameRD a b) (h2 : SameRD b c) : SameRD a c :=
  ⟨h2.1.trans h1.1, fun p => (h2.2 p).trans (h1.2 p)⟩
theorem SameRD.setConst (h : List Param) (p : PId) (b : Bool) : SameRD h (setConst h p b) :=
  ⟨setConst_length h p b, fun p' => setConst_rd h p p' b⟩

/-- What no statement can do: shrink the heap, change a `readonly` flag, change the default of a
read-only Parameter object, drop an instance, move it to another class, replace one of its
per-instance Parameter copies, or hand out an old Parameter object as a new copy. -/
structure Frame (s s' : St) : Prop where
  len : s.heap.length ≤ s'.heap.length
  ro : ∀ (p : PId) (q : Param), s.heap[p]? = some q →
    ∃ q', s'.heap[p]? = some q' ∧ q'.readonly = q.readonly ∧ (q.readonly = true → q'.default = q.default)
  insts : ∀ (i : IId) (x : Inst), s.insts[i]? = some x →
    ∃ x', s'.insts[i]? = some x' ∧ x'.cls = x.cls ∧
      (∀ n ip, aget x.iparams n = some ip → aget x'.iparams n = some ip) ∧
      (∀ n ip, aget x.iparams n = none → aget x'.iparams n = some ip → s.heap.length ≤ ip)

theorem Frame.refl (s : St) : Frame s s :=
  ⟨Nat.le_refl _, fun _ q h => ⟨q, h, rfl, fun _ => rfl⟩,
   fun _ x h => ⟨x, h, rfl, fun _ _ h => h, fun n ip h1 h2 => by rw [h1] at h2; cases h2⟩⟩

theorem Frame.trans {a b c : St} (h1 : Frame a b) (h2 : Frame b c) : Frame a c := by
  refine ⟨Nat.le_trans h1.len h2.len, ?_, ?_⟩
  · intro p q hq
    obtain ⟨q1, hq1, r1, d1⟩ := h1.ro p q hq
    obtain ⟨q2, hq2, r2, d2⟩ := h2.ro p q1 hq1
    exact ⟨q2, hq2, r2.trans r1, fun hr => (d2 (r1.trans hr)).trans (d1 hr)⟩
  · intro i x hx
    obtain ⟨x1, hx1, c1, k1, f1⟩ := h1.insts i x hx
    obtain ⟨x2, hx2, c2, k2, f2⟩ := h2.insts i x1 hx1
    refine ⟨x2, hx2, c2.trans c1, fun n ip h => k2 n ip (k1 n ip h), ?_⟩
    intro n ip hn h2'
    cases h1' : aget x1.iparams n with
    | none => exact Nat.le_trans h1.len (f2 n ip h1' h2')
    | some ip1 =>
      have := k2 n ip1 h1'
      rw [this] at h2'
      cases h2'
      exact f1 n _ hn h1'

/-- only flags of Parameter objects changed -/
theorem Frame.of_heap {s : St} {h' : List Param} (hs : SameRD s.heap h') : Frame s { s with heap := h' } := by
  refine ⟨Nat.le_of_eq hs.1.symm, ?_, fun i x hx => ⟨x, hx, rfl, fun _ _ h => h, fun n ip h1 h2 => by rw [h1] at h2; cases h2⟩⟩
  intro p q hq
  have := hs.2 p
  rw [hq] at this
  cases hq' : h'[p]? with
  | none => simp [hq'] at this
  | some q' =>
    simp only [hq', Option.map_some, Option.some.injEq, rd, Prod.mk.injEq] at this
    exact ⟨q', rfl, this.1, fun _ => this.2⟩

/-- the `constant` flag of every Parameter object that already existed is unchanged -/
def ConstFrame (s s' : St) : Prop :=
  ∀ (p : PId) (q : Param), s.heap[p]? = some q → ∃ q', s'.heap[p]? = some q' ∧ q'.constant = q.constant

theorem ConstFrame.refl (s : St) : ConstFrame s s := fun _ q h => ⟨q, h, rfl⟩
theorem ConstFrame.trans {a b c : St} (h1 : ConstFrame a b) (h2 : ConstFrame b c) : ConstFrame a c := by
  intro p q hq
  obtain ⟨q1, hq1, c1⟩ := h1 p q hq
  obtain ⟨q2, hq2, c2⟩ := h2 p q1 hq1
  exact ⟨q2, hq2, c2.trans c1⟩

/-- both frames, from pointwise facts -/
theorem frames_of {s s' : St} (hh : ∀ (p : PId) (q : Param), s.heap[p]? = some q → s'.heap[p]? = some q)
    (hi : ∀ (i : IId) (x : Inst), s.insts[i]? = some x →
      ∃ x', s'.insts[i]? = some x' ∧ x'.cls = x.cls ∧
        (∀ n ip, aget x.iparams n = some ip → aget x'.iparams n = some ip) ∧
        (∀ n ip, aget x.iparams n = none → aget x'.iparams n = some ip → s.heap.length ≤ ip)) :
    Frame s s' ∧ ConstFrame s s' := by
  refine ⟨⟨?_, fun p q h => ⟨q, hh p q h, rfl, fun _ => rfl⟩, hi⟩, fun p q h => ⟨q, hh p q h, rfl⟩⟩
  -- the heap cannot have shrunk: its last element is still there
  rcases Nat.eq_zero_or_pos s.heap.length with h0 | hpos
  · omega
  · have hlt : s.heap.length - 1 < s.heap.length := by omega
    obtain ⟨q, hq⟩ : ∃ q, s.heap[s.heap.length - 1]? = some q := ⟨_, List.getElem?_eq_getElem hlt⟩
    have := (List.getElem?_eq_some_iff.1 (hh _ _ hq)).1
    omega

theorem insts_same {s : St} (i : IId) (x : Inst) (hx : s.insts[i]? = some x) :
    ∃ x', s.insts[i]? = some x' ∧ x'.cls = x.cls ∧
      (∀ n ip, aget x.iparams n = some ip → aget x'.iparams n = some ip) ∧
      (∀ n ip, aget x.iparams n = none → aget x'.iparams n = some ip → s.heap.length ≤ ip) :=
  ⟨x, hx, rfl, fun _ _ h => h, fun n ip h1 h2 => by rw [h1] at h2; cases h2⟩

theorem append_get {h : List Param} {q0 : Param} {p : PId} {q : Param} (hq : h[p]? = some q) :
    (h ++ [q0])[p]? = some q := by
  rw [List.getElem?_append_left (List.getElem?_eq_some_iff.1 hq).1]; exact hq

/-- what `_instantiated_parameter` does: nothing when the copy exists, else one new Parameter
object that is a copy of the one it was handed, registered under the name -/
theorem instantiated_spec {s s1 : St} {i : IId} {x x1 : Inst} {n : Name} {p ip : PId}
    (h : instantiated s i x n p = .ok (s1, x1, ip)) :
    (s1 = s ∧ x1 = x ∧ aget x.iparams n = some ip) ∨
    (∃ q, aget x.iparams n = none ∧ s.heap[p]? = some q ∧ ip = s.heap.length ∧
      x1 = { x with iparams := aset x.iparams n s.heap.length } ∧
      s1 = setInst { s with heap := s.heap ++ [q] } i x1) := by
  unfold instantiated at h
  split at h
  · rename_i ip0 h0
    simp only [Except.ok.injEq, Prod.mk.injEq] at h
    obtain ⟨rfl, rfl, rfl⟩ := h
    exact Or.inl ⟨rfl, rfl, h0⟩
  · rename_i h0
    split at h
    · cases h
    · rename_i q hq
      simp only [Except.ok.injEq, Prod.mk.injEq] at h
      obtain ⟨rfl, rfl, rfl⟩ := h
      exact Or.inr ⟨q, h0, hq, rfl, rfl, rfl⟩

theorem setInst_get (s : St) (i j : IId) (x : Inst) (hlt : i < s.insts.length) :
    (setInst s i x).insts[j]? = if j = i then some x else s.insts[j]? := by
  unfold setInst
  simp only [List.getElem?_set]
  by_cases e : j = i
  · subst e; simp [hlt]
  · have e' : ¬ i = j := fun h => e h.symm
    simp [e, e']

theorem instantiated_frames {s s1 : St} {i : IId} {x x1 : Inst} {n : Name} {p ip : PId}
    (hx : s.insts[i]? = some x) (h : instantiated s i x n p = .ok (s1, x1, ip)) :
    Frame s s1 ∧ ConstFrame s s1 ∧ s1.insts[i]? = some x1 ∧ s1.classes = s.classes ∧
      x1.cls = x.cls ∧ x1.values = x.values ∧ aget x1.iparams n = some ip ∧ s1.nextObj = s.nextObj := by
  rcases instantiated_spec h with ⟨rfl, rfl, h0⟩ | ⟨q, h0, hq, rfl, rfl, rfl⟩
  · exact ⟨Frame.refl _, ConstFrame.refl _, hx, rfl, rfl, rfl, h0, rfl⟩
  · have hlt : i < s.insts.length := (List.getElem?_eq_some_iff.1 hx).1
    have fr := frames_of (s := s)
      (s' := setInst { s with heap := s.heap ++ [q] } i { x with iparams := aset x.iparams n s.heap.length })
      (fun p q' h' => append_get h') (by
        intro j y hy
        rw [setInst_get { s with heap := s.heap ++ [q] } i j _ hlt]
        by_cases e : j = i
        · rw [if_pos e]
          rw [e, hx] at hy
          cases hy
          refine ⟨{ x with iparams := aset x.iparams n s.heap.length }, rfl, rfl, ?_, ?_⟩
          · intro m ipm hm
            show aget (aset x.iparams n s.heap.length) m = some ipm
            rw [aget_aset]
            split
            · rename_i e; subst e; rw [h0] at hm; cases hm
            · exact hm
          · intro m ipm hm hm'
            have hm'' : aget (aset x.iparams n s.heap.length) m = some ipm := hm'
            rw [aget_aset] at hm''
            split at hm''
            · cases hm''; exact Nat.le_refl _
            · rw [hm] at hm''; cases hm''
        · rw [if_neg e]
          exact insts_same (s := s) j y hy)
    refine ⟨fr.1, fr.2, ?_, rfl, rfl, rfl, ?_, rfl⟩
    · rw [setInst_get { s with heap := s.heap ++ [q] } i i _ hlt]; simp
    · exact aget_aset_self _ _ _

/-- the guarded store never touches a Parameter object or a class -/
theorem guardedStore_spec (s : St) (i : IId) (x : Inst) (n : Name) (ip : PId) (v : Obj) :
    (guardedStore s i x n ip v).1 = s ∨
    ((guardedStore s i x n ip v).1 = setInst s i { x with values := aset x.values n v } ∧
      (guardedStore s i x n ip v).2 = .ok ∧
      ∃ q, s.heap[ip]? = some q ∧ q.constant = false ∧ q.readonly = false) := by
  unfold guardedStore
  cases hq : s.heap[ip]? with
  | none => exact Or.inl rfl
  | some q =>
    dsimp only
    by_cases hf : (q.constant || q.readonly) = true
    · rw [if_pos hf]
      by_cases hr : q.readonly = true
      · rw [if_pos hr]; exact Or.inl rfl
      · rw [if_neg hr]
        split <;> (split <;> exact Or.inl rfl)
    · rw [if_neg hf]
      simp only [Bool.or_eq_true, not_or, Bool.not_eq_true] at hf
      exact Or.inr ⟨rfl, rfl, q, rfl, hf.1, hf.2⟩

theorem setInst_values_frames {s : St} {i : IId} {x : Inst} (hx : s.insts[i]? = some x) (vals : List (Name × Obj)) :
    Frame s (setInst s i { x with values := vals }) ∧ ConstFrame s (setInst s i { x with values := vals }) := by
  have hlt : i < s.insts.length := (List.getElem?_eq_some_iff.1 hx).1
  apply frames_of
  · intro p q h; exact h
  · intro j y hy
    rw [setInst_get _ _ _ _ hlt]
    by_cases e : j = i
    · rw [if_pos e]
      rw [e, hx] at hy
      cases hy
      exact ⟨{ x with values := vals }, rfl, rfl, fun _ _ h => h, fun n ip h1 h2 => by
        have h2' : aget x.iparams n = some ip := h2
        rw [h1] at h2'; cases h2'⟩
    · rw [if_neg e]
      exact insts_same j y hy

theorem guardedStore_frames {s : St} {i : IId} {x : Inst} (hx : s.insts[i]? = some x) (n : Name) (ip : PId) (v : Obj) :
    Frame s (guardedStore s i x n ip v).1 ∧ ConstFrame s (guardedStore s i x n ip v).1 ∧
      (guardedStore s i x n ip v).1.classes = s.classes := by
  rcases guardedStore_spec s i x n ip v with h | ⟨h, _, _⟩
  · rw [h]; exact ⟨Frame.refl _, ConstFrame.refl _, rfl⟩
  · rw [h]; exact ⟨(setInst_values_frames hx _).1, (setInst_values_frames hx _).2, rfl⟩

theorem instSetCore_frames (s : St) (i : IId) (n : Name) (v : Obj) :
    Frame s (instSetCore s i n v).1 ∧ ConstFrame s (instSetCore s i n v).1 ∧
      (instSetCore s i n v).1.classes = s.classes := by
  unfold instSetCore
  split
  · exact ⟨Frame.refl _, ConstFrame.refl _, rfl⟩
  · rename_i x hx
    split
    · exact ⟨Frame.refl _, ConstFrame.refl _, rfl⟩
    · split
      · exact ⟨Frame.refl _, ConstFrame.refl _, rfl⟩
      · rename_i s1 x1 ip hin
        obtain ⟨f1, c1, hx1, hc1, _⟩ := instantiated_frames hx hin
        obtain ⟨f2, c2, hc2⟩ := guardedStore_frames hx1 n ip v
        exact ⟨f1.trans f2, c1.trans c2, hc2.trans hc1⟩

theorem getParamCore_frames {s s1 : St} {i : IId} {n : Name} {ip : PId} (h : getParamCore s i n = .ok (s1, ip)) :
    Frame s s1 ∧ ConstFrame s s1 ∧ s1.classes = s.classes := by
  unfold getParamCore at h
  split at h
  · cases h
  · rename_i x hx
    split at h
    · cases h
    · split at h
      · cases h
      · rename_i s2 x2 ip2 hin
        simp only [Except.ok.injEq, Prod.mk.injEq] at h
        obtain ⟨rfl, rfl⟩ := h
        obtain ⟨f1, c1, _, hc1, _⟩ := instantiated_frames hx hin
        exact ⟨f1, c1, hc1⟩

theorem touchKeys_frames (i : IId) (kvs : List (Name × Obj)) (s : St) :
    Frame s (touchKeys s i kvs) ∧ ConstFrame s (touchKeys s i kvs) ∧ (touchKeys s i kvs).classes = s.classes := by
  induction kvs generalizing s with
  | nil => exact ⟨Frame.refl _, ConstFrame.refl _, rfl⟩
  | cons kv kvs ih =>
    obtain ⟨k, v⟩ := kv
    simp only [touchKeys]
    split
    · rename_i s1 ip hg
      obtain ⟨f1, c1, h1⟩ := getParamCore_frames hg
      obtain ⟨f2, c2, h2⟩ := ih s1
      exact ⟨f1.trans f2, c1.trans c2, h2.trans h1⟩
    · exact ih s

theorem applyKeys_frames (i : IId) (kvs : List (Name × Obj)) (s : St) :
    Frame s (applyKeys s i kvs).1 ∧ ConstFrame s (applyKeys s i kvs).1 ∧ (applyKeys s i kvs).1.classes = s.classes := by
  induction kvs generalizing s with
  | nil => exact ⟨Frame.refl _, ConstFrame.refl _, rfl⟩
  | cons kv kvs ih =>
    obtain ⟨k, v⟩ := kv
    simp only [applyKeys]
    split
    · exact ⟨Frame.refl _, ConstFrame.refl _, rfl⟩
    · split
      · exact ⟨Frame.refl _, ConstFrame.refl _, rfl⟩
      · have h0 := instSetCore_frames s i k v
        cases hres : instSetCore s i k v with
        | mk s1 r =>
          rw [hres] at h0
          cases r
          case ok =>
            obtain ⟨f2, c2, h2⟩ := ih s1
            exact ⟨h0.1.trans f2, h0.2.1.trans c2, h2.trans h0.2.2⟩
          all_goals exact h0

end ParamVerif.Store.Const
