/-
Helper lemmas for C14 (Props/C14.lean): what each statement of the model can change.
-/
import ParamVerif.Store.ConstSpec

namespace ParamVerif.Store.Const
open ParamVerif.Store

/-! ### `setConst` touches one flag of one Parameter object -/

theorem setConst_length (h : List Param) (p : PId) (b : Bool) : (setConst h p b).length = h.length := by
  unfold setConst; split <;> simp

theorem setConst_get (h : List Param) (p p' : PId) (b : Bool) :
    (setConst h p b)[p']? = if p' = p then (h[p]?).map (fun q => { q with constant := b }) else h[p']? := by
  unfold setConst
  cases hp : h[p]? with
  | none =>
    simp only
    split
    · rename_i e; subst e; simp [hp]
    · rfl
  | some q =>
    simp only [List.getElem?_set]
    have hlt : p < h.length := (List.getElem?_eq_some_iff.1 hp).1
    by_cases e : p' = p
    · subst e; simp [hlt]
    · have e' : ¬ p = p' := fun x => e x.symm
      simp [e, e']

/-- the part of a Parameter object that `edit_constant` and flag edits never touch -/
def rd (q : Param) : Bool × Obj := (q.readonly, q.default)

theorem setConst_rd (h : List Param) (p p' : PId) (b : Bool) :
    ((setConst h p b)[p']?).map rd = (h[p']?).map rd := by
  rw [setConst_get]
  split
  · rename_i e; subst e; cases h[p']? <;> simp [rd]
  · rfl

theorem setConst_cst (h : List Param) (p p' : PId) (b : Bool) :
    ((setConst h p b)[p']?).map (·.constant) =
      if p' = p then ((h[p']?).map (·.constant)).map (fun _ => b) else (h[p']?).map (·.constant) := by
  rw [setConst_get]
  split
  · rename_i e; subst e; cases h[p']? <;> simp
  · rfl

/-! ### The frame every statement respects -/

/-- heaps of the same length whose Parameter objects agree on `readonly` and `default` -/
def SameRD (h h' : List Param) : Prop :=
  h'.length = h.length ∧ ∀ p : PId, (h'[p]?).map rd = (h[p]?).map rd

theorem SameRD.refl (h : List Param) : SameRD h h := ⟨rfl, fun _ => rfl⟩
theorem SameRD.trans {a b c : List Param} (h1 : SameRD a b) (h2 : SameRD b c) : SameRD a c :=
  ⟨h2.1.trans h1.1, fun p => (h2.2 p).trans (h1.2 p)⟩
theorem SameRD.setConst (h : List Param) (p : PId) (b : Bool) : SameRD h (setConst h p b) :=
  ⟨setConst_length h p b, fun p' => setConst_rd h p p' b⟩

/-- What no statement can do: shrink the heap, change a `readonly` flag, change the default of a
read-only Parameter object, drop an instance, move it to another class, replace one of its
per-instance Parameter copies, or hand out an old Parameter object as a new copy. -/
structure Frame (s s' : St) : Prop where
  len : s.heap.length ≤ s'.heap.length
  ro : ∀ (p : PId) (q : Param), s.heap[p]? = some q →
    ∃ q', s'.heap[p]? = some q' ∧ q'.readonly = q.readonly ∧ (q.readonly = true → q'.default = q.default)
  insts : ∀ (i : IId) (x : Inst), s.insts[i]? = some x →
    ∃ x', s'.insts[i]? = some x' ∧ x'.cls = x.cls ∧
      (∀ n ip, aget x.iparams n = some ip → aget x'.iparams n = some ip) ∧
      (∀ n ip, aget x.iparams n = none → aget x'.iparams n = some ip → s.heap.length ≤ ip)

theorem Frame.refl (s : St) : Frame s s :=
  ⟨Nat.le_refl _, fun _ q h => ⟨q, h, rfl, fun _ => rfl⟩,
   fun _ x h => ⟨x, h, rfl, fun _ _ h => h, fun n ip h1 h2 => by rw [h1] at h2; cases h2⟩⟩

theorem Frame.trans {a b c : St} (h1 : Frame a b) (h2 : Frame b c) : Frame a c := by
  refine ⟨Nat.le_trans h1.len h2.len, ?_, ?_⟩
  · intro p q hq
    obtain ⟨q1, hq1, r1, d1⟩ := h1.ro p q hq
    obtain ⟨q2, hq2, r2, d2⟩ := h2.ro p q1 hq1
    exact ⟨q2, hq2, r2.trans r1, fun hr => (d2 (r1.trans hr)).trans (d1 hr)⟩
  · intro i x hx
    obtain ⟨x1, hx1, c1, k1, f1⟩ := h1.insts i x hx
    obtain ⟨x2, hx2, c2, k2, f2⟩ := h2.insts i x1 hx1
    refine ⟨x2, hx2, c2.trans c1, fun n ip h => k2 n ip (k1 n ip h), ?_⟩
    intro n ip hn h2'
    cases h1' : aget x1.iparams n with
    | none => exact Nat.le_trans h1.len (f2 n ip h1' h2')
    | some ip1 =>
      have := k2 n ip1 h1'
      rw [this] at h2'
      cases h2'
      exact f1 n _ hn h1'

/-- only flags of Parameter objects changed -/
theorem Frame.of_heap {s : St} {h' : List Param} (hs : SameRD s.heap h') : Frame s { s with heap := h' } := by
  refine ⟨Nat.le_of_eq hs.1.symm, ?_, fun i x hx => ⟨x, hx, rfl, fun _ _ h => h, fun n ip h1 h2 => by rw [h1] at h2; cases h2⟩⟩
  intro p q hq
  have := hs.2 p
  rw [hq] at this
  cases hq' : h'[p]? with
  | none => simp [hq'] at this
  | some q' =>
    simp only [hq', Option.map_some, Option.some.injEq, rd, Prod.mk.injEq] at this
    exact ⟨q', rfl, this.1, fun _ => this.2⟩

/-- the `constant` flag of every Parameter object that already existed is unchanged -/
def ConstFrame (s s' : St) : Prop :=
  ∀ (p : PId) (q : Param), s.heap[p]? = some q → ∃ q', s'.heap[p]? = some q' ∧ q'.constant = q.constant

theorem ConstFrame.refl (s : St) : ConstFrame s s := fun _ q h => ⟨q, h, rfl⟩
theorem ConstFrame.trans {a b c : St} (h1 : ConstFrame a b) (h2 : ConstFrame b c) : ConstFrame a c := by
  intro p q hq
  obtain ⟨q1, hq1, c1⟩ := h1 p q hq
  obtain ⟨q2, hq2, c2⟩ := h2 p q1 hq1
  exact ⟨q2, hq2, c2.trans c1⟩

/-- both frames, from pointwise facts -/
theorem frames_of {s s' : St} (hh : ∀ (p : PId) (q : Param), s.heap[p]? = some q → s'.heap[p]? = some q)
    (hi : ∀ (i : IId) (x : Inst), s.insts[i]? = some x →
      ∃ x', s'.insts[i]? = some x' ∧ x'.cls = x.cls ∧
        (∀ n ip, aget x.iparams n = some ip → aget x'.iparams n = some ip) ∧
        (∀ n ip, aget x.iparams n = none → aget x'.iparams n = some ip → s.heap.length ≤ ip)) :
    Frame s s' ∧ ConstFrame s s' := by
  refine ⟨⟨?_, fun p q h => ⟨q, hh p q h, rfl, fun _ => rfl⟩, hi⟩, fun p q h => ⟨q, hh p q h, rfl⟩⟩
  -- the heap cannot have shrunk: its last element is still there
  rcases Nat.eq_zero_or_pos s.heap.length with h0 | hpos
  · omega
  · have hlt : s.heap.length - 1 < s.heap.length := by omega
    obtain ⟨q, hq⟩ : ∃ q, s.heap[s.heap.length - 1]? = some q := ⟨_, List.getElem?_eq_getElem hlt⟩
    have := (List.getElem?_eq_some_iff.1 (hh _ _ hq)).1
    omega

theorem insts_same {s : St} (i : IId) (x : Inst) (hx : s.insts[i]? = some x) :
    ∃ x', s.insts[i]? = some x' ∧ x'.cls = x.cls ∧
      (∀ n ip, aget x.iparams n = some ip → aget x'.iparams n = some ip) ∧
      (∀ n ip, aget x.iparams n = none → aget x'.iparams n = some ip → s.heap.length ≤ ip) :=
  ⟨x, hx, rfl, fun _ _ h => h, fun n ip h1 h2 => by rw [h1] at h2; cases h2⟩

theorem append_get {h : List Param} {q0 : Param} {p : PId} {q : Param} (hq : h[p]? = some q) :
    (h ++ [q0])[p]? = some q := by
  rw [List.getElem?_append_left (List.getElem?_eq_some_iff.1 hq).1]; exact hq

/-- what `_instantiated_parameter` does: nothing when the copy exists, else one new Parameter
object that is a copy of the one it was handed, registered under the name -/
theorem instantiated_spec {s s1 : St} {i : IId} {x x1 : Inst} {n : Name} {p ip : PId}
    (h : instantiated s i x n p = .ok (s1, x1, ip)) :
    (s1 = s ∧ x1 = x ∧ aget x.iparams n = some ip) ∨
    (∃ q, aget x.iparams n = none ∧ s.heap[p]? = some q ∧ ip = s.heap.length ∧
      x1 = { x with iparams := aset x.iparams n s.heap.length } ∧
      s1 = setInst { s with heap := s.heap ++ [q] } i x1) := by
  unfold instantiated at h
  split at h
  · rename_i ip0 h0
    simp only [Except.ok.injEq, Prod.mk.injEq] at h
    obtain ⟨rfl, rfl, rfl⟩ := h
    exact Or.inl ⟨rfl, rfl, h0⟩
  · rename_i h0
    split at h
    · cases h
    · rename_i q hq
      simp only [Except.ok.injEq, Prod.mk.injEq] at h
      obtain ⟨rfl, rfl, rfl⟩ := h
      exact Or.inr ⟨q, h0, hq, rfl, rfl, rfl⟩

theorem setInst_get (s : St) (i j : IId) (x : Inst) (hlt : i < s.insts.length) :
    (setInst s i x).insts[j]? = if j = i then some x else s.insts[j]? := by
  unfold setInst
  simp only [List.getElem?_set]
  by_cases e : j = i
  · subst e; simp [hlt]
  · have e' : ¬ i = j := fun h => e h.symm
    simp [e, e']

theorem instantiated_frames {s s1 : St} {i : IId} {x x1 : Inst} {n : Name} {p ip : PId}
    (hx : s.insts[i]? = some x) (h : instantiated s i x n p = .ok (s1, x1, ip)) :
    Frame s s1 ∧ ConstFrame s s1 ∧ s1.insts[i]? = some x1 ∧ s1.classes = s.classes ∧
      x1.cls = x.cls ∧ x1.values = x.values ∧ aget x1.iparams n = some ip ∧ s1.nextObj = s.nextObj := by
  rcases instantiated_spec h with ⟨rfl, rfl, h0⟩ | ⟨q, h0, hq, rfl, rfl, rfl⟩
  · exact ⟨Frame.refl _, ConstFrame.refl _, hx, rfl, rfl, rfl, h0, rfl⟩
  · have hlt : i < s.insts.length := (List.getElem?_eq_some_iff.1 hx).1
    have fr := frames_of (s := s)
      (s' := setInst { s with heap := s.heap ++ [q] } i { x with iparams := aset x.iparams n s.heap.length })
      (fun p q' h' => append_get h') (by
        intro j y hy
        rw [setInst_get { s with heap := s.heap ++ [q] } i j _ hlt]
        by_cases e : j = i
        · rw [if_pos e]
          rw [e, hx] at hy
          cases hy
          refine ⟨{ x with iparams := aset x.iparams n s.heap.length }, rfl, rfl, ?_, ?_⟩
          · intro m ipm hm
            show aget (aset x.iparams n s.heap.length) m = some ipm
            rw [aget_aset]
            split
            · rename_i e; subst e; rw [h0] at hm; cases hm
            · exact hm
          · intro m ipm hm hm'
            have hm'' : aget (aset x.iparams n s.heap.length) m = some ipm := hm'
            rw [aget_aset] at hm''
            split at hm''
            · cases hm''; exact Nat.le_refl _
            · rw [hm] at hm''; cases hm''
        · rw [if_neg e]
          exact insts_same (s := s) j y hy)
    refine ⟨fr.1, fr.2, ?_, rfl, rfl, rfl, ?_, rfl⟩
    · rw [setInst_get { s with heap := s.heap ++ [q] } i i _ hlt]; simp
    · exact aget_aset_self _ _ _

/-- the guarded store never touches a Parameter object or a class -/
theorem guardedStore_spec (s : St) (i : IId) (x : Inst) (n : Name) (ip : PId) (v : Obj) :
    (guardedStore s i x n ip v).1 = s ∨
    ((guardedStore s i x n ip v).1 = setInst s i { x with values := aset x.values n v } ∧
      (guardedStore s i x n ip v).2 = .ok ∧
      ∃ q, s.heap[ip]? = some q ∧ q.constant = false ∧ q.readonly = false) := by
  unfold guardedStore
  cases hq : s.heap[ip]? with
  | none => exact Or.inl rfl
  | some q =>
    dsimp only
    by_cases hrj : rejects s q v = true
    · rw [if_pos hrj]; exact Or.inl rfl
    rw [if_neg hrj]
    by_cases hf : (q.constant || q.readonly) = true
    · rw [if_pos hf]
      by_cases hr : q.readonly = true
      · rw [if_pos hr]; exact Or.inl rfl
      · rw [if_neg hr]
        split <;> exact Or.inl rfl
    · rw [if_neg hf]
      simp only [Bool.or_eq_true, not_or, Bool.not_eq_true] at hf
      exact Or.inr ⟨rfl, rfl, q, rfl, hf.1, hf.2⟩

theorem setInst_values_frames {s : St} {i : IId} {x : Inst} (hx : s.insts[i]? = some x) (vals : List (Name × Obj)) :
    Frame s (setInst s i { x with values := vals }) ∧ ConstFrame s (setInst s i { x with values := vals }) := by
  have hlt : i < s.insts.length := (List.getElem?_eq_some_iff.1 hx).1
  apply frames_of
  · intro p q h; exact h
  · intro j y hy
    rw [setInst_get _ _ _ _ hlt]
    by_cases e : j = i
    · rw [if_pos e]
      rw [e, hx] at hy
      cases hy
      exact ⟨{ x with values := vals }, rfl, rfl, fun _ _ h => h, fun n ip h1 h2 => by
        have h2' : aget x.iparams n = some ip := h2
        rw [h1] at h2'; cases h2'⟩
    · rw [if_neg e]
      exact insts_same j y hy

theorem guardedStore_frames {s : St} {i : IId} {x : Inst} (hx : s.insts[i]? = some x) (n : Name) (ip : PId) (v : Obj) :
    Frame s (guardedStore s i x n ip v).1 ∧ ConstFrame s (guardedStore s i x n ip v).1 ∧
      (guardedStore s i x n ip v).1.classes = s.classes := by
  rcases guardedStore_spec s i x n ip v with h | ⟨h, _, _⟩
  · rw [h]; exact ⟨Frame.refl _, ConstFrame.refl _, rfl⟩
  · rw [h]; exact ⟨(setInst_values_frames hx _).1, (setInst_values_frames hx _).2, rfl⟩

theorem instSetCore_frames (s : St) (i : IId) (n : Name) (v : Obj) :
    Frame s (instSetCore s i n v).1 ∧ ConstFrame s (instSetCore s i n v).1 ∧
      (instSetCore s i n v).1.classes = s.classes := by
  unfold instSetCore
  split
  · exact ⟨Frame.refl _, ConstFrame.refl _, rfl⟩
  · rename_i x hx
    split
    · exact ⟨Frame.refl _, ConstFrame.refl _, rfl⟩
    · split
      · exact ⟨Frame.refl _, ConstFrame.refl _, rfl⟩
      · rename_i s1 x1 ip hin
        obtain ⟨f1, c1, hx1, hc1, _⟩ := instantiated_frames hx hin
        obtain ⟨f2, c2, hc2⟩ := guardedStore_frames hx1 n ip v
        exact ⟨f1.trans f2, c1.trans c2, hc2.trans hc1⟩

theorem getParamCore_frames {s s1 : St} {i : IId} {n : Name} {ip : PId} (h : getParamCore s i n = .ok (s1, ip)) :
    Frame s s1 ∧ ConstFrame s s1 ∧ s1.classes = s.classes := by
  unfold getParamCore at h
  split at h
  · cases h
  · rename_i x hx
    split at h
    · cases h
    · split at h
      · cases h
      · rename_i s2 x2 ip2 hin
        simp only [Except.ok.injEq, Prod.mk.injEq] at h
        obtain ⟨rfl, rfl⟩ := h
        obtain ⟨f1, c1, _, hc1, _⟩ := instantiated_frames hx hin
        exact ⟨f1, c1, hc1⟩

theorem touchKeys_frames (i : IId) (kvs : List (Name × Obj)) (s : St) :
    Frame s (touchKeys s i kvs) ∧ ConstFrame s (touchKeys s i kvs) ∧ (touchKeys s i kvs).classes = s.classes := by
  induction kvs generalizing s with
  | nil => exact ⟨Frame.refl _, ConstFrame.refl _, rfl⟩
  | cons kv kvs ih =>
    obtain ⟨k, v⟩ := kv
    simp only [touchKeys]
    split
    · rename_i s1 ip hg
      obtain ⟨f1, c1, h1⟩ := getParamCore_frames hg
      obtain ⟨f2, c2, h2⟩ := ih s1
      exact ⟨f1.trans f2, c1.trans c2, h2.trans h1⟩
    · exact ih s

theorem applyKeys_frames (i : IId) (kvs : List (Name × Obj)) (s : St) :
    Frame s (applyKeys s i kvs).1 ∧ ConstFrame s (applyKeys s i kvs).1 ∧ (applyKeys s i kvs).1.classes = s.classes := by
  induction kvs generalizing s with
  | nil => exact ⟨Frame.refl _, ConstFrame.refl _, rfl⟩
  | cons kv kvs ih =>
    obtain ⟨k, v⟩ := kv
    simp only [applyKeys]
    split
    · exact ⟨Frame.refl _, ConstFrame.refl _, rfl⟩
    · split
      · exact ⟨Frame.refl _, ConstFrame.refl _, rfl⟩
      · have h0 := instSetCore_frames s i k v
        cases hres : instSetCore s i k v with
        | mk s1 r =>
          rw [hres] at h0
          cases r
          case ok =>
            obtain ⟨f2, c2, h2⟩ := ih s1
            exact ⟨h0.1.trans f2, h0.2.1.trans c2, h2.trans h0.2.2⟩
          all_goals exact h0

/-! ### `edit_constant`: what the entry and the `finally` clause do to the flags -/

def cst (h : List Param) (p : PId) : Option Bool := (h[p]?).map (·.constant)

/-- set the `constant` flag of each listed Parameter object -/
def foldConst (b : Bool) (l : List PId) (h : List Param) : List Param := l.foldl (fun h p => setConst h p b) h

theorem foldConst_sameRD (b : Bool) (l : List PId) (h : List Param) : SameRD h (foldConst b l h) := by
  unfold foldConst
  induction l generalizing h with
  | nil => exact SameRD.refl h
  | cons p l ih => simp only [List.foldl_cons]; exact (SameRD.setConst h p b).trans (ih _)

theorem foldConst_cst (b : Bool) (l : List PId) (h : List Param) (p : PId) :
    cst (foldConst b l h) p = if p ∈ l then (cst h p).map (fun _ => b) else cst h p := by
  unfold foldConst
  induction l generalizing h with
  | nil => simp
  | cons p0 l ih =>
    simp only [List.foldl_cons]
    rw [ih]
    have h1 : cst (setConst h p0 b) p = if p = p0 then (cst h p).map (fun _ => b) else cst h p := by
      unfold cst; exact setConst_cst h p0 p b
    rw [h1]
    by_cases e : p = p0
    · subst e
      simp only [List.mem_cons, true_or, if_true]
      split <;> cases cst h p <;> simp
    · simp only [e, if_false, List.mem_cons, false_or]

/-- the Parameter objects the `finally` clause sets to `constant=True`: every remembered one, and
the per-instance copy registered under its name when that is another object -/
def touched (ipar : List (Name × PId)) (upd : List (Name × PId)) : List PId :=
  upd.flatMap fun np => np.2 :: (match aget ipar np.1 with
    | some ip => if ip ≠ np.2 then [ip] else []
    | none => [])

theorem entry_heap (s : St) (x : Inst) :
    (blockEntry s x).1.heap = foldConst false ((blockEntry s x).2.map (·.2)) s.heap := by
  unfold blockEntry foldConst
  simp only [List.foldl_map]

theorem entry_rest (s : St) (x : Inst) :
    (blockEntry s x).1.insts = s.insts ∧ (blockEntry s x).1.classes = s.classes ∧
      (blockEntry s x).1.nextObj = s.nextObj := ⟨rfl, rfl, rfl⟩

theorem entry_mem {s : St} {x : Inst} {n : Name} {p : PId} (h : (n, p) ∈ (blockEntry s x).2) :
    pobjOf s x n = some p ∧ ∃ q, s.heap[p]? = some q ∧ q.constant = true := by
  unfold blockEntry at h
  simp only [List.mem_filter, List.mem_filterMap] at h
  obtain ⟨⟨n', _, hn'⟩, hc⟩ := h
  cases hp : pobjOf s x n' with
  | none => simp [hp] at hn'
  | some p' =>
    simp only [hp, Option.map_some, Option.some.injEq, Prod.mk.injEq] at hn'
    obtain ⟨rfl, rfl⟩ := hn'
    refine ⟨hp, ?_⟩
    cases hq : s.heap[p']? with
    | none => simp [hq] at hc
    | some q => simp only [hq] at hc; exact ⟨q, rfl, hc⟩

theorem exit_heap (s : St) (i : IId) (upd : List (Name × PId)) :
    (blockExit s i upd).heap = foldConst true (touched (iparamsOf s i) upd) s.heap := by
  unfold blockExit
  simp only
  generalize iparamsOf s i = ipar
  generalize s.heap = h
  unfold foldConst touched
  induction upd generalizing h with
  | nil => rfl
  | cons np upd ih =>
    simp only [List.foldl_cons, List.flatMap_cons, List.foldl_append]
    rw [ih]
    congr 1
    unfold exitStep
    cases aget ipar np.1 with
    | none => rfl
    | some ip =>
      simp only
      split <;> rfl

theorem exit_rest (s : St) (i : IId) (upd : List (Name × PId)) :
    (blockExit s i upd).insts = s.insts ∧ (blockExit s i upd).classes = s.classes ∧
      (blockExit s i upd).nextObj = s.nextObj := ⟨rfl, rfl, rfl⟩

theorem frame_entry (s : St) (x : Inst) : Frame s (blockEntry s x).1 := by
  have h : (blockEntry s x).1 = { s with heap := (blockEntry s x).1.heap } := rfl
  rw [h, entry_heap]
  exact Frame.of_heap (foldConst_sameRD _ _ _)

theorem frame_exit (s : St) (i : IId) (upd : List (Name × PId)) : Frame s (blockExit s i upd) := by
  have h : blockExit s i upd = { s with heap := (blockExit s i upd).heap } := rfl
  rw [h, exit_heap]
  exact Frame.of_heap (foldConst_sameRD _ _ _)

/-- **the heart of `edit_constant`**: whatever the body does — provided it respects the two frames —
after the `finally` clause every Parameter object that existed at entry has its `constant` flag back -/
theorem block_constFrame {s s2 : St} {i : IId} {x : Inst} (hx : s.insts[i]? = some x)
    (hf : Frame (blockEntry s x).1 s2) (hc : ConstFrame (blockEntry s x).1 s2) :
    ConstFrame s (blockExit s2 i (blockEntry s x).2) := by
  intro p q hq
  have hlt : p < s.heap.length := (List.getElem?_eq_some_iff.1 hq).1
  -- the three heaps at p
  have e1 : cst (blockEntry s x).1.heap p =
      if p ∈ (blockEntry s x).2.map (·.2) then (cst s.heap p).map (fun _ => false) else cst s.heap p := by
    rw [entry_heap]; exact foldConst_cst _ _ _ _
  have hlen1 : (blockEntry s x).1.heap.length = s.heap.length := by
    rw [entry_heap]; exact (foldConst_sameRD _ _ _).1
  obtain ⟨q1, hq1⟩ : ∃ q1, (blockEntry s x).1.heap[p]? = some q1 :=
    ⟨_, List.getElem?_eq_getElem (by rw [hlen1]; exact hlt)⟩
  obtain ⟨q2, hq2, c2⟩ := hc p q1 hq1
  have e3 := foldConst_cst true (touched (iparamsOf s2 i) (blockEntry s x).2) s2.heap p
  rw [← exit_heap] at e3
  have hlen3 : (blockExit s2 i (blockEntry s x).2).heap.length = s2.heap.length := by
    rw [exit_heap]; exact (foldConst_sameRD _ _ _).1
  obtain ⟨q3, hq3⟩ : ∃ q3, (blockExit s2 i (blockEntry s x).2).heap[p]? = some q3 :=
    ⟨_, List.getElem?_eq_getElem (by rw [hlen3]; exact (List.getElem?_eq_some_iff.1 hq2).1)⟩
  refine ⟨q3, hq3, ?_⟩
  simp only [cst, hq, hq1, hq2, hq3, Option.map_some] at e1 e3
  -- the instance at exit time
  obtain ⟨x2, hx2, _, keep, fresh⟩ := hf.insts i x (by rw [(entry_rest s x).1]; exact hx)
  have hipar : iparamsOf s2 i = x2.iparams := by unfold iparamsOf; rw [hx2]
  rw [hipar] at e3
  by_cases hu : p ∈ (blockEntry s x).2.map (·.2)
  · -- remembered: it was constant, and the `finally` clause sets it again
    obtain ⟨⟨n, p'⟩, hmem, hp'⟩ := List.mem_map.1 hu
    simp only at hp'; subst hp'
    obtain ⟨_, q', hq', hc'⟩ := entry_mem hmem
    rw [hq] at hq'; cases hq'
    have ht : p' ∈ touched x2.iparams (blockEntry s x).2 := by
      unfold touched
      exact List.mem_flatMap.2 ⟨(n, p'), hmem, by simp⟩
    simp only [ht, if_true, Option.some.injEq] at e3
    rw [e3, hc']
  · -- not remembered: untouched at entry, by the body, and by the `finally` clause
    simp only [hu, if_false, Option.some.injEq] at e1
    have ht : p ∉ touched x2.iparams (blockEntry s x).2 := by
      unfold touched
      intro hm
      obtain ⟨⟨n, p0⟩, hmem, hin⟩ := List.mem_flatMap.1 hm
      simp only [List.mem_cons] at hin
      rcases hin with e | hin
      · exact hu (List.mem_map.2 ⟨(n, p0), hmem, e.symm⟩)
      · cases hip : aget x2.iparams n with
        | none => simp [hip] at hin
        | some ip =>
          simp only [hip] at hin
          split at hin
          · rename_i hne
            simp only [List.mem_cons, List.not_mem_nil, or_false] at hin
            subst hin
            -- the copy registered under n at exit: either the remembered object itself, or new
            cases h0 : aget x.iparams n with
            | some ip0 =>
              have := keep n ip0 h0
              rw [hip] at this; cases this
              have hp := (entry_mem hmem).1
              unfold pobjOf at hp
              rw [h0] at hp
              simp only [Option.some.injEq] at hp
              exact hne hp
            | none =>
              have := fresh n p h0 hip
              rw [hlen1] at this
              exact absurd hlt (Nat.not_lt.2 this)
          · simp at hin
    simp only [ht, if_false, Option.some.injEq] at e3
    rw [e3, c2, e1]

/-! ### Every statement respects the frames -/

/-- a statement that only edits Parameter objects and class dictionaries -/
theorem frames_heap_classes {s : St} {h' : List Param} (cl' : List Cls)
    (hh : ∀ (p : PId) (q : Param), s.heap[p]? = some q → ∃ q', h'[p]? = some q' ∧ q'.constant = q.constant ∧
      q'.readonly = q.readonly ∧ (q.readonly = true → q'.default = q.default))
    (hl : s.heap.length ≤ h'.length) :
    Frame s { s with heap := h', classes := cl' } ∧ ConstFrame s { s with heap := h', classes := cl' } := by
  refine ⟨⟨hl, ?_, fun i x hx => insts_same (s := s) i x hx⟩, ?_⟩
  · intro p q hq
    obtain ⟨q', h1, _, h3, h4⟩ := hh p q hq
    exact ⟨q', h1, h3, h4⟩
  · intro p q hq
    obtain ⟨q', h1, h2, _⟩ := hh p q hq
    exact ⟨q', h1, h2⟩

theorem clsSet_frames (s : St) (c : CId) (n : Name) (v : Obj) :
    Frame s (step s (.clsSet c n v)).1 ∧ ConstFrame s (step s (.clsSet c n v)).1 := by
  simp only [step]
  split
  · exact ⟨Frame.refl _, ConstFrame.refl _⟩
  · rename_i p owner hd
    split
    · rename_i q k hq hk
      have hplt : p < s.heap.length := (List.getElem?_eq_some_iff.1 hq).1
      split
      · exact ⟨Frame.refl _, ConstFrame.refl _⟩
      split
      · exact ⟨Frame.refl _, ConstFrame.refl _⟩
      · rename_i hr
        by_cases e : owner = c
        · simp only [e, if_true]
          apply frames_heap_classes (s := s) s.classes
          · intro p' q' hq'
            rw [List.getElem?_set]
            by_cases e' : p = p'
            · subst e'
              rw [hq] at hq'; cases hq'
              simp only [hplt, if_true]
              exact ⟨_, rfl, rfl, rfl, fun h => absurd h hr⟩
            · simp only [e', if_false]
              exact ⟨q', hq', rfl, rfl, fun _ => rfl⟩
          · simp
        · simp only [e, if_false]
          apply frames_heap_classes (s := s)
          · intro p' q' hq'
            have hlt' : p' < s.heap.length := (List.getElem?_eq_some_iff.1 hq').1
            have hne : ¬ s.heap.length = p' := Nat.ne_of_gt hlt'
            rw [List.getElem?_set]
            simp only [hne, if_false]
            exact ⟨q', append_get hq', rfl, rfl, fun _ => rfl⟩
          · simp
    · exact ⟨Frame.refl _, ConstFrame.refl _⟩

theorem newInst_frames (s : St) (c : CId) (kw : List (Name × Obj)) :
    Frame s (step s (.newInst c kw)).1 ∧ ConstFrame s (step s (.newInst c kw)).1 := by
  simp only [step]
  split
  · exact ⟨Frame.refl _, ConstFrame.refl _⟩
  · split
    · exact ⟨Frame.refl _, ConstFrame.refl _⟩
    · apply frames_of
      · intro p q h; exact h
      · intro i x hx
        refine ⟨x, ?_, rfl, fun _ _ h => h, fun n ip h1 h2 => by rw [h1] at h2; cases h2⟩
        show (s.insts ++ _)[i]? = some x
        rw [List.getElem?_append_left (List.getElem?_eq_some_iff.1 hx).1]; exact hx

theorem renameCore_cases (s : St) (i : IId) (v : Obj) :
    (renameCore s i v).1 = s ∨ ∃ x, s.insts[i]? = some x ∧
      renameCore s i v = (setInst s i { x with values := aset x.values "name" v }, .ok) := by
  unfold renameCore
  split
  · exact Or.inl rfl
  · rename_i x hx
    split
    · exact Or.inl rfl
    · split
      · exact Or.inl rfl
      · split
        · exact Or.inl rfl
        · split
          · exact Or.inl rfl
          · exact Or.inr ⟨x, hx, rfl⟩

theorem rename_frames (s : St) (i : IId) (v : Obj) (k : Obj) :
    Frame s { (renameCore s i v).1 with nextObj := k } ∧ ConstFrame s { (renameCore s i v).1 with nextObj := k } ∧
    Frame s (renameCore s i v).1 ∧ ConstFrame s (renameCore s i v).1 ∧ (renameCore s i v).1.classes = s.classes := by
  have nx : ∀ t : St, Frame t { t with nextObj := k } ∧ ConstFrame t { t with nextObj := k } :=
    fun t => frames_of (fun _ _ h => h) (fun j y hy => insts_same (s := t) j y hy)
  rcases renameCore_cases s i v with h | ⟨x, hx, h⟩
  · rw [h]; exact ⟨(nx s).1, (nx s).2, Frame.refl _, ConstFrame.refl _, rfl⟩
  · rw [h]
    obtain ⟨f, c⟩ := setInst_values_frames hx (aset x.values "name" v)
    exact ⟨f.trans (nx _).1, c.trans (nx _).2, f, c, rfl⟩

theorem genName_state (s : St) (i : IId) :
    ∃ k, (step s (.genName i)).1 = { (renameCore s i s.nextObj).1 with nextObj := k } := by
  simp only [step]
  cases hr : renameCore s i s.nextObj with
  | mk s1 r =>
    cases r
    case ok => exact ⟨s.nextObj + 1, rfl⟩
    all_goals exact ⟨s1.nextObj, rfl⟩

mutual
/-- **every statement** — blocks of any nesting depth, with any exit — respects `Frame` -/
theorem frame_step : ∀ (op : Op) (s : St), Frame s (step s op).1
  | .newInst c kw, s => (newInst_frames s c kw).1
  | .instSet i n v, s => by simp only [step]; exact (instSetCore_frames s i n v).1
  | .instSetAsync i n v, s => by
    simp only [step]
    split
    · exact Frame.refl _
    · split
      · exact Frame.refl _
      · split
        · exact Frame.refl _
        · split
          · exact (instSetCore_frames s i n v).1
          · exact Frame.refl _
  | .instSetSame i n, s => by
    simp only [step]
    split
    · exact Frame.refl _
    · split
      · exact Frame.refl _
      · exact (instSetCore_frames s i n _).1
  | .update i kvs, s => by
    simp only [step]
    split
    · exact Frame.refl _
    · exact (touchKeys_frames i kvs s).1.trans (applyKeys_frames i kvs _).1
  | .clsSet c n v, s => (clsSet_frames s c n v).1
  | .flag i n b, s => by
    simp only [step]
    split
    · exact Frame.refl _
    · rename_i s1 ip hg
      exact (getParamCore_frames hg).1.trans (Frame.of_heap (SameRD.setConst _ _ _))
  | .clsFlag c n b, s => by
    simp only [step]
    split
    · exact Frame.refl _
    · exact Frame.of_heap (SameRD.setConst _ _ _)
  | .getParam i n, s => by
    simp only [step]
    split
    · exact Frame.refl _
    · rename_i s1 ip hg
      exact (getParamCore_frames hg).1
  | .setName i v, s => by simp only [step]; exact (rename_frames s i v 0).2.2.1
  | .genName i, s => by
    obtain ⟨k, hk⟩ := genName_state s i
    rw [hk]; exact (rename_frames s i _ k).1
  | .failingEntry i n, s => by
    simp only [step]
    split
    · exact Frame.refl _
    · split
      · exact Frame.refl _
      · split
        · exact Frame.refl _
        · rename_i s1 ip hg
          split
          · exact (getParamCore_frames hg).1
          · split <;> exact (getParamCore_frames hg).1
  | .raise, s => by simp only [step]; exact Frame.refl _
  | .block i body, s => by
    simp only [step]
    split
    · exact Frame.refl _
    · rename_i x hx
      exact (frame_entry s x).trans ((frame_body body _).trans (frame_exit _ i _))
theorem frame_body : ∀ (ops : List Op) (s : St), Frame s (runBody s ops).1
  | [], s => by simp only [runBody]; exact Frame.refl _
  | op :: ops, s => by
    simp only [runBody]
    have h1 := frame_step op s
    split
    · exact h1.trans (frame_body ops _)
    · exact h1
end

mutual
/-- **every statement that edits no flag explicitly** — blocks of any nesting depth, with any exit —
leaves the `constant` flag of every existing Parameter object as it was -/
theorem const_step : ∀ (op : Op) (s : St), op.noFlag = true → ConstFrame s (step s op).1
  | .newInst c kw, s, _ => (newInst_frames s c kw).2
  | .instSet i n v, s, _ => by simp only [step]; exact (instSetCore_frames s i n v).2.1
  | .instSetAsync i n v, s, _ => by
    simp only [step]
    split
    · exact ConstFrame.refl _
    · split
      · exact ConstFrame.refl _
      · split
        · exact ConstFrame.refl _
        · split
          · exact (instSetCore_frames s i n v).2.1
          · exact ConstFrame.refl _
  | .instSetSame i n, s, _ => by
    simp only [step]
    split
    · exact ConstFrame.refl _
    · split
      · exact ConstFrame.refl _
      · exact (instSetCore_frames s i n _).2.1
  | .update i kvs, s, _ => by
    simp only [step]
    split
    · exact ConstFrame.refl _
    · exact (touchKeys_frames i kvs s).2.1.trans (applyKeys_frames i kvs _).2.1
  | .clsSet c n v, s, _ => (clsSet_frames s c n v).2
  | .flag i n b, s, h => by simp [Op.noFlag] at h
  | .clsFlag c n b, s, h => by simp [Op.noFlag] at h
  | .getParam i n, s, _ => by
    simp only [step]
    split
    · exact ConstFrame.refl _
    · rename_i s1 ip hg
      exact (getParamCore_frames hg).2.1
  | .setName i v, s, _ => by simp only [step]; exact (rename_frames s i v 0).2.2.2.1
  | .genName i, s, _ => by
    obtain ⟨k, hk⟩ := genName_state s i
    rw [hk]; exact (rename_frames s i _ k).2.1
  | .failingEntry i n, s, _ => by
    simp only [step]
    split
    · exact ConstFrame.refl _
    · split
      · exact ConstFrame.refl _
      · split
        · exact ConstFrame.refl _
        · rename_i s1 ip hg
          split
          · exact (getParamCore_frames hg).2.1
          · split <;> exact (getParamCore_frames hg).2.1
  | .raise, s, _ => by simp only [step]; exact ConstFrame.refl _
  | .block i body, s, h => by
    simp only [step]
    split
    · exact ConstFrame.refl _
    · rename_i x hx
      have hb : noFlagL body = true := by simpa [Op.noFlag] using h
      exact block_constFrame hx (frame_body body _) (const_body body _ hb)
theorem const_body : ∀ (ops : List Op) (s : St), noFlagL ops = true → ConstFrame s (runBody s ops).1
  | [], s, _ => by simp only [runBody]; exact ConstFrame.refl _
  | op :: ops, s, h => by
    simp only [noFlagL, Bool.and_eq_true] at h
    simp only [runBody]
    have h1 := const_step op s h.1
    split
    · exact h1.trans (const_body ops _ h.2)
    · exact h1
end

/-! ### Well-formed states: no dangling Parameter index -/

structure WF (s : St) : Prop where
  ip : ∀ (i : IId) (x : Inst) (n : Name) (ip : PId), s.insts[i]? = some x → aget x.iparams n = some ip →
    ip < s.heap.length
  dp : ∀ (c : CId) (n : Name) (p : PId), aget (clsDict s c) n = some p → p < s.heap.length

theorem findIn_some {s : St} {l : List CId} {n : Name} {p : PId} {k : CId} (h : findIn s l n = some (p, k)) :
    k ∈ l ∧ aget (clsDict s k) n = some p := by
  induction l with
  | nil => simp [findIn] at h
  | cons k0 l ih =>
    simp only [findIn] at h
    split at h
    · rename_i p0 h0
      simp only [Option.some.injEq, Prod.mk.injEq] at h
      obtain ⟨rfl, rfl⟩ := h
      exact ⟨by simp, h0⟩
    · obtain ⟨h1, h2⟩ := ih h
      exact ⟨by simp [h1], h2⟩

theorem WF.desc {s : St} (h : WF s) {c : CId} {n : Name} {p : PId} {o : CId} (hd : descriptor s c n = some (p, o)) :
    p < s.heap.length := h.dp o n p (findIn_some hd).2

theorem findIn_of_classes {s s' : St} (h : s'.classes = s.classes) (l : List CId) (n : Name) :
    findIn s' l n = findIn s l n := by
  induction l with
  | nil => rfl
  | cons k l ih => simp only [findIn, clsDict, h, ih]

theorem descriptor_of_classes {s s' : St} (h : s'.classes = s.classes) (c : CId) (n : Name) :
    descriptor s' c n = descriptor s c n := by
  unfold descriptor mroOf; rw [h]; exact findIn_of_classes h _ n

theorem WF.of_same {s s' : St} (hi : s'.insts = s.insts) (hc : s'.classes = s.classes)
    (hl : s.heap.length ≤ s'.heap.length) (h : WF s) : WF s' := by
  constructor
  · intro i x n ip hx ha; rw [hi] at hx; exact Nat.lt_of_lt_of_le (h.ip i x n ip hx ha) hl
  · intro c n p ha
    have : clsDict s' c = clsDict s c := by unfold clsDict; rw [hc]
    rw [this] at ha; exact Nat.lt_of_lt_of_le (h.dp c n p ha) hl

theorem stored_of_insts {s s' : St} {j : IId} (h : s'.insts[j]? = s.insts[j]?) (m : Name) :
    stored s' j m = stored s j m := by unfold stored; rw [h]

/-- creating (or finding) the per-instance copy changes nothing one can see through the flags:
the copy carries the flags of the Parameter it was copied from -/
theorem instantiated_gov {s s1 : St} {i : IId} {x x1 : Inst} {n : Name} {p o ip : PId} (hwf : WF s)
    (hx : s.insts[i]? = some x) (hd : descriptor s x.cls n = some (p, o))
    (h : instantiated s i x n p = .ok (s1, x1, ip)) :
    WF s1 ∧ (∀ j m, govFlags s1 j m = govFlags s j m) ∧ (∀ j m, stored s1 j m = stored s j m) ∧
      governing s1 i n = some ip := by
  rcases instantiated_spec h with ⟨rfl, rfl, h0⟩ | ⟨q, h0, hq, rfl, rfl, rfl⟩
  · refine ⟨hwf, fun _ _ => rfl, fun _ _ => rfl, ?_⟩
    unfold governing pobjOf; rw [hx]; simp only [h0]
  · have hlt : i < s.insts.length := (List.getElem?_eq_some_iff.1 hx).1
    have hget : ∀ j, (setInst { s with heap := s.heap ++ [q] } i
        { x with iparams := aset x.iparams n s.heap.length }).insts[j]? =
        if j = i then some { x with iparams := aset x.iparams n s.heap.length } else s.insts[j]? :=
      fun j => setInst_get { s with heap := s.heap ++ [q] } i j _ hlt
    have hdesc : ∀ c m, descriptor (setInst { s with heap := s.heap ++ [q] } i
        { x with iparams := aset x.iparams n s.heap.length }) c m = descriptor s c m :=
      fun c m => descriptor_of_classes (s := s) (by rfl) c m
    have hheap : ∀ p', p' < s.heap.length → (s.heap ++ [q])[p']? = s.heap[p']? :=
      fun p' h' => List.getElem?_append_left h'
    refine ⟨?_, ?_, ?_, ?_⟩
    · constructor
      · intro j y m ipm hy hm
        show ipm < (s.heap ++ [q]).length
        rw [List.length_append]
        rw [hget] at hy
        by_cases e : j = i
        · rw [if_pos e] at hy; cases hy
          have hm' : aget (aset x.iparams n s.heap.length) m = some ipm := hm
          rw [aget_aset] at hm'
          split at hm'
          · cases hm'; simp
          · exact Nat.lt_succ_of_lt (hwf.ip i x m ipm hx hm')
        · rw [if_neg e] at hy
          exact Nat.lt_succ_of_lt (hwf.ip j y m ipm hy hm)
      · intro c m p' ha
        show p' < (s.heap ++ [q]).length
        rw [List.length_append]
        exact Nat.lt_succ_of_lt (hwf.dp c m p' ha)
    · intro j m
      unfold govFlags governing
      rw [hget]
      by_cases e : j = i
      · rw [if_pos e, e, hx]
        simp only [pobjOf]
        show flagsOf _ (match aget (aset x.iparams n s.heap.length) m with
          | some ip => some ip | none => _) = _
        rw [aget_aset, hdesc]
        by_cases e' : n = m
        · subst e'
          simp only [if_true, h0, hd, Option.map_some, flagsOf, Option.bind_some]
          show ((s.heap ++ [q])[s.heap.length]?).map _ = _
          rw [List.getElem?_concat_length, hq]
        · simp only [e', if_false]
          cases hm : aget x.iparams m with
          | some ipm =>
            simp only [flagsOf, Option.bind_some]
            show ((s.heap ++ [q])[ipm]?).map _ = _
            rw [hheap _ (hwf.ip i x m ipm hx hm)]
          | none =>
            simp only
            cases hdm : descriptor s x.cls m with
            | none => rfl
            | some po =>
              simp only [Option.map_some, flagsOf, Option.bind_some]
              show ((s.heap ++ [q])[po.1]?).map _ = _
              rw [hheap _ (hwf.desc (p := po.1) (o := po.2) hdm)]
      · rw [if_neg e]
        cases hy : s.insts[j]? with
        | none => rfl
        | some y =>
          simp only [pobjOf, hdesc]
          cases hm : aget y.iparams m with
          | some ipm =>
            simp only [flagsOf, Option.bind_some]
            show ((s.heap ++ [q])[ipm]?).map _ = _
            rw [hheap _ (hwf.ip j y m ipm hy hm)]
          | none =>
            simp only
            cases hdm : descriptor s y.cls m with
            | none => rfl
            | some po =>
              simp only [Option.map_some, flagsOf, Option.bind_some]
              show ((s.heap ++ [q])[po.1]?).map _ = _
              rw [hheap _ (hwf.desc (p := po.1) (o := po.2) hdm)]
    · intro j m
      unfold stored
      rw [hget]
      by_cases e : j = i
      · rw [if_pos e, e, hx]
      · rw [if_neg e]
    · unfold governing pobjOf
      rw [hget, if_pos rfl]
      simp only [aget_aset_self]

theorem pobjOf_of_classes {s s' : St} (h : s'.classes = s.classes) (x : Inst) (m : Name) :
    pobjOf s' x m = pobjOf s x m := by
  unfold pobjOf; rw [descriptor_of_classes h]

theorem flagsOf_of_heap {s s' : St} (h : s'.heap = s.heap) (p : Option PId) : flagsOf s' p = flagsOf s p := by
  unfold flagsOf; rw [h]

theorem setInst_values_gov {s : St} {i : IId} {x : Inst} (hwf : WF s) (hx : s.insts[i]? = some x)
    (vals : List (Name × Obj)) :
    WF (setInst s i { x with values := vals }) ∧
    (∀ j m, govFlags (setInst s i { x with values := vals }) j m = govFlags s j m) ∧
    (∀ j m, stored (setInst s i { x with values := vals }) j m = if j = i then aget vals m else stored s j m) := by
  have hlt : i < s.insts.length := (List.getElem?_eq_some_iff.1 hx).1
  have hget := fun j => setInst_get s i j { x with values := vals } hlt
  refine ⟨?_, ?_, ?_⟩
  · constructor
    · intro j y m ipm hy hm
      rw [hget] at hy
      by_cases e : j = i
      · rw [if_pos e] at hy; cases hy; exact hwf.ip i x m ipm hx hm
      · rw [if_neg e] at hy; exact hwf.ip j y m ipm hy hm
    · intro c m p' ha; exact hwf.dp c m p' ha
  · intro j m
    unfold govFlags governing
    rw [hget]
    have hp : ∀ y, pobjOf (setInst s i { x with values := vals }) y m = pobjOf s y m :=
      fun y => pobjOf_of_classes (s := s) (by rfl) y m
    have hf : ∀ o, flagsOf (setInst s i { x with values := vals }) o = flagsOf s o :=
      fun o => flagsOf_of_heap (s := s) (by rfl) o
    by_cases e : j = i
    · rw [if_pos e, e, hx, hf]
      simp only [hp]
      rfl
    · rw [if_neg e, hf]
      cases s.insts[j]? with
      | none => rfl
      | some y => simp only [hp]
  · intro j m
    unfold stored
    rw [hget]
    by_cases e : j = i
    · rw [if_pos e, if_pos e]
    · rw [if_neg e, if_neg e]

/-- `setattr(obj, n, v)` after construction: flags as seen from every instance are unchanged, and
what an instance holds under a constant parameter is unchanged -/
theorem instSetCore_gov {s : St} (hwf : WF s) (i : IId) (n : Name) (v : Obj) :
    WF (instSetCore s i n v).1 ∧ (∀ j m, govFlags (instSetCore s i n v).1 j m = govFlags s j m) ∧
    (∀ j m, isConst (govFlags s j m) = true → stored (instSetCore s i n v).1 j m = stored s j m) := by
  unfold instSetCore
  split
  · exact ⟨hwf, fun _ _ => rfl, fun _ _ _ => rfl⟩
  · rename_i x hx
    split
    · exact ⟨hwf, fun _ _ => rfl, fun _ _ _ => rfl⟩
    · rename_i p o hd
      split
      · exact ⟨hwf, fun _ _ => rfl, fun _ _ _ => rfl⟩
      · rename_i s1 x1 ip hin
        obtain ⟨wf1, g1, st1, gov1⟩ := instantiated_gov hwf hx hd hin
        obtain ⟨_, _, hx1, _⟩ := instantiated_frames hx hin
        rcases guardedStore_spec s1 i x1 n ip v with h | ⟨h, _, q, hq, hc, _⟩
        · rw [h]; exact ⟨wf1, g1, fun j m _ => st1 j m⟩
        · rw [h]
          obtain ⟨wf2, g2, st2⟩ := setInst_values_gov wf1 hx1 (aset x1.values n v)
          refine ⟨wf2, fun j m => (g2 j m).trans (g1 j m), ?_⟩
          intro j m hcm
          rw [st2]
          by_cases e : j = i
          · rw [if_pos e, aget_aset]
            by_cases e' : n = m
            · -- the governing Parameter of (i, n) is not constant: the hypothesis is false
              exfalso
              subst e e'
              have : govFlags s1 j n = some (false, q.readonly) := by
                unfold govFlags; rw [gov1]; simp [flagsOf, hq, hc]
              rw [← g1, this] at hcm
              simp [isConst] at hcm
            · rw [if_neg e', ← st1 j m, e]
              have : stored s1 i m = aget x1.values m := by unfold stored; rw [hx1]
              exact this.symm
          · rw [if_neg e]; exact st1 j m

theorem getParamCore_gov {s s1 : St} {i : IId} {n : Name} {ip : PId} (hwf : WF s)
    (h : getParamCore s i n = .ok (s1, ip)) :
    WF s1 ∧ (∀ j m, govFlags s1 j m = govFlags s j m) ∧ (∀ j m, stored s1 j m = stored s j m) ∧
      governing s1 i n = some ip := by
  unfold getParamCore at h
  split at h
  · cases h
  · rename_i x hx
    split at h
    · cases h
    · rename_i p o hd
      split at h
      · cases h
      · rename_i s2 x2 ip2 hin
        simp only [Except.ok.injEq, Prod.mk.injEq] at h
        obtain ⟨rfl, rfl⟩ := h
        exact instantiated_gov hwf hx hd hin

theorem touchKeys_gov (i : IId) (kvs : List (Name × Obj)) {s : St} (hwf : WF s) :
    WF (touchKeys s i kvs) ∧ (∀ j m, govFlags (touchKeys s i kvs) j m = govFlags s j m) ∧
      (∀ j m, stored (touchKeys s i kvs) j m = stored s j m) := by
  induction kvs generalizing s with
  | nil => exact ⟨hwf, fun _ _ => rfl, fun _ _ => rfl⟩
  | cons kv kvs ih =>
    obtain ⟨k, v⟩ := kv
    simp only [touchKeys]
    split
    · rename_i s1 ip hg
      obtain ⟨w1, g1, t1, _⟩ := getParamCore_gov hwf hg
      obtain ⟨w2, g2, t2⟩ := ih w1
      exact ⟨w2, fun j m => (g2 j m).trans (g1 j m), fun j m => (t2 j m).trans (t1 j m)⟩
    · exact ih hwf

theorem applyKeys_gov (i : IId) (kvs : List (Name × Obj)) {s : St} (hwf : WF s) :
    WF (applyKeys s i kvs).1 ∧ (∀ j m, govFlags (applyKeys s i kvs).1 j m = govFlags s j m) ∧
      (∀ j m, isConst (govFlags s j m) = true → stored (applyKeys s i kvs).1 j m = stored s j m) := by
  induction kvs generalizing s with
  | nil => exact ⟨hwf, fun _ _ => rfl, fun _ _ _ => rfl⟩
  | cons kv kvs ih =>
    obtain ⟨k, v⟩ := kv
    simp only [applyKeys]
    split
    · exact ⟨hwf, fun _ _ => rfl, fun _ _ _ => rfl⟩
    · split
      · exact ⟨hwf, fun _ _ => rfl, fun _ _ _ => rfl⟩
      · have h0 := instSetCore_gov hwf i k v
        cases hres : instSetCore s i k v with
        | mk s1 r =>
          rw [hres] at h0
          cases r
          case ok =>
            obtain ⟨w2, g2, t2⟩ := ih h0.1
            refine ⟨w2, fun j m => (g2 j m).trans (h0.2.1 j m), ?_⟩
            intro j m hc
            rw [t2 j m (by rw [h0.2.1]; exact hc)]
            exact h0.2.2 j m hc
          all_goals exact h0

theorem rename_wf {s : St} (hwf : WF s) (i : IId) (v : Obj) (k : Obj) :
    WF { (renameCore s i v).1 with nextObj := k } := by
  rcases renameCore_cases s i v with h | ⟨x, hx, h⟩
  · rw [h]; exact WF.of_same (s := s) rfl rfl (Nat.le_refl _) hwf
  · rw [h]
    exact WF.of_same (s := setInst s i { x with values := aset x.values "name" v }) rfl rfl (Nat.le_refl _)
      (setInst_values_gov hwf hx _).1

/-! ### Well-formedness is preserved by every statement -/

theorem clsDict_set {s : St} {c : CId} {k k' : Cls} (hk : s.classes[c]? = some k) (h' : List Param) (c' : CId) :
    clsDict { s with heap := h', classes := s.classes.set c k' } c' = if c' = c then k'.dict else clsDict s c' := by
  have hlt : c < s.classes.length := (List.getElem?_eq_some_iff.1 hk).1
  unfold clsDict
  simp only [List.getElem?_set]
  by_cases e : c' = c
  · subst e; simp [hlt]
  · have e' : ¬ c = c' := fun h => e h.symm
    simp [e, e']

theorem mroOf_set {s : St} {c : CId} {k k' : Cls} (hk : s.classes[c]? = some k) (hm : k'.mro = k.mro)
    (h' : List Param) (c' : CId) :
    mroOf { s with heap := h', classes := s.classes.set c k' } c' = mroOf s c' := by
  have hlt : c < s.classes.length := (List.getElem?_eq_some_iff.1 hk).1
  unfold mroOf
  simp only [List.getElem?_set]
  by_cases e : c = c'
  · subst e; simp only [↓reduceIte, hlt, hk, hm]
  · simp [e]

theorem wf_clsSet {s : St} (hwf : WF s) (c : CId) (n : Name) (v : Obj) : WF (step s (.clsSet c n v)).1 := by
  simp only [step]
  split
  · exact hwf
  · rename_i p owner hd
    split
    · rename_i q k hq hk
      split
      · exact hwf
      split
      · exact hwf
      · by_cases e : owner = c
        · simp only [e, if_true]
          exact WF.of_same (s := s) rfl rfl (by simp) hwf
        · simp only [e, if_false]
          have key : ∀ h' : List Param, h'.length = s.heap.length + 1 →
              WF { s with heap := h', classes := s.classes.set c { k with dict := aset k.dict n s.heap.length } } := by
            intro h' hl
            constructor
            · intro i x m ipm hx hm
              show ipm < h'.length
              rw [hl]; exact Nat.lt_succ_of_lt (hwf.ip i x m ipm hx hm)
            · intro c' m p' ha
              show p' < h'.length
              rw [hl]
              rw [clsDict_set hk] at ha
              split at ha
              · rename_i ec
                simp only at ha
                rw [aget_aset] at ha
                split at ha
                · cases ha; exact Nat.lt_succ_self _
                · have : aget (clsDict s c) m = some p' := by unfold clsDict; rw [hk]; exact ha
                  exact Nat.lt_succ_of_lt (hwf.dp c m p' this)
              · exact Nat.lt_succ_of_lt (hwf.dp c' m p' ha)
          exact key _ (by simp)
    · exact hwf

theorem wf_newInst {s : St} (hwf : WF s) (c : CId) (kw : List (Name × Obj)) : WF (step s (.newInst c kw)).1 := by
  simp only [step]
  split
  · exact hwf
  · split
    · exact hwf
    · constructor
      · intro i x m ipm hx hm
        have hx' : (s.insts ++ [_])[i]? = some x := hx
        rw [List.getElem?_append] at hx'
        split at hx'
        · exact hwf.ip i x m ipm hx' hm
        · -- the new instance has no per-instance copies
          cases hd : i - s.insts.length with
          | zero => rw [hd] at hx'; simp at hx'; subst hx'; simp [aget] at hm
          | succ d => rw [hd] at hx'; simp at hx'
      · intro c' m p' ha; exact hwf.dp c' m p' ha

mutual
/-- every state reachable from a well-formed one is well-formed -/
theorem wf_step : ∀ (op : Op) (s : St), WF s → WF (step s op).1
  | .newInst c kw, s, h => wf_newInst h c kw
  | .instSet i n v, s, h => by simp only [step]; exact (instSetCore_gov h i n v).1
  | .instSetAsync i n v, s, h => by
    simp only [step]
    split
    · exact h
    · split
      · exact h
      · split
        · exact h
        · split
          · exact (instSetCore_gov h i n v).1
          · exact h
  | .instSetSame i n, s, h => by
    simp only [step]
    split
    · exact h
    · split
      · exact h
      · exact (instSetCore_gov h i n _).1
  | .update i kvs, s, h => by
    simp only [step]
    split
    · exact h
    · exact (applyKeys_gov i kvs (touchKeys_gov i kvs h).1).1
  | .clsSet c n v, s, h => wf_clsSet h c n v
  | .flag i n b, s, h => by
    simp only [step]
    split
    · exact h
    · rename_i s1 ip hg
      exact WF.of_same (s := s1) rfl rfl (by simp [setConst_length]) (getParamCore_gov h hg).1
  | .clsFlag c n b, s, h => by
    simp only [step]
    split
    · exact h
    · exact WF.of_same (s := s) rfl rfl (by simp [setConst_length]) h
  | .getParam i n, s, h => by
    simp only [step]
    split
    · exact h
    · rename_i s1 ip hg
      exact (getParamCore_gov h hg).1
  | .setName i v, s, h => by
    simp only [step]
    exact rename_wf h i v (renameCore s i v).1.nextObj
  | .genName i, s, h => by
    obtain ⟨k, hk⟩ := genName_state s i
    rw [hk]; exact rename_wf h i _ k
  | .failingEntry i n, s, h => by
    simp only [step]
    split
    · exact h
    · split
      · exact h
      · split
        · exact h
        · rename_i s1 ip hg
          split
          · exact (getParamCore_gov h hg).1
          · split <;> exact (getParamCore_gov h hg).1
  | .raise, s, h => by simp only [step]; exact h
  | .block i body, s, h => by
    simp only [step]
    split
    · exact h
    · rename_i x hx
      have h1 : WF (blockEntry s x).1 :=
        WF.of_same (s := s) rfl rfl (by rw [entry_heap]; exact Nat.le_of_eq (foldConst_sameRD _ _ _).1.symm) h
      have h2 := wf_body body _ h1
      exact WF.of_same (s := (runBody (blockEntry s x).1 body).1) rfl rfl
        (by rw [exit_heap]; exact Nat.le_of_eq (foldConst_sameRD _ _ _).1.symm) h2
theorem wf_body : ∀ (ops : List Op) (s : St), WF s → WF (runBody s ops).1
  | [], s, h => by simp only [runBody]; exact h
  | op :: ops, s, h => by
    simp only [runBody]
    have h1 := wf_step op s h
    split
    · exact wf_body ops _ h1
    · exact h1
end

theorem wf_run (ops : List Op) (s : St) (h : WF s) : WF (run s ops) := by
  induction ops generalizing s with
  | nil => exact h
  | cons op ops ih => simp only [run, List.foldl_cons]; exact ih _ (wf_step op s h)

theorem frame_run (ops : List Op) (s : St) : Frame s (run s ops) := by
  induction ops generalizing s with
  | nil => exact Frame.refl s
  | cons op ops ih => simp only [run, List.foldl_cons]; exact (frame_step op s).trans (ih _)

/-! ### Constructor, guard -/

theorem descriptor_mem_nsNames {s : St} {c : CId} {n : Name} {p : PId} {o : CId}
    (h : descriptor s c n = some (p, o)) : n ∈ nsNames s c := by
  obtain ⟨hk, ha⟩ := findIn_some h
  unfold nsNames
  rw [List.mem_eraseDups, List.mem_flatMap]
  refine ⟨o, by simpa using hk, ?_⟩
  exact (aget_isSome_iff_mem_keys _ _).1 (by rw [ha]; rfl)

theorem aget_aset_isSome {α : Type} (d : List (Name × α)) (k n : Name) (v : α)
    (h : (aget d n).isSome = true) : (aget (aset d k v) n).isSome = true := by
  rw [aget_aset]; split
  · rfl
  · exact h

theorem refConstants_keeps (s : St) (c : CId) (ns : List Name) (vals : List (Name × Obj)) (n : Name)
    (h : (aget vals n).isSome = true) : (aget (refConstants s c ns vals) n).isSome = true := by
  induction ns generalizing vals with
  | nil => exact h
  | cons m ns ih =>
    simp only [refConstants]
    split
    · split
      · split
        · exact ih _ (aget_aset_isSome _ _ _ _ h)
        · exact ih _ h
      · exact ih _ h
    · exact ih _ h

/-- src: _setup_params: a constant Parameter of the namespace gets its value referenced on the new instance -/
theorem refConstants_adds (s : St) (c : CId) (ns : List Name) (vals : List (Name × Obj)) {n : Name} {p : PId}
    {o : CId} {q : Param} (hn : n ∈ ns) (hd : descriptor s c n = some (p, o)) (hq : s.heap[p]? = some q)
    (hc : q.constant = true) (hname : n ≠ "name") : (aget (refConstants s c ns vals) n).isSome = true := by
  induction ns generalizing vals with
  | nil => cases hn
  | cons m ns ih =>
    simp only [refConstants]
    by_cases e : m = n
    · subst e
      simp only [hd, hq, hc, Bool.true_and]
      have : (m != "name") = true := by simpa using hname
      simp only [this, if_true]
      exact refConstants_keeps _ _ _ _ _ (by rw [aget_aset_self]; rfl)
    · have hn' : n ∈ ns := by
        rcases List.mem_cons.1 hn with h | h
        · exact absurd h.symm e
        · exact h
      split
      · split
        · split
          · exact ih _ hn'
          · exact ih _ hn'
        · exact ih _ hn'
      · exact ih _ hn'

theorem applyKw_keeps (s : St) (c : CId) (kw : List (Name × Obj)) (vals vals' : List (Name × Obj)) (n : Name)
    (h : applyKw s c kw vals = .ok vals') (hv : (aget vals n).isSome = true) : (aget vals' n).isSome = true := by
  induction kw generalizing vals with
  | nil => simp only [applyKw, Except.ok.injEq] at h; subst h; exact hv
  | cons kv kw ih =>
    obtain ⟨k, v⟩ := kv
    simp only [applyKw] at h
    split at h
    · cases h
    · split at h
      · cases h
      · split at h
        · exact ih _ h hv
        · split at h
          · cases h
          · split at h
            · cases h
            · exact ih _ h (aget_aset_isSome _ _ _ _ hv)

/-- src: _setup_params keyword loop: a keyword naming a read-only Parameter is refused (unless an
earlier keyword already failed: unknown → TypeError, invalid → ValueError) -/
theorem applyKw_readonly {s : St} (hwf : WF s) (c : CId) (kw : List (Name × Obj)) (vals : List (Name × Obj))
    (h : ∃ nv ∈ kw, ∃ p o q, descriptor s c nv.1 = some (p, o) ∧ s.heap[p]? = some q ∧ q.readonly = true)
    (hs : s.silent = []) :
    applyKw s c kw vals = .error .typeError ∨ applyKw s c kw vals = .error .valueError := by
  induction kw generalizing vals with
  | nil => obtain ⟨_, hm, _⟩ := h; cases hm
  | cons kv kw ih =>
    obtain ⟨k, v⟩ := kv
    simp only [applyKw]
    split
    · exact Or.inl rfl
    · rename_i p o hd
      have hlt := hwf.desc hd
      split
      · rename_i hn; rw [List.getElem?_eq_none_iff] at hn; exact absurd hlt (Nat.not_lt.2 hn)
      · rename_i q hq
        simp only [hs, List.contains_nil, Bool.and_false, Bool.false_eq_true, if_false]
        split
        · exact Or.inr rfl
        · split
          · exact Or.inl rfl
          · rename_i hr
            apply ih
            obtain ⟨nv, hm, p', o', q', hd', hq', hr'⟩ := h
            rcases List.mem_cons.1 hm with e | hm'
            · subst e
              simp only at hd'
              rw [hd] at hd'; cases hd'
              rw [hq] at hq'; cases hq'
              exact absurd hr' hr
            · exact ⟨nv, hm', p', o', q', hd', hq', hr'⟩

theorem guardedStore_forbidden {s : St} {i : IId} {x : Inst} {n : Name} {ip : PId} {v : Obj} {q : Param}
    (hq : s.heap[ip]? = some q) (hval : rejects s q v = false)
    (h : q.readonly = true ∨ (q.constant = true ∧ v ≠ guardOld s x n q)) :
    guardedStore s i x n ip v = (s, .typeError) := by
  unfold guardedStore
  simp only [hq, hval, Bool.false_eq_true, if_false]
  rcases h with hr | ⟨hc, hv⟩
  · simp [hr]
  · by_cases hr : q.readonly = true
    · simp [hr]
    · have hr' : q.readonly = false := by simpa using hr
      simp only [hc, hr', Bool.or_false, if_true, Bool.false_eq_true, if_false]
      rw [if_neg hv]

/-- validation comes before the guard: an invalid value raises ValueError whatever the flags -/
theorem guardedStore_invalid {s : St} {i : IId} {x : Inst} {n : Name} {ip : PId} {v : Obj} {q : Param}
    (hq : s.heap[ip]? = some q) (hval : rejects s q v = true) :
    guardedStore s i x n ip v = (s, .valueError) := by
  unfold guardedStore
  simp only [hq, hval, if_true]

theorem clsSet_insts (s : St) (c : CId) (n : Name) (v : Obj) : (step s (.clsSet c n v)).1.insts = s.insts := by
  simp only [step]
  split
  · rfl
  · split
    · rename_i p owner _ _ _ q k _ _
      by_cases e : owner = c
      · simp only [e, if_true]; split <;> (try split) <;> rfl
      · simp only [e, if_false]; split <;> (try split) <;> rfl
    · rfl

/-! ### Class-level assignment with copy-on-write, under single inheritance -/

/-- single inheritance: every class is first on its own MRO, and from any class on the MRO of
another the rest of that MRO is the MRO of that class -/
structure Hier (s : St) : Prop where
  self : ∀ (c : CId) (k : Cls), s.classes[c]? = some k → ∃ rest, k.mro = c :: rest
  suffix : ∀ (c' c : CId) (pre post : List CId), mroOf s c' = pre ++ c :: post → mroOf s c = c :: post

def fl (q : Param) : Bool × Bool := (q.constant, q.readonly)

theorem flagsOf_eq (s : St) (p : Option PId) : flagsOf s p = p.bind fun p => (s.heap[p]?).map fl := rfl

/-- flags seen from instances and classes depend only on instances, class dictionaries and the
flags of the Parameter objects -/
theorem gov_of_flags {s s' : St} (hi : s'.insts = s.insts) (hc : s'.classes = s.classes)
    (hf : ∀ p : PId, (s'.heap[p]?).map fl = (s.heap[p]?).map fl) :
    (∀ j m, govFlags s' j m = govFlags s j m) ∧ (∀ c m, clsFlags s' c m = clsFlags s c m) := by
  have hfo : ∀ o, flagsOf s' o = flagsOf s o := by
    intro o; rw [flagsOf_eq, flagsOf_eq]; cases o with
    | none => rfl
    | some p => exact hf p
  constructor
  · intro j m
    unfold govFlags governing
    rw [hi, hfo]
    cases s.insts[j]? with
    | none => rfl
    | some y => simp only [pobjOf_of_classes hc]
  · intro c m
    unfold clsFlags
    rw [hfo, descriptor_of_classes hc]

/-- the library's renaming touches nothing but the stored `name` of that instance -/
theorem rename_gov {s : St} (hwf : WF s) (i : IId) (v : Obj) (k : Obj) :
    WF { (renameCore s i v).1 with nextObj := k } ∧
    (∀ j m, govFlags { (renameCore s i v).1 with nextObj := k } j m = govFlags s j m) ∧
    (∀ j m, m ≠ "name" → stored { (renameCore s i v).1 with nextObj := k } j m = stored s j m) := by
  have key : ∀ t : St, WF t → (∀ j m, govFlags t j m = govFlags s j m) →
      (∀ j m, m ≠ "name" → stored t j m = stored s j m) →
      WF { t with nextObj := k } ∧ (∀ j m, govFlags { t with nextObj := k } j m = govFlags s j m) ∧
      (∀ j m, m ≠ "name" → stored { t with nextObj := k } j m = stored s j m) := by
    intro t wt gt st
    have g := gov_of_flags (s := t) (s' := { t with nextObj := k }) rfl rfl (fun _ => rfl)
    exact ⟨WF.of_same (s := t) rfl rfl (Nat.le_refl _) wt, fun j m => (g.1 j m).trans (gt j m),
      fun j m hm => (stored_of_insts (s := t) (s' := { t with nextObj := k }) rfl m).trans (st j m hm)⟩
  rcases renameCore_cases s i v with h | ⟨x, hx, h⟩
  · rw [h]; exact key s hwf (fun _ _ => rfl) (fun _ _ _ => rfl)
  · rw [h]
    obtain ⟨w, g, st⟩ := setInst_values_gov hwf hx (aset x.values "name" v)
    refine key _ w g ?_
    intro j m hm
    rw [st]
    by_cases e : j = i
    · rw [if_pos e, e, aget_aset_ne _ _ (Ne.symm hm)]
      unfold stored; rw [hx]
    · rw [if_neg e]

/-- the state right after the metaclass installed the copy: only `c.__dict__[n]` is new -/
structure CowStep (s s' : St) (c : CId) (n : Name) (q : Param) : Prop where
  insts : s'.insts = s.insts
  mro : ∀ c', mroOf s' c' = mroOf s c'
  dict : ∀ c', clsDict s' c' = if c' = c then aset (clsDict s c) n s.heap.length else clsDict s c'
  old : ∀ p : PId, p < s.heap.length → (s'.heap[p]?).map fl = (s.heap[p]?).map fl
  new : (s'.heap[s.heap.length]?).map fl = some (fl q)

theorem cow_findIn_ne {s s' : St} {c : CId} {n : Name} {q : Param} (h : CowStep s s' c n q) {m : Name}
    (hm : n ≠ m) (l : List CId) : findIn s' l m = findIn s l m := by
  induction l with
  | nil => rfl
  | cons k l ih =>
    simp only [findIn, ih]
    have : aget (clsDict s' k) m = aget (clsDict s k) m := by
      rw [h.dict]; split
      · rename_i e; subst e; exact aget_aset_ne _ _ hm
      · rfl
    rw [this]

theorem cow_findIn_eq {s s' : St} {c : CId} {n : Name} {q : Param} {p : PId} {owner : CId}
    (hwf : WF s) (hh : Hier s) (h : CowStep s s' c n q)
    (hd : descriptor s c n = some (p, owner)) (hq : s.heap[p]? = some q) (c' : CId) :
    ∀ (l pre : List CId), mroOf s c' = pre ++ l →
      flagsOf s' ((findIn s' l n).map (·.1)) = flagsOf s ((findIn s l n).map (·.1)) := by
  intro l
  induction l with
  | nil => intro _ _; rfl
  | cons k l ih =>
    intro pre hpre
    by_cases e : k = c
    · subst e
      -- the copy is found here; without it the lookup from `k` on is `k`'s own lookup
      have h1 : findIn s' (k :: l) n = some (s.heap.length, k) := by
        simp only [findIn, h.dict, if_true, aget_aset_self]
      have h2 : findIn s (k :: l) n = some (p, owner) := by
        have := hh.suffix c' k pre l hpre
        unfold descriptor at hd; rw [this] at hd; exact hd
      rw [h1, h2]
      simp only [Option.map_some, flagsOf_eq, Option.bind_some]
      rw [h.new, hq]; rfl
    · have hdk : aget (clsDict s' k) n = aget (clsDict s k) n := by rw [h.dict, if_neg e]
      simp only [findIn, hdk]
      cases ha : aget (clsDict s k) n with
      | some p' =>
        simp only [Option.map_some, flagsOf_eq, Option.bind_some]
        exact h.old p' (hwf.dp k n p' ha)
      | none =>
        simp only
        exact ih (pre ++ [k]) (by rw [hpre]; simp)

/-- **copy-on-write keeps the protection**: after `C.n = v` installed a copy of the inherited
Parameter on `C`, every class and every instance sees the same flags as before -/
theorem cow_gov {s s' : St} {c : CId} {n : Name} {q : Param} {p : PId} {owner : CId}
    (hwf : WF s) (hh : Hier s) (h : CowStep s s' c n q)
    (hd : descriptor s c n = some (p, owner)) (hq : s.heap[p]? = some q) :
    (∀ j m, j < s.insts.length → govFlags s' j m = govFlags s j m) ∧ (∀ c' m, clsFlags s' c' m = clsFlags s c' m) := by
  have hcls : ∀ c' m, flagsOf s' ((descriptor s' c' m).map (·.1)) = flagsOf s ((descriptor s c' m).map (·.1)) := by
    intro c' m
    unfold descriptor
    rw [h.mro]
    by_cases e : n = m
    · subst e; exact cow_findIn_eq hwf hh h hd hq c' _ [] rfl
    · rw [cow_findIn_ne h e]
      cases hf : findIn s (mroOf s c') m with
      | none => rfl
      | some po =>
        simp only [Option.map_some, flagsOf_eq, Option.bind_some]
        exact h.old po.1 (hwf.dp po.2 m po.1 (findIn_some (p := po.1) (k := po.2) hf).2)
  refine ⟨?_, hcls⟩
  intro j m _
  unfold govFlags governing
  rw [h.insts]
  cases hy : s.insts[j]? with
  | none => rfl
  | some y =>
    simp only [pobjOf]
    cases hip : aget y.iparams m with
    | some ip =>
      simp only [flagsOf_eq, Option.bind_some]
      exact h.old ip (hwf.ip j y m ip hy hip)
    | none => exact hcls y.cls m

theorem clsSet_gov {s : St} (hwf : WF s) (hh : Hier s) (c : CId) (n : Name) (v : Obj) :
    (∀ j m, j < s.insts.length → govFlags (step s (.clsSet c n v)).1 j m = govFlags s j m) ∧
    (∀ c' m, clsFlags (step s (.clsSet c n v)).1 c' m = clsFlags s c' m) ∧ Hier (step s (.clsSet c n v)).1 := by
  simp only [step]
  split
  · exact ⟨fun _ _ _ => rfl, fun _ _ => rfl, hh⟩
  · rename_i p owner hd
    split
    · rename_i q k hq hk
      have hplt : p < s.heap.length := (List.getElem?_eq_some_iff.1 hq).1
      split
      · exact ⟨fun _ _ _ => rfl, fun _ _ => rfl, hh⟩
      split
      · exact ⟨fun _ _ _ => rfl, fun _ _ => rfl, hh⟩
      · by_cases e : owner = c
        · simp only [e, if_true]
          -- only the default of p changes
          have hf : ∀ p' : PId, ((s.heap.set p { q with default := v })[p']?).map fl = (s.heap[p']?).map fl := by
            intro p'
            rw [List.getElem?_set]
            by_cases e' : p = p'
            · subst e'; simp only [↓reduceIte, hplt, hq, Option.map_some, fl]
            · simp [e']
          have g := gov_of_flags (s := s) (s' := { s with heap := s.heap.set p { q with default := v } }) rfl rfl hf
          exact ⟨fun j m _ => g.1 j m, g.2, ⟨hh.self, hh.suffix⟩⟩
        · simp only [e, if_false]
          -- the class table with the copy installed
          have hier' : ∀ h' : List Param,
              Hier { s with heap := h', classes := s.classes.set c { k with dict := aset k.dict n s.heap.length } } := by
            intro h'
            have hmro := fun c' => mroOf_set (k' := { k with dict := aset k.dict n s.heap.length }) hk rfl h' c'
            constructor
            · intro c' k' hk'
              have hk'' : (s.classes.set c { k with dict := aset k.dict n s.heap.length })[c']? = some k' := hk'
              rw [List.getElem?_set] at hk''
              by_cases ec : c = c'
              · subst ec
                have hlt : c < s.classes.length := (List.getElem?_eq_some_iff.1 hk).1
                simp only [hlt, if_true, Option.some.injEq] at hk''
                subst hk''
                exact hh.self c k hk
              · simp only [ec, if_false] at hk''
                exact hh.self c' k' hk''
            · intro c' c0 pre post hp
              rw [hmro] at hp ⊢
              exact hh.suffix c' c0 pre post hp
          have cow : ∀ h' : List Param, (∀ p' : PId, p' < s.heap.length → (h'[p']?).map fl = (s.heap[p']?).map fl) →
              (h'[s.heap.length]?).map fl = some (fl q) →
              CowStep s { s with heap := h', classes := s.classes.set c { k with dict := aset k.dict n s.heap.length } } c n q := by
            intro h' ho hn
            refine ⟨rfl, fun c' => mroOf_set (k' := { k with dict := aset k.dict n s.heap.length }) hk rfl h' c', ?_, ho, hn⟩
            intro c'
            rw [clsDict_set hk]
            split
            · rename_i ec; subst ec
              show aset k.dict n s.heap.length = aset (clsDict s c') n s.heap.length
              unfold clsDict; rw [hk]
            · rfl
          have g := cow_gov hwf hh (cow ((s.heap ++ [q]).set s.heap.length { q with default := v })
              (fun p' hp' => by
                rw [List.getElem?_set, if_neg (Nat.ne_of_gt hp'), List.getElem?_append_left hp'])
              (by rw [List.getElem?_set]; simp [fl])) hd hq
          exact ⟨g.1, g.2, hier' _⟩
    · exact ⟨fun _ _ _ => rfl, fun _ _ => rfl, hh⟩

theorem hier_of_classes {s s' : St} (h : s'.classes = s.classes) (hh : Hier s) : Hier s' := by
  constructor
  · intro c k hk; rw [h] at hk; exact hh.self c k hk
  · intro c' c pre post hp
    have e : ∀ x, mroOf s' x = mroOf s x := fun x => by unfold mroOf; rw [h]
    rw [e] at hp ⊢; exact hh.suffix c' c pre post hp

/-- statements other than blocks and class-level assignments never touch a class -/
theorem step_classes (s : St) (op : Op) (h1 : op.isBlock = false)
    (h2 : ∀ c n v, op ≠ .clsSet c n v) : (step s op).1.classes = s.classes := by
  cases op with
  | newInst c kw =>
    simp only [step]
    split
    · rfl
    · split <;> rfl
  | instSet i n v => simp only [step]; exact (instSetCore_frames s i n v).2.2
  | instSetAsync i n v =>
    simp only [step]
    split
    · rfl
    · split
      · rfl
      · split
        · rfl
        · split
          · exact (instSetCore_frames s i n v).2.2
          · rfl
  | instSetSame i n =>
    simp only [step]
    split
    · rfl
    · split
      · rfl
      · exact (instSetCore_frames s i n _).2.2
  | update i kvs =>
    simp only [step]
    split
    · rfl
    · exact (applyKeys_frames i kvs _).2.2.trans (touchKeys_frames i kvs s).2.2
  | clsSet c n v => exact absurd rfl (h2 c n v)
  | flag i n b =>
    simp only [step]
    split
    · rfl
    · rename_i s1 ip hg; exact (getParamCore_frames hg).2.2
  | clsFlag c n b => simp only [step]; split <;> rfl
  | getParam i n =>
    simp only [step]
    split
    · rfl
    · rename_i s1 ip hg; exact (getParamCore_frames hg).2.2
  | setName i v => simp only [step]; exact (rename_frames s i v 0).2.2.2.2
  | genName i =>
    obtain ⟨k, hk⟩ := genName_state s i
    rw [hk]; exact (rename_frames s i _ k).2.2.2.2
  | failingEntry i n => simp [Op.isBlock] at h1
  | raise => rfl
  | block i body => simp [Op.isBlock] at h1

theorem newInst_gov (s : St) (c : CId) (kw : List (Name × Obj)) (j : IId) (m : Name) (hj : j < s.insts.length) :
    govFlags (step s (.newInst c kw)).1 j m = govFlags s j m := by
  simp only [step]
  split
  · rfl
  · split
    · rfl
    · rename_i k hk vals hv
      unfold govFlags governing
      have hins : (s.insts ++ [({ cls := c, values := vals, iparams := [] } : Inst)])[j]? = s.insts[j]? :=
        List.getElem?_append_left hj
      simp only [hins]
      rw [flagsOf_of_heap (s := s) (by rfl)]
      cases s.insts[j]? with
      | none => rfl
      | some y => simp only []; rw [pobjOf_of_classes (s := s) (by rfl)]

end ParamVerif.Store.Const
